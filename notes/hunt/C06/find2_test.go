// FINDING 2: the merged schema is the union of the arguments, input object
// fields and enum values of all services that serve a field, but the planner
// picks a service by the presence of the field alone. A valid query that uses
// an argument (input field, enum value) only service b exposes is sent to
// service a, which drops what it does not know (wrong answer, silently) or
// refuses it.
//
// Copy into: federation/   (package federation)
// Run:       go test ./federation/ -run TestFind2 -v
package federation

import (
	"context"
	"encoding/json"
	"strings"
	"testing"

	"github.com/samsarahq/thunder/graphql"
	"github.com/samsarahq/thunder/graphql/schemabuilder"
)

type find2Color int64

type find2Key struct{ Id int64 }

// find2Narrow is service a: it serves Query.widgets and an older, narrower
// version of the fields of Widget.
func find2Narrow(name string) *schemabuilder.Schema {
	type Widget struct{ Id int64 }
	type Options struct{ A *string }
	s := schemabuilder.NewSchemaWithName(name)
	w := s.Object("Widget", Widget{}, schemabuilder.FetchObjectFromKeys(func(args struct{ Keys []find2Key }) []*Widget {
		var r []*Widget
		for _, k := range args.Keys {
			r = append(r, &Widget{Id: k.Id})
		}
		return r
	}))
	w.Key("id")
	s.Enum(find2Color(0), map[string]find2Color{"red": 0, "green": 1})
	w.FieldFunc("greet", func(w *Widget, args struct{ Name *string }) string {
		return "hello " + *args.Name
	})
	w.FieldFunc("describe", func(w *Widget, args struct{ Options Options }) string {
		return "a=" + *args.Options.A
	})
	w.FieldFunc("paint", func(w *Widget, args struct{ Color find2Color }) int64 { return int64(args.Color) })
	s.Query().FieldFunc("widgets", func() []*Widget { return []*Widget{{Id: 1}} })
	s.Mutation()
	return s
}

// find2Wide is service b (federated, no root field) or the single server
// (not federated, with the root field).
func find2Wide(name string, single bool) *schemabuilder.Schema {
	type Widget struct{ Id int64 }
	type Options struct {
		A *string
		B *string
	}
	s := schemabuilder.NewSchemaWithName(name)
	var opts []schemabuilder.ObjectOption
	if !single {
		opts = append(opts, schemabuilder.FetchObjectFromKeys(func(args struct{ Keys []find2Key }) []*Widget {
			var r []*Widget
			for _, k := range args.Keys {
				r = append(r, &Widget{Id: k.Id})
			}
			return r
		}))
	}
	w := s.Object("Widget", Widget{}, opts...)
	w.Key("id")
	s.Enum(find2Color(0), map[string]find2Color{"red": 0, "green": 1, "blue": 2})
	w.FieldFunc("greet", func(w *Widget, args struct {
		Name  *string
		Shout *bool
	}) string {
		r := "hello " + *args.Name
		if args.Shout != nil && *args.Shout {
			r = strings.ToUpper(r) + "!"
		}
		return r
	})
	w.FieldFunc("describe", func(w *Widget, args struct{ Options Options }) string {
		r := "a=" + *args.Options.A
		if args.Options.B != nil {
			r += " b=" + *args.Options.B
		}
		return r
	})
	w.FieldFunc("paint", func(w *Widget, args struct{ Color find2Color }) int64 { return int64(args.Color) })
	if single {
		s.Query().FieldFunc("widgets", func() []*Widget { return []*Widget{{Id: 1}} })
	}
	s.Mutation()
	return s
}

func TestFind2OneSidedArguments(t *testing.T) {
	ctx, cancel := context.WithCancel(context.Background())
	defer cancel()

	execs := map[string]ExecutorClient{}
	for name, schema := range map[string]*schemabuilder.Schema{
		"a": find2Narrow("a"),
		"b": find2Wide("b", false),
	} {
		srv, err := NewServer(schema.MustBuild())
		if err != nil {
			t.Fatal(err)
		}
		execs[name] = &DirectExecutorClient{Client: srv}
	}
	// The schemas merge.
	e, err := NewExecutor(ctx, execs, &SchemaSyncerConfig{SchemaSyncer: NewIntrospectionSchemaSyncer(ctx, execs, nil)})
	if err != nil {
		t.Fatal(err)
	}
	single := find2Wide("single", true).MustBuild()

	for _, query := range []string{
		`{ widgets { greet(name: "x") } }`,                    // passes: both services know name
		`{ widgets { greet(name: "x", shout: true) } }`,       // argument only b exposes
		`{ widgets { describe(options: {a: "1", b: "2"}) } }`, // input object field only b exposes
		`{ widgets { paint(color: blue) } }`,                  // enum value only b exposes
	} {
		q2 := graphql.MustParse(query, map[string]interface{}{})
		if err := graphql.PrepareQuery(ctx, single.Query, q2.SelectionSet); err != nil {
			t.Fatal(err)
		}
		want, err := graphql.NewExecutor(graphql.NewImmediateGoroutineScheduler()).Execute(ctx, single.Query, nil, q2)
		if err != nil {
			t.Fatal(err)
		}
		w, _ := json.Marshal(want)

		got, _, err := e.Execute(ctx, graphql.MustParse(query, map[string]interface{}{}), nil)
		if err != nil {
			t.Errorf("%s\n  gateway error: %s\n  single server: %s", query, strings.SplitN(err.Error(), "\n", 2)[0], w)
			continue
		}
		g, _ := json.Marshal(got)
		if string(g) != string(w) {
			t.Errorf("%s\n  gateway:       %s\n  single server: %s", query, g, w)
		}
	}
}
