// FINDING 8: NewExecutor stores the gateway's own introspection client in the
// executors map it is given - the map the IntrospectionSchemaSyncer iterates
// over on every refresh (every example and test builds both from one map).
// From the second fetch on, the syncer therefore introspects the gateway
// itself and merges the PREVIOUS merged schema with the fresh schemas of the
// services, as if it were one more service. As soon as a service changes in a
// way that does not merge with its own past (a field changes its type, an
// argument becomes required), every background refresh fails, for ever, and
// the gateway keeps planning with the stale schema: fields the services have
// since added are unknown to it, fields they removed are still sent to them.
//
// The test performs by hand what Executor.poll does on each tick.
//
// Copy into: federation/   (package federation)
// Run:       go test ./federation/ -run TestFind8 -v
package federation

import (
	"context"
	"encoding/json"
	"strings"
	"testing"

	"github.com/samsarahq/thunder/graphql"
	"github.com/samsarahq/thunder/graphql/schemabuilder"
)

func find8Service(version int) *schemabuilder.Schema {
	s := schemabuilder.NewSchemaWithName("a")
	if version == 1 {
		s.Query().FieldFunc("size", func() int64 { return 1 })
	} else {
		s.Query().FieldFunc("size", func() string { return "small" }) // type changed
		s.Query().FieldFunc("weight", func() int64 { return 7 })      // new field
	}
	s.Mutation()
	return s
}

// find8Client lets the test redeploy the service behind a fixed client.
type find8Client struct{ inner ExecutorClient }

func (c *find8Client) Execute(ctx context.Context, req *QueryRequest) (*QueryResponse, error) {
	return c.inner.Execute(ctx, req)
}

func TestFind8RefreshMergesOwnPreviousSchema(t *testing.T) {
	ctx, cancel := context.WithCancel(context.Background())
	defer cancel()
	v1, err := NewServer(find8Service(1).MustBuild())
	if err != nil {
		t.Fatal(err)
	}
	v2, err := NewServer(find8Service(2).MustBuild())
	if err != nil {
		t.Fatal(err)
	}
	client := &find8Client{inner: &DirectExecutorClient{Client: v1}}
	execs := map[string]ExecutorClient{"a": client}
	syncer := NewIntrospectionSchemaSyncer(ctx, execs, nil)
	e, err := NewExecutor(ctx, execs, &SchemaSyncerConfig{SchemaSyncer: syncer})
	if err != nil {
		t.Fatal(err)
	}

	// Version 2 of the service is deployed. Its schema alone merges: a fresh
	// gateway over it starts without complaint.
	client.inner = &DirectExecutorClient{Client: v2}
	freshExecs := map[string]ExecutorClient{"a": client}
	if _, err := NewExecutor(ctx, freshExecs, &SchemaSyncerConfig{SchemaSyncer: NewIntrospectionSchemaSyncer(ctx, freshExecs, nil)}); err != nil {
		t.Fatalf("the new schema does not merge: %v", err)
	}

	// The background refresh (what Executor.poll does on each tick).
	for tick := 0; tick < 3; tick++ {
		planner, schema, err := syncer.FetchPlannerAndSchema(ctx)
		if err != nil {
			t.Errorf("refresh %d fails: %s", tick, strings.SplitN(err.Error(), "\n", 2)[0])
			continue
		}
		e.setPlanner(planner, schema)
	}

	got, _, err := e.Execute(ctx, graphql.MustParse(`{ size weight }`, map[string]interface{}{}), nil)
	if err != nil {
		t.Fatalf("{ size weight }\n  gateway error: %s\n  single server: {\"size\":\"small\",\"weight\":7}", strings.SplitN(err.Error(), "\n", 2)[0])
	}
	g, _ := json.Marshal(got)
	if string(g) != `{"size":"small","weight":7}` {
		t.Errorf("got %s", g)
	}
}
