// FINDING 3: the gateway's normalizer sorts the selections of every object by
// alias, the root of a mutation included, so the top-level fields of a
// mutation reach the service - and run - in alphabetical order of their
// aliases instead of the order of the query. One server runs them in the order
// of the query.
//
// Copy into: federation/   (package federation)
// Run:       go test ./federation/ -run TestFind3 -v
package federation

import (
	"context"
	"encoding/json"
	"testing"

	"github.com/samsarahq/thunder/graphql"
	"github.com/samsarahq/thunder/graphql/schemabuilder"
)

func find3Service(name string) *schemabuilder.Schema {
	counter := int64(0)
	s := schemabuilder.NewSchemaWithName(name)
	s.Query().FieldFunc("counter", func() int64 { return counter })
	// next increments the counter and returns its new value.
	s.Mutation().FieldFunc("next", func() int64 { counter++; return counter })
	return s
}

func TestFind3MutationOrder(t *testing.T) {
	ctx, cancel := context.WithCancel(context.Background())
	defer cancel()

	srv, err := NewServer(find3Service("a").MustBuild())
	if err != nil {
		t.Fatal(err)
	}
	execs := map[string]ExecutorClient{"a": &DirectExecutorClient{Client: srv}}
	e, err := NewExecutor(ctx, execs, &SchemaSyncerConfig{SchemaSyncer: NewIntrospectionSchemaSyncer(ctx, execs, nil)})
	if err != nil {
		t.Fatal(err)
	}
	single := find3Service("single").MustBuild()

	const query = `mutation { second: next first: next }` // "second" is written first

	q2 := graphql.MustParse(query, map[string]interface{}{})
	if err := graphql.PrepareQuery(ctx, single.Mutation, q2.SelectionSet); err != nil {
		t.Fatal(err)
	}
	want, err := graphql.NewExecutor(graphql.NewImmediateGoroutineScheduler()).Execute(ctx, single.Mutation, nil, q2)
	if err != nil {
		t.Fatal(err)
	}
	got, _, err := e.Execute(ctx, graphql.MustParse(query, map[string]interface{}{}), nil)
	if err != nil {
		t.Fatal(err)
	}
	g, _ := json.Marshal(got)
	w, _ := json.Marshal(want)
	if string(g) != string(w) {
		t.Errorf("%s\n  gateway:       %s\n  single server: %s", query, g, w)
	}
}
