package graphql_test

// find7: a character outside the basic multilingual plane written with the
// escape sequence of a string literal (a surrogate pair, "\uD83D\uDE00") arrives
// in the resolver as two U+FFFD replacement characters, whereas the same text
// sent through a variable (where JSON decodes the same escape) arrives as the
// character itself. The literal and the variable do not deliver the same Go
// value, and the literal's value is not the value sent.

import (
	"context"
	"encoding/json"
	"fmt"
	"reflect"
	"testing"

	"github.com/samsarahq/thunder/graphql"
	"github.com/samsarahq/thunder/graphql/schemabuilder"
)

type find7Inner struct {
	S string
}

type find7Args struct {
	S *string
	L []string `graphql:",optional"`
	N *find7Inner
}

// find7Show prints the fields of the received argument struct that are set.
func find7Show(a find7Args) string {
	out := ""
	rv := reflect.ValueOf(a)
	for i := 0; i < rv.NumField(); i++ {
		if rv.Field(i).IsZero() {
			continue
		}
		v := rv.Field(i).Interface()
		if rv.Field(i).Kind() == reflect.Ptr {
			v = rv.Field(i).Elem().Interface()
		}
		out += fmt.Sprintf("%s=%#v ", rv.Type().Field(i).Name, v)
	}
	if out == "" {
		return "(all fields nil/zero)"
	}
	return out
}

type find7Harness struct {
	t      *testing.T
	schema *graphql.Schema
	calls  int
	last   find7Args
}

func find7New(t *testing.T) *find7Harness {
	h := &find7Harness{t: t}
	sb := schemabuilder.NewSchema()

	sb.Query().FieldFunc("f", func(a find7Args) bool { h.calls++; h.last = a; return true })
	sb.Mutation()
	h.schema = sb.MustBuild()
	return h
}

// run parses, prepares and executes the query with variables as decoded from
// JSON; it reports whether the resolver ran and the error of the first stage
// that failed.
func (h *find7Harness) run(query, varsJSON string) (bool, error) {
	var vars map[string]interface{}
	if varsJSON != "" {
		if err := json.Unmarshal([]byte(varsJSON), &vars); err != nil {
			h.t.Fatal(err)
		}
	}
	h.calls = 0
	h.last = find7Args{}
	q, err := graphql.Parse(query, vars)
	if err != nil {
		return false, err
	}
	if err := graphql.PrepareQuery(context.Background(), h.schema.Query, q.SelectionSet); err != nil {
		return false, err
	}
	e := graphql.NewExecutor(graphql.NewImmediateGoroutineScheduler())
	if _, err := e.Execute(context.Background(), h.schema.Query, nil, q); err != nil {
		return h.calls > 0, err
	}
	return h.calls > 0, nil
}

// mustReject checks that the query is refused as a client error before any
// resolver runs.
func (h *find7Harness) mustReject(what, query, vars string) {
	ran, err := h.run(query, vars)
	if err == nil {
		h.t.Errorf("%s: query %s vars %s was accepted; resolver ran=%v and received %s (want: a client error and no resolver run)", what, query, vars, ran, find7Show(h.last))
		return
	}
	if ran {
		h.t.Errorf("%s: query %s vars %s: resolver ran although an error was reported: %v", what, query, vars, err)
	}
	if _, ok := err.(graphql.ClientError); !ok {
		h.t.Errorf("%s: query %s vars %s: rejected, but not as a client error: %T %v", what, query, vars, err, err)
	}
}

func TestFind7SurrogatePairEscapeInLiteral(t *testing.T) {
	h := find7New(t)
	const sent = "\U0001F600" // GRINNING FACE
	const escaped = `"\uD83D\uDE00"`

	// The JSON decoder agrees that this escape denotes the character.
	var viaJSON string
	if err := json.Unmarshal([]byte(escaped), &viaJSON); err != nil || viaJSON != sent {
		t.Fatalf("test setup: %q %v", viaJSON, err)
	}

	// Control: escapes inside the basic plane, and the raw character, arrive unchanged.
	for _, c := range []struct{ query, vars, want string }{
		{`{ f(s: "\u00e9\u4e16 \n\t\"\\\/") }`, "", "\u00e9\u4e16 \n\t\"\\/"},
		{`query Q($v: string) { f(s: $v) }`, `{"v": "\u00e9\u4e16 \n\t\"\\\/"}`, "\u00e9\u4e16 \n\t\"\\/"},
		{`{ f(s: "` + sent + `") }`, "", sent},
		{`query Q($v: string) { f(s: $v) }`, `{"v": ` + escaped + `}`, sent},
	} {
		ran, err := h.run(c.query, c.vars)
		if err != nil || !ran || h.last.S == nil || *h.last.S != c.want {
			t.Fatalf("control %s vars %s: ran=%v err=%v got %s, want %q", c.query, c.vars, ran, err, find7Show(h.last), c.want)
		}
	}

	check := func(where, query string, get func() *string) {
		ran, err := h.run(query, "")
		if err != nil {
			// A rejection would be acceptable: nothing is delivered changed.
			if ran {
				t.Errorf("%s: resolver ran although an error was reported: %v", where, err)
			}
			return
		}
		got := get()
		if got == nil {
			t.Errorf("%s: query %s: nothing arrived", where, query)
			return
		}
		if *got != sent {
			t.Errorf("%s: query %s: the string literal %s arrived as %+q, the same text through a variable arrives as %+q (the value sent)", where, query, escaped, *got, sent)
		}
	}
	check("argument literal", `{ f(s: `+escaped+`) }`, func() *string { return h.last.S })
	check("variable default", `query Q($v: string = `+escaped+`) { f(s: $v) }`, func() *string { return h.last.S })
	check("list literal", `{ f(l: [`+escaped+`]) }`, func() *string {
		if len(h.last.L) != 1 {
			return nil
		}
		return &h.last.L[0]
	})
	check("object literal", `{ f(n: {s: `+escaped+`}) }`, func() *string {
		if h.last.N == nil {
			return nil
		}
		return &h.last.N.S
	})
}
