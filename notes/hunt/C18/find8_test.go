package graphql_test

// find8: a uint64 argument can not receive the values from 2^63 up: sent
// through a variable they are accepted and arrive as another number (the
// parser converts through int64, 1e19 arrives as 9223372036854775808 on
// amd64), written as a literal they are refused ("bad int arg ... value out of
// range") although they are in the range of the type. The uint argument,
// whose parser converts directly, receives the same variable correctly.
// The values used are exactly representable as float64 (10^19 = 2^19 * 5^19,
// 2^63 + 2^11), though beyond 2^53.

import (
	"context"
	"encoding/json"
	"fmt"
	"reflect"
	"testing"

	"github.com/samsarahq/thunder/graphql"
	"github.com/samsarahq/thunder/graphql/schemabuilder"
)

type find8Args struct {
	U64 *uint64
	U   *uint
}

// find8Show prints the fields of the received argument struct that are set.
func find8Show(a find8Args) string {
	out := ""
	rv := reflect.ValueOf(a)
	for i := 0; i < rv.NumField(); i++ {
		if rv.Field(i).IsZero() {
			continue
		}
		v := rv.Field(i).Interface()
		if rv.Field(i).Kind() == reflect.Ptr {
			v = rv.Field(i).Elem().Interface()
		}
		out += fmt.Sprintf("%s=%#v ", rv.Type().Field(i).Name, v)
	}
	if out == "" {
		return "(all fields nil/zero)"
	}
	return out
}

type find8Harness struct {
	t      *testing.T
	schema *graphql.Schema
	calls  int
	last   find8Args
}

func find8New(t *testing.T) *find8Harness {
	h := &find8Harness{t: t}
	sb := schemabuilder.NewSchema()

	sb.Query().FieldFunc("f", func(a find8Args) bool { h.calls++; h.last = a; return true })
	sb.Mutation()
	h.schema = sb.MustBuild()
	return h
}

// run parses, prepares and executes the query with variables as decoded from
// JSON; it reports whether the resolver ran and the error of the first stage
// that failed.
func (h *find8Harness) run(query, varsJSON string) (bool, error) {
	var vars map[string]interface{}
	if varsJSON != "" {
		if err := json.Unmarshal([]byte(varsJSON), &vars); err != nil {
			h.t.Fatal(err)
		}
	}
	h.calls = 0
	h.last = find8Args{}
	q, err := graphql.Parse(query, vars)
	if err != nil {
		return false, err
	}
	if err := graphql.PrepareQuery(context.Background(), h.schema.Query, q.SelectionSet); err != nil {
		return false, err
	}
	e := graphql.NewExecutor(graphql.NewImmediateGoroutineScheduler())
	if _, err := e.Execute(context.Background(), h.schema.Query, nil, q); err != nil {
		return h.calls > 0, err
	}
	return h.calls > 0, nil
}

// mustReject checks that the query is refused as a client error before any
// resolver runs.
func (h *find8Harness) mustReject(what, query, vars string) {
	ran, err := h.run(query, vars)
	if err == nil {
		h.t.Errorf("%s: query %s vars %s was accepted; resolver ran=%v and received %s (want: a client error and no resolver run)", what, query, vars, ran, find8Show(h.last))
		return
	}
	if ran {
		h.t.Errorf("%s: query %s vars %s: resolver ran although an error was reported: %v", what, query, vars, err)
	}
	if _, ok := err.(graphql.ClientError); !ok {
		h.t.Errorf("%s: query %s vars %s: rejected, but not as a client error: %T %v", what, query, vars, err, err)
	}
}

func TestFind8Uint64UpperHalf(t *testing.T) {
	h := find8New(t)

	// Control: values below 2^63 arrive unchanged both ways.
	for _, c := range [][2]string{{`{ f(u64: 4611686018427387904) }`, ""}, {`query Q($v: uint64) { f(u64: $v) }`, `{"v": 4611686018427387904}`}} {
		ran, err := h.run(c[0], c[1])
		if err != nil || !ran || h.last.U64 == nil || *h.last.U64 != 1<<62 {
			t.Fatalf("control %s: ran=%v err=%v got %s", c[0], ran, err, find8Show(h.last))
		}
	}

	for _, c := range []struct {
		text string
		want uint64
	}{
		{"10000000000000000000", 10000000000000000000},
		{"9223372036854777856", 1<<63 + 1<<11},
		{"18446744073709549568", 1<<64 - 1<<11},
	} {
		// Through a variable.
		ran, err := h.run(`query Q($v: uint64) { f(u64: $v) }`, `{"v": `+c.text+`}`)
		switch {
		case err != nil:
			t.Errorf("uint64 variable %s: refused although it is in the range of uint64: %v", c.text, err)
		case !ran || h.last.U64 == nil:
			t.Errorf("uint64 variable %s: nothing arrived", c.text)
		case *h.last.U64 != c.want:
			t.Errorf("uint64 variable %s: arrived as %d, want %d (the value sent)", c.text, *h.last.U64, c.want)
		}
		// As a literal.
		ran, err = h.run(`{ f(u64: `+c.text+`) }`, "")
		switch {
		case err != nil:
			t.Errorf("uint64 literal %s: refused although it is in the range of uint64: %v", c.text, err)
		case !ran || h.last.U64 == nil:
			t.Errorf("uint64 literal %s: nothing arrived", c.text)
		case *h.last.U64 != c.want:
			t.Errorf("uint64 literal %s: arrived as %d, want %d (the value sent)", c.text, *h.last.U64, c.want)
		}
	}
}
