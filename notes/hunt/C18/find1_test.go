package graphql_test

// find1: a number with a fractional part is accepted for an integer argument
// (any width, signed or unsigned) and silently truncated towards zero, by
// literal, by variable, by variable default, in list literals and in input
// object literals. The resolver runs with a value that was never sent.

import (
	"context"
	"encoding/json"
	"fmt"
	"reflect"
	"testing"

	"github.com/samsarahq/thunder/graphql"
	"github.com/samsarahq/thunder/graphql/schemabuilder"
)

type find1Inner struct {
	X int64
}

type find1Args struct {
	I   *int
	I8  *int8
	I16 *int16
	I32 *int32
	I64 *int64
	U   *uint
	U8  *uint8
	U16 *uint16
	U32 *uint32
	U64 *uint64
	L   []int32 `graphql:",optional"`
	N   *find1Inner
	Opt int64 `graphql:",optional"`
}

// find1Show prints the fields of the received argument struct that are set.
func find1Show(a find1Args) string {
	out := ""
	rv := reflect.ValueOf(a)
	for i := 0; i < rv.NumField(); i++ {
		if rv.Field(i).IsZero() {
			continue
		}
		v := rv.Field(i).Interface()
		if rv.Field(i).Kind() == reflect.Ptr {
			v = rv.Field(i).Elem().Interface()
		}
		out += fmt.Sprintf("%s=%#v ", rv.Type().Field(i).Name, v)
	}
	if out == "" {
		return "(all fields nil/zero)"
	}
	return out
}

type find1Harness struct {
	t      *testing.T
	schema *graphql.Schema
	calls  int
	last   find1Args
}

func find1New(t *testing.T) *find1Harness {
	h := &find1Harness{t: t}
	sb := schemabuilder.NewSchema()

	sb.Query().FieldFunc("f", func(a find1Args) bool { h.calls++; h.last = a; return true })
	sb.Mutation()
	h.schema = sb.MustBuild()
	return h
}

// run parses, prepares and executes the query with variables as decoded from
// JSON; it reports whether the resolver ran and the error of the first stage
// that failed.
func (h *find1Harness) run(query, varsJSON string) (bool, error) {
	var vars map[string]interface{}
	if varsJSON != "" {
		if err := json.Unmarshal([]byte(varsJSON), &vars); err != nil {
			h.t.Fatal(err)
		}
	}
	h.calls = 0
	h.last = find1Args{}
	q, err := graphql.Parse(query, vars)
	if err != nil {
		return false, err
	}
	if err := graphql.PrepareQuery(context.Background(), h.schema.Query, q.SelectionSet); err != nil {
		return false, err
	}
	e := graphql.NewExecutor(graphql.NewImmediateGoroutineScheduler())
	if _, err := e.Execute(context.Background(), h.schema.Query, nil, q); err != nil {
		return h.calls > 0, err
	}
	return h.calls > 0, nil
}

// mustReject checks that the query is refused as a client error before any
// resolver runs.
func (h *find1Harness) mustReject(what, query, vars string) {
	ran, err := h.run(query, vars)
	if err == nil {
		h.t.Errorf("%s: query %s vars %s was accepted; resolver ran=%v and received %s (want: a client error and no resolver run)", what, query, vars, ran, find1Show(h.last))
		return
	}
	if ran {
		h.t.Errorf("%s: query %s vars %s: resolver ran although an error was reported: %v", what, query, vars, err)
	}
	if _, ok := err.(graphql.ClientError); !ok {
		h.t.Errorf("%s: query %s vars %s: rejected, but not as a client error: %T %v", what, query, vars, err, err)
	}
}

func TestFind1FractionAcceptedForInteger(t *testing.T) {
	h := find1New(t)
	const what = "fractional number for an integer argument"
	for _, f := range []struct{ field, typ string }{
		{"i", "int"}, {"i8", "int8"}, {"i16", "int16"}, {"i32", "int32"}, {"i64", "int64"},
		{"u", "uint"}, {"u8", "uint8"}, {"u16", "uint16"}, {"u32", "uint32"}, {"u64", "uint64"},
		{"opt", "int64"},
	} {
		h.mustReject(what, fmt.Sprintf(`{ f(%s: 1.5) }`, f.field), "")
		h.mustReject(what, fmt.Sprintf(`query Q($v: %s) { f(%s: $v) }`, f.typ, f.field), `{"v": 1.5}`)
		h.mustReject(what, fmt.Sprintf(`query Q($v: %s = 1.5) { f(%s: $v) }`, f.typ, f.field), "")
	}
	h.mustReject(what, `{ f(i: -0.75) }`, "")
	h.mustReject(what, `{ f(l: [1, 2.5]) }`, "")
	h.mustReject(what, `query Q($v: [int32!]) { f(l: $v) }`, `{"v": [1, 2.5]}`)
	h.mustReject(what, `{ f(n: {x: 7.25}) }`, "")
	h.mustReject(what, `query Q($v: find1Inner_InputObject) { f(n: $v) }`, `{"v": {"x": 7.25}}`)
	h.mustReject(what, `query Q($v: int64) { f(n: {x: $v}, l: [$v]) }`, `{"v": 7.25}`)

	// Control: an integral value is delivered unchanged both ways.
	for _, c := range [][2]string{{`{ f(i8: 7) }`, ""}, {`query Q($v: int8) { f(i8: $v) }`, `{"v": 7}`}} {
		ran, err := h.run(c[0], c[1])
		if err != nil || !ran || h.last.I8 == nil || *h.last.I8 != 7 {
			t.Fatalf("control %s: ran=%v err=%v got %s", c[0], ran, err, find1Show(h.last))
		}
	}
}
