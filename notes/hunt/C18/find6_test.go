package graphql_test

// find6: arguments written as strings (string, named string types, []byte,
// types with UnmarshalText) accept a bare name, i.e. an enum literal, where a
// quoted string is required: f(s: FOO) delivers "FOO", f(by: abcd) delivers
// the bytes base64-decoded from "abcd". An enum literal is a value of the
// wrong kind for these arguments and has to be rejected (a variable can not
// even express it).

import (
	"context"
	"encoding/json"
	"fmt"
	"reflect"
	"strings"
	"testing"

	"github.com/samsarahq/thunder/graphql"
	"github.com/samsarahq/thunder/graphql/schemabuilder"
)

type find6Name string

type find6Text struct{ V string }

func (x *find6Text) UnmarshalText(b []byte) error {
	x.V = strings.ToLower(string(b))
	return nil
}

type find6Inner struct {
	S string
}

type find6Args struct {
	S   *string
	NS  *find6Name
	By  *[]byte
	Tx  *find6Text
	L   []string `graphql:",optional"`
	N   *find6Inner
	Opt string `graphql:",optional"`
}

// find6Show prints the fields of the received argument struct that are set.
func find6Show(a find6Args) string {
	out := ""
	rv := reflect.ValueOf(a)
	for i := 0; i < rv.NumField(); i++ {
		if rv.Field(i).IsZero() {
			continue
		}
		v := rv.Field(i).Interface()
		if rv.Field(i).Kind() == reflect.Ptr {
			v = rv.Field(i).Elem().Interface()
		}
		out += fmt.Sprintf("%s=%#v ", rv.Type().Field(i).Name, v)
	}
	if out == "" {
		return "(all fields nil/zero)"
	}
	return out
}

type find6Harness struct {
	t      *testing.T
	schema *graphql.Schema
	calls  int
	last   find6Args
}

func find6New(t *testing.T) *find6Harness {
	h := &find6Harness{t: t}
	sb := schemabuilder.NewSchema()

	sb.Query().FieldFunc("f", func(a find6Args) bool { h.calls++; h.last = a; return true })
	sb.Mutation()
	h.schema = sb.MustBuild()
	return h
}

// run parses, prepares and executes the query with variables as decoded from
// JSON; it reports whether the resolver ran and the error of the first stage
// that failed.
func (h *find6Harness) run(query, varsJSON string) (bool, error) {
	var vars map[string]interface{}
	if varsJSON != "" {
		if err := json.Unmarshal([]byte(varsJSON), &vars); err != nil {
			h.t.Fatal(err)
		}
	}
	h.calls = 0
	h.last = find6Args{}
	q, err := graphql.Parse(query, vars)
	if err != nil {
		return false, err
	}
	if err := graphql.PrepareQuery(context.Background(), h.schema.Query, q.SelectionSet); err != nil {
		return false, err
	}
	e := graphql.NewExecutor(graphql.NewImmediateGoroutineScheduler())
	if _, err := e.Execute(context.Background(), h.schema.Query, nil, q); err != nil {
		return h.calls > 0, err
	}
	return h.calls > 0, nil
}

// mustReject checks that the query is refused as a client error before any
// resolver runs.
func (h *find6Harness) mustReject(what, query, vars string) {
	ran, err := h.run(query, vars)
	if err == nil {
		h.t.Errorf("%s: query %s vars %s was accepted; resolver ran=%v and received %s (want: a client error and no resolver run)", what, query, vars, ran, find6Show(h.last))
		return
	}
	if ran {
		h.t.Errorf("%s: query %s vars %s: resolver ran although an error was reported: %v", what, query, vars, err)
	}
	if _, ok := err.(graphql.ClientError); !ok {
		h.t.Errorf("%s: query %s vars %s: rejected, but not as a client error: %T %v", what, query, vars, err, err)
	}
}

func TestFind6BareNameAcceptedForString(t *testing.T) {
	h := find6New(t)

	// Control: the quoted forms arrive, identically by literal and by variable.
	for _, c := range [][2]string{
		{`{ f(s: "FOO", nS: "BAR", by: "abcd", tx: "ABC") }`, ""},
		{`query Q($a: string, $b: string, $c: bytes, $d: string) { f(s: $a, nS: $b, by: $c, tx: $d) }`, `{"a": "FOO", "b": "BAR", "c": "abcd", "d": "ABC"}`},
	} {
		ran, err := h.run(c[0], c[1])
		if err != nil || !ran || h.last.S == nil || *h.last.S != "FOO" || h.last.NS == nil || *h.last.NS != "BAR" ||
			h.last.By == nil || !reflect.DeepEqual(*h.last.By, []byte{0x69, 0xb7, 0x1d}) || h.last.Tx == nil || h.last.Tx.V != "abc" {
			t.Fatalf("control %s: ran=%v err=%v got %s", c[0], ran, err, find6Show(h.last))
		}
	}
	// Control: other wrong kinds are rejected.
	h.mustReject("int literal for string", `{ f(s: 1) }`, "")
	h.mustReject("bool literal for string", `{ f(s: true) }`, "")

	const what = "bare name (enum literal) for a string-kinded argument"
	h.mustReject(what, `{ f(s: FOO) }`, "")
	h.mustReject(what, `{ f(nS: FOO) }`, "")
	h.mustReject(what, `{ f(opt: FOO) }`, "")
	h.mustReject(what, `{ f(by: abcd) }`, "")
	h.mustReject(what, `{ f(tx: ABC) }`, "")
	h.mustReject(what, `{ f(l: ["a", B]) }`, "")
	h.mustReject(what, `{ f(n: {s: FOO}) }`, "")
	h.mustReject(what, `query Q($v: string = FOO) { f(s: $v) }`, "")
}
