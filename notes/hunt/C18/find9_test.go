package graphql_test

// find9: a float64 (or float32) argument written as an integer literal
// (legal for a GraphQL float) is refused at parse time when the literal does
// not fit int64 ("bad int arg: ... value out of range"), although the same
// value arrives fine through a variable and when written with an exponent:
// the literal and the variable do not behave the same for the same value.
// 10^19 and 2^63 are exactly representable as float64.

import (
	"context"
	"encoding/json"
	"fmt"
	"reflect"
	"testing"

	"github.com/samsarahq/thunder/graphql"
	"github.com/samsarahq/thunder/graphql/schemabuilder"
)

type find9Args struct {
	F64 *float64
	F32 *float32
	L   []float64 `graphql:",optional"`
}

// find9Show prints the fields of the received argument struct that are set.
func find9Show(a find9Args) string {
	out := ""
	rv := reflect.ValueOf(a)
	for i := 0; i < rv.NumField(); i++ {
		if rv.Field(i).IsZero() {
			continue
		}
		v := rv.Field(i).Interface()
		if rv.Field(i).Kind() == reflect.Ptr {
			v = rv.Field(i).Elem().Interface()
		}
		out += fmt.Sprintf("%s=%#v ", rv.Type().Field(i).Name, v)
	}
	if out == "" {
		return "(all fields nil/zero)"
	}
	return out
}

type find9Harness struct {
	t      *testing.T
	schema *graphql.Schema
	calls  int
	last   find9Args
}

func find9New(t *testing.T) *find9Harness {
	h := &find9Harness{t: t}
	sb := schemabuilder.NewSchema()

	sb.Query().FieldFunc("f", func(a find9Args) bool { h.calls++; h.last = a; return true })
	sb.Mutation()
	h.schema = sb.MustBuild()
	return h
}

// run parses, prepares and executes the query with variables as decoded from
// JSON; it reports whether the resolver ran and the error of the first stage
// that failed.
func (h *find9Harness) run(query, varsJSON string) (bool, error) {
	var vars map[string]interface{}
	if varsJSON != "" {
		if err := json.Unmarshal([]byte(varsJSON), &vars); err != nil {
			h.t.Fatal(err)
		}
	}
	h.calls = 0
	h.last = find9Args{}
	q, err := graphql.Parse(query, vars)
	if err != nil {
		return false, err
	}
	if err := graphql.PrepareQuery(context.Background(), h.schema.Query, q.SelectionSet); err != nil {
		return false, err
	}
	e := graphql.NewExecutor(graphql.NewImmediateGoroutineScheduler())
	if _, err := e.Execute(context.Background(), h.schema.Query, nil, q); err != nil {
		return h.calls > 0, err
	}
	return h.calls > 0, nil
}

// mustReject checks that the query is refused as a client error before any
// resolver runs.
func (h *find9Harness) mustReject(what, query, vars string) {
	ran, err := h.run(query, vars)
	if err == nil {
		h.t.Errorf("%s: query %s vars %s was accepted; resolver ran=%v and received %s (want: a client error and no resolver run)", what, query, vars, ran, find9Show(h.last))
		return
	}
	if ran {
		h.t.Errorf("%s: query %s vars %s: resolver ran although an error was reported: %v", what, query, vars, err)
	}
	if _, ok := err.(graphql.ClientError); !ok {
		h.t.Errorf("%s: query %s vars %s: rejected, but not as a client error: %T %v", what, query, vars, err, err)
	}
}

func TestFind9BigIntegerLiteralForFloat(t *testing.T) {
	h := find9New(t)

	// Control: an integer literal is accepted for a float argument.
	ran, err := h.run(`{ f(f64: 9223372036854775807, f32: 16777216) }`, "")
	if err != nil || !ran || h.last.F64 == nil || *h.last.F64 != 9223372036854775807 || h.last.F32 == nil || *h.last.F32 != 16777216 {
		t.Fatalf("control: ran=%v err=%v got %s", ran, err, find9Show(h.last))
	}

	for _, c := range []struct {
		text string
		want float64
	}{
		{"9223372036854775808", 9223372036854775808},
		{"10000000000000000000", 1e19},
		{"-10000000000000000000", -1e19},
	} {
		// The value arrives through a variable and written with an exponent.
		for _, q := range [][2]string{
			{`query Q($v: float64) { f(f64: $v) }`, `{"v": ` + c.text + `}`},
			{`{ f(f64: ` + c.text + `e0) }`, ""},
		} {
			ran, err := h.run(q[0], q[1])
			if err != nil || !ran || h.last.F64 == nil || *h.last.F64 != c.want {
				t.Fatalf("control %s vars %s: ran=%v err=%v got %s", q[0], q[1], ran, err, find9Show(h.last))
			}
		}
		// The same value as a plain integer literal.
		for _, q := range []string{
			`{ f(f64: ` + c.text + `) }`,
			`{ f(l: [` + c.text + `]) }`,
			`query Q($v: float64 = ` + c.text + `) { f(f64: $v) }`,
		} {
			ran, err := h.run(q, "")
			if err != nil {
				t.Errorf("query %s: the float argument %s is refused as a literal (%v) although the same value is accepted through a variable", q, c.text, err)
				continue
			}
			var got *float64
			if h.last.F64 != nil {
				got = h.last.F64
			} else if len(h.last.L) == 1 {
				got = &h.last.L[0]
			}
			if !ran || got == nil || *got != c.want {
				t.Errorf("query %s: got %s, want %v", q, find9Show(h.last), c.want)
			}
		}
	}
}
