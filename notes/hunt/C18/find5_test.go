package graphql_test

// find5: an enum argument accepts a quoted string where an enum name is
// required: the string literal "ONE" (in the query, in a list literal, in an
// input object literal, or as a variable default) is taken for the enum value
// ONE. A string is a value of the wrong kind for an enum argument in a GraphQL
// document and has to be rejected; only a variable carries an enum as a JSON
// string.

import (
	"context"
	"encoding/json"
	"fmt"
	"reflect"
	"testing"

	"github.com/samsarahq/thunder/graphql"
	"github.com/samsarahq/thunder/graphql/schemabuilder"
)

type find5Level int
type find5Color string

type find5Inner struct {
	E find5Level
}

type find5Args struct {
	E  *find5Level
	C  *find5Color
	L  []find5Level `graphql:",optional"`
	N  *find5Inner
	Re find5Color `graphql:",optional"`
}

// find5Show prints the fields of the received argument struct that are set.
func find5Show(a find5Args) string {
	out := ""
	rv := reflect.ValueOf(a)
	for i := 0; i < rv.NumField(); i++ {
		if rv.Field(i).IsZero() {
			continue
		}
		v := rv.Field(i).Interface()
		if rv.Field(i).Kind() == reflect.Ptr {
			v = rv.Field(i).Elem().Interface()
		}
		out += fmt.Sprintf("%s=%#v ", rv.Type().Field(i).Name, v)
	}
	if out == "" {
		return "(all fields nil/zero)"
	}
	return out
}

type find5Harness struct {
	t      *testing.T
	schema *graphql.Schema
	calls  int
	last   find5Args
}

func find5New(t *testing.T) *find5Harness {
	h := &find5Harness{t: t}
	sb := schemabuilder.NewSchema()
	sb.Enum(find5Level(0), map[string]find5Level{"ZERO": 0, "ONE": 1, "UNO": 1, "TWO": 2})
	sb.Enum(find5Color(""), map[string]find5Color{"RED": "red", "ROUGE": "red", "BLUE": "blue"})
	sb.Query().FieldFunc("f", func(a find5Args) bool { h.calls++; h.last = a; return true })
	sb.Mutation()
	h.schema = sb.MustBuild()
	return h
}

// run parses, prepares and executes the query with variables as decoded from
// JSON; it reports whether the resolver ran and the error of the first stage
// that failed.
func (h *find5Harness) run(query, varsJSON string) (bool, error) {
	var vars map[string]interface{}
	if varsJSON != "" {
		if err := json.Unmarshal([]byte(varsJSON), &vars); err != nil {
			h.t.Fatal(err)
		}
	}
	h.calls = 0
	h.last = find5Args{}
	q, err := graphql.Parse(query, vars)
	if err != nil {
		return false, err
	}
	if err := graphql.PrepareQuery(context.Background(), h.schema.Query, q.SelectionSet); err != nil {
		return false, err
	}
	e := graphql.NewExecutor(graphql.NewImmediateGoroutineScheduler())
	if _, err := e.Execute(context.Background(), h.schema.Query, nil, q); err != nil {
		return h.calls > 0, err
	}
	return h.calls > 0, nil
}

// mustReject checks that the query is refused as a client error before any
// resolver runs.
func (h *find5Harness) mustReject(what, query, vars string) {
	ran, err := h.run(query, vars)
	if err == nil {
		h.t.Errorf("%s: query %s vars %s was accepted; resolver ran=%v and received %s (want: a client error and no resolver run)", what, query, vars, ran, find5Show(h.last))
		return
	}
	if ran {
		h.t.Errorf("%s: query %s vars %s: resolver ran although an error was reported: %v", what, query, vars, err)
	}
	if _, ok := err.(graphql.ClientError); !ok {
		h.t.Errorf("%s: query %s vars %s: rejected, but not as a client error: %T %v", what, query, vars, err, err)
	}
}

func TestFind5QuotedStringAcceptedForEnum(t *testing.T) {
	h := find5New(t)

	// Control: the enum name and the variable arrive as the same Go value,
	// whichever of the names of a value is used.
	for _, c := range []struct {
		query, vars string
		level       find5Level
		color       find5Color
	}{
		{`{ f(e: ONE, c: RED) }`, "", 1, "red"},
		{`{ f(e: UNO, c: ROUGE) }`, "", 1, "red"},
		{`query Q($e: find5Level, $c: find5Color) { f(e: $e, c: $c) }`, `{"e": "UNO", "c": "ROUGE"}`, 1, "red"},
		{`query Q($e: find5Level = TWO, $c: find5Color = BLUE) { f(e: $e, c: $c) }`, ``, 2, "blue"},
	} {
		ran, err := h.run(c.query, c.vars)
		if err != nil || !ran || h.last.E == nil || *h.last.E != c.level || h.last.C == nil || *h.last.C != c.color {
			t.Fatalf("control %s: ran=%v err=%v got %s", c.query, ran, err, find5Show(h.last))
		}
	}
	// Control: other wrong kinds are rejected.
	h.mustReject("int literal for enum", `{ f(e: 1) }`, "")
	h.mustReject("unknown enum name", `{ f(e: THREE) }`, "")
	h.mustReject("underlying value instead of the name", `{ f(c: "red") }`, "")

	const what = "quoted string literal for an enum argument"
	h.mustReject(what, `{ f(e: "ONE") }`, "")
	h.mustReject(what, `{ f(c: "ROUGE") }`, "")
	h.mustReject(what, `{ f(re: "BLUE") }`, "")
	h.mustReject(what, `{ f(l: [ZERO, "UNO"]) }`, "")
	h.mustReject(what, `{ f(n: {e: "TWO"}) }`, "")
	h.mustReject(what, `query Q($e: find5Level = "TWO") { f(e: $e) }`, "")
}
