package graphql_test

// find2: an integer outside the range of the argument's width is accepted for
// int8/int16/int32 (and named types over them, and int/int64 for floats beyond
// 2^63) and arrives wrapped around or saturated: the resolver runs with a
// value that was never sent.

import (
	"context"
	"encoding/json"
	"fmt"
	"reflect"
	"testing"

	"github.com/samsarahq/thunder/graphql"
	"github.com/samsarahq/thunder/graphql/schemabuilder"
)

type find2Small int8

type find2Inner struct {
	X int16
}

type find2Args struct {
	I8  *int8
	I16 *int16
	I32 *int32
	I64 *int64
	I   *int
	NI8 *find2Small
	L   []int8 `graphql:",optional"`
	N   *find2Inner
}

// find2Show prints the fields of the received argument struct that are set.
func find2Show(a find2Args) string {
	out := ""
	rv := reflect.ValueOf(a)
	for i := 0; i < rv.NumField(); i++ {
		if rv.Field(i).IsZero() {
			continue
		}
		v := rv.Field(i).Interface()
		if rv.Field(i).Kind() == reflect.Ptr {
			v = rv.Field(i).Elem().Interface()
		}
		out += fmt.Sprintf("%s=%#v ", rv.Type().Field(i).Name, v)
	}
	if out == "" {
		return "(all fields nil/zero)"
	}
	return out
}

type find2Harness struct {
	t      *testing.T
	schema *graphql.Schema
	calls  int
	last   find2Args
}

func find2New(t *testing.T) *find2Harness {
	h := &find2Harness{t: t}
	sb := schemabuilder.NewSchema()

	sb.Query().FieldFunc("f", func(a find2Args) bool { h.calls++; h.last = a; return true })
	sb.Mutation()
	h.schema = sb.MustBuild()
	return h
}

// run parses, prepares and executes the query with variables as decoded from
// JSON; it reports whether the resolver ran and the error of the first stage
// that failed.
func (h *find2Harness) run(query, varsJSON string) (bool, error) {
	var vars map[string]interface{}
	if varsJSON != "" {
		if err := json.Unmarshal([]byte(varsJSON), &vars); err != nil {
			h.t.Fatal(err)
		}
	}
	h.calls = 0
	h.last = find2Args{}
	q, err := graphql.Parse(query, vars)
	if err != nil {
		return false, err
	}
	if err := graphql.PrepareQuery(context.Background(), h.schema.Query, q.SelectionSet); err != nil {
		return false, err
	}
	e := graphql.NewExecutor(graphql.NewImmediateGoroutineScheduler())
	if _, err := e.Execute(context.Background(), h.schema.Query, nil, q); err != nil {
		return h.calls > 0, err
	}
	return h.calls > 0, nil
}

// mustReject checks that the query is refused as a client error before any
// resolver runs.
func (h *find2Harness) mustReject(what, query, vars string) {
	ran, err := h.run(query, vars)
	if err == nil {
		h.t.Errorf("%s: query %s vars %s was accepted; resolver ran=%v and received %s (want: a client error and no resolver run)", what, query, vars, ran, find2Show(h.last))
		return
	}
	if ran {
		h.t.Errorf("%s: query %s vars %s: resolver ran although an error was reported: %v", what, query, vars, err)
	}
	if _, ok := err.(graphql.ClientError); !ok {
		h.t.Errorf("%s: query %s vars %s: rejected, but not as a client error: %T %v", what, query, vars, err, err)
	}
}

func TestFind2SignedOverflowAccepted(t *testing.T) {
	h := find2New(t)
	const what = "out-of-range value for a signed integer argument"
	for _, c := range []struct{ field, typ, value string }{
		{"i8", "int8", "128"},
		{"i8", "int8", "-129"},
		{"i8", "int8", "300"},
		{"nI8", "int8", "200"},
		{"i16", "int16", "32768"},
		{"i16", "int16", "-40000"},
		{"i32", "int32", "2147483648"},
		{"i32", "int32", "-2147483649"},
		{"i32", "int32", "4294967297"},
		{"i64", "int64", "1e30"},
		{"i", "int", "-1e30"},
	} {
		h.mustReject(what, fmt.Sprintf(`{ f(%s: %s) }`, c.field, c.value), "")
		h.mustReject(what, fmt.Sprintf(`query Q($v: %s) { f(%s: $v) }`, c.typ, c.field), fmt.Sprintf(`{"v": %s}`, c.value))
		h.mustReject(what, fmt.Sprintf(`query Q($v: %s = %s) { f(%s: $v) }`, c.typ, c.value, c.field), "")
	}
	h.mustReject(what, `{ f(l: [1, 128]) }`, "")
	h.mustReject(what, `query Q($v: [int8!]) { f(l: $v) }`, `{"v": [1, 128]}`)
	h.mustReject(what, `{ f(n: {x: 65537}) }`, "")
	h.mustReject(what, `query Q($v: find2Inner_InputObject) { f(n: $v) }`, `{"v": {"x": 65537}}`)

	// Control: the extremes of the range are delivered unchanged both ways.
	for _, c := range [][2]string{{`{ f(i8: -128, i16: 32767) }`, ""}, {`query Q($a: int8, $b: int16) { f(i8: $a, i16: $b) }`, `{"a": -128, "b": 32767}`}} {
		ran, err := h.run(c[0], c[1])
		if err != nil || !ran || h.last.I8 == nil || *h.last.I8 != -128 || h.last.I16 == nil || *h.last.I16 != 32767 {
			t.Fatalf("control %s: ran=%v err=%v got %s", c[0], ran, err, find2Show(h.last))
		}
	}
}
