package graphql_test

// find3: a negative number, or one above the maximum of the width, is accepted
// for an unsigned integer argument (uint, uint8, uint16, uint32, uint64 and
// named types over them) and arrives wrapped around (-1 arrives as 255 for
// uint8, as 18446744073709551615 for uint and uint64; 256 arrives as 0).

import (
	"context"
	"encoding/json"
	"fmt"
	"reflect"
	"testing"

	"github.com/samsarahq/thunder/graphql"
	"github.com/samsarahq/thunder/graphql/schemabuilder"
)

type find3Byte uint8

type find3Inner struct {
	X uint16
}

type find3Args struct {
	U   *uint
	U8  *uint8
	U16 *uint16
	U32 *uint32
	U64 *uint64
	NU8 *find3Byte
	L   []uint32 `graphql:",optional"`
	N   *find3Inner
}

// find3Show prints the fields of the received argument struct that are set.
func find3Show(a find3Args) string {
	out := ""
	rv := reflect.ValueOf(a)
	for i := 0; i < rv.NumField(); i++ {
		if rv.Field(i).IsZero() {
			continue
		}
		v := rv.Field(i).Interface()
		if rv.Field(i).Kind() == reflect.Ptr {
			v = rv.Field(i).Elem().Interface()
		}
		out += fmt.Sprintf("%s=%#v ", rv.Type().Field(i).Name, v)
	}
	if out == "" {
		return "(all fields nil/zero)"
	}
	return out
}

type find3Harness struct {
	t      *testing.T
	schema *graphql.Schema
	calls  int
	last   find3Args
}

func find3New(t *testing.T) *find3Harness {
	h := &find3Harness{t: t}
	sb := schemabuilder.NewSchema()

	sb.Query().FieldFunc("f", func(a find3Args) bool { h.calls++; h.last = a; return true })
	sb.Mutation()
	h.schema = sb.MustBuild()
	return h
}

// run parses, prepares and executes the query with variables as decoded from
// JSON; it reports whether the resolver ran and the error of the first stage
// that failed.
func (h *find3Harness) run(query, varsJSON string) (bool, error) {
	var vars map[string]interface{}
	if varsJSON != "" {
		if err := json.Unmarshal([]byte(varsJSON), &vars); err != nil {
			h.t.Fatal(err)
		}
	}
	h.calls = 0
	h.last = find3Args{}
	q, err := graphql.Parse(query, vars)
	if err != nil {
		return false, err
	}
	if err := graphql.PrepareQuery(context.Background(), h.schema.Query, q.SelectionSet); err != nil {
		return false, err
	}
	e := graphql.NewExecutor(graphql.NewImmediateGoroutineScheduler())
	if _, err := e.Execute(context.Background(), h.schema.Query, nil, q); err != nil {
		return h.calls > 0, err
	}
	return h.calls > 0, nil
}

// mustReject checks that the query is refused as a client error before any
// resolver runs.
func (h *find3Harness) mustReject(what, query, vars string) {
	ran, err := h.run(query, vars)
	if err == nil {
		h.t.Errorf("%s: query %s vars %s was accepted; resolver ran=%v and received %s (want: a client error and no resolver run)", what, query, vars, ran, find3Show(h.last))
		return
	}
	if ran {
		h.t.Errorf("%s: query %s vars %s: resolver ran although an error was reported: %v", what, query, vars, err)
	}
	if _, ok := err.(graphql.ClientError); !ok {
		h.t.Errorf("%s: query %s vars %s: rejected, but not as a client error: %T %v", what, query, vars, err, err)
	}
}

func TestFind3UnsignedNegativeOrOverflowAccepted(t *testing.T) {
	h := find3New(t)
	const what = "negative or too large value for an unsigned integer argument"
	for _, c := range []struct{ field, typ, value string }{
		{"u", "uint", "-1"},
		{"u8", "uint8", "-1"},
		{"u16", "uint16", "-1"},
		{"u32", "uint32", "-5"},
		{"u64", "uint64", "-5"},
		{"nU8", "uint8", "-2"},
		{"u8", "uint8", "256"},
		{"nU8", "uint8", "300"},
		{"u16", "uint16", "65536"},
		{"u32", "uint32", "4294967296"},
		{"u64", "uint64", "1e30"},
		{"u", "uint", "1e30"},
	} {
		h.mustReject(what, fmt.Sprintf(`{ f(%s: %s) }`, c.field, c.value), "")
		h.mustReject(what, fmt.Sprintf(`query Q($v: %s) { f(%s: $v) }`, c.typ, c.field), fmt.Sprintf(`{"v": %s}`, c.value))
		h.mustReject(what, fmt.Sprintf(`query Q($v: %s = %s) { f(%s: $v) }`, c.typ, c.value, c.field), "")
	}
	h.mustReject(what, `{ f(l: [1, -1]) }`, "")
	h.mustReject(what, `query Q($v: [uint32!]) { f(l: $v) }`, `{"v": [1, -1]}`)
	h.mustReject(what, `{ f(n: {x: -1}) }`, "")
	h.mustReject(what, `query Q($v: find3Inner_InputObject) { f(n: $v) }`, `{"v": {"x": -1}}`)

	// Control: the extremes of the range are delivered unchanged both ways.
	for _, c := range [][2]string{{`{ f(u8: 255, u32: 4294967295) }`, ""}, {`query Q($a: uint8, $b: uint32) { f(u8: $a, u32: $b) }`, `{"a": 255, "b": 4294967295}`}} {
		ran, err := h.run(c[0], c[1])
		if err != nil || !ran || h.last.U8 == nil || *h.last.U8 != 255 || h.last.U32 == nil || *h.last.U32 != 4294967295 {
			t.Fatalf("control %s: ran=%v err=%v got %s", c[0], ran, err, find3Show(h.last))
		}
	}
}
