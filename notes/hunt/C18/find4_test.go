package graphql_test

// find4: a finite number beyond the float32 range is accepted for a float32
// argument and arrives as +Inf / -Inf (the value sent was finite; a GraphQL
// float can not be infinite at all).

import (
	"context"
	"encoding/json"
	"fmt"
	"math"
	"reflect"
	"testing"

	"github.com/samsarahq/thunder/graphql"
	"github.com/samsarahq/thunder/graphql/schemabuilder"
)

type find4F float32

type find4Args struct {
	F32  *float32
	NF32 *find4F
	L    []float32 `graphql:",optional"`
	F64  *float64
}

// find4Show prints the fields of the received argument struct that are set.
func find4Show(a find4Args) string {
	out := ""
	rv := reflect.ValueOf(a)
	for i := 0; i < rv.NumField(); i++ {
		if rv.Field(i).IsZero() {
			continue
		}
		v := rv.Field(i).Interface()
		if rv.Field(i).Kind() == reflect.Ptr {
			v = rv.Field(i).Elem().Interface()
		}
		out += fmt.Sprintf("%s=%#v ", rv.Type().Field(i).Name, v)
	}
	if out == "" {
		return "(all fields nil/zero)"
	}
	return out
}

type find4Harness struct {
	t      *testing.T
	schema *graphql.Schema
	calls  int
	last   find4Args
}

func find4New(t *testing.T) *find4Harness {
	h := &find4Harness{t: t}
	sb := schemabuilder.NewSchema()

	sb.Query().FieldFunc("f", func(a find4Args) bool { h.calls++; h.last = a; return true })
	sb.Mutation()
	h.schema = sb.MustBuild()
	return h
}

// run parses, prepares and executes the query with variables as decoded from
// JSON; it reports whether the resolver ran and the error of the first stage
// that failed.
func (h *find4Harness) run(query, varsJSON string) (bool, error) {
	var vars map[string]interface{}
	if varsJSON != "" {
		if err := json.Unmarshal([]byte(varsJSON), &vars); err != nil {
			h.t.Fatal(err)
		}
	}
	h.calls = 0
	h.last = find4Args{}
	q, err := graphql.Parse(query, vars)
	if err != nil {
		return false, err
	}
	if err := graphql.PrepareQuery(context.Background(), h.schema.Query, q.SelectionSet); err != nil {
		return false, err
	}
	e := graphql.NewExecutor(graphql.NewImmediateGoroutineScheduler())
	if _, err := e.Execute(context.Background(), h.schema.Query, nil, q); err != nil {
		return h.calls > 0, err
	}
	return h.calls > 0, nil
}

// mustReject checks that the query is refused as a client error before any
// resolver runs.
func (h *find4Harness) mustReject(what, query, vars string) {
	ran, err := h.run(query, vars)
	if err == nil {
		h.t.Errorf("%s: query %s vars %s was accepted; resolver ran=%v and received %s (want: a client error and no resolver run)", what, query, vars, ran, find4Show(h.last))
		return
	}
	if ran {
		h.t.Errorf("%s: query %s vars %s: resolver ran although an error was reported: %v", what, query, vars, err)
	}
	if _, ok := err.(graphql.ClientError); !ok {
		h.t.Errorf("%s: query %s vars %s: rejected, but not as a client error: %T %v", what, query, vars, err, err)
	}
}

func TestFind4Float32OverflowArrivesAsInf(t *testing.T) {
	h := find4New(t)
	const what = "value beyond the float32 range for a float32 argument"
	for _, c := range []struct{ field, value string }{
		{"f32", "1e300"},
		{"f32", "-3.5e38"},
		// The smallest number that rounds to +Inf as a float32: MaxFloat32 plus half an ulp.
		{"f32", "3.40282356779733661637539395458142568448e38"},
		{"nF32", "1e39"},
	} {
		h.mustReject(what, fmt.Sprintf(`{ f(%s: %s) }`, c.field, c.value), "")
		h.mustReject(what, fmt.Sprintf(`query Q($v: float32) { f(%s: $v) }`, c.field), fmt.Sprintf(`{"v": %s}`, c.value))
		h.mustReject(what, fmt.Sprintf(`query Q($v: float32 = %s) { f(%s: $v) }`, c.value, c.field), "")
	}
	h.mustReject(what, `{ f(l: [1.5, 1e39]) }`, "")
	h.mustReject(what, `query Q($v: [float32!]) { f(l: $v) }`, `{"v": [1.5, 1e39]}`)

	// Whatever the verdict, the resolver must never see an infinity.
	if ran, _ := h.run(`{ f(f32: 1e300) }`, ""); ran && h.last.F32 != nil && math.IsInf(float64(*h.last.F32), 0) {
		t.Errorf("the finite literal 1e300 arrived in the resolver as %v", *h.last.F32)
	}

	// Control: the largest float32 and a float64 of the same size arrive unchanged.
	for _, c := range [][2]string{{`{ f(f32: 3.4028234663852886e38, f64: 1e300) }`, ""}, {`query Q($a: float32, $b: float64) { f(f32: $a, f64: $b) }`, `{"a": 3.4028234663852886e38, "b": 1e300}`}} {
		ran, err := h.run(c[0], c[1])
		if err != nil || !ran || h.last.F32 == nil || *h.last.F32 != math.MaxFloat32 || h.last.F64 == nil || *h.last.F64 != 1e300 {
			t.Fatalf("control %s: ran=%v err=%v got %s", c[0], ran, err, find4Show(h.last))
		}
	}
}
