package graphql_test

// find4: a named scalar type that writes itself to JSON with MarshalJSON (or
// encoding/json's own json.Number, a string type that is written as a number)
// is advertised by its Go kind, but the response carries what MarshalJSON
// makes of it.

import (
	"context"
	"encoding/json"
	"fmt"
	"testing"

	"github.com/samsarahq/thunder/graphql"
	"github.com/samsarahq/thunder/graphql/introspection"
	"github.com/samsarahq/thunder/graphql/schemabuilder"
	"github.com/samsarahq/thunder/internal"
)

type find4Level int64

func (l find4Level) MarshalJSON() ([]byte, error) {
	return json.Marshal(fmt.Sprintf("level-%d", int64(l)))
}

type find4Thing struct {
	Level  find4Level
	PLevel *find4Level
	Amount json.Number
}

func find4Exec(t *testing.T, schema *graphql.Schema, src string) map[string]interface{} {
	t.Helper()
	q := graphql.MustParse(src, map[string]interface{}{})
	if err := graphql.PrepareQuery(context.Background(), schema.Query, q.SelectionSet); err != nil {
		t.Fatalf("validation of %s: %v", src, err)
	}
	val, err := graphql.NewExecutor(graphql.NewImmediateGoroutineScheduler()).Execute(context.Background(), schema.Query, nil, q)
	if err != nil {
		t.Fatalf("execution of %s: %v", src, err)
	}
	return internal.AsJSON(val).(map[string]interface{})
}

func TestFind4ScalarWithMarshalJSON(t *testing.T) {
	sb := schemabuilder.NewSchema()
	lvl := find4Level(2)
	sb.Query().FieldFunc("thing", func() find4Thing {
		return find4Thing{Level: 3, PLevel: &lvl, Amount: "42"}
	})
	schema := sb.MustBuild()
	introspection.AddIntrospectionToSchema(schema)

	// Advertised scalar names of the three fields.
	adv := find4Exec(t, schema, `{ __type(name: "find4Thing") { fields { name type { kind name ofType { kind name } } } } }`)
	advertised := map[string]string{}
	for _, f := range adv["__type"].(map[string]interface{})["fields"].([]interface{}) {
		f := f.(map[string]interface{})
		typ := f["type"].(map[string]interface{})
		if typ["kind"] == "NON_NULL" {
			typ = typ["ofType"].(map[string]interface{})
		}
		advertised[f["name"].(string)] = fmt.Sprintf("%v %v", typ["kind"], typ["name"])
	}

	resp := find4Exec(t, schema, `{ thing { level pLevel amount } }`)["thing"].(map[string]interface{})
	t.Logf("advertised %v, response %v", advertised, resp)

	for name, value := range resp {
		var ok bool
		switch advertised[name] {
		case "SCALAR int64":
			_, ok = value.(float64)
		case "SCALAR string":
			_, ok = value.(string)
		default:
			t.Fatalf("field %s advertised as %q", name, advertised[name])
		}
		if !ok {
			t.Errorf("field %s is advertised as %s but the response carries the JSON value %#v (%T)", name, advertised[name], value, value)
		}
	}
}
