package graphql_test

// find3: two different types with the same GraphQL name (here the built-in
// scalar "Time" of time.Time and an object registered as "Time") are built
// without complaint, but introspection keeps one entry per name: the type list
// lies about one of them.

import (
	"context"
	"encoding/json"
	"testing"
	"time"

	"github.com/samsarahq/thunder/graphql"
	"github.com/samsarahq/thunder/graphql/introspection"
	"github.com/samsarahq/thunder/graphql/schemabuilder"
)

type find3Clock struct {
	Hour   int64
	Minute int64
}

type find3Ref struct {
	Kind   string    `json:"kind"`
	Name   string    `json:"name"`
	OfType *find3Ref `json:"ofType"`
}

func (r *find3Ref) named() *find3Ref {
	for r.OfType != nil {
		r = r.OfType
	}
	return r
}

func TestFind3SameNameForTwoTypes(t *testing.T) {
	sb := schemabuilder.NewSchema()
	sb.Object("Time", find3Clock{}) // a time of day, e.g. opening hours
	q := sb.Query()
	q.FieldFunc("opensAt", func() find3Clock { return find3Clock{Hour: 9} })
	q.FieldFunc("now", func() time.Time { return time.Unix(0, 0).UTC() })
	schema, err := sb.Build()
	if err != nil {
		t.Skipf("schema refused (fine): %v", err)
	}
	introspection.AddIntrospectionToSchema(schema)

	raw, err := introspection.RunIntrospectionQuery(schema)
	if err != nil {
		t.Fatal(err)
	}
	var parsed struct {
		Schema struct {
			Types []struct {
				Kind   string `json:"kind"`
				Name   string `json:"name"`
				Fields []struct {
					Name string   `json:"name"`
					Type find3Ref `json:"type"`
				} `json:"fields"`
			} `json:"types"`
		} `json:"__schema"`
	}
	if err := json.Unmarshal(raw, &parsed); err != nil {
		t.Fatal(err)
	}
	kindOf := map[string]string{}
	fieldsOf := map[string]map[string]bool{}
	for _, typ := range parsed.Schema.Types {
		kindOf[typ.Name] = typ.Kind
		fieldsOf[typ.Name] = map[string]bool{}
		for _, f := range typ.Fields {
			fieldsOf[typ.Name][f.Name] = true
		}
	}
	t.Logf("advertised: type Time is a %s with fields %v", kindOf["Time"], fieldsOf["Time"])

	// The query below is accepted and executed ...
	query := graphql.MustParse(`{ opensAt { hour minute } now }`, nil)
	if err := graphql.PrepareQuery(context.Background(), schema.Query, query.SelectionSet); err != nil {
		t.Fatalf("validation: %v", err)
	}
	val, err := graphql.NewExecutor(graphql.NewImmediateGoroutineScheduler()).Execute(context.Background(), schema.Query, nil, query)
	if err != nil {
		t.Fatalf("execute: %v", err)
	}
	resp, _ := json.Marshal(val)
	t.Logf("response: %s", resp)

	// ... but against the advertised schema it is ill-formed in one of its two
	// fields, whichever "Time" made it into the type list.
	for _, typ := range parsed.Schema.Types {
		if typ.Name != "Query" {
			continue
		}
		for _, f := range typ.Fields {
			ref := f.Type.named()
			if ref.Name != "Time" {
				continue
			}
			if kindOf["Time"] != ref.Kind {
				t.Errorf("field Query.%s is of type %s (%s), but the advertised type list says Time is a %s", f.Name, ref.Name, ref.Kind, kindOf["Time"])
			}
		}
	}
	if kindOf["Time"] == "SCALAR" {
		t.Errorf("validation accepted { opensAt { hour minute } } and the response carries an object, although the advertised Time is a SCALAR (sub-selections on a scalar)")
	} else {
		if !fieldsOf["Time"]["hour"] {
			t.Errorf("advertised object Time lacks the field hour that validation accepted")
		}
		t.Errorf("validation accepted { now } without sub-selections and the response carries a JSON string, although the advertised Time is an OBJECT")
	}
}
