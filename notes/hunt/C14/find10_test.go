package graphql_test

// find10: the schema builder accepts, as the key of an object, a field func
// that takes arguments. The executor resolves the key of every such object
// with an empty selection (nil arguments), so every validated query that
// reaches the object fails at execution in the resolver call.

import (
	"context"
	"testing"

	"github.com/samsarahq/thunder/graphql"
	"github.com/samsarahq/thunder/graphql/schemabuilder"
)

type find10Item struct {
	Id int64
}

func TestFind10KeyFieldWithArguments(t *testing.T) {
	sb := schemabuilder.NewSchema()
	item := sb.Object("find10Item", find10Item{})
	item.FieldFunc("tag", func(i *find10Item, args struct{ Prefix *string }) string { return "x" })
	item.Key("tag")
	sb.Query().FieldFunc("item", func() *find10Item { return &find10Item{Id: 1} })
	schema, err := sb.Build()
	if err != nil {
		t.Skipf("schema refused (fine): %v", err)
	}

	q := graphql.MustParse(`{ item { id } }`, nil)
	if err := graphql.PrepareQuery(context.Background(), schema.Query, q.SelectionSet); err != nil {
		t.Fatalf("validation: %v", err)
	}
	_, err = graphql.NewExecutor(graphql.NewImmediateGoroutineScheduler()).Execute(context.Background(), schema.Query, nil, q)
	if err != nil {
		msg := err.Error()
		if len(msg) > 120 {
			msg = msg[:120] + "..."
		}
		t.Errorf("validation accepted { item { id } }; execution failed for a shape reason: %s", msg)
	}
}
