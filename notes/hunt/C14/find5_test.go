package graphql_test

// find5: a union value none of whose members is set is written as null, also
// where the union type is advertised as non-null (a union struct held or
// returned by value).

import (
	"context"
	"encoding/json"
	"testing"

	"github.com/samsarahq/thunder/graphql"
	"github.com/samsarahq/thunder/graphql/introspection"
	"github.com/samsarahq/thunder/graphql/schemabuilder"
	"github.com/samsarahq/thunder/internal"
)

type Find5Card struct{ Last4 string }
type Find5Iban struct{ Number string }

type find5Payment struct {
	schemabuilder.Union
	*Find5Card
	*Find5Iban
}

type find5Order struct {
	Id      int64
	Payment find5Payment // not paid yet: zero value
}

func find5Exec(t *testing.T, schema *graphql.Schema, src string) string {
	t.Helper()
	q := graphql.MustParse(src, map[string]interface{}{})
	if err := graphql.PrepareQuery(context.Background(), schema.Query, q.SelectionSet); err != nil {
		t.Fatalf("validation of %s: %v", src, err)
	}
	val, err := graphql.NewExecutor(graphql.NewImmediateGoroutineScheduler()).Execute(context.Background(), schema.Query, nil, q)
	if err != nil {
		t.Fatalf("execution of %s: %v", src, err)
	}
	b, _ := json.Marshal(internal.AsJSON(val))
	return string(b)
}

func TestFind5EmptyUnionUnderNonNull(t *testing.T) {
	sb := schemabuilder.NewSchema()
	q := sb.Query()
	q.FieldFunc("order", func() find5Order { return find5Order{Id: 1} })
	q.FieldFunc("payment", func() find5Payment { return find5Payment{} })
	schema := sb.MustBuild()
	introspection.AddIntrospectionToSchema(schema)

	adv := find5Exec(t, schema, `{ __type(name: "find5Order") { fields { name type { kind ofType { kind name } } } } }`)
	want := `{"__type":{"fields":[{"name":"id","type":{"kind":"NON_NULL","ofType":{"kind":"SCALAR","name":"int64"}}},{"name":"payment","type":{"kind":"NON_NULL","ofType":{"kind":"UNION","name":"find5Payment"}}}]}}`
	if adv != want {
		t.Fatalf("unexpected advertisement %s", adv)
	}

	resp := find5Exec(t, schema, `{ order { id payment { __typename ... on Find5Card { last4 } } } payment { __typename } }`)
	var parsed struct {
		Order struct {
			Payment interface{} `json:"payment"`
		} `json:"order"`
		Payment interface{} `json:"payment"`
	}
	if err := json.Unmarshal([]byte(resp), &parsed); err != nil {
		t.Fatal(err)
	}
	if parsed.Order.Payment == nil {
		t.Errorf("find5Order.payment is advertised as find5Payment! (NON_NULL) but the response carries null: %s", resp)
	}
	if parsed.Payment == nil {
		t.Errorf("Query.payment is advertised as find5Payment! (NON_NULL) but the response carries null: %s", resp)
	}
}
