package graphql_test

// find6: a batch field func leaves out the entry of some source (the usual way
// of saying "nothing for this one"; the field is advertised nullable for that
// reason). For scalars, objects and lists that gives null / []. For an enum
// the execution fails ("enum is not valid"), for a type that marshals itself
// as text the executor panics.

import (
	"context"
	"encoding/json"
	"fmt"
	"net"
	"testing"

	"github.com/samsarahq/thunder/batch"
	"github.com/samsarahq/thunder/graphql"
	"github.com/samsarahq/thunder/graphql/introspection"
	"github.com/samsarahq/thunder/graphql/schemabuilder"
	"github.com/samsarahq/thunder/internal"
)

type find6Color int64

type find6Host struct {
	Id int64
}

type find6Scheduler struct{ panicked interface{} }

func (s *find6Scheduler) Run(resolver graphql.UnitResolver, units ...*graphql.WorkUnit) {
	defer func() {
		if r := recover(); r != nil {
			s.panicked = r
		}
	}()
	queue := append([]*graphql.WorkUnit{}, units...)
	for len(queue) > 0 {
		unit := queue[0]
		queue = append(queue[1:], resolver(unit)...)
	}
}

func find6Run(schema *graphql.Schema, src string) (response string, err error) {
	q, err := graphql.Parse(src, map[string]interface{}{})
	if err != nil {
		return "", err
	}
	if err := graphql.PrepareQuery(context.Background(), schema.Query, q.SelectionSet); err != nil {
		return "", fmt.Errorf("validation: %v", err)
	}
	sched := &find6Scheduler{}
	val, err := graphql.NewExecutor(sched).Execute(context.Background(), schema.Query, nil, q)
	if sched.panicked != nil {
		return "", fmt.Errorf("executor panicked: %v", sched.panicked)
	}
	if err != nil {
		return "", fmt.Errorf("execution error: %v", err)
	}
	b, _ := json.Marshal(internal.AsJSON(val))
	return string(b), nil
}

func TestFind6BatchFieldWithoutEntry(t *testing.T) {
	sb := schemabuilder.NewSchema()
	sb.Enum(find6Color(0), map[string]find6Color{"RED": 1, "GREEN": 2})
	sb.Query().FieldFunc("hosts", func() []*find6Host { return []*find6Host{{Id: 1}, {Id: 2}} })
	host := sb.Object("find6Host", find6Host{})
	// Only hosts with an even id get a value.
	host.BatchFieldFunc("label", func(in map[batch.Index]*find6Host) (map[batch.Index]string, error) {
		out := map[batch.Index]string{}
		for i, h := range in {
			if h.Id%2 == 0 {
				out[i] = "even"
			}
		}
		return out, nil
	})
	host.BatchFieldFunc("color", func(in map[batch.Index]*find6Host) (map[batch.Index]find6Color, error) {
		out := map[batch.Index]find6Color{}
		for i, h := range in {
			if h.Id%2 == 0 {
				out[i] = 2
			}
		}
		return out, nil
	})
	host.BatchFieldFunc("addr", func(in map[batch.Index]*find6Host) (map[batch.Index]net.IP, error) {
		out := map[batch.Index]net.IP{}
		for i, h := range in {
			if h.Id%2 == 0 {
				out[i] = net.IPv4(10, 0, 0, byte(h.Id))
			}
		}
		return out, nil
	})
	schema := sb.MustBuild()
	introspection.AddIntrospectionToSchema(schema)

	adv, err := find6Run(schema, `{ __type(name: "find6Host") { fields { name type { kind name } } } }`)
	if err != nil {
		t.Fatal(err)
	}
	// All three batch fields are advertised nullable.
	want := `{"__type":{"fields":[{"name":"addr","type":{"kind":"SCALAR","name":"string"}},{"name":"color","type":{"kind":"ENUM","name":"find6Color"}},{"name":"id","type":{"kind":"NON_NULL","name":null}},{"name":"label","type":{"kind":"SCALAR","name":"string"}}]}}`
	if adv != want {
		t.Fatalf("unexpected advertisement %s", adv)
	}

	// The scalar behaves: null for the host without entry.
	if resp, err := find6Run(schema, `{ hosts { id label } }`); err != nil || resp != `{"hosts":[{"id":1,"label":null},{"id":2,"label":"even"}]}` {
		t.Errorf("label: %s %v", resp, err)
	}
	if resp, err := find6Run(schema, `{ hosts { id color } }`); err != nil {
		t.Errorf("validation accepted { hosts { id color } } (color is a nullable enum); execution failed: %v", err)
	} else if resp != `{"hosts":[{"color":null,"id":1},{"color":"GREEN","id":2}]}` {
		t.Errorf("color: %s", resp)
	}
	if resp, err := find6Run(schema, `{ hosts { id addr } }`); err != nil {
		t.Errorf("validation accepted { hosts { id addr } } (addr is a nullable string); execution failed: %v", err)
	} else {
		t.Logf("addr: %s", resp)
	}
}
