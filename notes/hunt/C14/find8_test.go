package graphql_test

// find8: validation is not idempotent. PrepareQuery marks a selection as
// "arguments parsed" before parsing them; when parsing fails the mark stays, so
// validating the same query again accepts it (with nil arguments), and the
// execution then fails in the resolver call for a shape reason.

import (
	"context"
	"testing"

	"github.com/samsarahq/thunder/graphql"
	"github.com/samsarahq/thunder/graphql/schemabuilder"
)

func TestFind8SecondValidationAcceptsBadArguments(t *testing.T) {
	sb := schemabuilder.NewSchema()
	sb.Query().FieldFunc("double", func(args struct{ N int64 }) int64 { return 2 * args.N })
	schema := sb.MustBuild()

	q := graphql.MustParse(`{ double(n: "seven") }`, nil)
	first := graphql.PrepareQuery(context.Background(), schema.Query, q.SelectionSet)
	if first == nil {
		t.Fatalf("validation accepted a string for the int64! argument n")
	}
	second := graphql.PrepareQuery(context.Background(), schema.Query, q.SelectionSet)
	if second != nil {
		return // still rejected: fine
	}
	t.Errorf("first validation: %v; second validation of the same query: accepted", first)
	_, err := graphql.NewExecutor(graphql.NewImmediateGoroutineScheduler()).Execute(context.Background(), schema.Query, nil, q)
	if err != nil {
		msg := err.Error()
		if len(msg) > 120 {
			msg = msg[:120] + "..."
		}
		t.Errorf("the accepted query fails at execution for a shape reason: %s", msg)
	}
}
