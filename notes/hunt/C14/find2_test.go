package graphql_test

// find2: a union whose member struct is registered as an object under a name
// other than its Go type name. Introspection advertises the member under the
// registered name, validation accepts fragments on it, execution panics.

import (
	"context"
	"encoding/json"
	"fmt"
	"testing"

	"github.com/samsarahq/thunder/graphql"
	"github.com/samsarahq/thunder/graphql/introspection"
	"github.com/samsarahq/thunder/graphql/schemabuilder"
	"github.com/samsarahq/thunder/internal"
)

type Find2Truck struct{ Load int64 }
type Find2Bike struct{ Gears int64 }

type find2Ride struct {
	schemabuilder.Union
	*Find2Truck
	*Find2Bike
}

// find2Scheduler runs the work units on the calling goroutine so that a panic
// of the executor can be reported instead of killing the test binary (the
// stock schedulers run units on goroutines without recover).
type find2Scheduler struct{ panicked interface{} }

func (s *find2Scheduler) Run(resolver graphql.UnitResolver, units ...*graphql.WorkUnit) {
	defer func() {
		if r := recover(); r != nil {
			s.panicked = r
		}
	}()
	queue := append([]*graphql.WorkUnit{}, units...)
	for len(queue) > 0 {
		unit := queue[0]
		queue = append(queue[1:], resolver(unit)...)
	}
}

func find2Run(schema *graphql.Schema, src string) (prepareErr error, response string, execErr error) {
	q, err := graphql.Parse(src, map[string]interface{}{})
	if err != nil {
		return err, "", nil
	}
	if err := graphql.PrepareQuery(context.Background(), schema.Query, q.SelectionSet); err != nil {
		return err, "", nil
	}
	sched := &find2Scheduler{}
	val, err := graphql.NewExecutor(sched).Execute(context.Background(), schema.Query, nil, q)
	if sched.panicked != nil {
		return nil, "", fmt.Errorf("executor panicked: %v", sched.panicked)
	}
	if err != nil {
		return nil, "", err
	}
	b, _ := json.Marshal(internal.AsJSON(val))
	return nil, string(b), nil
}

func TestFind2UnionMemberRegisteredUnderAnotherName(t *testing.T) {
	sb := schemabuilder.NewSchema()
	sb.Object("Lorry", Find2Truck{}) // GraphQL name differs from the Go type name
	sb.Query().FieldFunc("ride", func() *find2Ride {
		return &find2Ride{Find2Truck: &Find2Truck{Load: 4}}
	})
	schema := sb.MustBuild()
	introspection.AddIntrospectionToSchema(schema)

	_, adv, err := find2Run(schema, `{ __type(name: "find2Ride") { kind possibleTypes { name } } }`)
	if err != nil {
		t.Fatal(err)
	}
	if want := `{"__type":{"kind":"UNION","possibleTypes":[{"name":"Find2Bike"},{"name":"Lorry"}]}}`; adv != want {
		t.Fatalf("unexpected advertised union: %s", adv)
	}

	for _, src := range []string{
		`{ ride { __typename ... on Lorry { load } ... on Find2Bike { gears } } }`,
		`{ ride { __typename } }`,
	} {
		prepErr, resp, execErr := find2Run(schema, src)
		if prepErr != nil {
			t.Errorf("validation rejected %s: %v", src, prepErr)
			continue
		}
		if execErr != nil {
			t.Errorf("validation accepted %s, execution then failed for a shape reason: %v", src, execErr)
			continue
		}
		t.Logf("%s => %s", src, resp)
	}
}
