package graphql_test

// find9: a Paginated field func over a slice of struct values ([]T rather than
// []*T) advertises the edge's node as NON_NULL of NON_NULL of T, which is not a
// type of the GraphQL type system (NON_NULL may not wrap NON_NULL).

import (
	"context"
	"encoding/json"
	"testing"

	"github.com/samsarahq/thunder/graphql"
	"github.com/samsarahq/thunder/graphql/introspection"
	"github.com/samsarahq/thunder/graphql/schemabuilder"
	"github.com/samsarahq/thunder/internal"
)

type find9Item struct {
	Id int64
}

func TestFind9NonNullOfNonNull(t *testing.T) {
	sb := schemabuilder.NewSchema()
	sb.Object("find9Item", find9Item{}).Key("id")
	sb.Query().FieldFunc("items", func() []find9Item { return []find9Item{{Id: 1}} }, schemabuilder.Paginated)
	schema := sb.MustBuild()
	introspection.AddIntrospectionToSchema(schema)

	q := graphql.MustParse(`{ __type(name: "NonNullfind9ItemEdge") { fields { name type { kind name ofType { kind name ofType { kind name } } } } } }`, nil)
	if err := graphql.PrepareQuery(context.Background(), schema.Query, q.SelectionSet); err != nil {
		t.Fatal(err)
	}
	val, err := graphql.NewExecutor(graphql.NewImmediateGoroutineScheduler()).Execute(context.Background(), schema.Query, nil, q)
	if err != nil {
		t.Fatal(err)
	}
	b, _ := json.Marshal(internal.AsJSON(val))
	var parsed struct {
		Type struct {
			Fields []struct {
				Name string
				Type struct {
					Kind   string
					OfType *struct {
						Kind string
						Name *string
					}
				}
			}
		} `json:"__type"`
	}
	if err := json.Unmarshal(b, &parsed); err != nil {
		t.Fatal(err)
	}
	if len(parsed.Type.Fields) == 0 {
		t.Fatalf("edge type not found: %s", b)
	}
	for _, f := range parsed.Type.Fields {
		if f.Type.Kind == "NON_NULL" && f.Type.OfType != nil && f.Type.OfType.Kind == "NON_NULL" {
			t.Errorf("field NonNullfind9ItemEdge.%s is advertised as NON_NULL of NON_NULL: %s", f.Name, b)
		}
	}
}
