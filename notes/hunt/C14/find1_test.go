package graphql_test

// find1: a fragment whose type condition is the union type itself (valid
// GraphQL, and applicable to every value of the union) is neither validated
// nor executed.

import (
	"context"
	"encoding/json"
	"testing"

	"github.com/samsarahq/thunder/graphql"
	"github.com/samsarahq/thunder/graphql/introspection"
	"github.com/samsarahq/thunder/graphql/schemabuilder"
	"github.com/samsarahq/thunder/internal"
)

type Find1Car struct{ Wheels int64 }
type Find1Boat struct{ Sails int64 }

type find1Vehicle struct {
	schemabuilder.Union
	*Find1Car
	*Find1Boat
}

func find1Run(t *testing.T, schema *graphql.Schema, src string) (prepareErr error, response string) {
	t.Helper()
	q, err := graphql.Parse(src, map[string]interface{}{})
	if err != nil {
		t.Fatalf("parse %s: %v", src, err)
	}
	if err := graphql.PrepareQuery(context.Background(), schema.Query, q.SelectionSet); err != nil {
		return err, ""
	}
	val, err := graphql.NewExecutor(graphql.NewImmediateGoroutineScheduler()).Execute(context.Background(), schema.Query, nil, q)
	if err != nil {
		t.Fatalf("execute %s: %v", src, err)
	}
	b, err := json.Marshal(internal.AsJSON(val))
	if err != nil {
		t.Fatal(err)
	}
	return nil, string(b)
}

func TestFind1FragmentOnUnionTypeItself(t *testing.T) {
	sb := schemabuilder.NewSchema()
	sb.Query().FieldFunc("veh", func() *find1Vehicle {
		return &find1Vehicle{Find1Car: &Find1Car{Wheels: 4}}
	})
	schema := sb.MustBuild()
	introspection.AddIntrospectionToSchema(schema)

	// What is advertised: veh is of UNION type find1Vehicle = Find1Boat | Find1Car.
	_, adv := find1Run(t, schema, `{ __type(name: "find1Vehicle") { kind possibleTypes { name } } }`)
	const wantAdv = `{"__type":{"kind":"UNION","possibleTypes":[{"name":"Find1Boat"},{"name":"Find1Car"}]}}`
	if adv != wantAdv {
		t.Fatalf("unexpected advertised union: %s", adv)
	}

	// (a) An unknown field inside a part applicable to the advertised type.
	for _, src := range []string{
		`{ veh { ... on find1Vehicle { ... on Find1Car { bogus } } } }`,
		`{ veh { ...F } } fragment F on find1Vehicle { ... on Find1Car { bogus } }`,
		`{ veh { ... on find1Vehicle { bogus } } }`,
		`{ veh { ... on find1Vehicle { ... on Find1Car { wheels { deeper } } } } }`,
	} {
		if err, resp := find1Run(t, schema, src); err == nil {
			t.Errorf("validation accepted %s (unknown field / selections on a scalar in a fragment on the union type itself); response %s", src, resp)
		}
	}

	// (b) A well-formed query: the response must contain what was selected.
	for _, src := range []string{
		`{ veh { ... on find1Vehicle { __typename ... on Find1Car { wheels } } } }`,
		`{ veh { ...F } } fragment F on find1Vehicle { __typename ... on Find1Car { wheels } }`,
	} {
		err, resp := find1Run(t, schema, src)
		if err != nil {
			t.Errorf("validation rejected the well-formed %s: %v", src, err)
			continue
		}
		const want = `{"veh":{"__typename":"Find1Car","wheels":4}}`
		if resp != want {
			t.Errorf("%s\n  selected __typename and wheels on a Find1Car value\n  want %s\n  got  %s", src, want, resp)
		}
	}
}
