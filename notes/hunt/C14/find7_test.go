package graphql_test

// find7: the arguments of @skip / @include are not looked at by validation
// (Parse + PrepareQuery); a missing or non-boolean "if" only fails when the
// query is executed, with a type error.

import (
	"context"
	"testing"

	"github.com/samsarahq/thunder/graphql"
	"github.com/samsarahq/thunder/graphql/schemabuilder"
)

type find7User struct {
	Name string
}

func TestFind7DirectiveArgumentsNotValidated(t *testing.T) {
	sb := schemabuilder.NewSchema()
	sb.Query().FieldFunc("user", func() *find7User { return &find7User{Name: "a"} })
	schema := sb.MustBuild()

	for _, tc := range []struct {
		src  string
		vars map[string]interface{}
	}{
		{`{ user { name @skip(if: "yes") } }`, nil},
		{`{ user { name @include(if: 1) } }`, nil},
		{`{ user @include { name } }`, nil},
		{`{ user { ... on find7User @skip(if: "no") { name } } }`, nil},
		{`query Q($hide: Boolean) { user { name @skip(if: $hide) } }`, map[string]interface{}{"hide": "true"}},
	} {
		q, err := graphql.Parse(tc.src, tc.vars)
		if err != nil {
			continue // rejected: fine
		}
		if err := graphql.PrepareQuery(context.Background(), schema.Query, q.SelectionSet); err != nil {
			continue // rejected: fine
		}
		_, err = graphql.NewExecutor(graphql.NewImmediateGoroutineScheduler()).Execute(context.Background(), schema.Query, nil, q)
		if err != nil {
			t.Errorf("validation accepted %s (vars %v); execution then failed for a type reason: %v", tc.src, tc.vars, err)
		}
	}
}
