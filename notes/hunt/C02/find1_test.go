// FINDING 1: an object whose key field is of type []byte ("bytes" scalar, accepted
// by schemabuilder as a key) crashes the server process on the first re-run of any
// subscription that selects such an object: diff.Diff panics, outside any recover,
// on the rerunner's goroutine.
//
// Copy into:  graphql/   (package graphql_test)
// Run:        go test ./graphql/ -run 'TestFind1' -count=1 -v
//
// TestFind1BytesKeyDiffPanics      executes the query twice and calls diff.Diff the way
//                                  graphql/server.go:244 does, in the test's goroutine,
//                                  so the panic can be shown as a test failure.
// TestFind1BytesKeyServerCrashes   runs the real websocket flow (CreateConnection +
//                                  ServeJSONSocket over a fake JSONSocket) in a child
//                                  process and fails if the child dies of the panic.
package graphql_test

import (
	"context"
	"encoding/json"
	"errors"
	"fmt"
	"os"
	"os/exec"
	"strings"
	"sync"
	"testing"
	"time"

	"github.com/samsarahq/thunder/diff"
	"github.com/samsarahq/thunder/graphql"
	"github.com/samsarahq/thunder/graphql/schemabuilder"
	"github.com/samsarahq/thunder/reactive"
)

type f1Item struct {
	Id   []byte `graphql:",key"`
	Name string
}

type f1DB struct {
	mu    sync.Mutex
	items []f1Item
	res   *reactive.Resource
}

func (db *f1DB) set(items []f1Item) {
	db.mu.Lock()
	old := db.res
	db.items = items
	db.res = reactive.NewResource()
	db.mu.Unlock()
	old.Invalidate()
}

func f1Schema(db *f1DB) *graphql.Schema {
	schema := schemabuilder.NewSchema()
	schema.Object("item", f1Item{})
	schema.Mutation()
	q := schema.Query()
	q.FieldFunc("items", func(ctx context.Context) []f1Item {
		db.mu.Lock()
		defer db.mu.Unlock()
		reactive.AddDependency(ctx, db.res, nil)
		return append([]f1Item(nil), db.items...)
	})
	q.FieldFunc("item", func(ctx context.Context) f1Item {
		db.mu.Lock()
		defer db.mu.Unlock()
		reactive.AddDependency(ctx, db.res, nil)
		return db.items[0]
	})
	return schema.MustBuild() // the []byte key is accepted
}

func f1Execute(t *testing.T, schema *graphql.Schema, query string) interface{} {
	q, err := graphql.Parse(query, map[string]interface{}{})
	if err != nil {
		t.Fatal(err)
	}
	if err := graphql.PrepareQuery(context.Background(), schema.Query, q.SelectionSet); err != nil {
		t.Fatal(err)
	}
	res, err := graphql.NewExecutor(graphql.NewImmediateGoroutineScheduler()).Execute(context.Background(), schema.Query, nil, q)
	if err != nil {
		t.Fatal(err)
	}
	return res
}

func TestFind1BytesKeyDiffPanics(t *testing.T) {
	db := &f1DB{res: reactive.NewResource(), items: []f1Item{{Id: []byte{1}, Name: "a"}}}
	schema := f1Schema(db)
	for _, query := range []string{`{ items { name } }`, `{ item { name } }`} {
		previous := f1Execute(t, schema, query)
		db.set([]f1Item{{Id: []byte{1}, Name: "b"}})
		current := f1Execute(t, schema, query)
		func() {
			defer func() {
				if p := recover(); p != nil {
					t.Errorf("%s: diff.Diff(previous, current) of two consecutive results panics (server.go:244 calls it unprotected on the rerunner's goroutine): %v", query, p)
				}
			}()
			d := diff.Diff(previous, current)
			t.Logf("%s: delta %v", query, d)
		}()
	}
}

// ---- the same through the real connection, in a child process -------------

type f1Socket struct {
	in     chan json.RawMessage
	out    chan map[string]interface{}
	closed chan struct{}
	once   sync.Once
}

func (s *f1Socket) ReadJSON(v interface{}) error {
	select {
	case m := <-s.in:
		return json.Unmarshal(m, v)
	case <-s.closed:
		return errors.New("closed")
	}
}
func (s *f1Socket) WriteJSON(v interface{}) error {
	b, err := json.Marshal(v)
	if err != nil {
		return err
	}
	var m map[string]interface{}
	if err := json.Unmarshal(b, &m); err != nil {
		return err
	}
	s.out <- m
	return nil
}
func (s *f1Socket) Close() error { s.once.Do(func() { close(s.closed) }); return nil }

func f1Child() {
	reactive.WriteThenReadDelay = time.Millisecond
	db := &f1DB{res: reactive.NewResource(), items: []f1Item{{Id: []byte{1}, Name: "a"}}}
	schema := f1Schema(db)
	sock := &f1Socket{in: make(chan json.RawMessage, 10), out: make(chan map[string]interface{}, 100), closed: make(chan struct{})}
	conn := graphql.CreateConnection(context.Background(), sock, schema, graphql.WithMinRerunInterval(time.Millisecond))
	go conn.ServeJSONSocket()
	sock.in <- json.RawMessage(`{"id":"1","type":"subscribe","message":{"query":"{ items { name } }","variables":{}}}`)
	fmt.Println("CHILD first:", <-sock.out)
	db.set([]f1Item{{Id: []byte{1}, Name: "b"}})
	select {
	case m := <-sock.out:
		fmt.Println("CHILD second:", m)
	case <-time.After(2 * time.Second):
		fmt.Println("CHILD no second message")
	}
	fmt.Println("CHILD OK")
}

func TestFind1BytesKeyServerCrashes(t *testing.T) {
	if os.Getenv("FIND1_CHILD") == "1" {
		f1Child()
		return
	}
	cmd := exec.Command(os.Args[0], "-test.run", "^TestFind1BytesKeyServerCrashes$", "-test.count=1")
	cmd.Env = append(os.Environ(), "FIND1_CHILD=1")
	out, err := cmd.CombinedOutput()
	if err != nil || !strings.Contains(string(out), "CHILD OK") {
		lines := strings.Split(string(out), "\n")
		if len(lines) > 14 {
			lines = lines[:14]
		}
		t.Fatalf("the server process died while re-running the subscription (%v):\n%s", err, strings.Join(lines, "\n"))
	}
}
