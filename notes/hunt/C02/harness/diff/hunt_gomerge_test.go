package diff_test

import (
	"math/rand"
	"reflect"
	"testing"

	"github.com/samsarahq/thunder/diff"
	"github.com/samsarahq/thunder/merge"
)

func TestHuntGoMergeFuzz(t *testing.T) {
	fails := 0
	for _, viaJSON := range []bool{true, false} {
		for seed := 0; seed < 20000; seed++ {
			r := rand.New(rand.NewSource(int64(seed)))
			var prev interface{}
			var client interface{}
			var cur interface{} = map[string]interface{}{"root": gen(r, 4)}
			for step := 0; step < 5; step++ {
				d := diff.Diff(prev, cur)
				dd := d
				if viaJSON && d != nil {
					dd = roundtrip(d)
				}
				var err error
				func() {
					defer func() {
						if e := recover(); e != nil {
							fails++
							if fails < 10 {
								t.Errorf("json=%v seed %d step %d: panic %v prev=%s cur=%s delta=%s", viaJSON, seed, step, e, js(prev), js(cur), js(d))
							}
						}
					}()
					client, err = merge.Merge(client, dd)
				}()
				if err != nil {
					fails++
					if fails < 10 {
						t.Errorf("json=%v seed %d step %d: err %v prev=%s cur=%s delta=%s", viaJSON, seed, step, err, js(prev), js(cur), js(d))
					}
				}
				want := roundtrip(diff.StripKey(cur))
				if !reflect.DeepEqual(roundtrip(client), want) {
					fails++
					if fails < 10 {
						t.Errorf("json=%v seed %d step %d: client=%s want=%s\nprev=%s\ncur=%s\ndelta=%s", viaJSON, seed, step, js(client), js(want), js(prev), js(cur), js(d))
					}
					client = want
				}
				prev = cur
				cur = map[string]interface{}{"root": mutate(r, cur.(map[string]interface{})["root"], 3)}
			}
		}
	}
	t.Logf("fails=%d", fails)
}
