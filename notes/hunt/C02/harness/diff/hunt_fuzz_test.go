package diff_test

import (
	"encoding/json"
	"fmt"
	"math/rand"
	"os"
	"reflect"
	"testing"
	"time"

	"github.com/samsarahq/thunder/diff"
)

type jsUndefined struct{}

func (jsUndefined) MarshalJSON() ([]byte, error) { return []byte(`"<<undefined>>"`), nil }

func huntMerge(original interface{}, update interface{}) interface{} {
	if update == nil {
		return original
	}
	if arr, ok := update.([]interface{}); ok {
		if len(arr) == 0 {
			return jsUndefined{}
		}
		return arr[0]
	}
	um, ok := update.(map[string]interface{})
	if !ok {
		return update
	}
	if orig, ok := original.([]interface{}); ok {
		merged := []interface{}{}
		order, has := um["$"]
		if !has {
			order = []interface{}{[]interface{}{float64(0), float64(len(orig))}}
		}
		get := func(i int) interface{} {
			if i < 0 || i >= len(orig) {
				return jsUndefined{}
			}
			return orig[i]
		}
		for _, x := range order.([]interface{}) {
			if pair, ok := x.([]interface{}); ok {
				st := int(pair[0].(float64))
				n := int(pair[1].(float64))
				for i := st; i < st+n; i++ {
					merged = append(merged, get(i))
				}
			} else if x.(float64) == -1 {
				merged = append(merged, nil)
			} else {
				merged = append(merged, get(int(x.(float64))))
			}
		}
		for k, v := range um {
			if k == "$" {
				continue
			}
			var idx int
			fmt.Sscanf(k, "%d", &idx)
			for len(merged) <= idx {
				merged = append(merged, jsUndefined{})
			}
			merged[idx] = huntMerge(merged[idx], v)
		}
		return merged
	}
	merged := map[string]interface{}{}
	if om, ok := original.(map[string]interface{}); ok {
		for k, v := range om {
			merged[k] = v
		}
	}
	for k, v := range um {
		if arr, ok := v.([]interface{}); ok && len(arr) == 0 {
			delete(merged, k)
			continue
		}
		cur, ok := merged[k]
		if !ok {
			cur = jsUndefined{}
		}
		merged[k] = huntMerge(cur, v)
	}
	return merged
}

func roundtrip(v interface{}) interface{} {
	b, err := json.Marshal(v)
	if err != nil {
		panic(err)
	}
	var x interface{}
	if err := json.Unmarshal(b, &x); err != nil {
		panic(err)
	}
	return x
}

func js(v interface{}) string {
	b, _ := json.Marshal(v)
	return string(b)
}

type namedInt int
type namedStr string

var t0 = time.Date(2020, 1, 1, 0, 0, 0, 0, time.UTC)

func genScalar(r *rand.Rand) interface{} {
	switch r.Intn(14) {
	case 0:
		return nil
	case 1:
		return r.Intn(2) == 0
	case 2:
		return int64(r.Intn(3))
	case 3:
		return r.Intn(3)
	case 4:
		return float64(r.Intn(3))
	case 5:
		return []string{"", "a", "b", "$", "[]"}[r.Intn(5)]
	case 6:
		return namedInt(r.Intn(3))
	case 7:
		return namedStr([]string{"", "a"}[r.Intn(2)])
	case 8:
		return t0.Add(time.Duration(r.Intn(2)) * time.Hour)
	case 9:
		return []byte{byte(r.Intn(2))}
	case 10:
		return []byte{}
	case 11:
		return uint8(r.Intn(3))
	case 12:
		return float32(r.Intn(3)) / 2
	default:
		return int32(r.Intn(3))
	}
}

func genKey(r *rand.Rand) interface{} {
	switch r.Intn(6) {
	case 0:
		return nil
	case 1:
		return int64(r.Intn(4))
	case 2:
		return []string{"", "a", "b", "0", "1"}[r.Intn(5)]
	case 3:
		return float64(r.Intn(3))
	case 4:
		return namedInt(r.Intn(3))
	default:
		return int64(r.Intn(4))
	}
}

var fieldNames = []string{"a", "b", "c", "__proto__", "constructor", "length", "toString", "hasOwnProperty", "__typename"}

func gen(r *rand.Rand, depth int) interface{} {
	k := r.Intn(10)
	if depth <= 0 {
		k = 0
	}
	switch {
	case k < 3:
		return genScalar(r)
	case k < 7:
		m := map[string]interface{}{}
		if r.Intn(3) > 0 {
			m["__key"] = genKey(r)
		}
		n := r.Intn(4)
		for i := 0; i < n; i++ {
			m[fieldNames[r.Intn(len(fieldNames))]] = gen(r, depth-1)
		}
		return m
	default:
		n := r.Intn(5)
		a := make([]interface{}, n)
		for i := range a {
			a[i] = gen(r, depth-1)
		}
		return a
	}
}

// mutate returns a variation of v (sharing unchanged substructure by pointer sometimes).
func mutate(r *rand.Rand, v interface{}, depth int) interface{} {
	if r.Intn(6) == 0 {
		return gen(r, depth)
	}
	switch v := v.(type) {
	case map[string]interface{}:
		if r.Intn(8) == 0 {
			return v // same pointer
		}
		m := map[string]interface{}{}
		for k, x := range v {
			if k == "__key" {
				m[k] = x
				continue
			}
			switch r.Intn(6) {
			case 0: // drop
			case 1, 2:
				m[k] = mutate(r, x, depth-1)
			default:
				m[k] = x
			}
		}
		if r.Intn(3) == 0 {
			m[fieldNames[r.Intn(len(fieldNames))]] = gen(r, depth-1)
		}
		if r.Intn(10) == 0 {
			m["__key"] = genKey(r)
		}
		if r.Intn(20) == 0 {
			delete(m, "__key")
		}
		return m
	case []interface{}:
		if r.Intn(8) == 0 {
			return v
		}
		a := []interface{}{}
		for _, x := range v {
			switch r.Intn(8) {
			case 0:
			case 1, 2:
				a = append(a, mutate(r, x, depth-1))
			case 3:
				a = append(a, x, x)
			default:
				a = append(a, x)
			}
			if r.Intn(6) == 0 {
				a = append(a, gen(r, depth-1))
			}
		}
		if r.Intn(3) == 0 {
			r.Shuffle(len(a), func(i, j int) { a[i], a[j] = a[j], a[i] })
		}
		return a
	default:
		if r.Intn(2) == 0 {
			return v
		}
		return gen(r, depth)
	}
}

type fuzzCase struct {
	Prev   interface{} `json:"prev"`
	Delta  interface{} `json:"delta"`
	Expect interface{} `json:"expect"`
	Seed   int         `json:"seed"`
	Step   int         `json:"step"`
}

func TestHuntDiffFuzz(t *testing.T) {
	var cases []fuzzCase
	fails := 0
	n := 20000
	for seed := 0; seed < n; seed++ {
		r := rand.New(rand.NewSource(int64(seed)))
		var prev interface{}      // server previous
		var client interface{} = jsUndefined{}
		var cur interface{} = map[string]interface{}{"root": gen(r, 4)}
		for step := 0; step < 5; step++ {
			var d interface{}
			func() {
				defer func() {
					if e := recover(); e != nil {
						fails++
						if fails < 15 {
							t.Errorf("seed %d step %d: panic %v\nprev=%#v\ncur=%#v", seed, step, e, prev, cur)
						}
						d = nil
					}
				}()
				d = diff.Diff(prev, cur)
			}()
			before := client
			if d != nil {
				dj := roundtrip(d)
				client = huntMerge(client, dj)
				if len(cases) < 60000 {
					cases = append(cases, fuzzCase{Prev: before, Delta: dj, Expect: roundtrip(diff.StripKey(cur)), Seed: seed, Step: step})
				}
			}
			want := roundtrip(diff.StripKey(cur))
			if step == 0 && prev == nil && cur == nil {
				// nothing sent; client undefined
			} else if !reflect.DeepEqual(roundtrip(client), want) {
				fails++
				if fails < 15 {
					t.Errorf("seed %d step %d: client=%s want=%s\nprev=%s\ncur=%s\ndelta=%s", seed, step, js(client), js(want), js(prev), js(cur), js(d))
				}
				client = want
			}
			prev = cur
			cur = map[string]interface{}{"root": mutate(r, cur.(map[string]interface{})["root"], 3)}
		}
	}
	t.Logf("cases=%d fails=%d", len(cases), fails)
	dumpCases(cases)
}

func dumpCases(cases []fuzzCase) {
	if p := os.Getenv("HUNT_DUMP"); p != "" {
		f, _ := os.Create(p)
		enc := json.NewEncoder(f)
		for _, c := range cases {
			enc.Encode(c)
		}
		f.Close()
	}
}
