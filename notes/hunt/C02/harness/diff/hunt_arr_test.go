package diff_test

import (
	"math/rand"
	"reflect"
	"testing"

	"github.com/samsarahq/thunder/diff"
)

func TestHuntArrayFuzz(t *testing.T) {
	fails := 0
	var cases []fuzzCase
	for seed := 0; seed < 20000; seed++ {
		r := rand.New(rand.NewSource(int64(seed)))
		mk := func() []interface{} {
			n := r.Intn(40)
			a := make([]interface{}, 0, n)
			for i := 0; i < n; i++ {
				switch r.Intn(6) {
				case 0:
					a = append(a, int64(r.Intn(10)))
				case 1:
					a = append(a, nil)
				default:
					a = append(a, map[string]interface{}{"__key": int64(r.Intn(30)), "v": int64(r.Intn(2))})
				}
			}
			return a
		}
		old := mk()
		var nw []interface{}
		switch r.Intn(4) {
		case 0:
			nw = mk()
		case 1: // rotate
			if len(old) > 0 {
				k := r.Intn(len(old))
				nw = append(append([]interface{}{}, old[k:]...), old[:k]...)
			}
		case 2: // delete a few, insert a few
			for _, x := range old {
				if r.Intn(5) > 0 {
					nw = append(nw, x)
				}
				if r.Intn(7) == 0 {
					nw = append(nw, map[string]interface{}{"__key": int64(r.Intn(30)), "v": int64(r.Intn(2))})
				}
			}
		case 3: // swap blocks
			nw = append([]interface{}{}, old...)
			r.Shuffle(len(nw)/3, func(i, j int) { nw[i], nw[j] = nw[j], nw[i] })
		}
		if nw == nil {
			nw = []interface{}{}
		}
		d := diff.Diff(old, nw)
		client := roundtrip(diff.StripKey(old))
		before := client
		if d != nil {
			dj := roundtrip(d)
			client = huntMerge(client, dj)
			cases = append(cases, fuzzCase{Prev: before, Delta: dj, Expect: roundtrip(diff.StripKey(nw)), Seed: seed})
		}
		if want := roundtrip(diff.StripKey(nw)); !reflect.DeepEqual(roundtrip(client), want) {
			fails++
			if fails < 5 {
				t.Errorf("seed %d\nold=%s\nnew=%s\ndelta=%s\ngot=%s", seed, js(old), js(nw), js(d), js(client))
			}
		}
	}
	dumpCases(cases)
}
