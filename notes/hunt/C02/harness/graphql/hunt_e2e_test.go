package graphql_test

import (
	"context"
	"errors"
	"fmt"
	"math"
	"math/rand"
	"reflect"
	"sync"
	"sync/atomic"
	"testing"
	"time"

	"github.com/samsarahq/thunder/diff"
	"github.com/samsarahq/thunder/graphql"
	"github.com/samsarahq/thunder/graphql/schemabuilder"
	"github.com/samsarahq/thunder/reactive"
)

type e2eUser struct {
	Id    int64 `graphql:",key"`
	Name  string
	Age   *int64
	Score float64
	Tags  []string
	Blob  []byte
	At    time.Time
}

type e2ePost struct {
	Id    string `graphql:",key"`
	Title string
	Likes []int64
}

type e2eNote struct { // no key
	Text string
}

type e2eThing struct {
	schemabuilder.Union
	*e2eUser
	*e2ePost
}

type e2eDB struct {
	mu      sync.Mutex
	users   []e2eUser
	posts   map[int64][]e2ePost
	notes   []*e2eNote
	usersR  *reactive.Resource
	postsR  map[int64]*reactive.Resource
	notesR  *reactive.Resource
	failing int32
}

func (db *e2eDB) touchUsers() {
	old := db.usersR
	db.usersR = reactive.NewResource()
	old.Invalidate()
}
func (db *e2eDB) touchNotes() {
	old := db.notesR
	db.notesR = reactive.NewResource()
	old.Invalidate()
}
func (db *e2eDB) postsRes(id int64) *reactive.Resource {
	if db.postsR[id] == nil {
		db.postsR[id] = reactive.NewResource()
	}
	return db.postsR[id]
}
func (db *e2eDB) touchPosts(id int64) {
	old := db.postsRes(id)
	db.postsR[id] = reactive.NewResource()
	old.Invalidate()
}

func newE2eDB() *e2eDB {
	return &e2eDB{posts: map[int64][]e2ePost{}, postsR: map[int64]*reactive.Resource{}, usersR: reactive.NewResource(), notesR: reactive.NewResource()}
}

func e2eSchema(db *e2eDB) *graphql.Schema {
	schema := schemabuilder.NewSchema()
	q := schema.Query()
	schema.Mutation()
	user := schema.Object("user", e2eUser{})
	schema.Object("post", e2ePost{})
	schema.Object("note", e2eNote{})

	q.FieldFunc("users", func(ctx context.Context) ([]e2eUser, error) {
		db.mu.Lock()
		defer db.mu.Unlock()
		reactive.AddDependency(ctx, db.usersR, nil)
		if atomic.LoadInt32(&db.failing) == 1 {
			return nil, errors.New("boom")
		}
		return append([]e2eUser(nil), db.users...), nil
	})
	q.FieldFunc("firstUser", func(ctx context.Context) *e2eUser {
		db.mu.Lock()
		defer db.mu.Unlock()
		reactive.AddDependency(ctx, db.usersR, nil)
		if len(db.users) == 0 {
			return nil
		}
		u := db.users[0]
		return &u
	})
	q.FieldFunc("notes", func(ctx context.Context) []*e2eNote {
		db.mu.Lock()
		defer db.mu.Unlock()
		reactive.AddDependency(ctx, db.notesR, nil)
		var out []*e2eNote
		for _, n := range db.notes {
			if n == nil {
				out = append(out, nil)
			} else {
				c := *n
				out = append(out, &c)
			}
		}
		return out
	})
	q.FieldFunc("things", func(ctx context.Context) []*e2eThing {
		db.mu.Lock()
		defer db.mu.Unlock()
		reactive.AddDependency(ctx, db.usersR, nil)
		var out []*e2eThing
		for i, u := range db.users {
			u := u
			if i%2 == 0 {
				out = append(out, &e2eThing{e2eUser: &u})
			} else {
				out = append(out, &e2eThing{e2ePost: &e2ePost{Id: fmt.Sprint(u.Id), Title: u.Name}})
			}
		}
		return out
	})
	user.FieldFunc("posts", func(ctx context.Context, u e2eUser) []e2ePost {
		db.mu.Lock()
		defer db.mu.Unlock()
		reactive.AddDependency(ctx, db.postsRes(u.Id), nil)
		return append([]e2ePost(nil), db.posts[u.Id]...)
	}, schemabuilder.Expensive)
	user.FieldFunc("postCount", func(ctx context.Context, u e2eUser) int {
		db.mu.Lock()
		defer db.mu.Unlock()
		reactive.AddDependency(ctx, db.postsRes(u.Id), nil)
		return len(db.posts[u.Id])
	})
	user.FieldFunc("matrix", func(u e2eUser) [][]int64 {
		var out [][]int64
		for i := 0; i < len(u.Tags); i++ {
			out = append(out, []int64{u.Id, int64(i)})
		}
		return out
	})
	return schema.MustBuild()
}

var e2eNames = []string{"", "a", "b", "é", " ", "__key", "$"}

func (db *e2eDB) randomUser(r *rand.Rand) e2eUser {
	u := e2eUser{Id: int64(r.Intn(6)), Name: e2eNames[r.Intn(len(e2eNames))]}
	if r.Intn(2) == 0 {
		a := int64(r.Intn(3))
		u.Age = &a
	}
	u.Score = []float64{0, 1.5, -2, 1e21, math.MaxFloat64}[r.Intn(5)]
	for i := r.Intn(3); i > 0; i-- {
		u.Tags = append(u.Tags, e2eNames[r.Intn(len(e2eNames))])
	}
	if r.Intn(2) == 0 {
		u.Blob = []byte{byte(r.Intn(3))}
	}
	u.At = time.Unix(int64(r.Intn(3)), 0).UTC()
	return u
}

func (db *e2eDB) mutate(r *rand.Rand) {
	db.mu.Lock()
	defer db.mu.Unlock()
	switch r.Intn(9) {
	case 0:
		db.users = append(db.users, db.randomUser(r)) // duplicates of ids allowed
		db.touchUsers()
	case 1:
		if len(db.users) > 0 {
			i := r.Intn(len(db.users))
			db.users = append(db.users[:i:i], db.users[i+1:]...)
			db.touchUsers()
		}
	case 2:
		r.Shuffle(len(db.users), func(i, j int) { db.users[i], db.users[j] = db.users[j], db.users[i] })
		db.touchUsers()
	case 3:
		if len(db.users) > 0 {
			i := r.Intn(len(db.users))
			nu := db.randomUser(r)
			nu.Id = db.users[i].Id
			db.users[i] = nu
			db.touchUsers()
		}
	case 4:
		id := int64(r.Intn(6))
		db.posts[id] = append(db.posts[id], e2ePost{Id: fmt.Sprint(r.Intn(4)), Title: e2eNames[r.Intn(len(e2eNames))], Likes: []int64{int64(r.Intn(2)), int64(r.Intn(2))}})
		db.touchPosts(id)
	case 5:
		id := int64(r.Intn(6))
		if n := len(db.posts[id]); n > 0 {
			i := r.Intn(n)
			db.posts[id] = append(db.posts[id][:i:i], db.posts[id][i+1:]...)
			db.touchPosts(id)
		}
	case 6:
		id := int64(r.Intn(6))
		p := db.posts[id]
		r.Shuffle(len(p), func(i, j int) { p[i], p[j] = p[j], p[i] })
		db.touchPosts(id)
	case 7:
		if r.Intn(3) == 0 {
			db.notes = append(db.notes, nil)
		} else {
			db.notes = append(db.notes, &e2eNote{Text: e2eNames[r.Intn(len(e2eNames))]})
		}
		if len(db.notes) > 4 {
			db.notes = db.notes[2:]
		}
		db.touchNotes()
	case 8:
		r.Shuffle(len(db.notes), func(i, j int) { db.notes[i], db.notes[j] = db.notes[j], db.notes[i] })
		db.touchNotes()
	}
}

var e2eQueries = []string{
	`{ users { id name age score tags blob at } }`,
	`{ users { name posts { title likes } postCount matrix } firstUser { name posts { id } } }`,
	`{ notes { text } }`,
	`{ things { __typename ... on e2eUser { name posts { title } } ... on e2ePost { title id } } }`,
	`{ a: users { name } b: users { id } notes { t: text } firstUser { __typename age } }`,
}

type e2eClientSub struct {
	query    string
	value    interface{}
	gotFirst bool
	active   bool // subscribed from the client's point of view
	deadline int  // index in stream after which no update may come (set when unsubscribe confirmed)
}

func runE2E(t *testing.T, seed int64, spawn bool) {
	r := rand.New(rand.NewSource(seed))
	db := &e2eDB{posts: map[int64][]e2ePost{}, postsR: map[int64]*reactive.Resource{}, usersR: reactive.NewResource(), notesR: reactive.NewResource()}
	schema := e2eSchema(db)
	c := startHuntConn(t, schema, graphql.WithAlwaysSpawnGoroutineFunc(func(context.Context, *graphql.Query) bool { return spawn }))
	defer c.sock.Close()

	subs := map[string]*e2eClientSub{}
	ids := []string{"s1", "s2", "s3"}
	echoN := 0
	pendingEcho := map[string][]string{} // echo id -> ids unsubscribed before it

	handle := func(m map[string]interface{}) {
		id, _ := m["id"].(string)
		switch m["type"] {
		case "update":
			s := subs[id]
			if s == nil || !s.active {
				if s != nil && s.deadline == 1 {
					t.Errorf("seed %d: update for %s after its unsubscribe was processed: %v", seed, id, m)
				}
				return
			}
			if !s.gotFirst {
				arr, ok := m["message"].([]interface{})
				if !ok || len(arr) != 1 {
					t.Errorf("seed %d: first message of %s is not a full update: %s", seed, id, huntJSON(m["message"]))
				}
				s.gotFirst = true
			}
			if _, ok := m["message"].([]interface{}); ok {
				atomic.AddInt64(&e2eStats[0], 1)
			} else {
				atomic.AddInt64(&e2eStats[1], 1)
			}
			s.value = huntMerge(s.value, m["message"])
		case "error":
			if s := subs[id]; s != nil && !s.gotFirst && s.deadline == 0 && m["message"] == "Internal server error" {
				s.active = false // initial failure: the server drops the subscription
				atomic.AddInt64(&e2eStats[2], 1)
			} else {
				t.Errorf("seed %d: unexpected error %v sub=%+v", seed, m, subs[id])
			}
		case "echo":
			for _, sid := range pendingEcho[id] {
				if s := subs[sid]; s != nil && !s.active {
					s.deadline = 1
				}
			}
			delete(pendingEcho, id)
		}
	}
	drain := func(quiet time.Duration) {
		for {
			m := c.sock.next(t, quiet)
			if m == nil {
				return
			}
			handle(m)
		}
	}

	for step := 0; step < 40; step++ {
		switch r.Intn(10) {
		case 0, 1:
			id := ids[r.Intn(len(ids))]
			if s := subs[id]; s == nil || !s.active {
				// must wait until the unsubscribe of the previous incarnation is confirmed
				drainUntilEcho := func() {
					for len(pendingEcho) > 0 {
						m := c.sock.next(t, time.Second)
						if m == nil {
							t.Fatalf("no echo")
						}
						handle(m)
					}
				}
				drainUntilEcho()
				q := e2eQueries[r.Intn(len(e2eQueries))]
				subs[id] = &e2eClientSub{query: q, value: jsUndefined{}, active: true}
				c.subscribe(t, id, q)
			}
		case 2:
			id := ids[r.Intn(len(ids))]
			if s := subs[id]; s != nil && s.active {
				s.active = false
				c.sock.send(t, map[string]interface{}{"id": id, "type": "unsubscribe"})
				echoN++
				eid := fmt.Sprintf("e%d", echoN)
				pendingEcho[eid] = append(pendingEcho[eid], id)
				c.sock.send(t, map[string]interface{}{"id": eid, "type": "echo"})
			}
		case 3:
			if r.Intn(3) == 0 {
				atomic.StoreInt32(&db.failing, 1)
				db.mu.Lock()
				db.touchUsers()
				db.mu.Unlock()
				time.Sleep(time.Duration(r.Intn(10)) * time.Millisecond)
				atomic.StoreInt32(&db.failing, 0)
				db.mu.Lock()
				db.touchUsers()
				db.mu.Unlock()
			}
		default:
			db.mutate(r)
		}
		if r.Intn(3) == 0 {
			time.Sleep(time.Duration(r.Intn(6)) * time.Millisecond)
		}
		if r.Intn(4) == 0 {
			drain(0)
		}
	}
	atomic.StoreInt32(&db.failing, 0)
	// quiescence
	drain(300 * time.Millisecond)

	for id, s := range subs {
		if !s.active {
			continue
		}
		q, err := graphql.Parse(s.query, map[string]interface{}{})
		if err != nil {
			t.Fatal(err)
		}
		if err := graphql.PrepareQuery(context.Background(), schema.Query, q.SelectionSet); err != nil {
			t.Fatal(err)
		}
		e := graphql.NewExecutor(graphql.NewImmediateGoroutineScheduler())
		res, err := e.Execute(context.Background(), schema.Query, nil, q)
		if err != nil {
			t.Fatal(err)
		}
		want := huntJSON(diff.StripKey(res))
		atomic.AddInt64(&e2eStats[3], 1)
		if seed == 1 {
			t.Logf("sample %s: %s", s.query, want)
		}
		got := huntJSON(s.value)
		if !s.gotFirst {
			t.Errorf("seed %d spawn %v: %s (%s) never received its first update", seed, spawn, id, s.query)
			continue
		}
		if !reflect.DeepEqual(want, got) {
			t.Errorf("seed %d spawn %v: %s (%s) diverged\n got %s\nwant %s", seed, spawn, id, s.query, got, want)
		}
	}
}

var e2eStats [4]int64

func TestHuntE2E(t *testing.T) {
	n := 300
	defer func() { t.Logf("full=%d incremental=%d initialErrors=%d compared=%d", e2eStats[0], e2eStats[1], e2eStats[2], e2eStats[3]) }()
	var wg sync.WaitGroup
	sem := make(chan struct{}, 8)
	for seed := 0; seed < n; seed++ {
		seed := seed
		wg.Add(1)
		sem <- struct{}{}
		go func() {
			defer wg.Done()
			defer func() { <-sem }()
			runE2E(t, int64(seed), seed%2 == 0)
		}()
	}
	wg.Wait()
}
