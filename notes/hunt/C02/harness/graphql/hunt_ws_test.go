package graphql_test

import (
	"net/http/httptest"
	"strings"
	"testing"
	"time"

	"github.com/gorilla/websocket"
	"github.com/samsarahq/thunder/graphql"
)

func TestHuntRealWebsocket(t *testing.T) {
	db := newE2eDB()
	db.notes = []*e2eNote{{Text: "a"}, {Text: "b"}, {Text: "c"}, nil}
	schema := e2eSchema(db)
	srv := httptest.NewServer(graphql.Handler(schema))
	defer srv.Close()
	ws, _, err := websocket.DefaultDialer.Dial("ws"+strings.TrimPrefix(srv.URL, "http"), nil)
	if err != nil {
		t.Fatal(err)
	}
	defer ws.Close()
	ws.WriteJSON(map[string]interface{}{"id": "1", "type": "subscribe", "message": map[string]interface{}{"query": `{ notes { text } }`}})
	var client interface{} = jsUndefined{}
	read := func() {
		var m map[string]interface{}
		ws.SetReadDeadline(time.Now().Add(8 * time.Second))
		if err := ws.ReadJSON(&m); err != nil {
			t.Fatal(err)
		}
		t.Logf("%s", huntJSON(m))
		client = huntMerge(client, m["message"])
	}
	read()
	db.mu.Lock()
	db.notes = []*e2eNote{nil, {Text: "b"}, {Text: "c"}, {Text: "a"}, {Text: "d"}}
	db.touchNotes()
	db.mu.Unlock()
	read()
	if got := huntJSON(client); got != `{"notes":[null,{"text":"b"},{"text":"c"},{"text":"a"},{"text":"d"}]}` {
		t.Fatalf("got %s", got)
	}
}
