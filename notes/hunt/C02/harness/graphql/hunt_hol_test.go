package graphql_test

// Not a finding (see README, "within room" 6): characterises head-of-line blocking
// between connections whose subscriptions depend on one reactive.Resource when
// alwaysSpawnGoroutine is false (the default). Needs hunt_harness_test.go and
// hunt_e2e_test.go next to it in graphql/.

import (
	"context"
	"encoding/json"
	"errors"
	"sync"
	"testing"
	"time"

	"github.com/samsarahq/thunder/graphql"
)

type stallSocket struct {
	in     chan json.RawMessage
	mu     sync.Mutex
	writes int
	stall  chan struct{}
	closed chan struct{}
}

func (s *stallSocket) ReadJSON(v interface{}) error {
	select {
	case m := <-s.in:
		return json.Unmarshal(m, v)
	case <-s.closed:
		return errors.New("closed")
	}
}
func (s *stallSocket) WriteJSON(v interface{}) error {
	s.mu.Lock()
	s.writes++
	n := s.writes
	s.mu.Unlock()
	if n > 1 {
		<-s.stall // the peer has stopped reading
	}
	return nil
}
func (s *stallSocket) Close() error { return nil }

func TestHuntHeadOfLine(t *testing.T) {
	blocked := 0
	for round := 0; round < 10; round++ {
		db := newE2eDB()
		db.notes = []*e2eNote{{Text: "a"}}
		schema := e2eSchema(db)
		a := &stallSocket{in: make(chan json.RawMessage, 10), stall: make(chan struct{}), closed: make(chan struct{})}
		ca := graphql.CreateConnection(context.Background(), a, schema, graphql.WithMinRerunInterval(time.Millisecond))
		go ca.ServeJSONSocket()
		a.in <- json.RawMessage(`{"id":"1","type":"subscribe","message":{"query":"{ notes { text } }","variables":{}}}`)
		b := startHuntConn(t, schema)
		b.subscribe(t, "1", `{ notes { text } }`)
		if m := b.sock.next(t, time.Second); m == nil {
			t.Fatal("no first")
		}
		time.Sleep(20 * time.Millisecond)
		db.mu.Lock()
		db.notes = []*e2eNote{{Text: "b"}}
		db.touchNotes()
		db.mu.Unlock()
		if m := b.sock.next(t, 500*time.Millisecond); m == nil {
			blocked++
		}
		close(a.stall)
		b.sock.Close()
	}
	t.Logf("B blocked behind stalled A in %d/10 rounds", blocked)
}
