package graphql_test

import (
	"context"
	"fmt"
	"math/rand"
	"reflect"
	"sync"
	"testing"
	"time"

	"github.com/samsarahq/thunder/diff"
	"github.com/samsarahq/thunder/graphql"
	"github.com/samsarahq/thunder/graphql/schemabuilder"
	"github.com/samsarahq/thunder/reactive"
)

// Comparable by-value sources with nested Expensive (reactive.Cache'd) fields and duplicates.

type cTeam struct {
	Id   int64 `graphql:",key"`
	Name string
}
type cMember struct {
	Id   int64
	Name string
}

type cDB struct {
	mu      sync.Mutex
	teams   []cTeam
	members map[int64][]cMember
	badge   map[int64]string
	teamsR  *reactive.Resource
	memR    map[int64]*reactive.Resource
	badgeR  map[int64]*reactive.Resource
	fail    bool
}

func (db *cDB) res(m map[int64]*reactive.Resource, id int64) *reactive.Resource {
	if m[id] == nil {
		m[id] = reactive.NewResource()
	}
	return m[id]
}
func (db *cDB) touch(m map[int64]*reactive.Resource, id int64) {
	old := db.res(m, id)
	m[id] = reactive.NewResource()
	old.Invalidate()
}

func cSchema(db *cDB) *graphql.Schema {
	s := schemabuilder.NewSchema()
	q := s.Query()
	s.Mutation()
	team := s.Object("team", cTeam{})
	member := s.Object("member", cMember{})
	q.FieldFunc("teams", func(ctx context.Context) []cTeam {
		db.mu.Lock()
		defer db.mu.Unlock()
		reactive.AddDependency(ctx, db.teamsR, nil)
		return append([]cTeam(nil), db.teams...)
	})
	team.FieldFunc("members", func(ctx context.Context, t cTeam) ([]cMember, error) {
		db.mu.Lock()
		defer db.mu.Unlock()
		reactive.AddDependency(ctx, db.res(db.memR, t.Id), nil)
		if db.fail {
			return nil, fmt.Errorf("fail")
		}
		return append([]cMember(nil), db.members[t.Id]...), nil
	}, schemabuilder.Expensive)
	member.FieldFunc("badge", func(ctx context.Context, m cMember) string {
		db.mu.Lock()
		defer db.mu.Unlock()
		reactive.AddDependency(ctx, db.res(db.badgeR, m.Id), nil)
		return db.badge[m.Id]
	}, schemabuilder.Expensive)
	member.FieldFunc("self", func(ctx context.Context, m cMember) *cMember {
		return &m
	}, schemabuilder.Expensive)
	return s.MustBuild()
}

func TestHuntCacheE2E(t *testing.T) {
	queries := []string{
		`{ teams { name members { name badge } } }`,
		`{ teams { id members { id badge self { badge name } } } x: teams { members { badge } } }`,
		`{ teams { members { name } members { badge } } }`,
	}
	var wg sync.WaitGroup
	sem := make(chan struct{}, 8)
	for seed := 0; seed < 200; seed++ {
		seed := seed
		wg.Add(1)
		sem <- struct{}{}
		go func() {
			defer wg.Done()
			defer func() { <-sem }()
			r := rand.New(rand.NewSource(int64(seed)))
			db := &cDB{members: map[int64][]cMember{}, badge: map[int64]string{}, teamsR: reactive.NewResource(), memR: map[int64]*reactive.Resource{}, badgeR: map[int64]*reactive.Resource{}}
			schema := cSchema(db)
			c := startHuntConn(t, schema, graphql.WithAlwaysSpawnGoroutineFunc(func(context.Context, *graphql.Query) bool { return seed%2 == 0 }))
			defer c.sock.Close()
			query := queries[r.Intn(len(queries))]
			c.subscribe(t, "s", query)
			var value interface{} = jsUndefined{}
			n := 0
			drain := func(quiet time.Duration) {
				for {
					m := c.sock.next(t, quiet)
					if m == nil {
						return
					}
					if m["type"] != "update" {
						t.Errorf("seed %d: %v", seed, m)
						return
					}
					n++
					value = huntMerge(value, m["message"])
				}
			}
			drain(20 * time.Millisecond)
			for step := 0; step < 60; step++ {
				db.mu.Lock()
				switch r.Intn(8) {
				case 0:
					db.teams = append(db.teams, cTeam{Id: int64(r.Intn(3)), Name: fmt.Sprint(r.Intn(2))})
					if len(db.teams) > 4 {
						db.teams = db.teams[1:]
					}
					old := db.teamsR
					db.teamsR = reactive.NewResource()
					old.Invalidate()
				case 1:
					r.Shuffle(len(db.teams), func(i, j int) { db.teams[i], db.teams[j] = db.teams[j], db.teams[i] })
					old := db.teamsR
					db.teamsR = reactive.NewResource()
					old.Invalidate()
				case 2, 3:
					id := int64(r.Intn(3))
					db.members[id] = append(db.members[id], cMember{Id: int64(r.Intn(3)), Name: fmt.Sprint(r.Intn(2))})
					if len(db.members[id]) > 3 {
						db.members[id] = db.members[id][2:]
					}
					db.touch(db.memR, id)
				case 4, 5:
					id := int64(r.Intn(3))
					db.badge[id] = fmt.Sprint(r.Intn(5))
					db.touch(db.badgeR, id)
				case 6:
					db.fail = !db.fail && r.Intn(3) == 0
					for id := int64(0); id < 3; id++ {
						db.touch(db.memR, id)
					}
				case 7:
					id := int64(r.Intn(3))
					m := db.members[id]
					r.Shuffle(len(m), func(i, j int) { m[i], m[j] = m[j], m[i] })
					db.touch(db.memR, id)
				}
				db.mu.Unlock()
				if r.Intn(2) == 0 {
					time.Sleep(time.Duration(r.Intn(8)) * time.Millisecond)
				}
				drain(0)
			}
			db.mu.Lock()
			db.fail = false
			for id := int64(0); id < 3; id++ {
				db.touch(db.memR, id)
			}
			db.mu.Unlock()
			drain(1500 * time.Millisecond)
			q, _ := graphql.Parse(query, map[string]interface{}{})
			if err := graphql.PrepareQuery(context.Background(), schema.Query, q.SelectionSet); err != nil {
				t.Error(err)
				return
			}
			res, err := graphql.NewExecutor(graphql.NewImmediateGoroutineScheduler()).Execute(context.Background(), schema.Query, nil, q)
			if err != nil {
				t.Error(err)
				return
			}
			want := huntJSON(diff.StripKey(res))
			got := huntJSON(value)
			if !reflect.DeepEqual(want, got) {
				t.Errorf("seed %d: diverged (%d updates) %s\n got %s\nwant %s", seed, n, query, got, want)
			}
		}()
	}
	wg.Wait()
}
