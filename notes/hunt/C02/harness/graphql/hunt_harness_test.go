package graphql_test

import (
	"context"
	"encoding/json"
	"errors"
	"fmt"
	"sync"
	"testing"
	"time"

	"github.com/samsarahq/thunder/graphql"
	"github.com/samsarahq/thunder/reactive"
)

// ---- fake socket -----------------------------------------------------------

type huntSocket struct {
	in     chan json.RawMessage
	mu     sync.Mutex
	out    []map[string]interface{}
	outCh  chan map[string]interface{}
	closed chan struct{}
	once   sync.Once
}

func newHuntSocket() *huntSocket {
	return &huntSocket{
		in:     make(chan json.RawMessage, 100),
		outCh:  make(chan map[string]interface{}, 10000),
		closed: make(chan struct{}),
	}
}

func (s *huntSocket) ReadJSON(v interface{}) error {
	select {
	case m := <-s.in:
		return json.Unmarshal(m, v)
	case <-s.closed:
		return errors.New("closed")
	}
}

func (s *huntSocket) WriteJSON(v interface{}) error {
	b, err := json.Marshal(v)
	if err != nil {
		return err
	}
	var m map[string]interface{}
	if err := json.Unmarshal(b, &m); err != nil {
		return err
	}
	s.mu.Lock()
	s.out = append(s.out, m)
	s.mu.Unlock()
	s.outCh <- m
	return nil
}

func (s *huntSocket) Close() error {
	s.once.Do(func() { close(s.closed) })
	return nil
}

func (s *huntSocket) send(t *testing.T, v interface{}) {
	b, err := json.Marshal(v)
	if err != nil {
		t.Fatal(err)
	}
	s.in <- b
}

func (s *huntSocket) next(t *testing.T, d time.Duration) map[string]interface{} {
	select {
	case m := <-s.outCh:
		return m
	case <-time.After(d):
		return nil
	}
}

// ---- JS-merge port (client/src/merge.ts) over decoded JSON ------------------

type jsUndefined struct{}

func huntMerge(original interface{}, update interface{}) interface{} {
	if update == nil {
		return original
	}
	if arr, ok := update.([]interface{}); ok {
		if len(arr) == 0 {
			return jsUndefined{}
		}
		return arr[0]
	}
	um, ok := update.(map[string]interface{})
	if !ok {
		return update
	}
	if orig, ok := original.([]interface{}); ok {
		var merged []interface{}
		merged = []interface{}{}
		order, has := um["$"]
		if !has {
			order = []interface{}{[]interface{}{float64(0), float64(len(orig))}}
		}
		get := func(i int) interface{} {
			if i < 0 || i >= len(orig) {
				return jsUndefined{}
			}
			return orig[i]
		}
		for _, x := range order.([]interface{}) {
			if pair, ok := x.([]interface{}); ok {
				st := int(pair[0].(float64))
				n := int(pair[1].(float64))
				for i := st; i < st+n; i++ {
					merged = append(merged, get(i))
				}
			} else if x.(float64) == -1 {
				merged = append(merged, nil)
			} else {
				merged = append(merged, get(int(x.(float64))))
			}
		}
		for k, v := range um {
			if k == "$" {
				continue
			}
			var idx int
			fmt.Sscanf(k, "%d", &idx)
			for len(merged) <= idx {
				merged = append(merged, jsUndefined{})
			}
			merged[idx] = huntMerge(merged[idx], v)
		}
		return merged
	}
	merged := map[string]interface{}{}
	if om, ok := original.(map[string]interface{}); ok {
		for k, v := range om {
			merged[k] = v
		}
	}
	for k, v := range um {
		if arr, ok := v.([]interface{}); ok && len(arr) == 0 {
			delete(merged, k)
			continue
		}
		cur, ok := merged[k]
		if !ok {
			cur = jsUndefined{}
		}
		merged[k] = huntMerge(cur, v)
	}
	return merged
}

func huntJSON(v interface{}) string {
	b, err := json.Marshal(v)
	if err != nil {
		return "ERR:" + err.Error()
	}
	var x interface{}
	json.Unmarshal(b, &x)
	b, _ = json.Marshal(x)
	return string(b)
}

// ---- connection helper -----------------------------------------------------

type huntConn struct {
	sock *huntSocket
	done chan struct{}
}

func startHuntConn(t *testing.T, schema *graphql.Schema, opts ...graphql.ConnectionOption) *huntConn {
	sock := newHuntSocket()
	opts = append([]graphql.ConnectionOption{graphql.WithMinRerunInterval(2 * time.Millisecond)}, opts...)
	c := graphql.CreateConnection(context.Background(), sock, schema, opts...)
	hc := &huntConn{sock: sock, done: make(chan struct{})}
	go func() {
		c.ServeJSONSocket()
		close(hc.done)
	}()
	return hc
}

func (c *huntConn) subscribe(t *testing.T, id, query string) {
	c.sock.send(t, map[string]interface{}{"id": id, "type": "subscribe", "message": map[string]interface{}{"query": query, "variables": map[string]interface{}{}}})
}

func init() { reactive.WriteThenReadDelay = time.Millisecond }
