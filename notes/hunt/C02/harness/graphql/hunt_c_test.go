package graphql_test

import (
	"context"
	"fmt"
	"sync/atomic"
	"testing"
	"time"

	"github.com/samsarahq/thunder/graphql"
)

func TestHuntUnsubStress(t *testing.T) {
	for _, spawn := range []bool{false, true} {
		db := newE2eDB()
		db.notes = []*e2eNote{{Text: "x"}}
		schema := e2eSchema(db)
		c := startHuntConn(t, schema, graphql.WithMinRerunInterval(0), graphql.WithAlwaysSpawnGoroutineFunc(func(context.Context, *graphql.Query) bool { return spawn }))
		var stop int32
		go func() {
			i := 0
			for atomic.LoadInt32(&stop) == 0 {
				db.mu.Lock()
				i++
				db.notes = []*e2eNote{{Text: fmt.Sprint(i)}}
				db.touchNotes()
				db.mu.Unlock()
				time.Sleep(200 * time.Microsecond)
			}
		}()
		updates := 0
		for round := 0; round < 300; round++ {
			gen := fmt.Sprint(round)
			c.subscribe(t, "s", fmt.Sprintf(`{ g%s: notes { text } }`, gen))
			// wait for first
			first := true
			deadline := time.After(time.Duration(round%5) * time.Millisecond)
		loop:
			for {
				select {
				case m := <-c.sock.outCh:
					if m["type"] != "update" {
						t.Fatalf("unexpected %v", m)
					}
					updates++
					msg := m["message"]
					if first {
						arr, ok := msg.([]interface{})
						if !ok || len(arr) != 1 {
							t.Fatalf("round %d: first message not full: %s", round, huntJSON(msg))
						}
						if _, ok := arr[0].(map[string]interface{})["g"+gen]; !ok {
							t.Fatalf("round %d: first message belongs to another incarnation: %s", round, huntJSON(msg))
						}
						first = false
					} else {
						if mm, ok := msg.(map[string]interface{}); !ok {
							t.Fatalf("round %d: later message full: %s", round, huntJSON(msg))
						} else if _, ok := mm["g"+gen]; !ok {
							t.Fatalf("round %d: message of another incarnation: %s", round, huntJSON(msg))
						}
					}
				case <-deadline:
					break loop
				}
			}
			c.sock.send(t, map[string]interface{}{"id": "s", "type": "unsubscribe"})
			c.sock.send(t, map[string]interface{}{"id": "e", "type": "echo"})
			for {
				m := c.sock.next(t, time.Second)
				if m == nil {
					t.Fatal("no echo")
				}
				if m["type"] == "echo" {
					break
				}
			}
			// after echo: nothing for s may arrive
			select {
			case m := <-c.sock.outCh:
				t.Fatalf("round %d: message after unsubscribe processed: %v", round, m)
			case <-time.After(time.Duration(round%3) * time.Millisecond):
			}
		}
		atomic.StoreInt32(&stop, 1)
		c.sock.Close()
		t.Logf("spawn=%v updates=%d", spawn, updates)
	}
}
