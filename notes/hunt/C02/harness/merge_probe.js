/**
 * Merge combines a graphql update from the websocket with an existing value
 * into an updated value.
 */
function merge(original, update) {
  // No update: nothing changed.
  if (update === null || update === undefined) {
    return original;
  }

  if (Array.isArray(update)) {
    if (typeof update[0] === "object") {
      return Object.freeze(update[0]);
    } else {
      return update[0];
    }
  }

  if (typeof update !== "object") {
    return update;
  }

  let merged;
  if (Array.isArray(original)) {
    merged = [];
    for (const x of update.$ || [[0, original.length]]) {
      if (Array.isArray(x)) {
        for (let i = x[0]; i < x[0] + x[1]; i++) {
          merged.push(original[i]);
        }
      } else if (x === -1) {
        // A new element that has no entry of its own in the update is null.
        merged.push(null);
      } else {
        merged.push(original[x]);
      }
    }
    delete update.$;

    for (const key of Object.keys(update)) {
      merged[Number(key)] = merge(merged[Number(key)], update[key]);
    }
  } else {
    merged =
      typeof original === "object" && original !== null ? { ...original } : {};

    for (const key of Object.keys(update)) {
      const value = update[key];
      if (Array.isArray(value) && value.length === 0) {
        delete merged[key];
      } else {
        // defineProperty, and only own properties: "__proto__" is a legal field name.
        const current = Object.prototype.hasOwnProperty.call(merged, key)
          ? merged[key]
          : undefined;
        Object.defineProperty(merged, key, {
          value: merge(current, value),
          enumerable: true,
          writable: true,
          configurable: true
        });
      }
    }
  }

  return Object.freeze(merged);
}
const fs = require('fs');
const assert = require('assert');
const lines = fs.readFileSync(process.argv[2], 'utf8').split('\n').filter(x => x);
let bad = 0;
for (const l of lines) {
  const c = JSON.parse(l);
  const prev = c.prev === "<<undefined>>" ? undefined : c.prev;
  let got;
  try { got = merge(prev, c.delta); } catch (e) { got = "EXC " + e; }
  try { assert.deepStrictEqual(JSON.parse(JSON.stringify(got === undefined ? null : got)), c.expect); 
        // also check own-enumerable structure without JSON (sparse arrays / undefined)
        const chk = (v) => { if (Array.isArray(v)) { for (let i = 0; i < v.length; i++) { if (!(i in v) || v[i] === undefined) throw new Error("hole"); chk(v[i]); } } else if (v && typeof v === 'object') { for (const k of Object.keys(v)) { if (v[k] === undefined) throw new Error("undef field"); chk(v[k]); } } };
        chk(got);
  } catch (e) {
    bad++;
    if (bad < 10) console.log("MISMATCH seed", c.seed, "step", c.step, "\nprev", JSON.stringify(c.prev), "\ndelta", JSON.stringify(c.delta), "\ngot", JSON.stringify(got), "\nexp", JSON.stringify(c.expect), String(e).slice(0,100));
  }
}
console.log("cases", lines.length, "bad", bad);
