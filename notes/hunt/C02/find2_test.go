// FINDING 2: the field alias "__key" is accepted by Parse / PrepareQuery, and the
// executor writes the aliased field under "__key" like any other (for an object
// type without a key field; the root Query object never has one). diff.Diff takes
// every "__key" entry for the internal key:
//
//  (a) the aliased field is stripped from every update, so the client never holds
//      it although it is part of the query's result (it is no internal key field);
//  (b) if the aliased field is a list or an object, the second run of the
//      subscription panics in diff.diffMap (diff.go:155, "oldKey != newKey" on two
//      []interface{} / map values) or diff.computeReorderIndices (diff.go:215),
//      unprotected, on the rerunner's goroutine: any client can take the server
//      process down with   subscribe { __key: anyListField { x } }   followed by one
//      change of the data.
//
// Copy into:  graphql/   (package graphql_test)
// Run:        go test ./graphql/ -run 'TestFind2' -count=1 -v
package graphql_test

import (
	"context"
	"encoding/json"
	"errors"
	"fmt"
	"os"
	"os/exec"
	"reflect"
	"strings"
	"sync"
	"testing"
	"time"

	"github.com/samsarahq/thunder/diff"
	"github.com/samsarahq/thunder/graphql"
	"github.com/samsarahq/thunder/graphql/schemabuilder"
	"github.com/samsarahq/thunder/merge"
	"github.com/samsarahq/thunder/reactive"
)

type f2Note struct { // no key field
	Text string
	Tags []string
}

type f2DB struct {
	mu    sync.Mutex
	notes []f2Note
	res   *reactive.Resource
}

func (db *f2DB) set(notes []f2Note) {
	db.mu.Lock()
	old := db.res
	db.notes = notes
	db.res = reactive.NewResource()
	db.mu.Unlock()
	old.Invalidate()
}

func f2Schema(db *f2DB) *graphql.Schema {
	schema := schemabuilder.NewSchema()
	schema.Object("note", f2Note{})
	schema.Mutation()
	schema.Query().FieldFunc("notes", func(ctx context.Context) []f2Note {
		db.mu.Lock()
		defer db.mu.Unlock()
		reactive.AddDependency(ctx, db.res, nil)
		return append([]f2Note(nil), db.notes...)
	})
	return schema.MustBuild()
}

type f2Socket struct {
	in     chan json.RawMessage
	out    chan map[string]interface{}
	closed chan struct{}
	once   sync.Once
}

func (s *f2Socket) ReadJSON(v interface{}) error {
	select {
	case m := <-s.in:
		return json.Unmarshal(m, v)
	case <-s.closed:
		return errors.New("closed")
	}
}
func (s *f2Socket) WriteJSON(v interface{}) error {
	b, err := json.Marshal(v)
	if err != nil {
		return err
	}
	var m map[string]interface{}
	if err := json.Unmarshal(b, &m); err != nil {
		return err
	}
	s.out <- m
	return nil
}
func (s *f2Socket) Close() error { s.once.Do(func() { close(s.closed) }); return nil }

func f2Start(schema *graphql.Schema) *f2Socket {
	reactive.WriteThenReadDelay = time.Millisecond
	sock := &f2Socket{in: make(chan json.RawMessage, 10), out: make(chan map[string]interface{}, 100), closed: make(chan struct{})}
	conn := graphql.CreateConnection(context.Background(), sock, schema, graphql.WithMinRerunInterval(time.Millisecond))
	go conn.ServeJSONSocket()
	return sock
}

func f2Subscribe(sock *f2Socket, id, query string) {
	b, _ := json.Marshal(map[string]interface{}{"id": id, "type": "subscribe", "message": map[string]interface{}{"query": query, "variables": map[string]interface{}{}}})
	sock.in <- b
}

// (a) the aliased field never reaches the client.
func TestFind2AliasKeyFieldIsLost(t *testing.T) {
	db := &f2DB{res: reactive.NewResource(), notes: []f2Note{{Text: "x"}, {Text: "y"}}}
	schema := f2Schema(db)
	sock := f2Start(schema)
	defer sock.Close()

	const query = `{ notes { __key: text } }`
	f2Subscribe(sock, "1", query)

	var client interface{}
	apply := func() {
		for {
			select {
			case m := <-sock.out:
				if m["type"] != "update" || m["id"] != "1" {
					t.Fatalf("unexpected message %v", m)
				}
				var err error
				if client, err = merge.Merge(client, m["message"]); err != nil {
					t.Fatal(err)
				}
			case <-time.After(200 * time.Millisecond):
				return
			}
		}
	}
	apply()
	db.set([]f2Note{{Text: "y"}, {Text: "z"}, {Text: "x"}})
	apply() // the data has stopped changing

	// The result of running the query against the final data. No object in it has
	// a key field, so there is no internal key field to remove.
	q, err := graphql.Parse(query, map[string]interface{}{})
	if err != nil {
		t.Fatal(err)
	}
	if err := graphql.PrepareQuery(context.Background(), schema.Query, q.SelectionSet); err != nil {
		t.Fatal(err)
	}
	res, err := graphql.NewExecutor(graphql.NewImmediateGoroutineScheduler()).Execute(context.Background(), schema.Query, nil, q)
	if err != nil {
		t.Fatal(err)
	}
	var want interface{}
	b, _ := json.Marshal(res)
	json.Unmarshal(b, &want)

	if !reflect.DeepEqual(client, want) {
		cb, _ := json.Marshal(client)
		t.Fatalf("client state differs from the query result:\n client %s\n result %s", cb, b)
	}
}

// (b) a list (or object) field aliased __key: the second run panics in diff.Diff.
func TestFind2AliasKeyDiffPanics(t *testing.T) {
	db := &f2DB{res: reactive.NewResource(), notes: []f2Note{{Text: "x", Tags: []string{"t"}}}}
	schema := f2Schema(db)
	exec := func(query string) interface{} {
		q, err := graphql.Parse(query, map[string]interface{}{})
		if err != nil {
			t.Fatal(err)
		}
		if err := graphql.PrepareQuery(context.Background(), schema.Query, q.SelectionSet); err != nil {
			t.Fatal(err)
		}
		res, err := graphql.NewExecutor(graphql.NewImmediateGoroutineScheduler()).Execute(context.Background(), schema.Query, nil, q)
		if err != nil {
			t.Fatal(err)
		}
		return res
	}
	for _, query := range []string{`{ __key: notes { text } }`, `{ notes { __key: tags } }`} {
		previous := exec(query)
		db.set([]f2Note{{Text: "y", Tags: []string{"t"}}})
		current := exec(query)
		func() {
			defer func() {
				if p := recover(); p != nil {
					t.Errorf("%s: diff.Diff(previous, current) panics: %v", query, p)
				}
			}()
			diff.Diff(previous, current)
		}()
	}
}

func f2Child() {
	db := &f2DB{res: reactive.NewResource(), notes: []f2Note{{Text: "x"}}}
	sock := f2Start(f2Schema(db))
	f2Subscribe(sock, "1", `{ __key: notes { text } }`)
	fmt.Println("CHILD first:", <-sock.out)
	db.set([]f2Note{{Text: "y"}})
	select {
	case m := <-sock.out:
		fmt.Println("CHILD second:", m)
	case <-time.After(2 * time.Second):
		fmt.Println("CHILD no second message")
	}
	fmt.Println("CHILD OK")
}

func TestFind2AliasKeyServerCrashes(t *testing.T) {
	if os.Getenv("FIND2_CHILD") == "1" {
		f2Child()
		return
	}
	cmd := exec.Command(os.Args[0], "-test.run", "^TestFind2AliasKeyServerCrashes$", "-test.count=1")
	cmd.Env = append(os.Environ(), "FIND2_CHILD=1")
	out, err := cmd.CombinedOutput()
	if err != nil || !strings.Contains(string(out), "CHILD OK") {
		lines := strings.Split(string(out), "\n")
		if len(lines) > 10 {
			lines = lines[:10]
		}
		t.Fatalf("the server process died while re-running the subscription (%v):\n%s", err, strings.Join(lines, "\n"))
	}
}
