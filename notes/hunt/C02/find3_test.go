// FINDING 3 (minor): a float field that goes from 0 to -0 (or back) is never sent.
// diff.Diff compares scalars with != (diff.go:327); 0.0 == -0.0 in Go, so no
// delta is made, but encoding/json writes the two differently ("0" and "-0").
// The client keeps 0 while the result of the query against the final data is -0
// (math.Round(-0.4), -1*0.0, a parsed "-0" ... all give a negative zero; a JS
// client shows them differently, e.g. (-0).toFixed(1) === "-0.0").
//
// Copy into:  graphql/   (package graphql_test)
// Run:        go test ./graphql/ -run 'TestFind3' -count=1 -v
package graphql_test

import (
	"context"
	"encoding/json"
	"errors"
	"math"
	"sync"
	"testing"
	"time"

	"github.com/samsarahq/thunder/graphql"
	"github.com/samsarahq/thunder/graphql/schemabuilder"
	"github.com/samsarahq/thunder/reactive"
)

type f3DB struct {
	mu    sync.Mutex
	temp  float64
	other int64
	res   *reactive.Resource
}

func (db *f3DB) set(temp float64, other int64) {
	db.mu.Lock()
	old := db.res
	db.temp, db.other = temp, other
	db.res = reactive.NewResource()
	db.mu.Unlock()
	old.Invalidate()
}

type f3Socket struct {
	in     chan json.RawMessage
	out    chan []byte
	closed chan struct{}
	once   sync.Once
}

func (s *f3Socket) ReadJSON(v interface{}) error {
	select {
	case m := <-s.in:
		return json.Unmarshal(m, v)
	case <-s.closed:
		return errors.New("closed")
	}
}
func (s *f3Socket) WriteJSON(v interface{}) error {
	b, err := json.Marshal(v)
	if err != nil {
		return err
	}
	s.out <- b
	return nil
}
func (s *f3Socket) Close() error { s.once.Do(func() { close(s.closed) }); return nil }

func TestFind3NegativeZeroNotSent(t *testing.T) {
	reactive.WriteThenReadDelay = time.Millisecond
	db := &f3DB{res: reactive.NewResource(), temp: 0, other: 1}
	schema := schemabuilder.NewSchema()
	schema.Mutation()
	q := schema.Query()
	q.FieldFunc("temperature", func(ctx context.Context) float64 {
		db.mu.Lock()
		defer db.mu.Unlock()
		reactive.AddDependency(ctx, db.res, nil)
		return math.Round(db.temp)
	})
	q.FieldFunc("other", func(ctx context.Context) int64 {
		db.mu.Lock()
		defer db.mu.Unlock()
		reactive.AddDependency(ctx, db.res, nil)
		return db.other
	})
	built := schema.MustBuild()

	sock := &f3Socket{in: make(chan json.RawMessage, 10), out: make(chan []byte, 100), closed: make(chan struct{})}
	defer sock.Close()
	conn := graphql.CreateConnection(context.Background(), sock, built, graphql.WithMinRerunInterval(time.Millisecond))
	go conn.ServeJSONSocket()

	const query = `{ temperature other }`
	sock.in <- json.RawMessage(`{"id":"1","type":"subscribe","message":{"query":"` + query + `","variables":{}}}`)

	// The client keeps the raw JSON text of every field it holds (full update:
	// message is [object]; delta: message is an object of raw replacements).
	client := map[string]string{}
	apply := func() {
		for {
			select {
			case b := <-sock.out:
				var env struct {
					Type    string
					Message json.RawMessage
				}
				if err := json.Unmarshal(b, &env); err != nil || env.Type != "update" {
					t.Fatalf("unexpected message %s", b)
				}
				var full []map[string]json.RawMessage
				var delta map[string]json.RawMessage
				if json.Unmarshal(env.Message, &full) == nil && len(full) == 1 {
					client = map[string]string{}
					delta = full[0]
				} else if err := json.Unmarshal(env.Message, &delta); err != nil {
					t.Fatalf("unexpected message %s", b)
				}
				for k, v := range delta {
					client[k] = string(v)
				}
				t.Logf("received %s", b)
			case <-time.After(200 * time.Millisecond):
				return
			}
		}
	}
	apply()
	db.set(-0.4, 2) // temperature: math.Round(-0.4) == -0; other changes too, so an update is sent
	apply()

	pq, err := graphql.Parse(query, map[string]interface{}{})
	if err != nil {
		t.Fatal(err)
	}
	if err := graphql.PrepareQuery(context.Background(), built.Query, pq.SelectionSet); err != nil {
		t.Fatal(err)
	}
	res, err := graphql.NewExecutor(graphql.NewImmediateGoroutineScheduler()).Execute(context.Background(), built.Query, nil, pq)
	if err != nil {
		t.Fatal(err)
	}
	b, _ := json.Marshal(res)
	var want map[string]json.RawMessage
	json.Unmarshal(b, &want)
	for k, v := range want {
		if client[k] != string(v) {
			t.Errorf("field %s: client holds %s, the query result is %s", k, client[k], v)
		}
	}
}
