import re,sys
core=open('core.tmpl').read()
# strip package clause and leading comment of core
i=core.index('import (')
core_body=core[i:]
core_body=core_body.replace('\t"sync/atomic"\n','\t"sync/atomic"\n\t"testing"\n')
names={1:'TestFind1',2:'TestFind2',3:'TestFind3',4:'TestFind4',5:'TestFind5',6:'TestFind6',7:'TestFind7',8:'TestFind8',9:'TestFind9',10:'TestFind10',11:'TestFind11',12:'TestFind12'}
for n in range(1,14):
    body=open('body%d.txt'%n).read()
    # leading comment block
    lines=body.split('\n')
    k=0
    while lines[k].startswith('//'): k+=1
    comment='\n'.join(lines[:k])
    rest='\n'.join(lines[k:])
    m=re.search(r'func (TestFind%d\w*)\('%n, rest)
    tname=m.group(1)
    hdr=('// Copy this file into the package directory livesql/ of the repository and run\n'
         '//   go test ./livesql/ -run \'^%s$\' -count=1\n'
         '// It FAILS on the unmodified tree. The file is self-contained: below the test there is a\n'
         '// fake MySQL (database/sql driver, `col = ?` / `col IS ?` evaluator, information_schema),\n'
         '// an encoder of row-based binlog events in MySQL\'s format that are decoded by the real\n'
         '// go-mysql parser, and an in-process BinlogStreamer that feeds Binlog.RunPollLoop.\n//\n')%tname
    src=hdr+comment+'\n\npackage livesql\n\n'+core_body.split(')\n',1)[0]+')\n'+rest+'\n// ---------------------------------------------------------------------------\n// harness\n'+core_body.split(')\n',1)[1]
    p='f%d'%n
    src=re.sub(r'\bh([A-Z])', lambda m:p+m.group(1), src)
    src=src.replace('newHServer','new'+p.upper()+'Server').replace('newHEnv','new'+p.upper()+'Env')
    src=src.replace('huntfakemysql','huntfakemysql_'+p)
    open('../find%d_test.go'%n,'w').write(src)
