// Copy this file into the package directory livesql/ of the repository and run
//   go test ./livesql/ -run '^TestFind7EnumColumn$' -count=1
// It FAILS on the unmodified tree. The file is self-contained: below the test there is a
// fake MySQL (database/sql driver, `col = ?` / `col IS ?` evaluator, information_schema),
// an encoder of row-based binlog events in MySQL's format that are decoded by the real
// go-mysql parser, and an in-process BinlogStreamer that feeds Binlog.RunPollLoop.
//
// FINDING 7: ENUM (and SET) columns.
//
// A SELECT returns an ENUM column as its label ("active"), so `Status string`
// is the natural field for it. The change log stores the 1-based index of the
// label; go-mysql delivers int64(2) and parseBinlogRow (livesql/binlog.go:208)
// scans that into the string field as "2". The row tester compares "2" with
// the filter value "active": no write to a row ever reaches a live query that
// filters on the column. SET columns arrive as a bit mask in the same way.

package livesql

import (
	"bytes"
	"context"
	"database/sql"
	"database/sql/driver"
	"encoding/binary"
	"errors"
	"fmt"
	"io"
	"io/ioutil"
	"math"
	"os"
	"path/filepath"
	"reflect"
	"regexp"
	"strconv"
	"strings"
	"sync"
	"sync/atomic"
	"testing"
	"time"
	"unsafe"

	"github.com/samsarahq/thunder/logger"
	"github.com/samsarahq/thunder/reactive"
	"github.com/samsarahq/thunder/sqlgen"
	"github.com/siddontang/go-mysql/replication"
)

type f7F7Row struct {
	Id     int64  `sql:",primary"`
	Status string // status ENUM('new','active','done')
}

func TestFind7EnumColumn(t *testing.T) {
	schema := sqlgen.NewSchema()
	schema.MustRegisterType("jobs", sqlgen.UniqueId, f7F7Row{})
	srv := newF7Server()
	srv.addTable(&f7Table{name: "jobs", cols: []f7Col{{name: "id", typ: f7LongLong}, {name: "status", typ: f7Enum, enum: []string{"new", "active", "done"}}}})
	e := newF7Env(schema, srv)
	defer e.stop()

	typ := reflect.TypeOf(f7F7Row{})
	f := sqlgen.Filter{"status": "active"}
	l := e.live(typ, f, nil)
	defer l.stop()
	if err := e.settle(l, typ, f, nil, time.Second); err != nil {
		t.Fatal(err)
	}
	// control: a live query on the same table that the same write affects
	fc := sqlgen.Filter{"id": 1}
	lc := e.live(typ, fc, nil)
	defer lc.stop()
	if err := e.settle(lc, typ, fc, nil, time.Second); err != nil {
		t.Fatal(err)
	}
	if err := e.deliver(e.insert("jobs", []interface{}{int64(1), "active"})...); err != nil {
		t.Fatal(err)
	}
	if err := e.settle(lc, typ, fc, nil, time.Second); err != nil {
		t.Fatalf("control query %v: %v", fc, err)
	}
	if err := e.settle(l, typ, f, nil, time.Second); err != nil {
		t.Fatal(err)
	}
}

// ---------------------------------------------------------------------------
// harness

type f7MyType int

const (
	f7Tiny f7MyType = iota
	f7Short
	f7Int24
	f7Long
	f7LongLong
	f7Float
	f7Double
	f7Varchar
	f7Varbinary
	f7Char
	f7Binary
	f7Blob
	f7Text
	f7Datetime
	f7Timestamp
	f7Enum
	f7Date
	f7Time
	f7Year
)

type f7Col struct {
	name     string
	typ      f7MyType
	unsigned bool
	n        int // byte length for char types
	fsp      int
	enum     []string
	ci       bool // case-insensitive, pad-space collation
}

func (c f7Col) isInt() bool { return c.typ <= f7LongLong }

type f7Table struct {
	name string
	cols []f7Col
	// rows hold canonical cells: nil, int64, uint64, float64, string, []byte, time.Time (UTC)
	rows    [][]interface{}
	tableID uint64
}

type f7Server struct {
	mu      sync.Mutex
	tables  map[string]*f7Table
	selects int64
	// infoNames overrides the names reported by information_schema.columns.
	infoNames map[string][]string
	failQuery func(q string) error
}

func newF7Server() *f7Server {
	return &f7Server{tables: map[string]*f7Table{}, infoNames: map[string][]string{}}
}

func (s *f7Server) addTable(t *f7Table) {
	s.mu.Lock()
	defer s.mu.Unlock()
	if t.tableID == 0 {
		t.tableID = uint64(100 + len(s.tables))
	}
	s.tables[t.name] = t
}

// ---------------------------------------------------------------------------
// binlog encoding

func f7Lenenc(n int) []byte {
	if n < 251 {
		return []byte{byte(n)}
	}
	if n < 1<<16 {
		return []byte{0xfc, byte(n), byte(n >> 8)}
	}
	panic("too long")
}

func (c f7Col) binlogType() byte {
	switch c.typ {
	case f7Tiny:
		return 1
	case f7Short:
		return 2
	case f7Long:
		return 3
	case f7Float:
		return 4
	case f7Double:
		return 5
	case f7LongLong:
		return 8
	case f7Int24:
		return 9
	case f7Varchar, f7Varbinary:
		return 15
	case f7Char, f7Binary, f7Enum:
		return 254
	case f7Blob, f7Text:
		return 252
	case f7Datetime:
		return 18
	case f7Timestamp:
		return 17
	case f7Date:
		return 10
	case f7Time:
		return 19
	case f7Year:
		return 13
	}
	panic("type")
}

func (c f7Col) binlogMeta() []byte {
	switch c.typ {
	case f7Float:
		return []byte{4}
	case f7Double:
		return []byte{8}
	case f7Varchar, f7Varbinary:
		return []byte{byte(c.n), byte(c.n >> 8)}
	case f7Char, f7Binary:
		if c.n > 255 {
			panic("long char")
		}
		return []byte{254, byte(c.n)}
	case f7Enum:
		return []byte{247, 1}
	case f7Blob, f7Text:
		return []byte{2}
	case f7Datetime, f7Timestamp, f7Time:
		return []byte{byte(c.fsp)}
	}
	return nil
}

func f7Frac(buf *bytes.Buffer, usec int, fsp int) {
	switch fsp {
	case 1, 2:
		buf.WriteByte(byte(usec / 10000))
	case 3, 4:
		v := usec / 100
		buf.Write([]byte{byte(v >> 8), byte(v)})
	case 5, 6:
		buf.Write([]byte{byte(usec >> 16), byte(usec >> 8), byte(usec)})
	}
}

func (c f7Col) encode(buf *bytes.Buffer, cell interface{}) {
	switch c.typ {
	case f7Tiny, f7Short, f7Int24, f7Long, f7LongLong:
		var u uint64
		switch v := cell.(type) {
		case int64:
			u = uint64(v)
		case uint64:
			u = v
		default:
			panic(fmt.Sprintf("int cell %T", cell))
		}
		w := map[f7MyType]int{f7Tiny: 1, f7Short: 2, f7Int24: 3, f7Long: 4, f7LongLong: 8}[c.typ]
		for i := 0; i < w; i++ {
			buf.WriteByte(byte(u >> (8 * uint(i))))
		}
	case f7Float:
		var b [4]byte
		binary.LittleEndian.PutUint32(b[:], math.Float32bits(float32(cell.(float64))))
		buf.Write(b[:])
	case f7Double:
		var b [8]byte
		binary.LittleEndian.PutUint64(b[:], math.Float64bits(cell.(float64)))
		buf.Write(b[:])
	case f7Varchar, f7Varbinary:
		var data []byte
		if s, ok := cell.(string); ok {
			data = []byte(s)
		} else {
			data = cell.([]byte)
		}
		if c.n < 256 {
			buf.WriteByte(byte(len(data)))
		} else {
			buf.Write([]byte{byte(len(data)), byte(len(data) >> 8)})
		}
		buf.Write(data)
	case f7Char:
		// Field_string::pack: trailing pad characters are not written.
		data := []byte(strings.TrimRight(cell.(string), " "))
		buf.WriteByte(byte(len(data)))
		buf.Write(data)
	case f7Binary:
		// Field_string::pack: for the binary charset the pad character is 0x00.
		data := bytes.TrimRight(cell.([]byte), "\x00")
		buf.WriteByte(byte(len(data)))
		buf.Write(data)
	case f7Blob, f7Text:
		var data []byte
		if s, ok := cell.(string); ok {
			data = []byte(s)
		} else {
			data = cell.([]byte)
		}
		buf.Write([]byte{byte(len(data)), byte(len(data) >> 8)})
		buf.Write(data)
	case f7Datetime:
		t := cell.(time.Time).UTC()
		ymd := uint64(t.Year()*13+int(t.Month()))<<5 | uint64(t.Day())
		hms := uint64(t.Hour())<<12 | uint64(t.Minute())<<6 | uint64(t.Second())
		v := (ymd<<17 | hms) + 0x8000000000
		buf.Write([]byte{byte(v >> 32), byte(v >> 24), byte(v >> 16), byte(v >> 8), byte(v)})
		f7Frac(buf, t.Nanosecond()/1000, c.fsp)
	case f7Timestamp:
		t := cell.(time.Time)
		v := uint32(t.Unix())
		buf.Write([]byte{byte(v >> 24), byte(v >> 16), byte(v >> 8), byte(v)})
		f7Frac(buf, t.Nanosecond()/1000, c.fsp)
	case f7Date:
		t := cell.(time.Time)
		v := uint32(t.Day()) | uint32(t.Month())<<5 | uint32(t.Year())<<9
		buf.Write([]byte{byte(v), byte(v >> 8), byte(v >> 16)})
	case f7Time:
		// cell: "HH:MM:SS"
		var hh, mm, ss int
		fmt.Sscanf(cell.(string), "%d:%d:%d", &hh, &mm, &ss)
		v := uint32(0x800000) + uint32(hh)<<12 | uint32(mm)<<6 | uint32(ss)
		buf.Write([]byte{byte(v >> 16), byte(v >> 8), byte(v)})
	case f7Year:
		buf.WriteByte(byte(cell.(int64) - 1900))
	case f7Enum:
		s := cell.(string)
		for i, e := range c.enum {
			if e == s {
				buf.WriteByte(byte(i + 1))
				return
			}
		}
		panic("enum value")
	}
}

func f7Event(typ byte, body []byte) []byte {
	var h [19]byte
	binary.LittleEndian.PutUint32(h[0:], uint32(time.Now().Unix()))
	h[4] = typ
	binary.LittleEndian.PutUint32(h[5:], 1)
	binary.LittleEndian.PutUint32(h[9:], uint32(19+len(body)))
	return append(h[:], body...)
}

func f7FormatDescription() []byte {
	var b bytes.Buffer
	b.Write([]byte{4, 0})
	ver := make([]byte, 50)
	copy(ver, "5.7.30-log")
	b.Write(ver)
	b.Write([]byte{0, 0, 0, 0})
	b.WriteByte(19)
	lens := make([]byte, 40)
	for i := range lens {
		lens[i] = 8
	}
	lens[29], lens[30], lens[31] = 10, 10, 10
	b.Write(lens)
	b.WriteByte(0)              // checksum algorithm: off
	b.Write([]byte{0, 0, 0, 0}) // checksum of this event
	return f7Event(15, b.Bytes())
}

func f7TableID(id uint64) []byte {
	return []byte{byte(id), byte(id >> 8), byte(id >> 16), byte(id >> 24), byte(id >> 32), byte(id >> 40)}
}

func (t *f7Table) tableMapEvent(schema string) []byte {
	var b bytes.Buffer
	b.Write(f7TableID(t.tableID))
	b.Write([]byte{1, 0})
	b.WriteByte(byte(len(schema)))
	b.WriteString(schema)
	b.WriteByte(0)
	b.WriteByte(byte(len(t.name)))
	b.WriteString(t.name)
	b.WriteByte(0)
	b.Write(f7Lenenc(len(t.cols)))
	var meta bytes.Buffer
	for _, c := range t.cols {
		b.WriteByte(c.binlogType())
		meta.Write(c.binlogMeta())
	}
	b.Write(f7Lenenc(meta.Len()))
	b.Write(meta.Bytes())
	nb := make([]byte, (len(t.cols)+7)/8)
	for i := range nb {
		nb[i] = 0xff
	}
	b.Write(nb)
	return f7Event(19, b.Bytes())
}

func (t *f7Table) encodeRow(b *bytes.Buffer, row []interface{}) {
	nb := make([]byte, (len(t.cols)+7)/8)
	for i, cell := range row {
		if cell == nil {
			nb[i/8] |= 1 << uint(i%8)
		}
	}
	b.Write(nb)
	for i, cell := range row {
		if cell != nil {
			t.cols[i].encode(b, cell)
		}
	}
}

// kind: 30 write, 31 update, 32 delete (v2). images: for update before,after pairs.
func (t *f7Table) rowsEvent(kind byte, images ...[]interface{}) []byte {
	var b bytes.Buffer
	b.Write(f7TableID(t.tableID))
	b.Write([]byte{1, 0}) // STMT_END
	b.Write([]byte{2, 0}) // extra data length
	b.Write(f7Lenenc(len(t.cols)))
	bm := make([]byte, (len(t.cols)+7)/8)
	for i := range t.cols {
		bm[i/8] |= 1 << uint(i%8)
	}
	b.Write(bm)
	if kind == 31 {
		b.Write(bm)
	}
	for _, img := range images {
		t.encodeRow(&b, img)
	}
	return f7Event(kind, b.Bytes())
}

var f7ParseDir string
var f7ParseSeq int64

// f7Parse runs raw events through go-mysql's parser, as the syncer would.
func f7Parse(events ...[]byte) ([]*replication.BinlogEvent, error) {
	if f7ParseDir == "" {
		d, err := ioutil.TempDir("", "huntbinlog")
		if err != nil {
			return nil, err
		}
		f7ParseDir = d
	}
	name := filepath.Join(f7ParseDir, fmt.Sprintf("b%d", atomic.AddInt64(&f7ParseSeq, 1)))
	var f bytes.Buffer
	f.Write(replication.BinLogFileHeader)
	f.Write(f7FormatDescription())
	for _, e := range events {
		f.Write(e)
	}
	if err := ioutil.WriteFile(name, f.Bytes(), 0600); err != nil {
		return nil, err
	}
	defer os.Remove(name)
	var out []*replication.BinlogEvent
	p := replication.NewBinlogParser()
	n := 0
	err := p.ParseFile(name, 0, func(e *replication.BinlogEvent) error {
		n++
		if n > 1 { // skip the format description
			out = append(out, e)
		}
		return nil
	})
	if err == nil && len(out) != len(events) {
		err = fmt.Errorf("parsed %d of %d events", len(out), len(events))
	}
	return out, err
}

// ---------------------------------------------------------------------------
// in-process streamer

func f7NewStreamer() (*replication.BinlogStreamer, chan *replication.BinlogEvent, chan error) {
	s := new(replication.BinlogStreamer)
	ch := make(chan *replication.BinlogEvent, 10240)
	ech := make(chan error, 4)
	v := reflect.ValueOf(s).Elem()
	f := v.FieldByName("ch")
	reflect.NewAt(f.Type(), unsafe.Pointer(f.UnsafeAddr())).Elem().Set(reflect.ValueOf(ch))
	f = v.FieldByName("ech")
	reflect.NewAt(f.Type(), unsafe.Pointer(f.UnsafeAddr())).Elem().Set(reflect.ValueOf(ech))
	return s, ch, ech
}

type f7NullLogger struct{ errs int64 }

func (l *f7NullLogger) Debug(string, ...interface{}) {}
func (l *f7NullLogger) Info(string, ...interface{})  {}
func (l *f7NullLogger) Warn(string, ...interface{})  {}
func (l *f7NullLogger) Error(string, ...interface{}) { atomic.AddInt64(&l.errs, 1) }

var _ logger.Logger = (*f7NullLogger)(nil)

// ---------------------------------------------------------------------------
// SELECT evaluation

type f7Expr interface {
	eval(t *f7Table, row []interface{}) bool
}
type f7And struct{ l, r f7Expr }
type f7Cmp struct {
	col string
	is  bool
	arg interface{}
}

func (a f7And) eval(t *f7Table, row []interface{}) bool { return a.l.eval(t, row) && a.r.eval(t, row) }
func (c f7Cmp) eval(t *f7Table, row []interface{}) bool {
	for i, col := range t.cols {
		if strings.EqualFold(col.name, c.col) {
			if c.is {
				return c.arg == nil && row[i] == nil
			}
			return f7SQLEqual(col, row[i], c.arg)
		}
	}
	panic("unknown column " + c.col)
}

type f7WhereParser struct {
	toks []string
	pos  int
	args []driver.Value
	narg int
}

var f7TokRe = regexp.MustCompile(`\(|\)|\?|=|[A-Za-z_][A-Za-z_0-9]*`)

func (p *f7WhereParser) next() string {
	if p.pos >= len(p.toks) {
		return ""
	}
	p.pos++
	return p.toks[p.pos-1]
}
func (p *f7WhereParser) peek() string {
	if p.pos >= len(p.toks) {
		return ""
	}
	return p.toks[p.pos]
}
func (p *f7WhereParser) parseAnd() (f7Expr, error) {
	l, err := p.parseAtom()
	if err != nil {
		return nil, err
	}
	for strings.EqualFold(p.peek(), "AND") {
		p.next()
		r, err := p.parseAtom()
		if err != nil {
			return nil, err
		}
		l = f7And{l, r}
	}
	return l, nil
}
func (p *f7WhereParser) parseAtom() (f7Expr, error) {
	tok := p.next()
	if tok == "(" {
		e, err := p.parseAnd()
		if err != nil {
			return nil, err
		}
		if p.next() != ")" {
			return nil, errors.New("expected )")
		}
		return e, nil
	}
	col := tok
	op := p.next()
	if p.next() != "?" {
		return nil, errors.New("expected ?")
	}
	if p.narg >= len(p.args) {
		return nil, errors.New("too few args")
	}
	arg := p.args[p.narg]
	p.narg++
	switch strings.ToUpper(op) {
	case "=":
		return f7Cmp{col: col, arg: arg}, nil
	case "IS":
		return f7Cmp{col: col, is: true, arg: arg}, nil
	}
	return nil, fmt.Errorf("bad operator %q", op)
}

func f7ToFloat(s string) float64 {
	// MySQL converts the longest numeric prefix.
	s = strings.TrimSpace(s)
	end := 0
	for end < len(s) {
		if _, err := strconv.ParseFloat(s[:end+1], 64); err != nil && !(end == 0 && (s[0] == '-' || s[0] == '+')) {
			break
		}
		end++
	}
	f, _ := strconv.ParseFloat(s[:end], 64)
	return f
}

func f7CellFloat(cell interface{}) (float64, bool) {
	switch v := cell.(type) {
	case int64:
		return float64(v), true
	case uint64:
		return float64(v), true
	case float64:
		return v, true
	}
	return 0, false
}

// f7SQLEqual is `cell = arg` for a cell of column col, where arg is what the
// driver sends (int64, float64, bool, []byte, string, time.Time).
func f7SQLEqual(col f7Col, cell interface{}, arg interface{}) bool {
	if cell == nil || arg == nil {
		return false
	}
	if b, ok := arg.(bool); ok {
		if b {
			arg = int64(1)
		} else {
			arg = int64(0)
		}
	}
	switch col.typ {
	case f7Date:
		c := cell.(time.Time)
		switch a := arg.(type) {
		case time.Time:
			// the date column is compared as a datetime at midnight
			return c.Equal(a.Truncate(time.Microsecond))
		case string:
			return c.Format("2006-01-02") == a
		case []byte:
			return c.Format("2006-01-02") == string(a)
		}
		return false
	case f7Time:
		switch a := arg.(type) {
		case string:
			return cell.(string) == a
		case []byte:
			return cell.(string) == string(a)
		}
		return false
	case f7Tiny, f7Short, f7Int24, f7Long, f7LongLong, f7Year:
		switch a := arg.(type) {
		case int64:
			switch c := cell.(type) {
			case int64:
				return c == a
			case uint64:
				return a >= 0 && c == uint64(a)
			}
		case float64:
			f, _ := f7CellFloat(cell)
			return f == a
		case string:
			f, _ := f7CellFloat(cell)
			return f == f7ToFloat(a)
		case []byte:
			f, _ := f7CellFloat(cell)
			return f == f7ToFloat(string(a))
		}
		return false
	case f7Float, f7Double:
		f := cell.(float64)
		switch a := arg.(type) {
		case int64:
			return f == float64(a)
		case float64:
			return f == a
		case string:
			return f == f7ToFloat(a)
		case []byte:
			return f == f7ToFloat(string(a))
		}
		return false
	case f7Varchar, f7Char, f7Text, f7Enum:
		c := cell.(string)
		switch a := arg.(type) {
		case string:
			return f7CollEqual(col, c, a)
		case []byte:
			// a binary string argument makes the comparison binary
			return c == string(a)
		case int64:
			if col.typ == f7Enum {
				for i, e := range col.enum {
					if e == c {
						return int64(i+1) == a
					}
				}
			}
			return f7ToFloat(c) == float64(a)
		case float64:
			return f7ToFloat(c) == a
		}
		return false
	case f7Varbinary, f7Binary, f7Blob:
		c := cell.([]byte)
		switch a := arg.(type) {
		case string:
			return string(c) == a
		case []byte:
			return bytes.Equal(c, a)
		case int64:
			return f7ToFloat(string(c)) == float64(a)
		case float64:
			return f7ToFloat(string(c)) == a
		}
		return false
	case f7Datetime, f7Timestamp:
		c := cell.(time.Time)
		switch a := arg.(type) {
		case time.Time:
			return c.Equal(a.Truncate(time.Microsecond))
		case string:
			return f7TimeStr(c, 6) == a || f7TimeStr(c, 0) == a || f7TimeStr(c, col.fsp) == a
		case []byte:
			return f7TimeStr(c, 6) == string(a) || f7TimeStr(c, 0) == string(a) || f7TimeStr(c, col.fsp) == string(a)
		}
		return false
	}
	return false
}

func f7CollEqual(col f7Col, a, b string) bool {
	if col.ci {
		return strings.EqualFold(strings.TrimRight(a, " "), strings.TrimRight(b, " "))
	}
	return a == b
}

func f7TimeStr(t time.Time, fsp int) string {
	s := t.UTC().Format("2006-01-02 15:04:05")
	if fsp > 0 {
		us := fmt.Sprintf("%06d", t.Nanosecond()/1000)
		s += "." + us[:fsp]
	}
	return s
}

// wire value of a cell in a SELECT result (prepared statement protocol of
// go-sql-driver without parseTime).
func f7Wire(col f7Col, cell interface{}) driver.Value {
	switch v := cell.(type) {
	case nil:
		return nil
	case int64:
		return v
	case uint64:
		if v > math.MaxInt64 {
			return []byte(strconv.FormatUint(v, 10))
		}
		return int64(v)
	case float64:
		if col.typ == f7Float {
			return []byte(strconv.FormatFloat(v, 'g', -1, 32))
		}
		return v
	case string:
		return []byte(v)
	case []byte:
		return append([]byte(nil), v...)
	case time.Time:
		if col.typ == f7Date {
			return []byte(v.Format("2006-01-02"))
		}
		return []byte(f7TimeStr(v, col.fsp))
	}
	panic("cell")
}

var f7SelectRe = regexp.MustCompile(`(?s)^SELECT (.+?) FROM ([A-Za-z_0-9]+)(?: (?:FORCE|USE) INDEX\([^)]*\))?(?: WHERE (.+?))?(?: ORDER BY (.+?))?(?: LIMIT (\d+))?(?: FOR UPDATE)?$`)

func (s *f7Server) selectRows(q string, args []driver.Value) ([]string, [][]driver.Value, error) {
	q = strings.TrimSpace(q)
	if strings.Contains(q, "information_schema.columns") {
		table := args[1].(string)
		s.mu.Lock()
		defer s.mu.Unlock()
		var out [][]driver.Value
		if names, ok := s.infoNames[table]; ok {
			for _, n := range names {
				out = append(out, []driver.Value{[]byte(n)})
			}
			return []string{"column_name"}, out, nil
		}
		t, ok := s.tables[table]
		if !ok {
			return []string{"column_name"}, nil, nil
		}
		for _, c := range t.cols {
			out = append(out, []driver.Value{[]byte(c.name)})
		}
		return []string{"column_name"}, out, nil
	}
	m := f7SelectRe.FindStringSubmatch(q)
	if m == nil {
		return nil, nil, fmt.Errorf("fake mysql: cannot parse %q", q)
	}
	atomic.AddInt64(&s.selects, 1)
	colNames := strings.Split(m[1], ", ")
	s.mu.Lock()
	defer s.mu.Unlock()
	t, ok := s.tables[m[2]]
	if !ok {
		return nil, nil, fmt.Errorf("fake mysql: no table %s", m[2])
	}
	var where f7Expr
	if m[3] != "" {
		p := &f7WhereParser{toks: f7TokRe.FindAllString(m[3], -1), args: args}
		var err error
		where, err = p.parseAnd()
		if err != nil {
			return nil, nil, fmt.Errorf("fake mysql: where %q: %v", m[3], err)
		}
		if p.pos != len(p.toks) || p.narg != len(args) {
			return nil, nil, fmt.Errorf("fake mysql: where %q: trailing input", m[3])
		}
	}
	idx := make([]int, len(colNames))
	for i, n := range colNames {
		idx[i] = -1
		for j, c := range t.cols {
			if strings.EqualFold(c.name, n) {
				idx[i] = j
			}
		}
		if idx[i] == -1 {
			return nil, nil, fmt.Errorf("Unknown column '%s'", n)
		}
	}
	var out [][]driver.Value
	for _, row := range t.rows {
		if where != nil && !where.eval(t, row) {
			continue
		}
		r := make([]driver.Value, len(idx))
		for i, j := range idx {
			r[i] = f7Wire(t.cols[j], row[j])
		}
		out = append(out, r)
	}
	if m[5] != "" {
		n, _ := strconv.Atoi(m[5])
		if len(out) > n {
			out = out[:n]
		}
	}
	return colNames, out, nil
}

// ---------------------------------------------------------------------------
// database/sql driver

type f7Driver struct{}

var f7Servers sync.Map // name -> *f7Server

func (f7Driver) Open(name string) (driver.Conn, error) {
	s, ok := f7Servers.Load(name)
	if !ok {
		return nil, errors.New("no such fake server")
	}
	return &f7Conn{s.(*f7Server)}, nil
}

type f7Conn struct{ s *f7Server }

func (c *f7Conn) Prepare(q string) (driver.Stmt, error) { return &f7Stmt{c.s, q}, nil }
func (c *f7Conn) Close() error                          { return nil }
func (c *f7Conn) Begin() (driver.Tx, error)             { return nil, errors.New("no tx") }

type f7Stmt struct {
	s *f7Server
	q string
}

func (st *f7Stmt) Close() error  { return nil }
func (st *f7Stmt) NumInput() int { return -1 }
func (st *f7Stmt) Exec(args []driver.Value) (driver.Result, error) {
	return nil, errors.New("fake mysql: exec not supported")
}
func (st *f7Stmt) Query(args []driver.Value) (driver.Rows, error) {
	if f := st.s.failQuery; f != nil {
		if err := f(st.q); err != nil {
			return nil, err
		}
	}
	cols, rows, err := st.s.selectRows(st.q, args)
	if err != nil {
		return nil, err
	}
	return &f7Rows{cols: cols, rows: rows}, nil
}

type f7Rows struct {
	cols []string
	rows [][]driver.Value
	i    int
}

func (r *f7Rows) Columns() []string { return r.cols }
func (r *f7Rows) Close() error      { return nil }
func (r *f7Rows) Next(dest []driver.Value) error {
	if r.i >= len(r.rows) {
		return io.EOF
	}
	copy(dest, r.rows[r.i])
	r.i++
	return nil
}

var f7RegisterOnce sync.Once
var f7ServerSeq int64

func (s *f7Server) open() *sql.DB {
	f7RegisterOnce.Do(func() { sql.Register("huntfakemysql_f7", f7Driver{}) })
	name := fmt.Sprintf("srv%d", atomic.AddInt64(&f7ServerSeq, 1))
	f7Servers.Store(name, s)
	db, err := sql.Open("huntfakemysql_f7", name)
	if err != nil {
		panic(err)
	}
	return db
}

// ---------------------------------------------------------------------------
// a LiveDB over the fake server with a running poll loop

type f7Env struct {
	srv    *f7Server
	conn   *sql.DB
	ldb    *LiveDB
	binlog *Binlog
	ch     chan *replication.BinlogEvent
	ech    chan error
	log    *f7NullLogger
	done   chan error
	parser sync.Mutex
}

const f7Database = "huntdb"

func newF7Env(schema *sqlgen.Schema, srv *f7Server) *f7Env {
	conn := srv.open()
	ldb := NewLiveDB(sqlgen.NewDB(conn, schema))
	streamer, ch, ech := f7NewStreamer()
	l := &f7NullLogger{}
	b := &Binlog{
		db:            ldb.DB,
		database:      f7Database,
		tracker:       ldb.tracker,
		streamer:      streamer,
		tableVersions: make(map[string]uint64),
		columnMaps:    make(map[string]*columnMap),
		logger:        l,
	}
	e := &f7Env{srv: srv, conn: conn, ldb: ldb, binlog: b, ch: ch, ech: ech, log: l, done: make(chan error, 1)}
	go func() { e.done <- b.RunPollLoop() }()
	return e
}

func (e *f7Env) stop() {
	e.ech <- errors.New("stop")
	<-e.done
	e.conn.Close()
}

// deliver sends raw events through the real parser into the poll loop.
func (e *f7Env) deliver(raw ...[]byte) error {
	evs, err := f7Parse(raw...)
	if err != nil {
		return err
	}
	for _, ev := range evs {
		e.ch <- ev
	}
	return nil
}

// write ops: they change the fake server's table and return the raw events.
func (e *f7Env) insert(table string, row []interface{}) [][]byte {
	e.srv.mu.Lock()
	defer e.srv.mu.Unlock()
	t := e.srv.tables[table]
	t.rows = append(t.rows, row)
	return [][]byte{t.tableMapEvent(f7Database), t.rowsEvent(30, row)}
}

func (e *f7Env) update(table string, i int, row []interface{}) [][]byte {
	e.srv.mu.Lock()
	defer e.srv.mu.Unlock()
	t := e.srv.tables[table]
	before := t.rows[i]
	t.rows[i] = row
	return [][]byte{t.tableMapEvent(f7Database), t.rowsEvent(31, before, row)}
}

func (e *f7Env) delete(table string, i int) [][]byte {
	e.srv.mu.Lock()
	defer e.srv.mu.Unlock()
	t := e.srv.tables[table]
	before := t.rows[i]
	t.rows = append(append([][]interface{}{}, t.rows[:i]...), t.rows[i+1:]...)
	return [][]byte{t.tableMapEvent(f7Database), t.rowsEvent(32, before)}
}

// f7Live is a live query kept by a rerunner; it records its latest result.
type f7Live struct {
	mu   sync.Mutex
	rows []interface{}
	err  error
	runs int
	stop func()
}

func (l *f7Live) snapshot() ([]interface{}, int, error) {
	l.mu.Lock()
	defer l.mu.Unlock()
	return l.rows, l.runs, l.err
}

func init() { reactive.WriteThenReadDelay = 0 }

func (e *f7Env) live(typ reflect.Type, filter sqlgen.Filter, opts func() *sqlgen.SelectOptions) *f7Live {
	l := &f7Live{}
	rr := reactive.NewRerunner(context.Background(), func(ctx context.Context) (interface{}, error) {
		res := reflect.New(reflect.SliceOf(reflect.PtrTo(typ)))
		var o *sqlgen.SelectOptions
		if opts != nil {
			o = opts()
		}
		err := e.ldb.Query(ctx, res.Interface(), filter, o)
		l.mu.Lock()
		l.runs++
		l.err = err
		l.rows = nil
		if err == nil {
			for i := 0; i < res.Elem().Len(); i++ {
				l.rows = append(l.rows, res.Elem().Index(i).Elem().Interface())
			}
		}
		l.mu.Unlock()
		return nil, nil
	}, time.Millisecond, false)
	l.stop = rr.Stop
	return l
}

func (e *f7Env) reference(typ reflect.Type, filter sqlgen.Filter, opts func() *sqlgen.SelectOptions) ([]interface{}, error) {
	res := reflect.New(reflect.SliceOf(reflect.PtrTo(typ)))
	var o *sqlgen.SelectOptions
	if opts != nil {
		o = opts()
	}
	if err := e.ldb.DB.Query(context.Background(), res.Interface(), filter, o); err != nil {
		return nil, err
	}
	var rows []interface{}
	for i := 0; i < res.Elem().Len(); i++ {
		rows = append(rows, res.Elem().Index(i).Elem().Interface())
	}
	return rows, nil
}

// settle waits until the live query holds what the database returns now.
func (e *f7Env) settle(l *f7Live, typ reflect.Type, filter sqlgen.Filter, opts func() *sqlgen.SelectOptions, timeout time.Duration) error {
	deadline := time.Now().Add(timeout)
	for {
		want, err := e.reference(typ, filter, opts)
		if err != nil {
			return fmt.Errorf("reference: %v", err)
		}
		got, runs, lerr := l.snapshot()
		if runs > 0 && lerr == nil && reflect.DeepEqual(got, want) {
			return nil
		}
		if time.Now().After(deadline) {
			return fmt.Errorf("live query holds %v (runs %d, err %v), database returns %v", f7Show(got), runs, lerr, f7Show(want))
		}
		time.Sleep(time.Millisecond)
	}
}

func f7Show(rows []interface{}) string {
	s := "["
	for i, r := range rows {
		if i > 0 {
			s += " "
		}
		s += fmt.Sprintf("%+v", r)
	}
	return s + "]"
}

// f7GeometryEvents is a table map and a write rows event of a table
// (id BIGINT, g GEOMETRY) with one row.
func f7GeometryEvents() [][]byte {
	var b bytes.Buffer
	b.Write(f7TableID(9))
	b.Write([]byte{1, 0})
	b.WriteByte(byte(len(f7Database)))
	b.WriteString(f7Database)
	b.WriteByte(0)
	b.WriteByte(6)
	b.WriteString("shapes")
	b.WriteByte(0)
	b.WriteByte(2)
	b.Write([]byte{8, 255}) // LONGLONG, GEOMETRY
	b.Write([]byte{1, 4})   // metadata: geometry pack length 4
	b.WriteByte(0xff)
	tm := f7Event(19, b.Bytes())

	var r bytes.Buffer
	r.Write(f7TableID(9))
	r.Write([]byte{1, 0})
	r.Write([]byte{2, 0})
	r.WriteByte(2)
	r.WriteByte(3)
	r.WriteByte(0) // null bitmap
	r.Write([]byte{1, 0, 0, 0, 0, 0, 0, 0})
	wkb := make([]byte, 25)
	r.Write([]byte{25, 0, 0, 0})
	r.Write(wkb)
	return [][]byte{tm, f7Event(30, r.Bytes())}
}
