package sqlgen

// find5: a dynamic limit registered without a ShouldContinueOnError callback
// is accepted by WithDynamicLimit (no error, and a second WithDynamicLimit is
// refused with "already has dynamic limit") but is never enforced: both check
// functions skip the dynamic limit unless BOTH callbacks are non-nil. With
// nobody to say "continue anyway", a failed check can only mean "reject";
// instead every statement goes through unchecked.

import (
	"context"
	"database/sql"
	"database/sql/driver"
	"errors"
	"fmt"
	"io"
	"strings"
	"sync"
	"testing"
)

type find5User struct {
	Id         int64 `sql:",primary"`
	CustomerId int64
	Name       string
}

func find5Setup(t *testing.T) (*DB, *find5Rec) {
	rec := &find5Rec{}
	schema := NewSchema()
	schema.MustRegisterType("users", UniqueId, find5User{})
	return NewDB(sql.OpenDB(rec), schema), rec
}

func TestFind5DynamicLimitWithoutErrorCallbackIsIgnored(t *testing.T) {
	ctx := context.Background()
	db, rec := find5Setup(t)

	asked := 0
	lim, err := db.WithDynamicLimit(DynamicLimit{
		GetLimitFilter: func(context.Context, string) Filter {
			asked++
			return Filter{"customer_id": int64(1)}
		},
		// ShouldContinueOnError left nil: nobody allows a failed check to continue.
	})
	if err != nil {
		// Refusing such a limit outright would be fine, too.
		t.Skipf("WithDynamicLimit refuses a limit without ShouldContinueOnError: %v", err)
	}
	if _, err := lim.WithDynamicLimit(DynamicLimit{GetLimitFilter: func(context.Context, string) Filter { return nil }}); err == nil {
		t.Errorf("handle does not even count as dynamically limited")
	}

	calls := []struct {
		name string
		call func() error
	}{
		{"Query(nil filter)", func() error { var out []*find5User; return lim.Query(ctx, &out, nil, nil) }},
		{"Query(customer_id = 2)", func() error {
			var out []*find5User
			return lim.Query(ctx, &out, Filter{"customer_id": int64(2)}, nil)
		}},
		{"Count(nil filter)", func() error { _, err := lim.Count(ctx, &find5User{}, nil); return err }},
		{"InsertRow(customer 2)", func() error { _, err := lim.InsertRow(ctx, &find5User{Id: 1, CustomerId: 2}); return err }},
		{"UpsertRow(customer 2)", func() error { _, err := lim.UpsertRow(ctx, &find5User{Id: 1, CustomerId: 2}); return err }},
		{"InsertRows(customer 2)", func() error { return lim.InsertRows(ctx, []*find5User{{Id: 1, CustomerId: 2}}, 10) }},
		{"UpdateRow(customer 2)", func() error { return lim.UpdateRow(ctx, &find5User{Id: 1, CustomerId: 2}) }},
		{"DeleteRow(id 1)", func() error { return lim.DeleteRow(ctx, &find5User{Id: 1, CustomerId: 2}) }},
	}
	for _, c := range calls {
		err := c.call()
		stmts := rec.take()
		if err == nil || len(stmts) != 0 {
			t.Errorf("handle with dynamic limit customer_id = 1 (GetLimitFilter set, ShouldContinueOnError nil): %s returned %v and sent %v; want an error and nothing sent (the limit callback was consulted %d times)",
				c.name, err, stmts, asked)
		}
	}
}

// ---------------------------------------------------------------------------
// Recording in-memory database/sql driver (no server): every statement that
// reaches the "database" is appended to find5Rec.stmts together with its
// arguments. SELECT COUNT(*) answers one row holding 0, every other query
// answers no rows, every Exec succeeds.
// ---------------------------------------------------------------------------

type find5Stmt struct {
	SQL  string
	Args []interface{}
}

func (s find5Stmt) String() string { return fmt.Sprintf("%q %v", s.SQL, s.Args) }

type find5Rec struct {
	mu    sync.Mutex
	stmts []find5Stmt
}

func (r *find5Rec) add(q string, nargs []driver.NamedValue) {
	r.mu.Lock()
	defer r.mu.Unlock()
	args := make([]interface{}, 0, len(nargs))
	for _, a := range nargs {
		args = append(args, a.Value)
	}
	r.stmts = append(r.stmts, find5Stmt{q, args})
}

// take returns the statements recorded so far and forgets them.
func (r *find5Rec) take() []find5Stmt {
	r.mu.Lock()
	defer r.mu.Unlock()
	s := r.stmts
	r.stmts = nil
	return s
}

func (r *find5Rec) Connect(context.Context) (driver.Conn, error) { return &find5Conn{r}, nil }
func (r *find5Rec) Driver() driver.Driver                        { return find5Drv{} }

type find5Drv struct{}

func (find5Drv) Open(string) (driver.Conn, error) { return nil, errors.New("use sql.OpenDB") }

type find5Conn struct{ r *find5Rec }

func (c *find5Conn) Prepare(string) (driver.Stmt, error) { return nil, errors.New("no prepare") }
func (c *find5Conn) Close() error                        { return nil }
func (c *find5Conn) Begin() (driver.Tx, error)           { return find5Tx{}, nil }
func (c *find5Conn) BeginTx(context.Context, driver.TxOptions) (driver.Tx, error) {
	return find5Tx{}, nil
}
func (c *find5Conn) QueryContext(_ context.Context, q string, args []driver.NamedValue) (driver.Rows, error) {
	c.r.add(q, args)
	if strings.HasPrefix(q, "SELECT COUNT(*)") {
		return &find5Rows{cols: []string{"n"}, rows: [][]driver.Value{{int64(0)}}}, nil
	}
	return &find5Rows{cols: []string{"x"}}, nil
}
func (c *find5Conn) ExecContext(_ context.Context, q string, args []driver.NamedValue) (driver.Result, error) {
	c.r.add(q, args)
	return driver.RowsAffected(1), nil
}

type find5Tx struct{}

func (find5Tx) Commit() error   { return nil }
func (find5Tx) Rollback() error { return nil }

type find5Rows struct {
	cols []string
	rows [][]driver.Value
	i    int
}

func (r *find5Rows) Columns() []string { return r.cols }
func (r *find5Rows) Close() error      { return nil }
func (r *find5Rows) Next(dest []driver.Value) error {
	if r.i >= len(r.rows) {
		return io.EOF
	}
	copy(dest, r.rows[r.i])
	r.i++
	return nil
}
