package sqlgen

// find8: the limit checks compare the limit's value with the filter's /
// row's value with the Go operator != on interface{} values. For a limit
// column whose values are not comparable in Go - a []byte column (a binary
// tenant id, a uuid), or any filter value written as a slice - that
// comparison PANICS ("comparing uncomparable type []uint8") instead of
// answering. A call that does not comply (another shard's key) does not
// "return an error": it brings the calling goroutine down; so does a call
// that complies. Nothing reaches the database.

import (
	"context"
	"database/sql"
	"database/sql/driver"
	"errors"
	"fmt"
	"io"
	"strings"
	"sync"
	"testing"
)

type find8Doc struct {
	Id     int64  `sql:",primary"`
	Tenant []byte // shard column
	Name   string
}

func find8Setup(t *testing.T) (*DB, *find8Rec) {
	rec := &find8Rec{}
	schema := NewSchema()
	schema.MustRegisterType("docs", UniqueId, find8Doc{})
	return NewDB(sql.OpenDB(rec), schema), rec
}

func find8Call(f func() error) (err error, panicked interface{}) {
	defer func() { panicked = recover() }()
	return f(), nil
}

func TestFind8UncomparableLimitValuePanics(t *testing.T) {
	ctx := context.Background()
	mine, other := []byte("tenant-1"), []byte("tenant-2")

	shard := func(db *DB) (*DB, error) { return db.WithShardLimit(Filter{"tenant": mine}) }
	dynamic := func(db *DB) (*DB, error) {
		return db.WithDynamicLimit(DynamicLimit{
			GetLimitFilter:        func(context.Context, string) Filter { return Filter{"tenant": mine} },
			ShouldContinueOnError: func(error, string) bool { return false },
		})
	}

	for _, l := range []struct {
		name  string
		limit func(*DB) (*DB, error)
	}{{"shard limit", shard}, {"dynamic limit that rejects", dynamic}} {
		db, rec := find8Setup(t)
		h, err := l.limit(db)
		if err != nil {
			t.Fatal(err)
		}
		calls := []struct {
			name     string
			complies bool
			call     func() error
		}{
			{"Query(tenant = other shard)", false, func() error { var out []*find8Doc; return h.Query(ctx, &out, Filter{"tenant": other}, nil) }},
			{"Count(tenant = other shard)", false, func() error { _, err := h.Count(ctx, &find8Doc{}, Filter{"tenant": other}); return err }},
			{"InsertRow(tenant = other shard)", false, func() error { _, err := h.InsertRow(ctx, &find8Doc{Id: 1, Tenant: other}); return err }},
			{"UpsertRow(tenant = other shard)", false, func() error { _, err := h.UpsertRow(ctx, &find8Doc{Id: 1, Tenant: other}); return err }},
			{"UpdateRow(tenant = other shard)", false, func() error { return h.UpdateRow(ctx, &find8Doc{Id: 1, Tenant: other}) }},
			{"InsertRows(tenant = other shard)", false, func() error { return h.InsertRows(ctx, []*find8Doc{{Id: 1, Tenant: other}}, 10) }},
			{"Query(tenant = own shard)", true, func() error { var out []*find8Doc; return h.Query(ctx, &out, Filter{"tenant": mine}, nil) }},
			{"InsertRow(tenant = own shard)", true, func() error { _, err := h.InsertRow(ctx, &find8Doc{Id: 1, Tenant: []byte("tenant-1")}); return err }},
		}
		for _, c := range calls {
			err, panicked := find8Call(c.call)
			stmts := rec.take()
			if panicked != nil {
				t.Errorf("%s with tenant = []byte(%q): %s panicked instead of returning (%v)", l.name, mine, c.name, panicked)
				continue
			}
			if !c.complies && (err == nil || len(stmts) != 0) {
				t.Errorf("%s: %s returned %v and sent %v; want an error and nothing sent", l.name, c.name, err, stmts)
			}
			// A complying call may be refused (over-strict) or sent; when sent it
			// must carry the own tenant.
			if c.complies && err == nil {
				for _, s := range stmts {
					found := false
					for _, a := range s.Args {
						if b, ok := a.([]byte); ok && string(b) == string(mine) {
							found = true
						}
					}
					if !found {
						t.Errorf("%s: %s sent %v without the own tenant", l.name, c.name, s)
					}
				}
			}
		}
	}
}

// ---------------------------------------------------------------------------
// Recording in-memory database/sql driver (no server): every statement that
// reaches the "database" is appended to find8Rec.stmts together with its
// arguments. SELECT COUNT(*) answers one row holding 0, every other query
// answers no rows, every Exec succeeds.
// ---------------------------------------------------------------------------

type find8Stmt struct {
	SQL  string
	Args []interface{}
}

func (s find8Stmt) String() string { return fmt.Sprintf("%q %v", s.SQL, s.Args) }

type find8Rec struct {
	mu    sync.Mutex
	stmts []find8Stmt
}

func (r *find8Rec) add(q string, nargs []driver.NamedValue) {
	r.mu.Lock()
	defer r.mu.Unlock()
	args := make([]interface{}, 0, len(nargs))
	for _, a := range nargs {
		args = append(args, a.Value)
	}
	r.stmts = append(r.stmts, find8Stmt{q, args})
}

// take returns the statements recorded so far and forgets them.
func (r *find8Rec) take() []find8Stmt {
	r.mu.Lock()
	defer r.mu.Unlock()
	s := r.stmts
	r.stmts = nil
	return s
}

func (r *find8Rec) Connect(context.Context) (driver.Conn, error) { return &find8Conn{r}, nil }
func (r *find8Rec) Driver() driver.Driver                        { return find8Drv{} }

type find8Drv struct{}

func (find8Drv) Open(string) (driver.Conn, error) { return nil, errors.New("use sql.OpenDB") }

type find8Conn struct{ r *find8Rec }

func (c *find8Conn) Prepare(string) (driver.Stmt, error) { return nil, errors.New("no prepare") }
func (c *find8Conn) Close() error                        { return nil }
func (c *find8Conn) Begin() (driver.Tx, error)           { return find8Tx{}, nil }
func (c *find8Conn) BeginTx(context.Context, driver.TxOptions) (driver.Tx, error) {
	return find8Tx{}, nil
}
func (c *find8Conn) QueryContext(_ context.Context, q string, args []driver.NamedValue) (driver.Rows, error) {
	c.r.add(q, args)
	if strings.HasPrefix(q, "SELECT COUNT(*)") {
		return &find8Rows{cols: []string{"n"}, rows: [][]driver.Value{{int64(0)}}}, nil
	}
	return &find8Rows{cols: []string{"x"}}, nil
}
func (c *find8Conn) ExecContext(_ context.Context, q string, args []driver.NamedValue) (driver.Result, error) {
	c.r.add(q, args)
	return driver.RowsAffected(1), nil
}

type find8Tx struct{}

func (find8Tx) Commit() error   { return nil }
func (find8Tx) Rollback() error { return nil }

type find8Rows struct {
	cols []string
	rows [][]driver.Value
	i    int
}

func (r *find8Rows) Columns() []string { return r.cols }
func (r *find8Rows) Close() error      { return nil }
func (r *find8Rows) Next(dest []driver.Value) error {
	if r.i >= len(r.rows) {
		return io.EOF
	}
	copy(dest, r.rows[r.i])
	r.i++
	return nil
}
