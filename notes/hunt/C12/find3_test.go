package sqlgen

// find3: the index names of SelectOptions.UseIndex / ForceIndex are written
// into the statement BEFORE the WHERE clause without being looked at. A "name"
// that closes the hint's parenthesis and opens a comment removes the WHERE
// (and with it the shard limit) from what the database executes, while the
// limit check - which only looks at the Filter - is satisfied.

import (
	"context"
	"database/sql"
	"database/sql/driver"
	"errors"
	"fmt"
	"io"
	"regexp"
	"strings"
	"sync"
	"testing"
)

type find3User struct {
	Id         int64 `sql:",primary"`
	CustomerId int64
	Name       string
}

func find3Setup(t *testing.T) (*DB, *find3Rec) {
	rec := &find3Rec{}
	schema := NewSchema()
	schema.MustRegisterType("users", UniqueId, find3User{})
	return NewDB(sql.OpenDB(rec), schema), rec
}

var find3Shape = regexp.MustCompile("^SELECT id, customer_id, name FROM users( (USE|FORCE) INDEX ?\\([A-Za-z0-9_`, ]*\\))? WHERE \\(?customer_id = \\?\\)?( |$)")

// find3Confined: nothing but a well-formed index hint may stand between the
// table and "WHERE customer_id = ?", and no comment may hide part of the text.
func find3Confined(s find3Stmt) (string, bool) {
	for _, marker := range []string{"--", "#", "/*"} {
		if i := strings.Index(s.SQL, marker); i >= 0 {
			return fmt.Sprintf("the database ignores everything from the comment at byte %d on: it executes %q", i, strings.TrimSpace(s.SQL[:i])), false
		}
	}
	if !find3Shape.MatchString(s.SQL) {
		return "the WHERE clause that follows the table and its index hint does not start with the limit", false
	}
	if len(s.Args) == 0 || s.Args[0] != int64(1) {
		return "limit value is not the first argument", false
	}
	return "", true
}

func TestFind3IndexHintRemovesShardLimit(t *testing.T) {
	ctx := context.Background()
	own := Filter{"customer_id": int64(1)}

	shard := func(db *DB) (*DB, error) { return db.WithShardLimit(Filter{"customer_id": int64(1)}) }
	dynamic := func(db *DB) (*DB, error) {
		return db.WithDynamicLimit(DynamicLimit{
			GetLimitFilter:        func(context.Context, string) Filter { return Filter{"customer_id": int64(1)} },
			ShouldContinueOnError: func(error, string) bool { return false },
		})
	}

	cases := []struct {
		name    string
		limit   func(*DB) (*DB, error)
		options *SelectOptions
		control bool
	}{
		{"control: plain FORCE INDEX", shard, &SelectOptions{ForceIndex: []string{"PRIMARY"}}, true},
		{"control: plain USE INDEX", shard, &SelectOptions{UseIndex: []string{"PRIMARY", "by_name"}, OrderBy: "id"}, true},
		// One placeholder is kept in front of the comment so that the number of
		// arguments still matches with server-side prepared statements.
		{"ForceIndex closes the hint and comments the WHERE out", shard, &SelectOptions{ForceIndex: []string{"PRIMARY) WHERE ? IS NOT NULL -- "}}, false},
		{"UseIndex closes the hint and comments the WHERE out", shard, &SelectOptions{UseIndex: []string{"PRIMARY) WHERE ? IS NOT NULL #"}}, false},
		{"ForceIndex, second name", shard, &SelectOptions{ForceIndex: []string{"PRIMARY", "by_name) WHERE ? IS NOT NULL -- "}}, false},
		{"dynamic limit that rejects", dynamic, &SelectOptions{ForceIndex: []string{"PRIMARY) WHERE ? IS NOT NULL -- "}}, false},
	}
	for _, c := range cases {
		t.Run(c.name, func(t *testing.T) {
			db, rec := find3Setup(t)
			h, err := c.limit(db)
			if err != nil {
				t.Fatal(err)
			}
			var out []*find3User
			err = h.Query(ctx, &out, own, c.options)
			stmts := rec.take()
			if err != nil {
				if len(stmts) != 0 {
					t.Errorf("returned error %v but touched the database: %v", err, stmts)
				}
				if c.control {
					t.Errorf("control call refused: %v", err)
				}
				return
			}
			if c.control && len(stmts) != 1 {
				t.Fatalf("control: want one statement, got %v", stmts)
			}
			for _, s := range stmts {
				if why, ok := find3Confined(s); !ok {
					t.Errorf("Query(filter %v, UseIndex %q, ForceIndex %q) on a handle limited to customer_id = 1 returned nil and sent\n\t%v\nwhich is not confined to the shard: %s",
						own, c.options.UseIndex, c.options.ForceIndex, s, why)
				}
			}
		})
	}
}

// ---------------------------------------------------------------------------
// Recording in-memory database/sql driver (no server): every statement that
// reaches the "database" is appended to find3Rec.stmts together with its
// arguments. SELECT COUNT(*) answers one row holding 0, every other query
// answers no rows, every Exec succeeds.
// ---------------------------------------------------------------------------

type find3Stmt struct {
	SQL  string
	Args []interface{}
}

func (s find3Stmt) String() string { return fmt.Sprintf("%q %v", s.SQL, s.Args) }

type find3Rec struct {
	mu    sync.Mutex
	stmts []find3Stmt
}

func (r *find3Rec) add(q string, nargs []driver.NamedValue) {
	r.mu.Lock()
	defer r.mu.Unlock()
	args := make([]interface{}, 0, len(nargs))
	for _, a := range nargs {
		args = append(args, a.Value)
	}
	r.stmts = append(r.stmts, find3Stmt{q, args})
}

// take returns the statements recorded so far and forgets them.
func (r *find3Rec) take() []find3Stmt {
	r.mu.Lock()
	defer r.mu.Unlock()
	s := r.stmts
	r.stmts = nil
	return s
}

func (r *find3Rec) Connect(context.Context) (driver.Conn, error) { return &find3Conn{r}, nil }
func (r *find3Rec) Driver() driver.Driver                        { return find3Drv{} }

type find3Drv struct{}

func (find3Drv) Open(string) (driver.Conn, error) { return nil, errors.New("use sql.OpenDB") }

type find3Conn struct{ r *find3Rec }

func (c *find3Conn) Prepare(string) (driver.Stmt, error) { return nil, errors.New("no prepare") }
func (c *find3Conn) Close() error                        { return nil }
func (c *find3Conn) Begin() (driver.Tx, error)           { return find3Tx{}, nil }
func (c *find3Conn) BeginTx(context.Context, driver.TxOptions) (driver.Tx, error) {
	return find3Tx{}, nil
}
func (c *find3Conn) QueryContext(_ context.Context, q string, args []driver.NamedValue) (driver.Rows, error) {
	c.r.add(q, args)
	if strings.HasPrefix(q, "SELECT COUNT(*)") {
		return &find3Rows{cols: []string{"n"}, rows: [][]driver.Value{{int64(0)}}}, nil
	}
	return &find3Rows{cols: []string{"x"}}, nil
}
func (c *find3Conn) ExecContext(_ context.Context, q string, args []driver.NamedValue) (driver.Result, error) {
	c.r.add(q, args)
	return driver.RowsAffected(1), nil
}

type find3Tx struct{}

func (find3Tx) Commit() error   { return nil }
func (find3Tx) Rollback() error { return nil }

type find3Rows struct {
	cols []string
	rows [][]driver.Value
	i    int
}

func (r *find3Rows) Columns() []string { return r.cols }
func (r *find3Rows) Close() error      { return nil }
func (r *find3Rows) Next(dest []driver.Value) error {
	if r.i >= len(r.rows) {
		return io.EOF
	}
	copy(dest, r.rows[r.i])
	r.i++
	return nil
}
