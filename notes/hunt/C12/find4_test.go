package sqlgen

// find4: SelectOptions.Where and SelectOptions.OrderBy may hold a subquery.
// The outer SELECT keeps "(customer_id = ?) AND (...)", so the limit check and
// a look at the top level of the WHERE are both satisfied, but the nested
// SELECT reads the table without any limit: which rows of the own shard come
// back (Where), or in which order (OrderBy), is a function of rows of another
// shard - a read outside the shard through a limited handle.

import (
	"context"
	"database/sql"
	"database/sql/driver"
	"errors"
	"fmt"
	"io"
	"regexp"
	"strings"
	"sync"
	"testing"
)

type find4User struct {
	Id         int64 `sql:",primary"`
	CustomerId int64
	Name       string
}

func find4Setup(t *testing.T) (*DB, *find4Rec) {
	rec := &find4Rec{}
	schema := NewSchema()
	schema.MustRegisterType("users", UniqueId, find4User{})
	return NewDB(sql.OpenDB(rec), schema), rec
}

var find4Select = regexp.MustCompile(`(?i)\bSELECT\b`)

func TestFind4SubqueryReadsOtherShard(t *testing.T) {
	ctx := context.Background()
	own := Filter{"customer_id": int64(1)}

	shard := func(db *DB) (*DB, error) { return db.WithShardLimit(Filter{"customer_id": int64(1)}) }
	dynamic := func(db *DB) (*DB, error) {
		return db.WithDynamicLimit(DynamicLimit{
			GetLimitFilter:        func(context.Context, string) Filter { return Filter{"customer_id": int64(1)} },
			ShouldContinueOnError: func(error, string) bool { return false },
		})
	}

	cases := []struct {
		name    string
		limit   func(*DB) (*DB, error)
		options *SelectOptions
		control bool
	}{
		{"control: Where and OrderBy without subquery", shard, &SelectOptions{Where: "name IN (?, ?)", Values: []interface{}{"a", "b"}, OrderBy: "name DESC"}, true},
		{"Where EXISTS (SELECT ... customer_id = 2)", shard,
			&SelectOptions{Where: "EXISTS (SELECT 1 FROM users o WHERE o.customer_id = 2 AND o.name LIKE ?)", Values: []interface{}{"a%"}}, false},
		{"Where id IN (SELECT ...)", shard,
			&SelectOptions{Where: "id IN (SELECT o.id - 1000 FROM users o WHERE o.customer_id = 2)"}, false},
		{"lower-case select", shard,
			&SelectOptions{Where: "name = (select o.name from users o where o.id = 7)"}, false},
		{"OrderBy (SELECT ...)", shard,
			&SelectOptions{OrderBy: "(SELECT COUNT(*) FROM users o WHERE o.customer_id = 2 AND o.name < users.name)"}, false},
		{"dynamic limit that rejects, Where EXISTS", dynamic,
			&SelectOptions{Where: "EXISTS (SELECT 1 FROM users o WHERE o.customer_id = 2)"}, false},
	}
	for _, c := range cases {
		t.Run(c.name, func(t *testing.T) {
			db, rec := find4Setup(t)
			h, err := c.limit(db)
			if err != nil {
				t.Fatal(err)
			}
			where, orderBy := c.options.Where, c.options.OrderBy
			var out []*find4User
			err = h.Query(ctx, &out, own, c.options)
			stmts := rec.take()
			if err != nil {
				if len(stmts) != 0 {
					t.Errorf("returned error %v but touched the database: %v", err, stmts)
				}
				if c.control {
					t.Errorf("control call refused: %v", err)
				}
				return
			}
			if c.control && len(stmts) != 1 {
				t.Fatalf("control: want one statement, got %v", stmts)
			}
			for _, s := range stmts {
				if !strings.Contains(s.SQL, "customer_id = ?") {
					t.Errorf("no limit at all in %v", s)
				}
				if n := len(find4Select.FindAllString(s.SQL, -1)); n > 1 {
					t.Errorf("Query(filter %v, Where %q, OrderBy %q) on a handle limited to customer_id = 1 returned nil and sent\n\t%v\nwhich holds %d SELECTs: the nested one reads users rows that do not have to satisfy customer_id = 1",
						own, where, orderBy, s, n)
				}
			}
		})
	}
}

// ---------------------------------------------------------------------------
// Recording in-memory database/sql driver (no server): every statement that
// reaches the "database" is appended to find4Rec.stmts together with its
// arguments. SELECT COUNT(*) answers one row holding 0, every other query
// answers no rows, every Exec succeeds.
// ---------------------------------------------------------------------------

type find4Stmt struct {
	SQL  string
	Args []interface{}
}

func (s find4Stmt) String() string { return fmt.Sprintf("%q %v", s.SQL, s.Args) }

type find4Rec struct {
	mu    sync.Mutex
	stmts []find4Stmt
}

func (r *find4Rec) add(q string, nargs []driver.NamedValue) {
	r.mu.Lock()
	defer r.mu.Unlock()
	args := make([]interface{}, 0, len(nargs))
	for _, a := range nargs {
		args = append(args, a.Value)
	}
	r.stmts = append(r.stmts, find4Stmt{q, args})
}

// take returns the statements recorded so far and forgets them.
func (r *find4Rec) take() []find4Stmt {
	r.mu.Lock()
	defer r.mu.Unlock()
	s := r.stmts
	r.stmts = nil
	return s
}

func (r *find4Rec) Connect(context.Context) (driver.Conn, error) { return &find4Conn{r}, nil }
func (r *find4Rec) Driver() driver.Driver                        { return find4Drv{} }

type find4Drv struct{}

func (find4Drv) Open(string) (driver.Conn, error) { return nil, errors.New("use sql.OpenDB") }

type find4Conn struct{ r *find4Rec }

func (c *find4Conn) Prepare(string) (driver.Stmt, error) { return nil, errors.New("no prepare") }
func (c *find4Conn) Close() error                        { return nil }
func (c *find4Conn) Begin() (driver.Tx, error)           { return find4Tx{}, nil }
func (c *find4Conn) BeginTx(context.Context, driver.TxOptions) (driver.Tx, error) {
	return find4Tx{}, nil
}
func (c *find4Conn) QueryContext(_ context.Context, q string, args []driver.NamedValue) (driver.Rows, error) {
	c.r.add(q, args)
	if strings.HasPrefix(q, "SELECT COUNT(*)") {
		return &find4Rows{cols: []string{"n"}, rows: [][]driver.Value{{int64(0)}}}, nil
	}
	return &find4Rows{cols: []string{"x"}}, nil
}
func (c *find4Conn) ExecContext(_ context.Context, q string, args []driver.NamedValue) (driver.Result, error) {
	c.r.add(q, args)
	return driver.RowsAffected(1), nil
}

type find4Tx struct{}

func (find4Tx) Commit() error   { return nil }
func (find4Tx) Rollback() error { return nil }

type find4Rows struct {
	cols []string
	rows [][]driver.Value
	i    int
}

func (r *find4Rows) Columns() []string { return r.cols }
func (r *find4Rows) Close() error      { return nil }
func (r *find4Rows) Next(dest []driver.Value) error {
	if r.i >= len(r.rows) {
		return io.EOF
	}
	copy(dest, r.rows[r.i])
	r.i++
	return nil
}
