package livesql

// find10 (goes into livesql/, package livesql - it feeds the tracker directly):
// LiveDB.AddDependency never looks at the limit of the sqlgen.DB the LiveDB
// wraps. A LiveDB over a handle limited to customer_id = 1 can register the
// dependency {users, no filter} (or {users, customer_id = 2}); the call returns
// nil and from then on the rerunner is invalidated by every change to rows of
// OTHER shards. No statement reaches the database, so this is outside the
// letter of the "statements" oracle, but it lets a limited handle observe
// (when, how often) another shard's rows change - the Query that would set up
// the same dependency is refused.

import (
	"context"
	"database/sql"
	"database/sql/driver"
	"errors"
	"testing"
	"time"

	"github.com/samsarahq/thunder/reactive"
	"github.com/samsarahq/thunder/sqlgen"
)

type find10User struct {
	Id         int64 `sql:",primary"`
	CustomerId int64
	Name       string
}

type find10Connector struct{}

func (find10Connector) Connect(context.Context) (driver.Conn, error) {
	return nil, errors.New("find10: no statement is expected to reach the database")
}
func (find10Connector) Driver() driver.Driver { return find10Driver{} }

type find10Driver struct{}

func (find10Driver) Open(string) (driver.Conn, error) { return nil, errors.New("use sql.OpenDB") }

func TestFind10AddDependencyIgnoresShardLimit(t *testing.T) {
	schema := sqlgen.NewSchema()
	schema.MustRegisterType("users", sqlgen.UniqueId, find10User{})
	base := NewLiveDB(sqlgen.NewDB(sql.OpenDB(find10Connector{}), schema))
	lim, err := base.DB.WithShardLimit(sqlgen.Filter{"customer_id": int64(1)})
	if err != nil {
		t.Fatal(err)
	}
	limited := *base
	limited.DB = lim

	for _, dep := range []QueryDependency{
		{Table: "users", Filter: sqlgen.Filter{}},
		{Table: "users", Filter: sqlgen.Filter{"customer_id": int64(2)}},
	} {
		dep := dep
		// The equivalent Query is refused.
		var out []*find10User
		if err := limited.Query(context.Background(), &out, dep.Filter, nil); err == nil {
			t.Fatalf("Query(%v) accepted on the limited handle", dep.Filter)
		}

		runs := make(chan error, 10)
		rerunner := reactive.NewRerunner(context.Background(), func(ctx context.Context) (interface{}, error) {
			runs <- limited.AddDependency(ctx, dep)
			return nil, nil
		}, time.Millisecond, false)

		var addErr error
		select {
		case addErr = <-runs:
		case <-time.After(10 * time.Second):
			t.Fatal("rerunner did not run")
		}
		if addErr != nil {
			rerunner.Stop()
			continue // refused: fine
		}

		// A row of customer 2 changes.
		base.tracker.processBinlog(&update{table: "users", deltas: []delta{{
			before: &find10User{Id: 5, CustomerId: 2, Name: "old"},
			after:  &find10User{Id: 5, CustomerId: 2, Name: "new"},
		}}})

		select {
		case <-runs:
			t.Errorf("LiveDB over a handle limited to customer_id = 1: AddDependency(%+v) returned nil, and a change to the users row {id:5 customer_id:2} then invalidated and re-ran the computation: the limited handle observes changes outside its shard (Query with the same filter is refused)", dep)
		case <-time.After(500 * time.Millisecond):
		}
		rerunner.Stop()
	}
}
