package sqlgen

// find1: UpdateRow on a shard-limited handle sends an UPDATE whose WHERE holds
// the primary key only. When the limit column is not part of the primary key,
// the limit value is only one of the SET assignments: the row that is updated
// is whichever row has that primary key, in whatever shard it lives, and it is
// moved into the handle's shard on top of being overwritten.

import (
	"context"
	"database/sql"
	"database/sql/driver"
	"errors"
	"fmt"
	"io"
	"regexp"
	"strings"
	"sync"
	"testing"
)

type find1User struct {
	Id         int64 `sql:",primary"`
	CustomerId int64
	Region     *string
	Name       string
}

// find1Order has one of the two limit columns in its primary key.
type find1Order struct {
	CustomerId int64 `sql:",primary"`
	Id         int64 `sql:",primary"`
	Region     *string
	Name       string
}

func find1Setup(t *testing.T) (*DB, *find1Rec) {
	rec := &find1Rec{}
	schema := NewSchema()
	schema.MustRegisterType("users", UniqueId, find1User{})
	schema.MustRegisterType("orders", UniqueId, find1Order{})
	return NewDB(sql.OpenDB(rec), schema), rec
}

// find1WhereHas reports whether the WHERE clause of an UPDATE/DELETE statement
// has "column = ?" (or "column IS ?" for a nil value) as a top-level conjunct
// bound to want.
func find1WhereHas(s find1Stmt, column string, want interface{}) bool {
	idx := strings.Index(s.SQL, " WHERE ")
	if idx < 0 {
		return false
	}
	head, where := s.SQL[:idx], s.SQL[idx+len(" WHERE "):]
	argi := strings.Count(head, "?")
	re := regexp.MustCompile(`^` + regexp.QuoteMeta(column) + ` ?(=|IS|<=>) ?\?$`)
	for _, conj := range strings.Split(where, " AND ") {
		conj = strings.Trim(conj, " ()")
		if want == nil && conj == column+" IS NULL" {
			return true
		}
		if re.MatchString(conj) && argi < len(s.Args) && s.Args[argi] == want {
			return true
		}
		argi += strings.Count(conj, "?")
	}
	return false
}

func find1Check(t *testing.T, label string, err error, stmts []find1Stmt, limit Filter) {
	t.Helper()
	if err != nil {
		if len(stmts) != 0 {
			t.Errorf("%s: returned error %v but touched the database: %v", label, err, stmts)
		}
		return // refusing is fine
	}
	for _, s := range stmts {
		for column, value := range limit {
			if !find1WhereHas(s, column, value) {
				t.Errorf("%s: UpdateRow returned nil and sent\n\t%v\nwhose WHERE does not confine the updated row to %s = %v: a row with this primary key in ANOTHER shard is overwritten and moved into this shard",
					label, s, column, value)
			}
		}
	}
}

func TestFind1UpdateRowWhereLacksShardLimit(t *testing.T) {
	ctx := context.Background()

	t.Run("shard limit, one column", func(t *testing.T) {
		db, rec := find1Setup(t)
		limit := Filter{"customer_id": int64(1)}
		lim, err := db.WithShardLimit(limit)
		if err != nil {
			t.Fatal(err)
		}
		// In the database, users row id=5 may well belong to customer 2.
		err = lim.UpdateRow(ctx, &find1User{Id: 5, CustomerId: 1, Name: "mine now"})
		find1Check(t, "WithShardLimit{customer_id:1}.UpdateRow(users id=5)", err, rec.take(), limit)
	})

	t.Run("shard limit, two columns, one in the primary key", func(t *testing.T) {
		db, rec := find1Setup(t)
		limit := Filter{"customer_id": int64(1), "region": nil}
		lim, err := db.WithShardLimit(limit)
		if err != nil {
			t.Fatal(err)
		}
		err = lim.UpdateRow(ctx, &find1Order{CustomerId: 1, Id: 5, Name: "x"})
		find1Check(t, "WithShardLimit{customer_id:1, region:nil}.UpdateRow(orders 1/5)", err, rec.take(), limit)
	})

	t.Run("dynamic limit that rejects", func(t *testing.T) {
		db, rec := find1Setup(t)
		limit := Filter{"customer_id": int64(1)}
		lim, err := db.WithDynamicLimit(DynamicLimit{
			GetLimitFilter:        func(context.Context, string) Filter { return limit },
			ShouldContinueOnError: func(error, string) bool { return false },
		})
		if err != nil {
			t.Fatal(err)
		}
		err = lim.UpdateRow(ctx, &find1User{Id: 5, CustomerId: 1, Name: "mine now"})
		find1Check(t, "WithDynamicLimit{customer_id:1, reject}.UpdateRow(users id=5)", err, rec.take(), limit)
	})

	t.Run("inside a transaction of an unlimited handle", func(t *testing.T) {
		db, rec := find1Setup(t)
		limit := Filter{"customer_id": int64(1)}
		tctx, tx, err := db.WithTx(ctx)
		if err != nil {
			t.Fatal(err)
		}
		defer tx.Rollback()
		lim, err := db.WithShardLimit(limit)
		if err != nil {
			t.Fatal(err)
		}
		err = lim.UpdateRow(tctx, &find1User{Id: 5, CustomerId: 1, Name: "mine now"})
		find1Check(t, "tx; WithShardLimit{customer_id:1}.UpdateRow(users id=5)", err, rec.take(), limit)
	})
}

// ---------------------------------------------------------------------------
// Recording in-memory database/sql driver (no server): every statement that
// reaches the "database" is appended to find1Rec.stmts together with its
// arguments. SELECT COUNT(*) answers one row holding 0, every other query
// answers no rows, every Exec succeeds.
// ---------------------------------------------------------------------------

type find1Stmt struct {
	SQL  string
	Args []interface{}
}

func (s find1Stmt) String() string { return fmt.Sprintf("%q %v", s.SQL, s.Args) }

type find1Rec struct {
	mu    sync.Mutex
	stmts []find1Stmt
}

func (r *find1Rec) add(q string, nargs []driver.NamedValue) {
	r.mu.Lock()
	defer r.mu.Unlock()
	args := make([]interface{}, 0, len(nargs))
	for _, a := range nargs {
		args = append(args, a.Value)
	}
	r.stmts = append(r.stmts, find1Stmt{q, args})
}

// take returns the statements recorded so far and forgets them.
func (r *find1Rec) take() []find1Stmt {
	r.mu.Lock()
	defer r.mu.Unlock()
	s := r.stmts
	r.stmts = nil
	return s
}

func (r *find1Rec) Connect(context.Context) (driver.Conn, error) { return &find1Conn{r}, nil }
func (r *find1Rec) Driver() driver.Driver                        { return find1Drv{} }

type find1Drv struct{}

func (find1Drv) Open(string) (driver.Conn, error) { return nil, errors.New("use sql.OpenDB") }

type find1Conn struct{ r *find1Rec }

func (c *find1Conn) Prepare(string) (driver.Stmt, error) { return nil, errors.New("no prepare") }
func (c *find1Conn) Close() error                        { return nil }
func (c *find1Conn) Begin() (driver.Tx, error)           { return find1Tx{}, nil }
func (c *find1Conn) BeginTx(context.Context, driver.TxOptions) (driver.Tx, error) {
	return find1Tx{}, nil
}
func (c *find1Conn) QueryContext(_ context.Context, q string, args []driver.NamedValue) (driver.Rows, error) {
	c.r.add(q, args)
	if strings.HasPrefix(q, "SELECT COUNT(*)") {
		return &find1Rows{cols: []string{"n"}, rows: [][]driver.Value{{int64(0)}}}, nil
	}
	return &find1Rows{cols: []string{"x"}}, nil
}
func (c *find1Conn) ExecContext(_ context.Context, q string, args []driver.NamedValue) (driver.Result, error) {
	c.r.add(q, args)
	return driver.RowsAffected(1), nil
}

type find1Tx struct{}

func (find1Tx) Commit() error   { return nil }
func (find1Tx) Rollback() error { return nil }

type find1Rows struct {
	cols []string
	rows [][]driver.Value
	i    int
}

func (r *find1Rows) Columns() []string { return r.cols }
func (r *find1Rows) Close() error      { return nil }
func (r *find1Rows) Next(dest []driver.Value) error {
	if r.i >= len(r.rows) {
		return io.EOF
	}
	copy(dest, r.rows[r.i])
	r.i++
	return nil
}
