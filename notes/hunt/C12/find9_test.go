package sqlgen

// find9: SelectOptions.OrderBy is appended to the statement as is. An OrderBy
// text that ends the SELECT and goes on with another statement hands the
// database, through the limited handle, a statement of its own that carries no
// limit at all (it executes where the connection allows several statements
// per call, e.g. go-sql-driver/mysql with multiStatements=true; elsewhere the
// database sees it and rejects it). A UNION branch can be appended the same
// way (MySQL refuses ORDER BY before UNION, so that spelling only reaches the
// parser). The limit check only looks at the Filter and is satisfied.

import (
	"context"
	"database/sql"
	"database/sql/driver"
	"errors"
	"fmt"
	"io"
	"regexp"
	"strings"
	"sync"
	"testing"
)

type find9User struct {
	Id         int64 `sql:",primary"`
	CustomerId int64
	Name       string
}

func find9Setup(t *testing.T) (*DB, *find9Rec) {
	rec := &find9Rec{}
	schema := NewSchema()
	schema.MustRegisterType("users", UniqueId, find9User{})
	return NewDB(sql.OpenDB(rec), schema), rec
}

var find9Second = regexp.MustCompile(`(?i);|\bUNION\b`)

func TestFind9OrderByCarriesUnlimitedStatement(t *testing.T) {
	ctx := context.Background()
	own := Filter{"customer_id": int64(1)}
	cases := []struct {
		name    string
		options *SelectOptions
		control bool
	}{
		{"control: ORDER BY two columns", &SelectOptions{OrderBy: "name DESC, id", Limit: 3}, true},
		{"second statement after ;", &SelectOptions{OrderBy: "id; DELETE FROM users WHERE customer_id = 2"}, false},
		{"second statement, rest commented out", &SelectOptions{OrderBy: "id; UPDATE users SET name = '' -- ", Limit: 1, ForUpdate: true}, false},
		{"UNION branch of another shard", &SelectOptions{OrderBy: "id UNION ALL SELECT id, customer_id, name FROM users WHERE customer_id = 2"}, false},
	}
	for _, c := range cases {
		t.Run(c.name, func(t *testing.T) {
			db, rec := find9Setup(t)
			h, err := db.WithShardLimit(Filter{"customer_id": int64(1)})
			if err != nil {
				t.Fatal(err)
			}
			var out []*find9User
			err = h.Query(ctx, &out, own, c.options)
			stmts := rec.take()
			if err != nil {
				if len(stmts) != 0 {
					t.Errorf("returned error %v but touched the database: %v", err, stmts)
				}
				if c.control {
					t.Errorf("control call refused: %v", err)
				}
				return
			}
			if c.control && len(stmts) != 1 {
				t.Fatalf("control: want one statement, got %v", stmts)
			}
			for _, s := range stmts {
				if !strings.Contains(s.SQL, "WHERE customer_id = ?") {
					t.Errorf("no limit at all in %v", s)
				}
				if m := find9Second.FindStringIndex(s.SQL); m != nil {
					t.Errorf("Query(filter %v, OrderBy %q) on a handle limited to customer_id = 1 returned nil and sent\n\t%v\nwhose part from %q on is a statement / branch of its own that is not confined to customer_id = 1",
						own, c.options.OrderBy, s, s.SQL[m[0]:])
				}
			}
		})
	}
}

// ---------------------------------------------------------------------------
// Recording in-memory database/sql driver (no server): every statement that
// reaches the "database" is appended to find9Rec.stmts together with its
// arguments. SELECT COUNT(*) answers one row holding 0, every other query
// answers no rows, every Exec succeeds.
// ---------------------------------------------------------------------------

type find9Stmt struct {
	SQL  string
	Args []interface{}
}

func (s find9Stmt) String() string { return fmt.Sprintf("%q %v", s.SQL, s.Args) }

type find9Rec struct {
	mu    sync.Mutex
	stmts []find9Stmt
}

func (r *find9Rec) add(q string, nargs []driver.NamedValue) {
	r.mu.Lock()
	defer r.mu.Unlock()
	args := make([]interface{}, 0, len(nargs))
	for _, a := range nargs {
		args = append(args, a.Value)
	}
	r.stmts = append(r.stmts, find9Stmt{q, args})
}

// take returns the statements recorded so far and forgets them.
func (r *find9Rec) take() []find9Stmt {
	r.mu.Lock()
	defer r.mu.Unlock()
	s := r.stmts
	r.stmts = nil
	return s
}

func (r *find9Rec) Connect(context.Context) (driver.Conn, error) { return &find9Conn{r}, nil }
func (r *find9Rec) Driver() driver.Driver                        { return find9Drv{} }

type find9Drv struct{}

func (find9Drv) Open(string) (driver.Conn, error) { return nil, errors.New("use sql.OpenDB") }

type find9Conn struct{ r *find9Rec }

func (c *find9Conn) Prepare(string) (driver.Stmt, error) { return nil, errors.New("no prepare") }
func (c *find9Conn) Close() error                        { return nil }
func (c *find9Conn) Begin() (driver.Tx, error)           { return find9Tx{}, nil }
func (c *find9Conn) BeginTx(context.Context, driver.TxOptions) (driver.Tx, error) {
	return find9Tx{}, nil
}
func (c *find9Conn) QueryContext(_ context.Context, q string, args []driver.NamedValue) (driver.Rows, error) {
	c.r.add(q, args)
	if strings.HasPrefix(q, "SELECT COUNT(*)") {
		return &find9Rows{cols: []string{"n"}, rows: [][]driver.Value{{int64(0)}}}, nil
	}
	return &find9Rows{cols: []string{"x"}}, nil
}
func (c *find9Conn) ExecContext(_ context.Context, q string, args []driver.NamedValue) (driver.Result, error) {
	c.r.add(q, args)
	return driver.RowsAffected(1), nil
}

type find9Tx struct{}

func (find9Tx) Commit() error   { return nil }
func (find9Tx) Rollback() error { return nil }

type find9Rows struct {
	cols []string
	rows [][]driver.Value
	i    int
}

func (r *find9Rows) Columns() []string { return r.cols }
func (r *find9Rows) Close() error      { return nil }
func (r *find9Rows) Next(dest []driver.Value) error {
	if r.i >= len(r.rows) {
		return io.EOF
	}
	copy(dest, r.rows[r.i])
	r.i++
	return nil
}
