package sqlgen

// find2: SelectOptions.Where is spliced into the statement as
//     (<filter>) AND (<Where>)
// without looking at it. A Where text that closes the parenthesis itself
// ("1=1) OR (1=1", "...) OR 1=1 -- ", "...) UNION SELECT ... WHERE (1=1")
// turns the limit into one branch of a top-level OR / UNION: the filter check
// passes (the filter does hold customer_id = 1), the call returns nil, and the
// statement that reaches the database reads every shard.

import (
	"context"
	"database/sql"
	"database/sql/driver"
	"errors"
	"fmt"
	"io"
	"regexp"
	"strings"
	"sync"
	"testing"
)

type find2User struct {
	Id         int64 `sql:",primary"`
	CustomerId int64
	Name       string
}

func find2Setup(t *testing.T) (*DB, *find2Rec) {
	rec := &find2Rec{}
	schema := NewSchema()
	schema.MustRegisterType("users", UniqueId, find2User{})
	return NewDB(sql.OpenDB(rec), schema), rec
}

// find2TopLevel returns the part of the statement after WHERE with every
// parenthesised group replaced by "()"; ok is false when a parenthesis closes
// that was never opened.
func find2TopLevel(stmt string) (top string, ok bool) {
	idx := strings.Index(stmt, " WHERE ")
	if idx < 0 {
		return "", true
	}
	var b strings.Builder
	depth := 0
	for _, c := range stmt[idx+len(" WHERE "):] {
		switch c {
		case '(':
			if depth == 0 {
				b.WriteString("()")
			}
			depth++
		case ')':
			depth--
			if depth < 0 {
				return b.String(), false
			}
		default:
			if depth == 0 {
				b.WriteRune(c)
			}
		}
	}
	return b.String(), depth == 0
}

var find2Escape = regexp.MustCompile(`(?i)\b(OR|XOR|UNION)\b|\|\||--|#|/\*`)

// find2Confined: the WHERE must be a top-level conjunction one member of which
// is the limit, so nothing at the top level may be an OR / UNION or start a
// comment (which would swallow the rest of the statement).
func find2Confined(s find2Stmt) (string, bool) {
	top, ok := find2TopLevel(s.SQL)
	if !ok {
		return "unbalanced parentheses", false
	}
	if m := find2Escape.FindString(top); m != "" {
		return fmt.Sprintf("top level of the WHERE is %q, which has %q next to the limit instead of AND-ing everything with it", top, m), false
	}
	if !strings.Contains(top, "customer_id = ?") && !strings.HasPrefix(top, "() AND ") {
		return fmt.Sprintf("top level of the WHERE is %q: no limit conjunct", top), false
	}
	if len(s.Args) == 0 || s.Args[0] != int64(1) {
		return "limit value is not the first argument", false
	}
	return "", true
}

func TestFind2WhereOptionEscapesShardLimit(t *testing.T) {
	ctx := context.Background()
	own := Filter{"customer_id": int64(1)}

	type call func(h *DB, o *SelectOptions) error
	query := func(h *DB, o *SelectOptions) error {
		var out []*find2User
		return h.Query(ctx, &out, own, o)
	}
	queryRow := func(h *DB, o *SelectOptions) error {
		var out *find2User
		err := h.QueryRow(ctx, &out, own, o)
		if err == sql.ErrNoRows {
			err = nil
		}
		return err
	}
	fullScan := func(h *DB, o *SelectOptions) error {
		var out []*find2User
		return h.FullScanQuery(ctx, &out, own, o)
	}

	shard := func(db *DB) (*DB, error) { return db.WithShardLimit(Filter{"customer_id": int64(1)}) }
	dynamic := func(db *DB) (*DB, error) {
		return db.WithDynamicLimit(DynamicLimit{
			GetLimitFilter:        func(context.Context, string) Filter { return Filter{"customer_id": int64(1)} },
			ShouldContinueOnError: func(error, string) bool { return false },
		})
	}

	cases := []struct {
		name    string
		limit   func(*DB) (*DB, error)
		call    call
		options *SelectOptions
		control bool // must stay confined and be accepted
	}{
		{"control: OR inside the parentheses", shard, query, &SelectOptions{Where: "name = ? OR 1=1", Values: []interface{}{"a"}}, true},
		{"Query, Where closes the parenthesis then OR", shard, query, &SelectOptions{Where: "1=1) OR (1=1"}, false},
		{"Query, lower-case or", shard, query, &SelectOptions{Where: "1=1) or (1=1"}, false},
		{"Query, || spelling", shard, query, &SelectOptions{Where: "1=1) || (1=1"}, false},
		{"Query, trailing -- comment", shard, query, &SelectOptions{Where: "name = ?) OR 1=1 -- ", Values: []interface{}{"a"}}, false},
		{"Query, trailing # comment", shard, query, &SelectOptions{Where: "1=1) OR 1=1 #"}, false},
		{"Query, UNION of another shard", shard, query, &SelectOptions{Where: "1=0) UNION SELECT id, customer_id, name FROM users WHERE (customer_id = 2"}, false},
		{"QueryRow, OR", shard, queryRow, &SelectOptions{Where: "1=1) OR (1=1", Limit: 1}, false},
		{"FullScanQuery, OR", shard, fullScan, &SelectOptions{Where: "1=1) OR (1=1", ForUpdate: true}, false},
		{"dynamic limit that rejects, OR", dynamic, query, &SelectOptions{Where: "1=1) OR (1=1"}, false},
	}
	for _, c := range cases {
		t.Run(c.name, func(t *testing.T) {
			db, rec := find2Setup(t)
			h, err := c.limit(db)
			if err != nil {
				t.Fatal(err)
			}
			where := c.options.Where
			err = c.call(h, c.options)
			stmts := rec.take()
			if err != nil {
				if len(stmts) != 0 {
					t.Errorf("returned error %v but touched the database: %v", err, stmts)
				}
				if c.control {
					t.Errorf("control call refused: %v", err)
				}
				return
			}
			if c.control && len(stmts) != 1 {
				t.Fatalf("control: want one statement, got %v", stmts)
			}
			for _, s := range stmts {
				if why, ok := find2Confined(s); !ok {
					t.Errorf("filter %v, SelectOptions.Where %q on a handle limited to customer_id = 1: call returned nil and sent\n\t%v\nwhich is not confined to the shard: %s", own, where, s, why)
				}
			}
		})
	}
}

// ---------------------------------------------------------------------------
// Recording in-memory database/sql driver (no server): every statement that
// reaches the "database" is appended to find2Rec.stmts together with its
// arguments. SELECT COUNT(*) answers one row holding 0, every other query
// answers no rows, every Exec succeeds.
// ---------------------------------------------------------------------------

type find2Stmt struct {
	SQL  string
	Args []interface{}
}

func (s find2Stmt) String() string { return fmt.Sprintf("%q %v", s.SQL, s.Args) }

type find2Rec struct {
	mu    sync.Mutex
	stmts []find2Stmt
}

func (r *find2Rec) add(q string, nargs []driver.NamedValue) {
	r.mu.Lock()
	defer r.mu.Unlock()
	args := make([]interface{}, 0, len(nargs))
	for _, a := range nargs {
		args = append(args, a.Value)
	}
	r.stmts = append(r.stmts, find2Stmt{q, args})
}

// take returns the statements recorded so far and forgets them.
func (r *find2Rec) take() []find2Stmt {
	r.mu.Lock()
	defer r.mu.Unlock()
	s := r.stmts
	r.stmts = nil
	return s
}

func (r *find2Rec) Connect(context.Context) (driver.Conn, error) { return &find2Conn{r}, nil }
func (r *find2Rec) Driver() driver.Driver                        { return find2Drv{} }

type find2Drv struct{}

func (find2Drv) Open(string) (driver.Conn, error) { return nil, errors.New("use sql.OpenDB") }

type find2Conn struct{ r *find2Rec }

func (c *find2Conn) Prepare(string) (driver.Stmt, error) { return nil, errors.New("no prepare") }
func (c *find2Conn) Close() error                        { return nil }
func (c *find2Conn) Begin() (driver.Tx, error)           { return find2Tx{}, nil }
func (c *find2Conn) BeginTx(context.Context, driver.TxOptions) (driver.Tx, error) {
	return find2Tx{}, nil
}
func (c *find2Conn) QueryContext(_ context.Context, q string, args []driver.NamedValue) (driver.Rows, error) {
	c.r.add(q, args)
	if strings.HasPrefix(q, "SELECT COUNT(*)") {
		return &find2Rows{cols: []string{"n"}, rows: [][]driver.Value{{int64(0)}}}, nil
	}
	return &find2Rows{cols: []string{"x"}}, nil
}
func (c *find2Conn) ExecContext(_ context.Context, q string, args []driver.NamedValue) (driver.Result, error) {
	c.r.add(q, args)
	return driver.RowsAffected(1), nil
}

type find2Tx struct{}

func (find2Tx) Commit() error   { return nil }
func (find2Tx) Rollback() error { return nil }

type find2Rows struct {
	cols []string
	rows [][]driver.Value
	i    int
}

func (r *find2Rows) Columns() []string { return r.cols }
func (r *find2Rows) Close() error      { return nil }
func (r *find2Rows) Next(dest []driver.Value) error {
	if r.i >= len(r.rows) {
		return io.EOF
	}
	copy(dest, r.rows[r.i])
	r.i++
	return nil
}
