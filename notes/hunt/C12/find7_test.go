package livesql_test

// find7 (goes into livesql/, package livesql_test): inside a reactive
// rerunner LiveDB.Query / QueryRow look the result up in the rerunner's cache
// under the key (statement text, arguments) BEFORE anything checks the
// handle's limit - the limit check lives in sqlgen.DB.BaseQuery, which only
// runs on a cache miss. The key does not say which handle asked. So once any
// handle (an unlimited one, or one limited to another shard) has run a
// statement in the rerunner, a LiveDB over a shard-limited sqlgen.DB that asks
// for the same statement gets the cached rows of the other shard back with a
// nil error instead of the limit error.

import (
	"context"
	"database/sql"
	"database/sql/driver"
	"errors"
	"fmt"
	"io"
	"strings"
	"sync"
	"testing"
	"time"

	"github.com/samsarahq/thunder/livesql"
	"github.com/samsarahq/thunder/reactive"
	"github.com/samsarahq/thunder/sqlgen"
)

type find7User struct {
	Id         int64 `sql:",primary"`
	CustomerId int64
	Name       string
}

// find7Limited returns a LiveDB that shares base's tracker and whose embedded
// sqlgen.DB is limited to customer_id = customer.
func find7Limited(t *testing.T, base *livesql.LiveDB, customer int64) *livesql.LiveDB {
	lim, err := base.DB.WithShardLimit(sqlgen.Filter{"customer_id": customer})
	if err != nil {
		t.Fatal(err)
	}
	ldb := *base
	ldb.DB = lim
	return &ldb
}

func TestFind7LiveQueryCacheBypassesShardLimit(t *testing.T) {
	rec := &find7Rec{}
	schema := sqlgen.NewSchema()
	schema.MustRegisterType("users", sqlgen.UniqueId, find7User{})
	unlimited := livesql.NewLiveDB(sqlgen.NewDB(sql.OpenDB(rec), schema))
	lim1 := find7Limited(t, unlimited, 1)
	lim2 := find7Limited(t, unlimited, 2)

	// Outside a rerunner the calls below are refused, as they should be.
	var out []*find7User
	if err := lim1.Query(context.Background(), &out, sqlgen.Filter{"id": int64(5)}, nil); err == nil {
		t.Fatalf("no rerunner: Query(id=5) on a handle limited to customer_id = 1 accepted")
	}
	if err := lim1.Query(context.Background(), &out, sqlgen.Filter{"customer_id": int64(2)}, nil); err == nil {
		t.Fatalf("no rerunner: Query(customer_id=2) on a handle limited to customer_id = 1 accepted")
	}
	if stmts := rec.take(); len(stmts) != 0 {
		t.Fatalf("refused calls touched the database: %v", stmts)
	}

	type outcome struct {
		label string
		err   error
		rows  []*find7User
		stmts []find7Stmt
	}
	done := make(chan []outcome, 1)
	rerunner := reactive.NewRerunner(context.Background(), func(ctx context.Context) (interface{}, error) {
		var outcomes []outcome
		run := func(label string, ldb *livesql.LiveDB, filter sqlgen.Filter, row bool) {
			var rows []*find7User
			var err error
			if row {
				var one *find7User
				err = ldb.QueryRow(ctx, &one, filter, nil)
				if one != nil {
					rows = append(rows, one)
				}
			} else {
				err = ldb.Query(ctx, &rows, filter, nil)
			}
			outcomes = append(outcomes, outcome{label, err, rows, rec.take()})
		}
		// 1. the unlimited handle reads row 5 (which belongs to customer 2) ...
		run("unlimited.Query(id=5)", unlimited, sqlgen.Filter{"id": int64(5)}, false)
		// ... and the handle limited to customer 1 asks for the same statement.
		run("limited(customer_id=1).Query(id=5)", lim1, sqlgen.Filter{"id": int64(5)}, false)
		run("limited(customer_id=1).QueryRow(id=5)", lim1, sqlgen.Filter{"id": int64(5)}, true)
		// 2. the handle of customer 2 reads its shard, then customer 1's handle
		// asks for customer 2's shard.
		run("limited(customer_id=2).Query(customer_id=2)", lim2, sqlgen.Filter{"customer_id": int64(2)}, false)
		run("limited(customer_id=1).Query(customer_id=2)", lim1, sqlgen.Filter{"customer_id": int64(2)}, false)
		select {
		case done <- outcomes:
		default:
		}
		return nil, nil
	}, time.Hour, false)
	defer rerunner.Stop()

	var outcomes []outcome
	select {
	case outcomes = <-done:
	case <-time.After(10 * time.Second):
		t.Fatal("rerunner did not run")
	}
	for _, o := range outcomes {
		t.Logf("%s: err=%v rows=%d statements=%v", o.label, o.err, len(o.rows), o.stmts)
		if !strings.HasPrefix(o.label, "limited(customer_id=1)") {
			if o.err != nil || len(o.rows) != 1 || len(o.stmts) != 1 {
				t.Fatalf("%s: setup call failed: err=%v rows=%d statements=%v", o.label, o.err, len(o.rows), o.stmts)
			}
			continue
		}
		if o.err == nil {
			leaked := ""
			for _, r := range o.rows {
				leaked += fmt.Sprintf(" {id:%d customer_id:%d name:%q}", r.Id, r.CustomerId, r.Name)
			}
			t.Errorf("inside a rerunner, %s - a call that does not filter on the handle's shard - returned a nil error and the rows%s (answered from the rerunner's query cache; the limit was never checked); want the shard limit error",
				o.label, leaked)
		}
		if len(o.stmts) != 0 {
			t.Errorf("%s sent %v", o.label, o.stmts)
		}
	}
}

// find7Answer: every SELECT on users answers row 5 of customer 2.
func find7Answer(q string) ([]string, [][]driver.Value) {
	if strings.HasPrefix(q, "SELECT id, customer_id, name FROM users") {
		return []string{"id", "customer_id", "name"}, [][]driver.Value{{int64(5), int64(2), "secret of customer 2"}}
	}
	return []string{"x"}, nil
}

// ---------------------------------------------------------------------------
// Recording in-memory database/sql driver (no server): every statement that
// reaches the "database" is appended to find7Rec.stmts together with its
// arguments. every SELECT on users answers the row built by find7Answer,
// every Exec succeeds.
// ---------------------------------------------------------------------------

type find7Stmt struct {
	SQL  string
	Args []interface{}
}

func (s find7Stmt) String() string { return fmt.Sprintf("%q %v", s.SQL, s.Args) }

type find7Rec struct {
	mu    sync.Mutex
	stmts []find7Stmt
}

func (r *find7Rec) add(q string, nargs []driver.NamedValue) {
	r.mu.Lock()
	defer r.mu.Unlock()
	args := make([]interface{}, 0, len(nargs))
	for _, a := range nargs {
		args = append(args, a.Value)
	}
	r.stmts = append(r.stmts, find7Stmt{q, args})
}

// take returns the statements recorded so far and forgets them.
func (r *find7Rec) take() []find7Stmt {
	r.mu.Lock()
	defer r.mu.Unlock()
	s := r.stmts
	r.stmts = nil
	return s
}

func (r *find7Rec) Connect(context.Context) (driver.Conn, error) { return &find7Conn{r}, nil }
func (r *find7Rec) Driver() driver.Driver                        { return find7Drv{} }

type find7Drv struct{}

func (find7Drv) Open(string) (driver.Conn, error) { return nil, errors.New("use sql.OpenDB") }

type find7Conn struct{ r *find7Rec }

func (c *find7Conn) Prepare(string) (driver.Stmt, error) { return nil, errors.New("no prepare") }
func (c *find7Conn) Close() error                        { return nil }
func (c *find7Conn) Begin() (driver.Tx, error)           { return find7Tx{}, nil }
func (c *find7Conn) BeginTx(context.Context, driver.TxOptions) (driver.Tx, error) {
	return find7Tx{}, nil
}
func (c *find7Conn) QueryContext(_ context.Context, q string, args []driver.NamedValue) (driver.Rows, error) {
	c.r.add(q, args)
	cols, rows := find7Answer(q)
	return &find7Rows{cols: cols, rows: rows}, nil
}
func (c *find7Conn) ExecContext(_ context.Context, q string, args []driver.NamedValue) (driver.Result, error) {
	c.r.add(q, args)
	return driver.RowsAffected(1), nil
}

type find7Tx struct{}

func (find7Tx) Commit() error   { return nil }
func (find7Tx) Rollback() error { return nil }

type find7Rows struct {
	cols []string
	rows [][]driver.Value
	i    int
}

func (r *find7Rows) Columns() []string { return r.cols }
func (r *find7Rows) Close() error      { return nil }
func (r *find7Rows) Next(dest []driver.Value) error {
	if r.i >= len(r.rows) {
		return io.EOF
	}
	copy(dest, r.rows[r.i])
	r.i++
	return nil
}
