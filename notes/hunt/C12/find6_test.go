package sqlgen

// find6: InsertRows / UpsertRows check and execute chunk by chunk. When a row
// of a LATER chunk is outside the shard, the call returns the limit error only
// after the earlier chunks have been sent to the database: a call that does
// not comply has touched the database. Without a caller transaction the
// statements run in a transaction of InsertRows' own that is rolled back; with
// a caller transaction in the context (WithTx / WithExistingTx) the earlier
// chunks stay part of the caller's transaction.

import (
	"context"
	"database/sql"
	"database/sql/driver"
	"errors"
	"fmt"
	"io"
	"strings"
	"sync"
	"testing"
)

type find6User struct {
	Id         int64 `sql:",primary"`
	CustomerId int64
	Name       string
}

func find6Setup(t *testing.T) (*DB, *find6Rec) {
	rec := &find6Rec{}
	schema := NewSchema()
	schema.MustRegisterType("users", UniqueId, find6User{})
	return NewDB(sql.OpenDB(rec), schema), rec
}

func TestFind6ChunkedWriteTouchesDatabaseBeforeRefusing(t *testing.T) {
	shard := func(db *DB) (*DB, error) { return db.WithShardLimit(Filter{"customer_id": int64(1)}) }
	dynamic := func(db *DB) (*DB, error) {
		return db.WithDynamicLimit(DynamicLimit{
			GetLimitFilter:        func(context.Context, string) Filter { return Filter{"customer_id": int64(1)} },
			ShouldContinueOnError: func(error, string) bool { return false },
		})
	}
	// Rows 1 and 2 are inside the shard, row 3 is not.
	rows := func() []*find6User {
		return []*find6User{{Id: 1, CustomerId: 1}, {Id: 2, CustomerId: 1}, {Id: 3, CustomerId: 2}}
	}

	cases := []struct {
		name      string
		limit     func(*DB) (*DB, error)
		upsert    bool
		chunkSize int
		callerTx  bool
		control   bool
	}{
		{"control: InsertRows, one chunk", shard, false, 10, false, true},
		{"InsertRows, chunk size 1", shard, false, 1, false, false},
		{"InsertRows, chunk size 2", shard, false, 2, false, false},
		{"UpsertRows, chunk size 1", shard, true, 1, false, false},
		{"InsertRows, chunk size 1, caller's transaction", shard, false, 1, true, false},
		{"UpsertRows, chunk size 2, caller's transaction", shard, true, 2, true, false},
		{"InsertRows, chunk size 1, dynamic limit that rejects", dynamic, false, 1, false, false},
	}
	for _, c := range cases {
		t.Run(c.name, func(t *testing.T) {
			db, rec := find6Setup(t)
			h, err := c.limit(db)
			if err != nil {
				t.Fatal(err)
			}
			ctx := context.Background()
			if c.callerTx {
				var tx *sql.Tx
				ctx, tx, err = db.WithTx(ctx)
				if err != nil {
					t.Fatal(err)
				}
				defer tx.Rollback()
			}
			if c.upsert {
				err = h.UpsertRows(ctx, rows(), c.chunkSize)
			} else {
				err = h.InsertRows(ctx, rows(), c.chunkSize)
			}
			stmts := rec.take()
			if err == nil {
				t.Fatalf("row with customer_id = 2 accepted on a handle limited to customer_id = 1; sent %v", stmts)
			}
			if len(stmts) != 0 {
				t.Errorf("rows {1,c1} {2,c1} {3,c2}, chunk size %d, handle limited to customer_id = 1: the call returned the limit error\n\t%v\nbut only after sending %d statement(s) to the database:\n\t%v\nwant: a call that does not comply touches nothing",
					c.chunkSize, err, len(stmts), stmts)
			}
		})
	}
}

// ---------------------------------------------------------------------------
// Recording in-memory database/sql driver (no server): every statement that
// reaches the "database" is appended to find6Rec.stmts together with its
// arguments. SELECT COUNT(*) answers one row holding 0, every other query
// answers no rows, every Exec succeeds.
// ---------------------------------------------------------------------------

type find6Stmt struct {
	SQL  string
	Args []interface{}
}

func (s find6Stmt) String() string { return fmt.Sprintf("%q %v", s.SQL, s.Args) }

type find6Rec struct {
	mu    sync.Mutex
	stmts []find6Stmt
}

func (r *find6Rec) add(q string, nargs []driver.NamedValue) {
	r.mu.Lock()
	defer r.mu.Unlock()
	args := make([]interface{}, 0, len(nargs))
	for _, a := range nargs {
		args = append(args, a.Value)
	}
	r.stmts = append(r.stmts, find6Stmt{q, args})
}

// take returns the statements recorded so far and forgets them.
func (r *find6Rec) take() []find6Stmt {
	r.mu.Lock()
	defer r.mu.Unlock()
	s := r.stmts
	r.stmts = nil
	return s
}

func (r *find6Rec) Connect(context.Context) (driver.Conn, error) { return &find6Conn{r}, nil }
func (r *find6Rec) Driver() driver.Driver                        { return find6Drv{} }

type find6Drv struct{}

func (find6Drv) Open(string) (driver.Conn, error) { return nil, errors.New("use sql.OpenDB") }

type find6Conn struct{ r *find6Rec }

func (c *find6Conn) Prepare(string) (driver.Stmt, error) { return nil, errors.New("no prepare") }
func (c *find6Conn) Close() error                        { return nil }
func (c *find6Conn) Begin() (driver.Tx, error)           { return find6Tx{}, nil }
func (c *find6Conn) BeginTx(context.Context, driver.TxOptions) (driver.Tx, error) {
	return find6Tx{}, nil
}
func (c *find6Conn) QueryContext(_ context.Context, q string, args []driver.NamedValue) (driver.Rows, error) {
	c.r.add(q, args)
	if strings.HasPrefix(q, "SELECT COUNT(*)") {
		return &find6Rows{cols: []string{"n"}, rows: [][]driver.Value{{int64(0)}}}, nil
	}
	return &find6Rows{cols: []string{"x"}}, nil
}
func (c *find6Conn) ExecContext(_ context.Context, q string, args []driver.NamedValue) (driver.Result, error) {
	c.r.add(q, args)
	return driver.RowsAffected(1), nil
}

type find6Tx struct{}

func (find6Tx) Commit() error   { return nil }
func (find6Tx) Rollback() error { return nil }

type find6Rows struct {
	cols []string
	rows [][]driver.Value
	i    int
}

func (r *find6Rows) Columns() []string { return r.cols }
func (r *find6Rows) Close() error      { return nil }
func (r *find6Rows) Next(dest []driver.Value) error {
	if r.i >= len(r.rows) {
		return io.EOF
	}
	copy(dest, r.rows[r.i])
	r.i++
	return nil
}
