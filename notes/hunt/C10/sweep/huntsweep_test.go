package sqlgen

import (
	"context"
	"database/sql"
	"database/sql/driver"
	"encoding/json"
	"fmt"
	"math/rand"
	"os"
	"reflect"
	"sort"
	"strings"
	"testing"
	"time"

	"github.com/samsarahq/thunder/batch"
	"github.com/samsarahq/thunder/internal/testfixtures"
)

type hBlob []byte
type hInt int32
type hStr string
type hText struct{ V string }

func (h hText) MarshalText() ([]byte, error) { return []byte("<" + h.V + ">"), nil }
func (h *hText) UnmarshalText(b []byte) error {
	s := string(b)
	if !strings.HasPrefix(s, "<") || !strings.HasSuffix(s, ">") {
		return fmt.Errorf("bad hText %q", s)
	}
	h.V = s[1 : len(s)-1]
	return nil
}

type HRow struct {
	Id    int64                   `sql:"id,primary"`
	I64   int64                   `sql:"i64"`
	I8    int8                    `sql:"i8"`
	U32   uint32                  `sql:"u32"`
	PI    *int64                  `sql:"pi"`
	S     string                  `sql:"s"`
	PS    *string                 `sql:"ps"`
	B     []byte                  `sql:"b"`
	NB    hBlob                   `sql:"nb"`
	F64   float64                 `sql:"f64"`
	F32   float32                 `sql:"f32"`
	Flag  bool                    `sql:"flag"`
	PFlag *bool                   `sql:"pflag"`
	T     time.Time               `sql:"t"`
	PT    *time.Time              `sql:"pt"`
	Imp   int64                   `sql:"imp,implicitnull"`
	ImpS  string                  `sql:"imps,implicitnull"`
	MI    hInt                    `sql:"mi"`
	MS    hStr                    `sql:"ms"`
	NStr  sql.NullString          `sql:"nstr"`
	Cust  testfixtures.CustomType `sql:"cust"`
	Txt   hText                   `sql:"txt,string"`
	J     map[string]int          `sql:"j,json"`
}

var hCols = []string{"id", "i64", "i8", "u32", "pi", "s", "ps", "b", "nb", "f64", "f32", "flag", "pflag", "t", "pt", "imp", "imps", "mi", "ms", "nstr", "cust", "txt", "j"}

func i64p(v int64) *int64          { return &v }
func strp(v string) *string        { return &v }
func boolp(v bool) *bool           { return &v }
func timep(v time.Time) *time.Time { return &v }

var (
	hT1 = time.Date(2020, 1, 2, 3, 4, 5, 0, time.UTC)
	hT2 = time.Date(2021, 6, 7, 8, 9, 10, 123456000, time.UTC)
)

// colSpec describes, for one column, the stored values the generator may put
// in the table and the Go filter values it may use.
type colSpec struct {
	name     string
	nullable bool // Go type can represent NULL (pointer, slice, implicitnull, NullString)
	stored   []driver.Value
	filters  []interface{}
}

func custBytes(s string) []byte {
	c := testfixtures.CustomTypeFromString(s)
	return c[:]
}

func hSpecs(level int) []colSpec {
	pst := time.FixedZone("PST", -8*3600)
	specs := []colSpec{
		{name: "i64", stored: []driver.Value{int64(0), int64(1), int64(2), int64(-1), int64(1) << 40},
			filters: []interface{}{0, 1, 2, -1, int64(1), int32(2), uint8(1), i64p(2), int64(1) << 40, hInt(1), sql.NullInt64{Int64: 2, Valid: true}, uint64(1), int8(-1)}},
		{name: "i8", stored: []driver.Value{int64(0), int64(1), int64(44), int64(-128), int64(127)},
			filters: []interface{}{0, 1, 44, int8(-128), int8(127), int64(44), uint16(1)}},
		{name: "u32", stored: []driver.Value{int64(0), int64(1), int64(4294967295)},
			filters: []interface{}{0, 1, uint32(4294967295), int64(4294967295), uint64(1)}},
		{name: "pi", nullable: true, stored: []driver.Value{nil, int64(0), int64(1), int64(5)},
			filters: []interface{}{nil, (*int64)(nil), 0, 1, 5, i64p(5), int32(0), sql.NullInt64{}, sql.NullInt64{Int64: 5, Valid: true}}},
		{name: "s", stored: []driver.Value{[]byte(""), []byte("bob"), []byte("alice"), []byte("é"), []byte("10")},
			filters: []interface{}{"", "bob", "alice", "é", "10", hStr("bob"), strp("alice"), []byte("bob"), sql.NullString{String: "bob", Valid: true}}},
		{name: "ps", nullable: true, stored: []driver.Value{nil, []byte(""), []byte("bob"), []byte("x")},
			filters: []interface{}{nil, (*string)(nil), "", "bob", "x", strp("x"), hStr(""), sql.NullString{}}},
		{name: "b", nullable: true, stored: []driver.Value{nil, []byte(""), []byte("bob"), []byte{0, 1, 255}},
			filters: []interface{}{nil, []byte(nil), []byte(""), []byte("bob"), []byte{0, 1, 255}, "bob", ""}},
		{name: "nb", nullable: true, stored: []driver.Value{nil, []byte(""), []byte("bob"), []byte{0, 1, 255}},
			filters: []interface{}{nil, []byte("bob"), "bob", []byte{0, 1, 255}}},
		{name: "f64", stored: []driver.Value{float64(0), float64(1), float64(0.5), float64(-2.25)},
			filters: []interface{}{0.0, 1.0, 0.5, -2.25, float32(0.5), 1, 0, int64(1)}},
		{name: "f32", stored: []driver.Value{float64(0), float64(1), float64(0.5)},
			filters: []interface{}{float32(0), float32(1), float32(0.5), 0.5, 1.0, 1}},
		{name: "flag", stored: []driver.Value{int64(0), int64(1)},
			filters: []interface{}{true, false, boolp(true), 1, 0, int64(1)}},
		{name: "pflag", nullable: true, stored: []driver.Value{nil, int64(0), int64(1)},
			filters: []interface{}{nil, true, false, boolp(false), (*bool)(nil), 1, 0}},
		{name: "t", stored: []driver.Value{hT1, hT2},
			filters: []interface{}{hT1, hT2, hT1.In(pst), timep(hT2), hT2.In(pst)}},
		{name: "pt", nullable: true, stored: []driver.Value{nil, hT1, hT2},
			filters: []interface{}{nil, (*time.Time)(nil), hT1, timep(hT1.In(pst)), hT2}},
		{name: "imp", nullable: true, stored: []driver.Value{nil, int64(1), int64(7)},
			filters: []interface{}{0, nil, 1, 7, int64(0), i64p(7)}},
		{name: "imps", nullable: true, stored: []driver.Value{nil, []byte("a"), []byte("bob")},
			filters: []interface{}{"", nil, "a", "bob", hStr("")}},
		{name: "mi", stored: []driver.Value{int64(0), int64(1), int64(-3)},
			filters: []interface{}{hInt(0), hInt(1), hInt(-3), 1, int64(-3), 0}},
		{name: "ms", stored: []driver.Value{[]byte(""), []byte("bob"), []byte("Zed")},
			filters: []interface{}{hStr(""), hStr("bob"), "bob", "Zed", strp("Zed")}},
		{name: "nstr", nullable: true, stored: []driver.Value{nil, []byte(""), []byte("bob")},
			filters: []interface{}{nil, "", "bob", sql.NullString{}, sql.NullString{String: "bob", Valid: true}, sql.NullString{String: "", Valid: true}}},
		{name: "cust", stored: []driver.Value{custBytes(""), custBytes("foo"), custBytes("0123456789abcdef")},
			filters: []interface{}{testfixtures.CustomTypeFromString("foo"), testfixtures.CustomTypeFromString(""), custBytes("foo"), testfixtures.CustomTypeFromString("0123456789abcdef")}},
		{name: "txt", stored: []driver.Value{[]byte("<>"), []byte("<a>"), []byte("<bob>")},
			filters: []interface{}{hText{"a"}, hText{""}, hText{"bob"}, &hText{"a"}, "<a>", []byte("<bob>")}},
		{name: "j", nullable: true, stored: []driver.Value{[]byte(`{"a":1}`), []byte(`{}`), []byte(`{"a":1,"b":2}`)},
			filters: []interface{}{map[string]int{"a": 1}, map[string]int{}, map[string]int{"b": 2, "a": 1}}},
	}
	if level == 1 || level == 2 {
		// NULL in columns whose Go type cannot hold it.
		for i := range specs {
			if !specs[i].nullable {
				specs[i].stored = append(specs[i].stored, nil)
				specs[i].filters = append(specs[i].filters, nil)
			}
		}
		// literal zero values in implicitnull columns
		for i := range specs {
			switch specs[i].name {
			case "imp":
				specs[i].stored = append(specs[i].stored, int64(0))
			case "imps":
				specs[i].stored = append(specs[i].stored, []byte(""))
			}
		}
	}
	if level == 2 {
		// filter values written in a type foreign to the column, and out of range.
		add := func(name string, f ...interface{}) {
			for i := range specs {
				if specs[i].name == name {
					specs[i].filters = append(specs[i].filters, f...)
				}
			}
		}
		add("i64", "1", "2", 1.0, 2.5, true, false, "x")
		add("i8", 300, -212, "44", 44.0)
		add("u32", -1, int64(4294967297), "1")
		add("pi", "5", 5.0, true)
		add("s", 10, 10.0, json.RawMessage("bob"), hBlob("bob"))
		add("b", json.RawMessage("bob"), hBlob("bob"), hStr("bob"))
		add("nb", hBlob("bob"), hBlob(nil), hBlob{0, 1, 255}, json.RawMessage("bob"))
		add("f64", "0.5", "1", true)
		add("f32", 0.1, "0.5")
		add("flag", "1", "0", "true", 2, 1.0)
		add("t", "2020-01-02 03:04:05", hT2.Add(500*time.Nanosecond))
		add("ms", []byte("bob"))
		add("cust", "foo")
		add("imp", "7")
	}
	if level == 4 || level == -4 {
		add := func(name string, f ...interface{}) {
			for i := range specs {
				if specs[i].name == name {
					specs[i].filters = append(specs[i].filters, f...)
				}
			}
		}
		add("i64", "1", "2", 1.0, 2.5)
		add("i8", "44", 44.0, "127", 200, "200")
		add("u32", "1", "4294967295", 4294967295.0)
		add("pi", "5", 5.0, "0")
		add("s", 10, 10.0)
		add("b", hStr("bob"))
		add("f64", "0.5", "1", "-2.25")
		add("f32", "0.5", 2)
		add("flag", "1", "0", 2, int8(1))
		add("pflag", "1", "0")
		add("t", "2020-01-02 03:04:05", "2021-06-07 08:09:10.123456")
		add("pt", "2020-01-02 03:04:05")
		add("ms", []byte("bob"), strp("bob"))
		add("imp", "7", 7.0)
		add("mi", "1", 1.0, int8(-3))
		add("nstr", []byte("bob"), hStr("bob"))
		add("txt", hStr("<a>"))
	}
	if level == 3 || level == -3 {
		for i := range specs {
			if specs[i].name == "s" || specs[i].name == "ps" || specs[i].name == "ms" {
				specs[i].stored = append(specs[i].stored, []byte("Bob"), []byte("bob "))
				specs[i].filters = append(specs[i].filters, "BOB", "bob ", "Bob")
			}
		}
	}
	if skip := os.Getenv("HUNT_SKIP"); skip != "" {
		var kept []colSpec
		for _, sp := range specs {
			if !strings.Contains(","+skip+",", ","+sp.name+",") {
				kept = append(kept, sp)
			}
		}
		specs = kept
	}
	return specs
}

func hSchema() *Schema {
	s := NewSchema()
	s.MustRegisterType("hrows", AutoIncrement, HRow{})
	return s
}

type hCase struct {
	table   [][]driver.Value
	filters []Filter
}

func genCase(r *rand.Rand, specs []colSpec) hCase {
	var c hCase
	nrows := r.Intn(7)
	for i := 0; i < nrows; i++ {
		row := make([]driver.Value, len(hCols))
		row[0] = int64(i + 1)
		for ci, name := range hCols[1:] {
			for _, sp := range specs {
				if sp.name == name {
					row[ci+1] = sp.stored[r.Intn(len(sp.stored))]
				}
			}
			if row[ci+1] == nil && name != "pi" && name != "ps" && name != "b" && name != "nb" && name != "pflag" && name != "pt" && name != "imp" && name != "imps" && name != "nstr" && name != "j" && os.Getenv("HUNT_LEVEL") == "" {
				panic("null in " + name)
			}
		}
		c.table = append(c.table, row)
	}
	nf := 1 + r.Intn(5)
	for i := 0; i < nf; i++ {
		f := Filter{}
		switch r.Intn(10) {
		case 0:
			// empty filter
		case 1:
			f["id"] = []interface{}{1, int64(2), int32(3), i64p(1), uint8(2)}[r.Intn(5)]
		default:
			ncol := 1 + r.Intn(3)
			if r.Intn(3) > 0 {
				ncol = 1
			}
			for k := 0; k < ncol; k++ {
				sp := specs[r.Intn(len(specs))]
				f[sp.name] = sp.filters[r.Intn(len(sp.filters))]
			}
		}
		c.filters = append(c.filters, f)
		// sometimes repeat the same filter, or the same columns
		if r.Intn(6) == 0 {
			c.filters = append(c.filters, f)
		}
	}
	return c
}

func rowIDs(rows []*HRow) []int64 {
	var ids []int64
	for _, r := range rows {
		ids = append(ids, r.Id)
	}
	return ids
}

type hResult struct {
	rows []*HRow
	err  error
}

func runSolo(db *DB, f Filter) hResult {
	var rows []*HRow
	err := db.Query(context.Background(), &rows, f, nil)
	return hResult{rows, err}
}

func runBatchDirect(db *DB, filters []Filter) []hResult {
	items := make([]interface{}, len(filters))
	for i, f := range filters {
		var rows []*HRow
		q, err := db.Schema.MakeSelect(&rows, f, nil)
		if err != nil {
			panic(err)
		}
		items[i] = q
	}
	out := make([]hResult, len(filters))
	res, err := db.batchFetch.Many(context.Background(), items)
	for i := range filters {
		if err != nil {
			out[i].err = err
			continue
		}
		var rows []*HRow
		CopySlice(&rows, res[i].([]interface{}))
		out[i].rows = rows
	}
	return out
}

func runBatchReal(db *DB, filters []Filter) []hResult {
	ctx := batch.WithBatching(context.Background())
	out := make([]hResult, len(filters))
	done := make(chan struct{})
	for i := range filters {
		go func(i int) {
			var rows []*HRow
			err := db.Query(ctx, &rows, filters[i], nil)
			out[i] = hResult{rows, err}
			done <- struct{}{}
		}(i)
	}
	for range filters {
		<-done
	}
	return out
}

func describeFilter(f Filter) string {
	var keys []string
	for k := range f {
		keys = append(keys, k)
	}
	sort.Strings(keys)
	var parts []string
	for _, k := range keys {
		v := f[k]
		rv := reflect.ValueOf(v)
		if rv.IsValid() && rv.Kind() == reflect.Ptr && !rv.IsNil() {
			parts = append(parts, fmt.Sprintf("%s=&%T(%v)", k, rv.Elem().Interface(), rv.Elem().Interface()))
		} else {
			parts = append(parts, fmt.Sprintf("%s=%T(%v)", k, v, v))
		}
	}
	return "{" + strings.Join(parts, ", ") + "}"
}

func filterSig(f Filter) string {
	var keys []string
	for k := range f {
		keys = append(keys, k)
	}
	sort.Strings(keys)
	var parts []string
	for _, k := range keys {
		parts = append(parts, fmt.Sprintf("%s:%T", k, f[k]))
	}
	return strings.Join(parts, ",")
}

func sweep(t *testing.T, level int, seed int64, n int, real bool, ci bool) map[string][]string {
	r := rand.New(rand.NewSource(seed))
	specs := hSpecs(level)
	schema := hSchema()
	mism := map[string][]string{}
	total, queries, soloErr := 0, 0, 0
	for it := 0; it < n; it++ {
		c := genCase(r, specs)
		fake := &fakeDB{tables: map[string]*fakeTable{"hrows": {cols: hCols, rows: c.table}}, ci: ci}
		conn := openFake(fake)
		db := NewDB(conn, schema)
		// solo reference; drop filters that fail on their own
		var filters []Filter
		var solos []hResult
		for _, f := range c.filters {
			res := runSolo(db, f)
			if res.err != nil {
				soloErr++
				continue
			}
			filters = append(filters, f)
			solos = append(solos, res)
		}
		if len(filters) == 0 {
			conn.Close()
			continue
		}
		total++
		var got []hResult
		if real {
			got = runBatchReal(db, filters)
		} else {
			got = runBatchDirect(db, filters)
		}
		for i, f := range filters {
			queries++
			if got[i].err != nil {
				key := "ERR " + filterSig(f)
				mism[key] = append(mism[key], fmt.Sprintf("seed=%d it=%d filter=%s err=%v", seed, it, describeFilter(f), got[i].err))
				continue
			}
			if !reflect.DeepEqual(rowIDs(got[i].rows), rowIDs(solos[i].rows)) || !reflect.DeepEqual(got[i].rows, solos[i].rows) {
				dir := "MISSING"
				if len(rowIDs(got[i].rows)) > len(rowIDs(solos[i].rows)) {
					dir = "EXTRA"
				}
				key := dir + " " + filterSig(f)
				if why := explain(c.table, specs, f, rowIDs(solos[i].rows), rowIDs(got[i].rows)); why != "" {
					key = "KNOWN " + why
				}
				var others []string
				for j, g := range filters {
					if j != i {
						others = append(others, describeFilter(g))
					}
				}
				mism[key] = append(mism[key], fmt.Sprintf("seed=%d it=%d filter=%s solo=%v batch=%v others=%v", seed, it, describeFilter(f), rowIDs(solos[i].rows), rowIDs(got[i].rows), others))
			}
		}
		conn.Close()
	}
	t.Logf("level=%d seed=%d real=%v ci=%v: cases=%d queries=%d soloErrs=%d mismatch-classes=%d", level, seed, real, ci, total, queries, soloErr, len(mism))
	return mism
}

func report(t *testing.T, mism map[string][]string) {
	var keys []string
	for k := range mism {
		keys = append(keys, k)
	}
	sort.Strings(keys)
	for _, k := range keys {
		t.Logf("%-40s x%d  e.g. %s", k, len(mism[k]), mism[k][0])
	}
}

func TestHuntSweep(t *testing.T) {
	level := 0
	if s := os.Getenv("HUNT_LEVEL"); s != "" {
		fmt.Sscan(s, &level)
	}
	n := 3000
	if s := os.Getenv("HUNT_N"); s != "" {
		fmt.Sscan(s, &n)
	}
	seed := int64(1)
	if s := os.Getenv("HUNT_SEED"); s != "" {
		fmt.Sscan(s, &seed)
	}
	mism := sweep(t, level, seed, n, os.Getenv("HUNT_REAL") != "", os.Getenv("HUNT_CI") != "")
	report(t, mism)
	if len(mism) > 0 {
		t.Fail()
	}
}

func explain(table [][]driver.Value, specs []colSpec, f Filter, solo, got []int64) string {
	in := func(l []int64, id int64) bool {
		for _, x := range l {
			if x == id {
				return true
			}
		}
		return false
	}
	if _, ok := f["nb"]; ok {
		return "named-bytes-column"
	}
	why := ""
	for _, row := range table {
		id := row[0].(int64)
		if in(solo, id) == in(got, id) {
			continue
		}
		rowWhy := ""
		for ci, name := range hCols {
			if _, ok := f[name]; !ok {
				continue
			}
			var sp *colSpec
			for k := range specs {
				if specs[k].name == name {
					sp = &specs[k]
				}
			}
			if sp == nil {
				continue
			}
			if !sp.nullable && row[ci] == nil {
				rowWhy = "null-in-nonpointer-column"
			}
			if name == "imp" && row[ci] == driver.Value(int64(0)) {
				rowWhy = "implicitnull-literal-zero"
			}
			if b, ok := row[ci].([]byte); ok && name == "imps" && len(b) == 0 {
				rowWhy = "implicitnull-literal-zero"
			}
		}
		if rowWhy == "" {
			return ""
		}
		why = rowWhy
	}
	return why
}
