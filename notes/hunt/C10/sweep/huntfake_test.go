package sqlgen

// Fake database/sql driver that evaluates the SELECT statements sqlgen
// produces against an in-memory table, with MySQL-like comparison semantics.

import (
	"bytes"
	"database/sql"
	"database/sql/driver"
	"fmt"
	"io"
	"math"
	"strconv"
	"strings"
	"sync"
	"sync/atomic"
	"time"
)

type fakeTable struct {
	cols []string
	rows [][]driver.Value
}

type fakeDB struct {
	mu      sync.Mutex
	tables  map[string]*fakeTable
	selects int64
	log     []string
	// ci selects a case-insensitive, pad-space collation for text comparisons.
	ci bool
}

var fakeSeq int64

func openFake(f *fakeDB) *sql.DB {
	name := fmt.Sprintf("huntfake%d", atomic.AddInt64(&fakeSeq, 1))
	sql.Register(name, &fakeDriver{f})
	db, err := sql.Open(name, "")
	if err != nil {
		panic(err)
	}
	return db
}

type fakeDriver struct{ f *fakeDB }

func (d *fakeDriver) Open(string) (driver.Conn, error) { return &fakeConn{d.f}, nil }

type fakeConn struct{ f *fakeDB }

func (c *fakeConn) Prepare(q string) (driver.Stmt, error) { return &fakeStmt{c.f, q}, nil }
func (c *fakeConn) Close() error                          { return nil }
func (c *fakeConn) Begin() (driver.Tx, error)             { return nil, fmt.Errorf("no tx") }

type fakeStmt struct {
	f *fakeDB
	q string
}

func (s *fakeStmt) Close() error  { return nil }
func (s *fakeStmt) NumInput() int { return -1 }
func (s *fakeStmt) Exec([]driver.Value) (driver.Result, error) {
	return nil, fmt.Errorf("exec unsupported")
}
func (s *fakeStmt) Query(args []driver.Value) (driver.Rows, error) {
	return s.f.query(s.q, args)
}

type fakeRows struct {
	cols []string
	rows [][]driver.Value
	i    int
}

func (r *fakeRows) Columns() []string { return r.cols }
func (r *fakeRows) Close() error      { return nil }
func (r *fakeRows) Next(dest []driver.Value) error {
	if r.i >= len(r.rows) {
		return io.EOF
	}
	copy(dest, r.rows[r.i])
	r.i++
	return nil
}

// ---- tiny SQL evaluator ----

type tok struct{ s string }

func lex(s string) []string {
	var out []string
	i := 0
	for i < len(s) {
		c := s[i]
		switch {
		case c == ' ':
			i++
		case c == '(' || c == ')' || c == ',' || c == '?' || c == '=':
			out = append(out, string(c))
			i++
		default:
			j := i
			for j < len(s) && !strings.ContainsRune(" (),?=", rune(s[j])) {
				j++
			}
			out = append(out, s[i:j])
			i = j
		}
	}
	return out
}

type evalCtx struct {
	toks []string
	pos  int
	args []driver.Value
	argi int
	row  map[string]driver.Value
	f    *fakeDB
	err  error
}

func (e *evalCtx) peek() string {
	if e.pos < len(e.toks) {
		return e.toks[e.pos]
	}
	return ""
}
func (e *evalCtx) next() string {
	t := e.peek()
	e.pos++
	return t
}
func (e *evalCtx) expect(s string) {
	if t := e.next(); !strings.EqualFold(t, s) {
		if e.err == nil {
			e.err = fmt.Errorf("syntax: expected %q got %q at %d in %v", s, t, e.pos, e.toks)
		}
	}
}
func (e *evalCtx) arg() driver.Value {
	if e.argi >= len(e.args) {
		if e.err == nil {
			e.err = fmt.Errorf("not enough args")
		}
		return nil
	}
	a := e.args[e.argi]
	e.argi++
	return a
}

// three-valued logic collapsed to bool (NULL -> false) is fine for OR/AND of
// positive atoms, which is all sqlgen produces.
func (e *evalCtx) orExpr() bool {
	v := e.andExpr()
	for strings.EqualFold(e.peek(), "OR") {
		e.next()
		w := e.andExpr()
		v = v || w
	}
	return v
}
func (e *evalCtx) andExpr() bool {
	v := e.atom()
	for strings.EqualFold(e.peek(), "AND") {
		e.next()
		w := e.atom()
		v = v && w
	}
	return v
}
func (e *evalCtx) atom() bool {
	if e.err != nil {
		return false
	}
	if e.peek() == "(" {
		e.next()
		v := e.orExpr()
		e.expect(")")
		return v
	}
	col := e.next()
	cv, ok := e.row[col]
	if !ok {
		if e.err == nil {
			e.err = fmt.Errorf("unknown column %q", col)
		}
		return false
	}
	op := e.next()
	switch strings.ToUpper(op) {
	case "=":
		e.expect("?")
		return e.f.sqlEq(cv, e.arg())
	case "IS":
		t := e.next()
		if strings.EqualFold(t, "NULL") {
			return cv == nil
		}
		if t == "?" {
			a := e.arg()
			if a != nil {
				if e.err == nil {
					e.err = fmt.Errorf("IS ? with non-null arg")
				}
				return false
			}
			return cv == nil
		}
		e.err = fmt.Errorf("bad IS %q", t)
		return false
	case "IN":
		e.expect("(")
		res := false
		for {
			e.expect("?")
			if e.f.sqlEq(cv, e.arg()) {
				res = true
			}
			if e.peek() == "," {
				e.next()
				continue
			}
			break
		}
		e.expect(")")
		return res
	}
	if e.err == nil {
		e.err = fmt.Errorf("bad op %q", op)
	}
	return false
}

func numPrefix(s string) float64 {
	s = strings.TrimLeft(s, " \t\n")
	// longest prefix that parses as a float
	best := 0.0
	for j := 1; j <= len(s); j++ {
		if f, err := strconv.ParseFloat(s[:j], 64); err == nil {
			best = f
		}
	}
	return best
}

type kind int

const (
	kNull kind = iota
	kInt
	kFloat
	kText
	kTime
)

func classify(v driver.Value) (kind, int64, float64, string, time.Time) {
	switch x := v.(type) {
	case nil:
		return kNull, 0, 0, "", time.Time{}
	case int64:
		return kInt, x, float64(x), "", time.Time{}
	case bool:
		if x {
			return kInt, 1, 1, "", time.Time{}
		}
		return kInt, 0, 0, "", time.Time{}
	case float64:
		return kFloat, 0, x, "", time.Time{}
	case string:
		return kText, 0, 0, x, time.Time{}
	case []byte:
		return kText, 0, 0, string(x), time.Time{}
	case time.Time:
		return kTime, 0, 0, "", x
	}
	panic(fmt.Sprintf("fake: unsupported value %T", v))
}

func parseTimeStr(s string) (time.Time, bool) {
	for _, l := range []string{"2006-01-02 15:04:05.999999", "2006-01-02"} {
		if t, err := time.Parse(l, s); err == nil {
			return t, true
		}
	}
	return time.Time{}, false
}

// sqlEq: MySQL '=' between a stored column value and a parameter.
func (f *fakeDB) sqlEq(col, arg driver.Value) bool {
	ck, ci, cf, cs, ct := classify(col)
	ak, ai, af, as, at := classify(arg)
	if ck == kNull || ak == kNull {
		return false
	}
	switch {
	case ck == kInt && ak == kInt:
		return ci == ai
	case (ck == kInt || ck == kFloat) && (ak == kInt || ak == kFloat):
		return cf == af
	case ck == kText && ak == kText:
		if f.ci {
			return strings.EqualFold(strings.TrimRight(cs, " "), strings.TrimRight(as, " "))
		}
		return cs == as
	case ck == kText && (ak == kInt || ak == kFloat):
		return numPrefix(cs) == af
	case (ck == kInt || ck == kFloat) && ak == kText:
		return cf == numPrefix(as)
	case ck == kTime && ak == kTime:
		return ct.Truncate(time.Microsecond).Equal(at.Truncate(time.Microsecond))
	case ck == kTime && ak == kText:
		t, ok := parseTimeStr(as)
		return ok && t.Equal(ct)
	case ck == kText && ak == kTime:
		t, ok := parseTimeStr(cs)
		return ok && t.Equal(at)
	}
	_ = math.NaN
	return false
}

func (f *fakeDB) query(q string, args []driver.Value) (driver.Rows, error) {
	f.mu.Lock()
	defer f.mu.Unlock()
	atomic.AddInt64(&f.selects, 1)
	f.log = append(f.log, fmt.Sprintf("%s %v", q, args))

	if !strings.HasPrefix(q, "SELECT ") {
		return nil, fmt.Errorf("fake: unsupported %q", q)
	}
	rest := q[len("SELECT "):]
	i := strings.Index(rest, " FROM ")
	colsPart := rest[:i]
	rest = rest[i+len(" FROM "):]
	var tableName, where string
	if j := strings.Index(rest, " WHERE "); j >= 0 {
		tableName = rest[:j]
		where = rest[j+len(" WHERE "):]
	} else {
		tableName = rest
	}
	t, ok := f.tables[tableName]
	if !ok {
		return nil, fmt.Errorf("fake: no table %q", tableName)
	}
	cols := strings.Split(colsPart, ", ")
	idx := make([]int, len(cols))
	for k, c := range cols {
		idx[k] = -1
		for m, tc := range t.cols {
			if tc == c {
				idx[k] = m
			}
		}
		if idx[k] < 0 {
			return nil, fmt.Errorf("fake: no column %q", c)
		}
	}
	toks := lex(where)
	out := &fakeRows{cols: cols}
	for _, r := range t.rows {
		match := true
		if where != "" {
			rm := make(map[string]driver.Value, len(t.cols))
			for m, tc := range t.cols {
				rm[tc] = r[m]
			}
			e := &evalCtx{toks: toks, args: args, row: rm, f: f}
			match = e.orExpr()
			if e.err == nil && e.pos != len(toks) {
				e.err = fmt.Errorf("trailing tokens in %q", where)
			}
			if e.err == nil && e.argi != len(args) {
				e.err = fmt.Errorf("arg count mismatch in %q: used %d of %d", where, e.argi, len(args))
			}
			if e.err != nil {
				return nil, e.err
			}
		}
		if match {
			o := make([]driver.Value, len(idx))
			for k, m := range idx {
				v := r[m]
				if b, ok := v.([]byte); ok {
					v = append([]byte(nil), b...)
				}
				o[k] = v
			}
			out.rows = append(out.rows, o)
		}
	}
	return out, nil
}

var _ = bytes.Equal
