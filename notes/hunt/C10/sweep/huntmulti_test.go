package sqlgen

import (
	"context"
	"database/sql"
	"database/sql/driver"
	"math/rand"
	"reflect"
	"sync"
	"sync/atomic"
	"testing"

	"github.com/samsarahq/thunder/batch"
)

type MUser struct {
	Id   int64 `sql:"id,primary"`
	Name string
	Age  *int64
}
type MPost struct {
	Id     int64 `sql:"id,primary"`
	UserId int64
	Title  string
}

// many concurrent Query and QueryRow calls over two tables in one batching
// context, compared with the same calls on their own.
func TestHuntMulti(t *testing.T) {
	r := rand.New(rand.NewSource(7))
	for iter := 0; iter < 150; iter++ {
		var users, posts [][]driver.Value
		nu, np := r.Intn(30), r.Intn(60)
		for i := 0; i < nu; i++ {
			var age driver.Value
			if r.Intn(3) > 0 {
				age = int64(r.Intn(4))
			}
			users = append(users, []driver.Value{int64(i + 1), []byte([]string{"a", "b", "c"}[r.Intn(3)]), age})
		}
		for i := 0; i < np; i++ {
			posts = append(posts, []driver.Value{int64(i + 1), int64(r.Intn(35)), []byte([]string{"x", "y"}[r.Intn(2)])})
		}
		fake := &fakeDB{tables: map[string]*fakeTable{
			"users": {cols: []string{"id", "name", "age"}, rows: users},
			"posts": {cols: []string{"id", "user_id", "title"}, rows: posts},
		}}
		schema := NewSchema()
		schema.MustRegisterType("users", AutoIncrement, MUser{})
		schema.MustRegisterType("posts", AutoIncrement, MPost{})
		conn := openFake(fake)
		db := NewDB(conn, schema)

		type call struct {
			kind   int // 0 users Query, 1 users QueryRow, 2 posts Query, 3 posts QueryRow
			filter Filter
		}
		var calls []call
		n := 1 + r.Intn(200)
		for i := 0; i < n; i++ {
			c := call{kind: r.Intn(4)}
			f := Filter{}
			if c.kind < 2 {
				switch r.Intn(6) {
				case 0:
				case 1:
					f["name"] = []string{"a", "b", "c", "d"}[r.Intn(4)]
				case 2:
					f["age"] = []interface{}{nil, 0, 1, int32(2), i64p(3), (*int64)(nil)}[r.Intn(6)]
				case 3:
					f["name"] = []string{"a", "b"}[r.Intn(2)]
					f["age"] = []interface{}{nil, 0, 1}[r.Intn(3)]
				default:
					f["id"] = r.Intn(35)
				}
			} else {
				switch r.Intn(5) {
				case 0:
				case 1:
					f["user_id"] = r.Intn(35)
				case 2:
					f["user_id"] = int32(r.Intn(35))
					f["title"] = []string{"x", "y", "z"}[r.Intn(3)]
				default:
					f["id"] = uint16(r.Intn(70))
				}
			}
			c.filter = f
			calls = append(calls, c)
		}
		run := func(ctx context.Context, c call) (interface{}, error) {
			switch c.kind {
			case 0:
				var rows []*MUser
				err := db.Query(ctx, &rows, c.filter, nil)
				return rows, err
			case 1:
				var row *MUser
				err := db.QueryRow(ctx, &row, c.filter, nil)
				return row, err
			case 2:
				var rows []*MPost
				err := db.Query(ctx, &rows, c.filter, nil)
				return rows, err
			default:
				var row *MPost
				err := db.QueryRow(ctx, &row, c.filter, nil)
				return row, err
			}
		}
		type res struct {
			v   interface{}
			err error
		}
		solo := make([]res, len(calls))
		for i, c := range calls {
			v, err := run(context.Background(), c)
			solo[i] = res{v, err}
		}
		before := atomic.LoadInt64(&fake.selects)
		ctx := batch.WithBatching(context.Background())
		got := make([]res, len(calls))
		var wg sync.WaitGroup
		for i := range calls {
			wg.Add(1)
			go func(i int) {
				defer wg.Done()
				v, err := run(ctx, calls[i])
				got[i] = res{v, err}
			}(i)
		}
		wg.Wait()
		sel := atomic.LoadInt64(&fake.selects) - before
		if int(sel) >= len(calls) && len(calls) > 4 {
			t.Errorf("iter %d: %d calls used %d selects", iter, len(calls), sel)
		}
		for i := range calls {
			se, ge := "", ""
			if solo[i].err != nil {
				se = solo[i].err.Error()
			}
			if got[i].err != nil {
				ge = got[i].err.Error()
			}
			if se != ge || (se == "" && !reflect.DeepEqual(solo[i].v, got[i].v)) {
				t.Errorf("iter %d call %d kind %d %s: solo %v/%q batch %v/%q", iter, i, calls[i].kind, describeFilter(calls[i].filter), solo[i].v, se, got[i].v, ge)
			}
		}
		conn.Close()
		_ = sql.ErrNoRows
	}
}
