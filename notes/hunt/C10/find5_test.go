// FINDING 5: a filter value outside the range of the column's Go type wraps around in the row tester and is handed the rows of another value (int8 column: 300 -> 44; uint32 column: 4294967297 -> 1, -1 -> 4294967295).
//
// Copy this file into the package directory sqlgen/ of the thunder worktree
// (it is an internal test of package sqlgen) and run:
//
//	go test ./sqlgen/ -run '^TestHuntC10Find5FilterValueWrapsAround$' -v
//
// The file is self-contained: it brings its own in-memory database/sql driver
// (h5fake...) that evaluates exactly the SELECT statements sqlgen emits
// (col = ?, col IS ?, col IS NULL, col IN (?, ..), AND, OR, parentheses).
// "On its own" means: the very same db.Query call made with a context that has
// no batching, against the same table. "Batched" means: the same calls made
// concurrently under batch.WithBatching; the test checks that the fake saw a
// single SELECT for them.
package sqlgen

import (
	"context"
	"database/sql"
	"database/sql/driver"
	"fmt"
	"io"
	"reflect"
	"strconv"
	"strings"
	"sync"
	"sync/atomic"
	"testing"
	"time"

	"github.com/samsarahq/thunder/batch"
)

type h5Row struct {
	Id    int64  `sql:"id,primary"`
	Small int8   `sql:"small"`
	Group uint32 `sql:"group_id"`
}

func TestHuntC10Find5FilterValueWrapsAround(t *testing.T) {
	db, fake := h5newDB([]string{"id", "small", "group_id"}, [][]driver.Value{
		{int64(1), int64(44), int64(1)},
		{int64(2), int64(7), int64(4294967295)},
	}, false)
	h5check(t, db, fake, []Filter{
		{"small": 300},                   // on its own: nothing
		{"small": 44},                    // row 1
		{"group_id": int64(4294967297)},  // on its own: nothing
		{"group_id": 1},                  // row 1
		{"group_id": -1},                 // on its own: nothing
		{"group_id": uint32(4294967295)}, // row 2
	})
}

// ---------------------------------------------------------------------------
// harness

func h5ids(rows []*h5Row) []int64 {
	ids := []int64{}
	for _, r := range rows {
		ids = append(ids, r.Id)
	}
	return ids
}

func h5newDB(cols []string, rows [][]driver.Value, ci bool) (*DB, *h5fake) {
	fake := &h5fake{table: "h5rows", cols: cols, rows: rows, ci: ci}
	schema := NewSchema()
	schema.MustRegisterType("h5rows", AutoIncrement, h5Row{})
	db := NewDB(h5open(fake), schema)
	// Make the batch window wide enough that all goroutines of a test join it.
	db.batchFetch.WaitInterval = 100 * time.Millisecond
	db.batchFetch.MaxDuration = 5 * time.Second
	return db, fake
}

type h5result struct {
	ids  []int64
	rows []*h5Row
	err  error
}

func h5solo(db *DB, f Filter) h5result {
	var rows []*h5Row
	err := db.Query(context.Background(), &rows, f, nil)
	return h5result{h5ids(rows), rows, err}
}

func h5batched(t *testing.T, db *DB, fake *h5fake, filters []Filter) []h5result {
	before := atomic.LoadInt64(&fake.selects)
	ctx := batch.WithBatching(context.Background())
	out := make([]h5result, len(filters))
	var wg sync.WaitGroup
	for i := range filters {
		wg.Add(1)
		go func(i int) {
			defer wg.Done()
			var rows []*h5Row
			err := db.Query(ctx, &rows, filters[i], nil)
			out[i] = h5result{h5ids(rows), rows, err}
		}(i)
	}
	wg.Wait()
	if n := atomic.LoadInt64(&fake.selects) - before; n != 1 {
		t.Fatalf("harness: expected the %d calls to be combined into 1 SELECT, saw %d", len(filters), n)
	}
	return out
}

func h5describe(f Filter) string {
	var parts []string
	for k, v := range f {
		parts = append(parts, fmt.Sprintf("%s: %T(%v)", k, v, v))
	}
	return "Filter{" + strings.Join(parts, ", ") + "}"
}

// h5check runs every filter on its own and all of them batched, and reports
// every call whose batched result differs from its result on its own.
func h5check(t *testing.T, db *DB, fake *h5fake, filters []Filter) {
	t.Helper()
	var solos []h5result
	for _, f := range filters {
		s := h5solo(db, f)
		if s.err != nil {
			t.Fatalf("harness: %s fails on its own: %v", h5describe(f), s.err)
		}
		solos = append(solos, s)
	}
	got := h5batched(t, db, fake, filters)
	for i, f := range filters {
		if got[i].err != nil {
			t.Errorf("%s: on its own returns rows %v, batched returns error %v", h5describe(f), solos[i].ids, got[i].err)
			continue
		}
		if !reflect.DeepEqual(got[i].ids, solos[i].ids) {
			t.Errorf("%s: on its own returns rows %v, batched returns rows %v", h5describe(f), solos[i].ids, got[i].ids)
		}
	}
	t.Logf("statements seen by the database:\n  %s", strings.Join(fake.log, "\n  "))
}

// ---------------------------------------------------------------------------
// in-memory database/sql driver

type h5fake struct {
	table   string
	cols    []string
	rows    [][]driver.Value
	ci      bool // text compares case-insensitively and ignores trailing spaces (MySQL *_ci, PAD SPACE)
	mu      sync.Mutex
	selects int64
	log     []string
}

var h5seq int64

func h5open(f *h5fake) *sql.DB {
	name := fmt.Sprintf("h5fake%d", atomic.AddInt64(&h5seq, 1))
	sql.Register(name, &h5driver{f})
	db, err := sql.Open(name, "")
	if err != nil {
		panic(err)
	}
	return db
}

type h5driver struct{ f *h5fake }

func (d *h5driver) Open(string) (driver.Conn, error) { return &h5conn{d.f}, nil }

type h5conn struct{ f *h5fake }

func (c *h5conn) Prepare(q string) (driver.Stmt, error) { return &h5stmt{c.f, q}, nil }
func (c *h5conn) Close() error                          { return nil }
func (c *h5conn) Begin() (driver.Tx, error)             { return nil, fmt.Errorf("no transactions") }

type h5stmt struct {
	f *h5fake
	q string
}

func (s *h5stmt) Close() error  { return nil }
func (s *h5stmt) NumInput() int { return -1 }
func (s *h5stmt) Exec([]driver.Value) (driver.Result, error) {
	return nil, fmt.Errorf("exec unsupported")
}
func (s *h5stmt) Query(args []driver.Value) (driver.Rows, error) { return s.f.query(s.q, args) }

type h5rowsIter struct {
	cols []string
	rows [][]driver.Value
	i    int
}

func (r *h5rowsIter) Columns() []string { return r.cols }
func (r *h5rowsIter) Close() error      { return nil }
func (r *h5rowsIter) Next(dest []driver.Value) error {
	if r.i >= len(r.rows) {
		return io.EOF
	}
	copy(dest, r.rows[r.i])
	r.i++
	return nil
}

func h5lex(s string) []string {
	var out []string
	for i := 0; i < len(s); {
		c := s[i]
		switch {
		case c == ' ':
			i++
		case strings.ContainsRune("(),?=", rune(c)):
			out = append(out, string(c))
			i++
		default:
			j := i
			for j < len(s) && !strings.ContainsRune(" (),?=", rune(s[j])) {
				j++
			}
			out = append(out, s[i:j])
			i = j
		}
	}
	return out
}

type h5eval struct {
	toks []string
	pos  int
	args []driver.Value
	argi int
	row  map[string]driver.Value
	f    *h5fake
	err  error
}

func (e *h5eval) fail(format string, a ...interface{}) {
	if e.err == nil {
		e.err = fmt.Errorf(format, a...)
	}
}
func (e *h5eval) peek() string {
	if e.pos < len(e.toks) {
		return e.toks[e.pos]
	}
	return ""
}
func (e *h5eval) next() string { t := e.peek(); e.pos++; return t }
func (e *h5eval) expect(s string) {
	if t := e.next(); !strings.EqualFold(t, s) {
		e.fail("syntax error: expected %q, got %q", s, t)
	}
}
func (e *h5eval) arg() driver.Value {
	if e.argi >= len(e.args) {
		e.fail("not enough arguments")
		return nil
	}
	a := e.args[e.argi]
	e.argi++
	return a
}
func (e *h5eval) or() bool {
	v := e.and()
	for strings.EqualFold(e.peek(), "OR") {
		e.next()
		w := e.and()
		v = v || w
	}
	return v
}
func (e *h5eval) and() bool {
	v := e.atom()
	for strings.EqualFold(e.peek(), "AND") {
		e.next()
		w := e.atom()
		v = v && w
	}
	return v
}
func (e *h5eval) atom() bool {
	if e.err != nil {
		return false
	}
	if e.peek() == "(" {
		e.next()
		v := e.or()
		e.expect(")")
		return v
	}
	col := e.next()
	cv, ok := e.row[col]
	if !ok {
		e.fail("unknown column %q", col)
		return false
	}
	switch op := strings.ToUpper(e.next()); op {
	case "=":
		e.expect("?")
		return e.f.eq(cv, e.arg())
	case "IS":
		switch t := e.next(); {
		case strings.EqualFold(t, "NULL"):
			return cv == nil
		case t == "?":
			if a := e.arg(); a != nil {
				e.fail("IS ? with a non-NULL argument")
			}
			return cv == nil
		}
		e.fail("syntax error after IS")
	case "IN":
		e.expect("(")
		res := false
		for {
			e.expect("?")
			if e.f.eq(cv, e.arg()) {
				res = true
			}
			if e.peek() != "," {
				break
			}
			e.next()
		}
		e.expect(")")
		return res
	default:
		e.fail("syntax error: operator %q", op)
	}
	return false
}

// h5num is the numeric value MySQL gives a text in a numeric comparison: the
// longest numeric prefix, 0 if there is none.
func h5num(s string) float64 {
	s = strings.TrimLeft(s, " \t\n")
	best := 0.0
	for j := 1; j <= len(s); j++ {
		if f, err := strconv.ParseFloat(s[:j], 64); err == nil {
			best = f
		}
	}
	return best
}

// eq is MySQL's '=' between a stored column value and a statement parameter.
// NULL equals nothing. Numbers compare numerically (bool parameters are sent
// as 1 and 0, as the MySQL driver does). Texts compare byte-wise, or, with ci,
// ignoring case and trailing spaces. Times compare as instants at microsecond
// precision, the precision the MySQL driver sends parameters with.
func (f *h5fake) eq(col, arg driver.Value) bool {
	type val struct {
		kind byte // 'n'ull, 'i'nt, 'f'loat, 't'ext, 'd'atetime
		i    int64
		f    float64
		s    string
		t    time.Time
	}
	classify := func(v driver.Value) val {
		switch x := v.(type) {
		case nil:
			return val{kind: 'n'}
		case int64:
			return val{kind: 'i', i: x, f: float64(x)}
		case bool:
			if x {
				return val{kind: 'i', i: 1, f: 1}
			}
			return val{kind: 'i'}
		case float64:
			return val{kind: 'f', f: x}
		case string:
			return val{kind: 't', s: x}
		case []byte:
			return val{kind: 't', s: string(x)}
		case time.Time:
			return val{kind: 'd', t: x}
		}
		panic(fmt.Sprintf("fake: unsupported value %T", v))
	}
	c, a := classify(col), classify(arg)
	num := func(k byte) bool { return k == 'i' || k == 'f' }
	switch {
	case c.kind == 'n' || a.kind == 'n':
		return false
	case c.kind == 'i' && a.kind == 'i':
		return c.i == a.i
	case num(c.kind) && num(a.kind):
		return c.f == a.f
	case c.kind == 't' && a.kind == 't':
		if f.ci {
			return strings.EqualFold(strings.TrimRight(c.s, " "), strings.TrimRight(a.s, " "))
		}
		return c.s == a.s
	case c.kind == 't' && num(a.kind):
		return h5num(c.s) == a.f
	case num(c.kind) && a.kind == 't':
		return c.f == h5num(a.s)
	case c.kind == 'd' && a.kind == 'd':
		return c.t.Truncate(time.Microsecond).Equal(a.t.Truncate(time.Microsecond))
	}
	return false
}

func (f *h5fake) query(q string, args []driver.Value) (driver.Rows, error) {
	f.mu.Lock()
	defer f.mu.Unlock()
	atomic.AddInt64(&f.selects, 1)
	f.log = append(f.log, fmt.Sprintf("%s   args=%v", q, args))

	prefix := "SELECT " + strings.Join(f.cols, ", ") + " FROM " + f.table
	if !strings.HasPrefix(q, prefix) {
		return nil, fmt.Errorf("fake: unsupported statement %q", q)
	}
	where := strings.TrimPrefix(q, prefix)
	if where != "" {
		if !strings.HasPrefix(where, " WHERE ") {
			return nil, fmt.Errorf("fake: unsupported statement %q", q)
		}
		where = strings.TrimPrefix(where, " WHERE ")
	}
	toks := h5lex(where)
	out := &h5rowsIter{cols: f.cols}
	for _, r := range f.rows {
		match := true
		if where != "" {
			row := make(map[string]driver.Value, len(f.cols))
			for i, c := range f.cols {
				row[c] = r[i]
			}
			e := &h5eval{toks: toks, args: args, row: row, f: f}
			match = e.or()
			if e.err == nil && (e.pos != len(toks) || e.argi != len(args)) {
				e.fail("trailing tokens or unused arguments in %q", where)
			}
			if e.err != nil {
				return nil, e.err
			}
		}
		if match {
			o := make([]driver.Value, len(r))
			for i, v := range r {
				if b, ok := v.([]byte); ok {
					v = append([]byte(nil), b...)
				}
				o[i] = v
			}
			out.rows = append(out.rows, o)
		}
	}
	return out, nil
}
