// WITHIN ROOM (not counted as findings; each test fails to show the behaviour): (a) cancelling the context of the call that opened the batch fails the other calls; (b) a call whose filter value the driver rejects fails the other calls; (c) calls of one batch share row structs.
//
// Copy this file into the package directory sqlgen/ of the thunder worktree
// (it is an internal test of package sqlgen) and run:
//
//	go test ./sqlgen/ -run '^TestHuntC10Room.*$' -v
//
// The file is self-contained: it brings its own in-memory database/sql driver
// (hrfake...) that evaluates exactly the SELECT statements sqlgen emits
// (col = ?, col IS ?, col IS NULL, col IN (?, ..), AND, OR, parentheses).
// "On its own" means: the very same db.Query call made with a context that has
// no batching, against the same table. "Batched" means: the same calls made
// concurrently under batch.WithBatching; the test checks that the fake saw a
// single SELECT for them.
package sqlgen

import (
	"context"
	"database/sql"
	"database/sql/driver"
	"fmt"
	"io"
	"reflect"
	"strconv"
	"strings"
	"sync"
	"sync/atomic"
	"testing"
	"time"

	"github.com/samsarahq/thunder/batch"
)

type hrRow struct {
	Id int64 `sql:"id,primary"`
	N  int64 `sql:"n"`
}

func hrtable() (*DB, *hrfake) {
	return hrnewDB([]string{"id", "n"}, [][]driver.Value{
		{int64(1), int64(5)},
		{int64(2), int64(6)},
	}, false)
}

// (a) B's own context is never cancelled, yet B fails because A, which
// happened to open the batch, was cancelled.
func TestHuntC10RoomCancelledOpenerFailsJoiners(t *testing.T) {
	db, _ := hrtable()
	root := batch.WithBatching(context.Background())
	ctxA, cancelA := context.WithCancel(root)
	errA := make(chan error, 1)
	resB := make(chan hrresult, 1)
	go func() {
		var rows []*hrRow
		errA <- db.Query(ctxA, &rows, Filter{"id": 1}, nil)
	}()
	time.Sleep(20 * time.Millisecond) // A has opened the batch (window: 100ms)
	go func() {
		var rows []*hrRow
		err := db.Query(root, &rows, Filter{"id": 2}, nil)
		resB <- hrresult{hrids(rows), rows, err}
	}()
	time.Sleep(20 * time.Millisecond) // B has joined
	cancelA()
	<-errA
	if b := <-resB; b.err != nil {
		t.Errorf("B (context not cancelled): on its own returns rows [2], batched returns error: %v", b.err)
	}
}

// (b) []int is not a value the driver accepts; the call fails on its own, and
// batched it takes the innocent call down with it.
func TestHuntC10RoomRejectedArgumentFailsOthers(t *testing.T) {
	db, fake := hrtable()
	good, bad := Filter{"id": 1}, Filter{"n": []int{5}}
	if s := hrsolo(db, bad); s.err == nil {
		t.Fatalf("harness: expected %s to fail on its own", hrdescribe(bad))
	}
	ctx := batch.WithBatching(context.Background())
	out := make([]error, 2)
	var wg sync.WaitGroup
	for i, f := range []Filter{good, bad} {
		wg.Add(1)
		go func(i int, f Filter) {
			defer wg.Done()
			var rows []*hrRow
			out[i] = db.Query(ctx, &rows, f, nil)
		}(i, f)
	}
	wg.Wait()
	_ = fake
	if out[0] != nil {
		t.Errorf("%s: on its own returns rows [1], batched with %s returns error: %v", hrdescribe(good), hrdescribe(bad), out[0])
	}
}

// (c) On their own two calls get two structs; batched they get the same one,
// so a caller that modifies its result modifies the other caller's.
func TestHuntC10RoomSharedRowStructs(t *testing.T) {
	db, fake := hrtable()
	got := hrbatched(t, db, fake, []Filter{{"id": 1}, {"n": 5}})
	if got[0].rows[0] == got[1].rows[0] {
		got[0].rows[0].N = 99
		t.Errorf("both calls were handed the same *Row; after the first caller set N=99 the second caller sees N=%d", got[1].rows[0].N)
	}
}

// ---------------------------------------------------------------------------
// harness

func hrids(rows []*hrRow) []int64 {
	ids := []int64{}
	for _, r := range rows {
		ids = append(ids, r.Id)
	}
	return ids
}

func hrnewDB(cols []string, rows [][]driver.Value, ci bool) (*DB, *hrfake) {
	fake := &hrfake{table: "hrrows", cols: cols, rows: rows, ci: ci}
	schema := NewSchema()
	schema.MustRegisterType("hrrows", AutoIncrement, hrRow{})
	db := NewDB(hropen(fake), schema)
	// Make the batch window wide enough that all goroutines of a test join it.
	db.batchFetch.WaitInterval = 100 * time.Millisecond
	db.batchFetch.MaxDuration = 5 * time.Second
	return db, fake
}

type hrresult struct {
	ids  []int64
	rows []*hrRow
	err  error
}

func hrsolo(db *DB, f Filter) hrresult {
	var rows []*hrRow
	err := db.Query(context.Background(), &rows, f, nil)
	return hrresult{hrids(rows), rows, err}
}

func hrbatched(t *testing.T, db *DB, fake *hrfake, filters []Filter) []hrresult {
	before := atomic.LoadInt64(&fake.selects)
	ctx := batch.WithBatching(context.Background())
	out := make([]hrresult, len(filters))
	var wg sync.WaitGroup
	for i := range filters {
		wg.Add(1)
		go func(i int) {
			defer wg.Done()
			var rows []*hrRow
			err := db.Query(ctx, &rows, filters[i], nil)
			out[i] = hrresult{hrids(rows), rows, err}
		}(i)
	}
	wg.Wait()
	if n := atomic.LoadInt64(&fake.selects) - before; n != 1 {
		t.Fatalf("harness: expected the %d calls to be combined into 1 SELECT, saw %d", len(filters), n)
	}
	return out
}

func hrdescribe(f Filter) string {
	var parts []string
	for k, v := range f {
		parts = append(parts, fmt.Sprintf("%s: %T(%v)", k, v, v))
	}
	return "Filter{" + strings.Join(parts, ", ") + "}"
}

// hrcheck runs every filter on its own and all of them batched, and reports
// every call whose batched result differs from its result on its own.
func hrcheck(t *testing.T, db *DB, fake *hrfake, filters []Filter) {
	t.Helper()
	var solos []hrresult
	for _, f := range filters {
		s := hrsolo(db, f)
		if s.err != nil {
			t.Fatalf("harness: %s fails on its own: %v", hrdescribe(f), s.err)
		}
		solos = append(solos, s)
	}
	got := hrbatched(t, db, fake, filters)
	for i, f := range filters {
		if got[i].err != nil {
			t.Errorf("%s: on its own returns rows %v, batched returns error %v", hrdescribe(f), solos[i].ids, got[i].err)
			continue
		}
		if !reflect.DeepEqual(got[i].ids, solos[i].ids) {
			t.Errorf("%s: on its own returns rows %v, batched returns rows %v", hrdescribe(f), solos[i].ids, got[i].ids)
		}
	}
	t.Logf("statements seen by the database:\n  %s", strings.Join(fake.log, "\n  "))
}

// ---------------------------------------------------------------------------
// in-memory database/sql driver

type hrfake struct {
	table   string
	cols    []string
	rows    [][]driver.Value
	ci      bool // text compares case-insensitively and ignores trailing spaces (MySQL *_ci, PAD SPACE)
	mu      sync.Mutex
	selects int64
	log     []string
}

var hrseq int64

func hropen(f *hrfake) *sql.DB {
	name := fmt.Sprintf("hrfake%d", atomic.AddInt64(&hrseq, 1))
	sql.Register(name, &hrdriver{f})
	db, err := sql.Open(name, "")
	if err != nil {
		panic(err)
	}
	return db
}

type hrdriver struct{ f *hrfake }

func (d *hrdriver) Open(string) (driver.Conn, error) { return &hrconn{d.f}, nil }

type hrconn struct{ f *hrfake }

func (c *hrconn) Prepare(q string) (driver.Stmt, error) { return &hrstmt{c.f, q}, nil }
func (c *hrconn) Close() error                          { return nil }
func (c *hrconn) Begin() (driver.Tx, error)             { return nil, fmt.Errorf("no transactions") }

type hrstmt struct {
	f *hrfake
	q string
}

func (s *hrstmt) Close() error  { return nil }
func (s *hrstmt) NumInput() int { return -1 }
func (s *hrstmt) Exec([]driver.Value) (driver.Result, error) {
	return nil, fmt.Errorf("exec unsupported")
}
func (s *hrstmt) Query(args []driver.Value) (driver.Rows, error) { return s.f.query(s.q, args) }

type hrrowsIter struct {
	cols []string
	rows [][]driver.Value
	i    int
}

func (r *hrrowsIter) Columns() []string { return r.cols }
func (r *hrrowsIter) Close() error      { return nil }
func (r *hrrowsIter) Next(dest []driver.Value) error {
	if r.i >= len(r.rows) {
		return io.EOF
	}
	copy(dest, r.rows[r.i])
	r.i++
	return nil
}

func hrlex(s string) []string {
	var out []string
	for i := 0; i < len(s); {
		c := s[i]
		switch {
		case c == ' ':
			i++
		case strings.ContainsRune("(),?=", rune(c)):
			out = append(out, string(c))
			i++
		default:
			j := i
			for j < len(s) && !strings.ContainsRune(" (),?=", rune(s[j])) {
				j++
			}
			out = append(out, s[i:j])
			i = j
		}
	}
	return out
}

type hreval struct {
	toks []string
	pos  int
	args []driver.Value
	argi int
	row  map[string]driver.Value
	f    *hrfake
	err  error
}

func (e *hreval) fail(format string, a ...interface{}) {
	if e.err == nil {
		e.err = fmt.Errorf(format, a...)
	}
}
func (e *hreval) peek() string {
	if e.pos < len(e.toks) {
		return e.toks[e.pos]
	}
	return ""
}
func (e *hreval) next() string { t := e.peek(); e.pos++; return t }
func (e *hreval) expect(s string) {
	if t := e.next(); !strings.EqualFold(t, s) {
		e.fail("syntax error: expected %q, got %q", s, t)
	}
}
func (e *hreval) arg() driver.Value {
	if e.argi >= len(e.args) {
		e.fail("not enough arguments")
		return nil
	}
	a := e.args[e.argi]
	e.argi++
	return a
}
func (e *hreval) or() bool {
	v := e.and()
	for strings.EqualFold(e.peek(), "OR") {
		e.next()
		w := e.and()
		v = v || w
	}
	return v
}
func (e *hreval) and() bool {
	v := e.atom()
	for strings.EqualFold(e.peek(), "AND") {
		e.next()
		w := e.atom()
		v = v && w
	}
	return v
}
func (e *hreval) atom() bool {
	if e.err != nil {
		return false
	}
	if e.peek() == "(" {
		e.next()
		v := e.or()
		e.expect(")")
		return v
	}
	col := e.next()
	cv, ok := e.row[col]
	if !ok {
		e.fail("unknown column %q", col)
		return false
	}
	switch op := strings.ToUpper(e.next()); op {
	case "=":
		e.expect("?")
		return e.f.eq(cv, e.arg())
	case "IS":
		switch t := e.next(); {
		case strings.EqualFold(t, "NULL"):
			return cv == nil
		case t == "?":
			if a := e.arg(); a != nil {
				e.fail("IS ? with a non-NULL argument")
			}
			return cv == nil
		}
		e.fail("syntax error after IS")
	case "IN":
		e.expect("(")
		res := false
		for {
			e.expect("?")
			if e.f.eq(cv, e.arg()) {
				res = true
			}
			if e.peek() != "," {
				break
			}
			e.next()
		}
		e.expect(")")
		return res
	default:
		e.fail("syntax error: operator %q", op)
	}
	return false
}

// hrnum is the numeric value MySQL gives a text in a numeric comparison: the
// longest numeric prefix, 0 if there is none.
func hrnum(s string) float64 {
	s = strings.TrimLeft(s, " \t\n")
	best := 0.0
	for j := 1; j <= len(s); j++ {
		if f, err := strconv.ParseFloat(s[:j], 64); err == nil {
			best = f
		}
	}
	return best
}

// eq is MySQL's '=' between a stored column value and a statement parameter.
// NULL equals nothing. Numbers compare numerically (bool parameters are sent
// as 1 and 0, as the MySQL driver does). Texts compare byte-wise, or, with ci,
// ignoring case and trailing spaces. Times compare as instants at microsecond
// precision, the precision the MySQL driver sends parameters with.
func (f *hrfake) eq(col, arg driver.Value) bool {
	type val struct {
		kind byte // 'n'ull, 'i'nt, 'f'loat, 't'ext, 'd'atetime
		i    int64
		f    float64
		s    string
		t    time.Time
	}
	classify := func(v driver.Value) val {
		switch x := v.(type) {
		case nil:
			return val{kind: 'n'}
		case int64:
			return val{kind: 'i', i: x, f: float64(x)}
		case bool:
			if x {
				return val{kind: 'i', i: 1, f: 1}
			}
			return val{kind: 'i'}
		case float64:
			return val{kind: 'f', f: x}
		case string:
			return val{kind: 't', s: x}
		case []byte:
			return val{kind: 't', s: string(x)}
		case time.Time:
			return val{kind: 'd', t: x}
		}
		panic(fmt.Sprintf("fake: unsupported value %T", v))
	}
	c, a := classify(col), classify(arg)
	num := func(k byte) bool { return k == 'i' || k == 'f' }
	switch {
	case c.kind == 'n' || a.kind == 'n':
		return false
	case c.kind == 'i' && a.kind == 'i':
		return c.i == a.i
	case num(c.kind) && num(a.kind):
		return c.f == a.f
	case c.kind == 't' && a.kind == 't':
		if f.ci {
			return strings.EqualFold(strings.TrimRight(c.s, " "), strings.TrimRight(a.s, " "))
		}
		return c.s == a.s
	case c.kind == 't' && num(a.kind):
		return hrnum(c.s) == a.f
	case num(c.kind) && a.kind == 't':
		return c.f == hrnum(a.s)
	case c.kind == 'd' && a.kind == 'd':
		return c.t.Truncate(time.Microsecond).Equal(a.t.Truncate(time.Microsecond))
	}
	return false
}

func (f *hrfake) query(q string, args []driver.Value) (driver.Rows, error) {
	f.mu.Lock()
	defer f.mu.Unlock()
	atomic.AddInt64(&f.selects, 1)
	f.log = append(f.log, fmt.Sprintf("%s   args=%v", q, args))

	prefix := "SELECT " + strings.Join(f.cols, ", ") + " FROM " + f.table
	if !strings.HasPrefix(q, prefix) {
		return nil, fmt.Errorf("fake: unsupported statement %q", q)
	}
	where := strings.TrimPrefix(q, prefix)
	if where != "" {
		if !strings.HasPrefix(where, " WHERE ") {
			return nil, fmt.Errorf("fake: unsupported statement %q", q)
		}
		where = strings.TrimPrefix(where, " WHERE ")
	}
	toks := hrlex(where)
	out := &hrrowsIter{cols: f.cols}
	for _, r := range f.rows {
		match := true
		if where != "" {
			row := make(map[string]driver.Value, len(f.cols))
			for i, c := range f.cols {
				row[c] = r[i]
			}
			e := &hreval{toks: toks, args: args, row: row, f: f}
			match = e.or()
			if e.err == nil && (e.pos != len(toks) || e.argi != len(args)) {
				e.fail("trailing tokens or unused arguments in %q", where)
			}
			if e.err != nil {
				return nil, e.err
			}
		}
		if match {
			o := make([]driver.Value, len(r))
			for i, v := range r {
				if b, ok := v.([]byte); ok {
					v = append([]byte(nil), b...)
				}
				o[i] = v
			}
			out.rows = append(out.rows, o)
		}
	}
	return out, nil
}
