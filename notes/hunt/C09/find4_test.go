// find4_test.go -- An enum with two names for one Go value (an alias kept for
// backwards compatibility) is introspected with only ONE of the names, chosen
// by map iteration order at schema-build time. The service accepts both names
// as input, but the gateway schema contains only one of them, and which one
// changes from build to build, so two replicas of the very same version can
// report different schemas (their intersection then loses the value entirely).
//
// Copy into:  federation/   (package federation)
// Run:        go test ./federation/ -run 'TestFind4' -v
//
// Responsible: graphql/introspection/introspection.go:263-272 -- enumValues
// ranges over Enum.ReverseMap (Go value -> one name, filled by
// schemabuilder.getEnumMap in random map order) instead of Enum.Values (all
// names). Minimal repair: list t.Values (sorted).
package federation

import (
	"context"
	"encoding/json"
	"sort"
	"strings"
	"testing"

	"github.com/samsarahq/thunder/graphql"
	"github.com/samsarahq/thunder/graphql/introspection"
	"github.com/samsarahq/thunder/graphql/schemabuilder"
)

type F4Level int64

func f4Schema() *graphql.Schema {
	s := schemabuilder.NewSchema()
	// "WARN" is the current name, "WARNING" the old one, still accepted.
	s.Enum(F4Level(0), map[string]F4Level{"INFO": 1, "WARN": 2, "WARNING": 2})
	s.Query().FieldFunc("log", func(args struct{ L F4Level }) int64 { return int64(args.L) })
	s.Mutation()
	return s.MustBuild()
}

func f4Extract(t *testing.T, schema *graphql.Schema) *IntrospectionQueryResult {
	bytes, err := introspection.RunIntrospectionQuery(introspection.BareIntrospectionSchema(schema))
	if err != nil {
		t.Fatal(err)
	}
	var iq IntrospectionQueryResult
	if err := json.Unmarshal(bytes, &iq); err != nil {
		t.Fatal(err)
	}
	return &iq
}

func f4Values(t *testing.T, iq *IntrospectionQueryResult) string {
	for _, typ := range iq.Schema.Types {
		if typ.Name == "F4Level" {
			var vs []string
			for _, v := range typ.EnumValues {
				vs = append(vs, v.Name)
			}
			sort.Strings(vs)
			return strings.Join(vs, ",")
		}
	}
	t.Fatal("no F4Level")
	return ""
}

func TestFind4EnumAliasMissingFromGatewaySchema(t *testing.T) {
	schema := f4Schema()
	// The service itself accepts all three names.
	for _, name := range []string{"INFO", "WARN", "WARNING"} {
		q := graphql.MustParse(`{ log(l: `+name+`) }`, nil)
		if err := graphql.PrepareQuery(context.Background(), schema.Query, q.SelectionSet); err != nil {
			t.Fatalf("service rejects %s: %v", name, err)
		}
	}
	merged, err := MergeIntrospectionSchemas(serviceSchemas{"svc": {"v1": f4Extract(t, schema)}})
	if err != nil {
		t.Fatal(err)
	}
	if got := f4Values(t, merged); got != "INFO,WARN,WARNING" {
		t.Errorf("gateway schema lists enum values %q, the service supports INFO,WARN,WARNING", got)
	}
}

func TestFind4SameVersionBuiltTwiceDiffers(t *testing.T) {
	seen := map[string]bool{}
	for i := 0; i < 64; i++ {
		seen[f4Values(t, f4Extract(t, f4Schema()))] = true
	}
	if len(seen) != 1 {
		t.Errorf("64 builds of the same service version were introspected with different enum values: %v", seen)
	}
	// and then the intersection of two replicas of one version can lose the value:
	for i := 0; i < 64; i++ {
		merged, err := MergeIntrospectionSchemas(serviceSchemas{"svc": {"replica1": f4Extract(t, f4Schema()), "replica2": f4Extract(t, f4Schema())}})
		if err != nil {
			t.Fatal(err)
		}
		if got := f4Values(t, merged); !strings.Contains(got, "WARN") {
			t.Errorf("two replicas of the same version: merged enum values %q have neither WARN nor WARNING", got)
			break
		}
	}
}
