// extra1_test.go -- NOT a violation of the property as worded (no wrong schema
// is produced), listed as adjacent: a legal field type nested deeper than the
// introspection query's TypeRef fragment (8 levels: kind + 7 x ofType,
// graphql/introspection/introspection_query.go:60-91) is truncated, e.g.
// [][][][]int64 = [[[[int64!]!]!]!]! needs 9. With one version the gateway
// refuses the whole schema ("malformed typeref"); with two versions
// mergeTypeRefs dereferences the nil OfType (merge_schemas.go:140-148) and the
// gateway panics.
//
// Copy into:  federation/   (package federation)
// Run:        go test ./federation/ -run 'TestExtra1' -v
package federation

import (
	"encoding/json"
	"testing"

	"github.com/samsarahq/thunder/graphql/introspection"
	"github.com/samsarahq/thunder/graphql/schemabuilder"
)

func x1Extract(t *testing.T) *IntrospectionQueryResult {
	s := schemabuilder.NewSchema()
	s.Query().FieldFunc("grid", func() [][][][]int64 { return nil })
	s.Mutation()
	bytes, err := introspection.RunIntrospectionQuery(introspection.BareIntrospectionSchema(s.MustBuild()))
	if err != nil {
		t.Fatal(err)
	}
	var iq IntrospectionQueryResult
	if err := json.Unmarshal(bytes, &iq); err != nil {
		t.Fatal(err)
	}
	return &iq
}

func TestExtra1DeepListOneVersion(t *testing.T) {
	if _, err := ConvertVersionedSchemas(serviceSchemas{"svc": {"v1": x1Extract(t)}}); err != nil {
		t.Errorf("a service with a [][][][]int64 field cannot be federated: %v", err)
	}
}

func TestExtra1DeepListTwoVersionsPanics(t *testing.T) {
	defer func() {
		if r := recover(); r != nil {
			t.Errorf("merging two identical versions panicked: %v", r)
		}
	}()
	if _, err := ConvertVersionedSchemas(serviceSchemas{"svc": {"v1": x1Extract(t), "v2": x1Extract(t)}}); err != nil {
		t.Errorf("a service with a [][][][]int64 field cannot be federated: %v", err)
	}
}
