// find1_test.go -- Union merge of services depends on how the services are named.
//
// Copy into:  federation/   (package federation)
// Run:        go test ./federation/ -run 'TestFind1' -v
//
// Three services implement Query.f. One takes an optional argument x, one
// takes no argument, one requires x. Service schemas are folded pairwise in
// the order of the sorted service names (processSchemaVersions +
// mergeSchemaSlice), and mergeInputFields (merge_schemas.go:215-222) only
// refuses a required input that is missing on the other side when it sees the
// two sides *directly*. If an earlier step already copied the optional x into
// the accumulated schema, the later "required" side is merged against that
// copy and the service that has no x at all is forgotten.
package federation

import (
	"context"
	"encoding/json"
	"fmt"
	"testing"

	"github.com/samsarahq/thunder/graphql"
	"github.com/samsarahq/thunder/graphql/introspection"
	"github.com/samsarahq/thunder/graphql/schemabuilder"
)

func f1Extract(t *testing.T, schema *graphql.Schema) *IntrospectionQueryResult {
	bytes, err := introspection.RunIntrospectionQuery(introspection.BareIntrospectionSchema(schema))
	if err != nil {
		t.Fatal(err)
	}
	var iq IntrospectionQueryResult
	if err := json.Unmarshal(bytes, &iq); err != nil {
		t.Fatal(err)
	}
	return &iq
}

func f1Schemas() (optional, none, required *graphql.Schema) {
	a := schemabuilder.NewSchema()
	a.Query().FieldFunc("f", func(args struct{ X *int64 }) int64 { return 1 })
	a.Mutation()
	b := schemabuilder.NewSchema()
	b.Query().FieldFunc("f", func() int64 { return 1 })
	b.Mutation()
	c := schemabuilder.NewSchema()
	c.Query().FieldFunc("f", func(args struct{ X int64 }) int64 { return 1 })
	c.Mutation()
	return a.MustBuild(), b.MustBuild(), c.MustBuild()
}

func f1Outcome(t *testing.T, in serviceSchemas) string {
	merged, err := MergeIntrospectionSchemas(in)
	if err != nil {
		return "error"
	}
	for _, typ := range merged.Schema.Types {
		if typ.Name != "Query" {
			continue
		}
		for _, f := range typ.Fields {
			if f.Name != "f" {
				continue
			}
			s := "ok: f("
			for _, a := range f.Args {
				s += fmt.Sprintf("%s: %s", a.Name, a.Type)
			}
			return s + ")"
		}
	}
	return "ok: no f"
}

// The same three services, only named differently, must give the same outcome.
func TestFind1UnionOutcomeDependsOnServiceNames(t *testing.T) {
	optional, none, required := f1Schemas()
	so, sn, sr := f1Extract(t, optional), f1Extract(t, none), f1Extract(t, required)

	perms := [][3]string{{"1", "2", "3"}, {"1", "3", "2"}, {"2", "1", "3"}, {"2", "3", "1"}, {"3", "1", "2"}, {"3", "2", "1"}}
	outcomes := map[string][]string{}
	for _, p := range perms {
		in := serviceSchemas{
			"svc" + p[0]: {"": so},
			"svc" + p[1]: {"": sn},
			"svc" + p[2]: {"": sr},
		}
		o := f1Outcome(t, in)
		naming := fmt.Sprintf("optional=svc%s none=svc%s required=svc%s", p[0], p[1], p[2])
		t.Logf("%s -> %s", naming, o)
		outcomes[o] = append(outcomes[o], naming)
	}
	if len(outcomes) != 1 {
		t.Errorf("the outcome of merging the same three services depends on their names: %v", outcomes)
	}
}

// In the namings that succeed, the merged field requires x although one of the
// services that will execute Query.f takes no arguments: no query is valid
// against both the merged schema and that service.
func TestFind1SuccessfulMergeNotExecutable(t *testing.T) {
	optional, none, required := f1Schemas()
	in := serviceSchemas{
		"svc1": {"": f1Extract(t, optional)},
		"svc2": {"": f1Extract(t, none)},
		"svc3": {"": f1Extract(t, required)},
	}
	res, err := ConvertVersionedSchemas(in)
	if err != nil {
		t.Skipf("merge refused (which would be the consistent answer): %v", err)
	}
	f := res.Schema.Query.(*graphql.Object).Fields["f"]
	if _, ok := f.Args["x"].(*graphql.NonNull); !ok {
		t.Fatalf("expected merged f(x: int64!), got %v", f.Args)
	}
	if !res.Fields[f].Services["svc2"] {
		t.Fatalf("expected svc2 among the services executing Query.f: %v", res.Fields[f].Services)
	}
	// The merged schema requires x, so a valid gateway query is { f(x: 1) }.
	// svc2 (annotated as able to execute Query.f) rejects it.
	q := graphql.MustParse(`{ f(x: 1) }`, nil)
	if err := graphql.PrepareQuery(context.Background(), none.Query, q.SelectionSet); err != nil {
		t.Errorf("merged schema has f(x: int64!) executable by svc2, but svc2 rejects { f(x: 1) }: %v", err)
	}
}
