// find3_test.go -- In Union mode the INPUT side of items shared by two services
// (enum values, arguments of a field both implement, fields of a shared input
// object) is unioned too, so the merged schema accepts queries that the
// service which will execute that part rejects.
//
// Copy into:  federation/   (package federation)
// Run:        go test ./federation/ -run 'TestFind3' -v
//
// Responsible: mergeEnumValues (merge_schemas.go:332-337) and mergeInputFields
// (merge_schemas.go:215-222) keep one-sided items when mode == Union. The code
// carries an "XXX: take intersection on ENUM values to not confuse a service
// with a type it doesn't support?" note (merge_schemas.go:29-30) and
// TestSchemaUnionInputFields pins the argument union, so this is the designed
// behaviour; it nevertheless contradicts "any query that validates against the
// merged schema validates against every version of the service that will
// execute each part".
package federation

import (
	"context"
	"strings"
	"testing"

	"github.com/samsarahq/thunder/graphql"
	"github.com/samsarahq/thunder/graphql/schemabuilder"
)

type F3Color int64

func f3Executors(t *testing.T, schemas map[string]*schemabuilder.Schema) (*Executor, map[string]*graphql.Schema) {
	ctx := context.Background()
	execs := make(map[string]ExecutorClient)
	built := make(map[string]*graphql.Schema)
	for name, s := range schemas {
		schema := s.MustBuild()
		built[name] = schema
		srv, err := NewServer(schema)
		if err != nil {
			t.Fatal(err)
		}
		execs[name] = &DirectExecutorClient{Client: srv}
	}
	e, err := NewExecutor(ctx, execs, &SchemaSyncerConfig{SchemaSyncer: NewIntrospectionSchemaSyncer(ctx, execs, nil)})
	if err != nil {
		t.Fatal(err)
	}
	return e, built
}

// Two services share the enum F3Color; the newer one knows one more value.
// paintOld is implemented by the older service only.
func TestFind3EnumValueUnknownToExecutingService(t *testing.T) {
	older := schemabuilder.NewSchema()
	older.Enum(F3Color(0), map[string]F3Color{"RED": 1, "GREEN": 2})
	older.Query().FieldFunc("paintOld", func(args struct{ C F3Color }) int64 { return int64(args.C) })
	older.Mutation()

	newer := schemabuilder.NewSchema()
	newer.Enum(F3Color(0), map[string]F3Color{"RED": 1, "GREEN": 2, "BLUE": 3})
	newer.Query().FieldFunc("paintNew", func(args struct{ C F3Color }) int64 { return int64(args.C) })
	newer.Mutation()

	e, _ := f3Executors(t, map[string]*schemabuilder.Schema{"older": older, "newer": newer})

	// The merged schema: paintOld(c: F3Color!) with BLUE a value of F3Color.
	planner := e.getPlanner()
	field := planner.schema.Schema.Query.(*graphql.Object).Fields["paintOld"]
	enum := field.Args["c"].(*graphql.NonNull).Type.(*graphql.Enum)
	hasBlue := false
	for _, v := range enum.Values {
		if v == "BLUE" {
			hasBlue = true
		}
	}
	if !hasBlue {
		t.Skip("merged enum has no BLUE; nothing to show")
	}
	if s := planner.schema.Fields[field].Services; len(s) != 1 || !s["older"] {
		t.Fatalf("expected paintOld to be executed by older only: %v", s)
	}

	// { paintOld(c: BLUE) } is valid against the merged schema ...
	_, _, err := e.Execute(context.Background(), graphql.MustParse(`{ paintOld(c: BLUE) }`, nil), nil)
	// ... and must therefore be valid for the service that executes it.
	if err != nil {
		t.Errorf("query valid against the merged schema is rejected by the executing service: %s", strings.SplitN(err.Error(), "\n", 2)[0])
	}
}

// Two services implement Query.f; one takes an optional argument, the other
// takes none. The merged field has the argument, both services are annotated
// as able to execute it.
func TestFind3ArgumentUnknownToExecutingService(t *testing.T) {
	withArg := schemabuilder.NewSchema()
	withArg.Query().FieldFunc("f", func(args struct{ X *int64 }) int64 { return 1 })
	withArg.Mutation()
	without := schemabuilder.NewSchema()
	without.Query().FieldFunc("f", func() int64 { return 1 })
	without.Mutation()

	e, built := f3Executors(t, map[string]*schemabuilder.Schema{"witharg": withArg, "without": without})
	planner := e.getPlanner()
	field := planner.schema.Schema.Query.(*graphql.Object).Fields["f"]
	if _, ok := field.Args["x"]; !ok {
		t.Skip("merged field has no x; nothing to show")
	}
	for name := range planner.schema.Fields[field].Services {
		q := graphql.MustParse(`{ f(x: 1) }`, nil)
		if err := graphql.PrepareQuery(context.Background(), built[name].Query, q.SelectionSet); err != nil {
			t.Errorf("merged schema has f(x: int64) executable by %s, but %s rejects { f(x: 1) }: %v", name, name, err)
		}
	}
}
