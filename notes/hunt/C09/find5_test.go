// find5_test.go -- Two different Go argument structs with the same type name
// (different packages, or local types) are both exposed as input object
// "<Name>_InputObject". schemabuilder refuses this for output objects
// ("duplicate name ...") but not for input objects, and introspection keeps
// whichever of the two it happens to visit first (map iteration order), for
// both uses. The gateway schema then lacks (and wrongly requires) fields for
// one of the two fields, and differs between builds of the same version.
//
// Copy into:  federation/   (package federation)
// Run:        go test ./federation/ -run 'TestFind5' -v
//
// Responsible: graphql/introspection/introspection.go:331-339 (collectTypes
// registers input objects by name, first one wins, iteration over the
// typ.Fields / field.Args maps at 299-304 is random). Minimal repair: report
// an error for two distinct *graphql.InputObject with one name (as
// schemabuilder does for objects), or have schemabuilder reject it at build.
package federation

import (
	"context"
	"encoding/json"
	"sort"
	"strings"
	"testing"

	"github.com/samsarahq/thunder/graphql"
	"github.com/samsarahq/thunder/graphql/introspection"
	"github.com/samsarahq/thunder/graphql/schemabuilder"
)

func f5RegisterA(s *schemabuilder.Schema) {
	type Filter struct{ A int64 }
	s.Query().FieldFunc("fa", func(args struct{ In Filter }) int64 { return 1 })
}

func f5RegisterB(s *schemabuilder.Schema) {
	type Filter struct{ B *string }
	s.Query().FieldFunc("fb", func(args struct{ In Filter }) int64 { return 1 })
}

func f5Schema() *graphql.Schema {
	s := schemabuilder.NewSchema()
	f5RegisterA(s)
	f5RegisterB(s)
	s.Mutation()
	return s.MustBuild()
}

func f5Extract(t *testing.T, schema *graphql.Schema) *IntrospectionQueryResult {
	bytes, err := introspection.RunIntrospectionQuery(introspection.BareIntrospectionSchema(schema))
	if err != nil {
		t.Fatal(err)
	}
	var iq IntrospectionQueryResult
	if err := json.Unmarshal(bytes, &iq); err != nil {
		t.Fatal(err)
	}
	return &iq
}

func f5Fields(t *testing.T, iq *IntrospectionQueryResult) string {
	for _, typ := range iq.Schema.Types {
		if typ.Name == "Filter_InputObject" {
			var vs []string
			for _, v := range typ.InputFields {
				vs = append(vs, v.Name+": "+v.Type.String())
			}
			sort.Strings(vs)
			return strings.Join(vs, ", ")
		}
	}
	t.Fatal("no Filter_InputObject")
	return ""
}

func TestFind5DuplicateInputObjectName(t *testing.T) {
	schema := f5Schema()
	// The service executes both.
	for _, q := range []string{`{ fa(in: {a: 1}) }`, `{ fb(in: {b: "x"}) }`, `{ fb(in: {}) }`} {
		parsed := graphql.MustParse(q, nil)
		if err := graphql.PrepareQuery(context.Background(), schema.Query, parsed.SelectionSet); err != nil {
			t.Fatalf("service rejects %s: %v", q, err)
		}
	}
	merged, err := MergeIntrospectionSchemas(serviceSchemas{"svc": {"v1": f5Extract(t, schema)}})
	if err != nil {
		t.Fatal(err)
	}
	got := f5Fields(t, merged)
	// Both { fa(in: {a: 1}) } and { fb(in: {b: "x"}) } are supported by the
	// service, so both must be valid against the gateway schema. fa and fb
	// share the one input type, which has the fields of only one of them.
	if !strings.Contains(got, "a: int64") {
		t.Errorf("gateway schema: fa(in: Filter_InputObject {%s}) has no field a; the service's fa takes {a: int64!}", got)
	}
	if !strings.Contains(got, "b: string") {
		t.Errorf("gateway schema: fb(in: Filter_InputObject {%s}) has no field b; the service's fb takes {b: string}", got)
	}
}

func TestFind5SameVersionBuiltTwiceDiffers(t *testing.T) {
	seen := map[string]bool{}
	for i := 0; i < 64; i++ {
		seen[f5Fields(t, f5Extract(t, f5Schema()))] = true
	}
	if len(seen) != 1 {
		t.Errorf("64 builds of the same service version were introspected differently: %v", seen)
	}
	for i := 0; i < 64; i++ {
		_, err := MergeIntrospectionSchemas(serviceSchemas{"svc": {"replica1": f5Extract(t, f5Schema()), "replica2": f5Extract(t, f5Schema())}})
		if err != nil {
			t.Errorf("two replicas of the same version cannot be merged: %v", err)
			break
		}
	}
}
