// hunt_fuzz_test.go -- the differential harness used for the C09 hunt (not a
// finding by itself; it always passes and logs class counts).
//
// Copy into:  federation/   (package federation)
// Run:        go test ./federation/ -run 'TestHuntFuzz' -v          (three generators, 6000 cases each)
//             HUNT_SEED=2 go test ./federation/ -run 'TestHuntFuzz' -v
//             HUNT_ITER=18 go test ./federation/ -run TestHuntDump -v  (print one case of the default generator)
//
// Generator: 1-3 services x 1-3 versions (or 1 service x 1-4 versions), every
// version a random sub-schema of one catalog (objects, nested lists, args,
// input objects, an enum, a union), versions of one service are perturbations
// of a common base; non-null flags random at every level; optionally scalar
// base types flipped (type conflicts).
// Checker (hCheck): the reading of the property described in README.md.
package federation

import (
	"encoding/json"
	"fmt"
	"math/rand"
	"os"
	"sort"
	"strconv"
	"strings"
	"testing"

	"github.com/samsarahq/thunder/graphql"
)

// ---------- catalog ----------

type hSpec struct {
	name  string
	kind  string // base kind
	base  string // base name
	depth int    // list depth
	args  []hSpec
}

var hObjects = map[string][]hSpec{
	"Query": {
		{name: "a", kind: "OBJECT", base: "A", args: []hSpec{{name: "id", kind: "SCALAR", base: "int64"}, {name: "in", kind: "INPUT_OBJECT", base: "I1"}}},
		{name: "bs", kind: "OBJECT", base: "B", depth: 1, args: []hSpec{{name: "e", kind: "ENUM", base: "E"}, {name: "ids", kind: "SCALAR", base: "int64", depth: 1}}},
		{name: "u", kind: "UNION", base: "U", depth: 1},
		{name: "n", kind: "SCALAR", base: "int64", args: []hSpec{{name: "x", kind: "SCALAR", base: "int64"}}},
	},
	"Mutation": {
		{name: "m", kind: "SCALAR", base: "string", args: []hSpec{{name: "in", kind: "INPUT_OBJECT", base: "I2", depth: 1}}},
	},
	"A": {
		{name: "id", kind: "SCALAR", base: "int64"},
		{name: "b", kind: "OBJECT", base: "B", args: []hSpec{{name: "x", kind: "SCALAR", base: "int64"}, {name: "y", kind: "SCALAR", base: "string"}}},
		{name: "e", kind: "ENUM", base: "E"},
		{name: "mm", kind: "SCALAR", base: "string", depth: 2},
	},
	"B": {
		{name: "id", kind: "SCALAR", base: "int64"},
		{name: "c", kind: "OBJECT", base: "C", depth: 1},
		{name: "s", kind: "SCALAR", base: "string", args: []hSpec{{name: "in", kind: "INPUT_OBJECT", base: "I1"}}},
	},
	"C": {
		{name: "id", kind: "SCALAR", base: "int64"},
		{name: "a", kind: "OBJECT", base: "A"},
	},
}
var hInputs = map[string][]hSpec{
	"I1": {{name: "p", kind: "SCALAR", base: "int64"}, {name: "q", kind: "ENUM", base: "E"}, {name: "r", kind: "INPUT_OBJECT", base: "I2"}, {name: "l", kind: "SCALAR", base: "string", depth: 1}},
	"I2": {{name: "z", kind: "SCALAR", base: "int64"}, {name: "w", kind: "SCALAR", base: "string"}},
}
var hEnumVals = []string{"V1", "V2", "V3"}
var hUnionMembers = []string{"A", "B", "C"}

func hSeed() int {
	n, err := strconv.Atoi(os.Getenv("HUNT_SEED"))
	if err != nil {
		return 1
	}
	return n
}

var hAlt = 0.0
var hMaxSvc = 3
var hMaxVer = 3

// ---------- choices ----------

type hChoices struct {
	r      *rand.Rand
	m      map[string]bool
	parent *hChoices
	flip   float64
}

func (c *hChoices) get(key string, p float64) bool {
	if v, ok := c.m[key]; ok {
		return v
	}
	var v bool
	if c.parent != nil {
		v = c.parent.get(key, p)
		if c.r.Float64() < c.flip {
			v = !v
		}
	} else {
		v = c.r.Float64() < p
	}
	c.m[key] = v
	return v
}

func hMkRef(c *hChoices, path string, s hSpec, pNN float64) *introspectionTypeRef {
	t := &introspectionTypeRef{Kind: s.kind, Name: s.base}
	if s.kind == "SCALAR" && hAlt > 0 && c.get("alt:"+path, hAlt) {
		if s.base == "int64" {
			t.Name = "string"
		} else {
			t.Name = "int64"
		}
	}
	for lvl := s.depth; lvl >= 0; lvl-- {
		if c.get(fmt.Sprintf("nn:%s#%d", path, lvl), pNN) {
			t = &introspectionTypeRef{Kind: "NON_NULL", OfType: t}
		}
		if lvl > 0 {
			t = &introspectionTypeRef{Kind: "LIST", OfType: t}
		}
	}
	return t
}

func hBuild(c *hChoices) *IntrospectionQueryResult {
	types := map[string]introspectionType{}
	var work []string
	need := func(kind, name string) {
		if _, ok := types[name]; ok {
			return
		}
		types[name] = introspectionType{Name: name, Kind: kind}
		work = append(work, name)
	}
	need("OBJECT", "Query")
	need("OBJECT", "Mutation")
	for len(work) > 0 {
		name := work[0]
		work = work[1:]
		t := types[name]
		t.Fields = []introspectionField{}
		t.InputFields = []introspectionInputField{}
		t.PossibleTypes = []*introspectionTypeRef{}
		t.EnumValues = []introspectionEnumValue{}
		t.Interfaces = []*introspectionTypeRef{}
		switch t.Kind {
		case "OBJECT":
			for _, f := range hObjects[name] {
				fp := name + "." + f.name
				if !c.get("f:"+fp, 0.7) {
					continue
				}
				fld := introspectionField{Name: f.name, Type: hMkRef(c, fp, f, 0.5), Args: []introspectionInputField{}}
				need(f.kind, getRootType(fld.Type).Name)
				for _, a := range f.args {
					ap := fp + "(" + a.name + ")"
					if !c.get("a:"+ap, 0.7) {
						continue
					}
					fld.Args = append(fld.Args, introspectionInputField{Name: a.name, Type: hMkRef(c, ap, a, 0.3)})
					need(a.kind, getRootType(fld.Args[len(fld.Args)-1].Type).Name)
				}
				t.Fields = append(t.Fields, fld)
			}
		case "INPUT_OBJECT":
			for _, f := range hInputs[name] {
				fp := name + "." + f.name
				if !c.get("if:"+fp, 0.7) {
					continue
				}
				t.InputFields = append(t.InputFields, introspectionInputField{Name: f.name, Type: hMkRef(c, fp, f, 0.3)})
				need(f.kind, getRootType(t.InputFields[len(t.InputFields)-1].Type).Name)
			}
		case "ENUM":
			for _, v := range hEnumVals {
				if c.get("ev:"+v, 0.7) {
					t.EnumValues = append(t.EnumValues, introspectionEnumValue{Name: v})
				}
			}
		case "UNION":
			for _, m := range hUnionMembers {
				if c.get("pt:"+m, 0.7) {
					t.PossibleTypes = append(t.PossibleTypes, &introspectionTypeRef{Kind: "OBJECT", Name: m})
					need("OBJECT", m)
				}
			}
		}
		types[name] = t
	}
	names := make([]string, 0, len(types))
	for n := range types {
		names = append(names, n)
	}
	sort.Strings(names)
	res := &IntrospectionQueryResult{}
	for _, n := range names {
		res.Schema.Types = append(res.Schema.Types, types[n])
	}
	res.Schema.QueryType = introspectionType{Name: "Query"}
	res.Schema.MutationType = introspectionType{Name: "Mutation"}
	return res
}

// ---------- helpers ----------

func hType(s *IntrospectionQueryResult, name string) *introspectionType {
	for i := range s.Schema.Types {
		if s.Schema.Types[i].Name == name {
			return &s.Schema.Types[i]
		}
	}
	return nil
}
func hField(t *introspectionType, name string) *introspectionField {
	if t == nil {
		return nil
	}
	for i := range t.Fields {
		if t.Fields[i].Name == name {
			return &t.Fields[i]
		}
	}
	return nil
}
func hInput(fs []introspectionInputField, name string) *introspectionInputField {
	for i := range fs {
		if fs[i].Name == name {
			return &fs[i]
		}
	}
	return nil
}

// decompose: flags per level (outer first), base kind/name
func hDecomp(t *introspectionTypeRef) ([]bool, string, string) {
	var flags []bool
	for {
		nn := false
		if t.Kind == "NON_NULL" {
			nn = true
			t = t.OfType
		}
		flags = append(flags, nn)
		if t.Kind == "LIST" {
			t = t.OfType
			continue
		}
		return flags, t.Kind, t.Name
	}
}

// ---------- property check ----------

type hViolation struct {
	class string
	msg   string
}

type hContrib struct {
	service, version string
	s                *IntrospectionQueryResult
}

// hCheck checks the merged result against the property. services gives the
// fuzz input; merged is the merged introspection schema; svc maps "T.f" to the
// services annotated on the field.
func hCheck(in serviceSchemas, merged *IntrospectionQueryResult, svc map[string]map[string]bool) []hViolation {
	var out []hViolation
	add := func(class, f string, a ...interface{}) {
		out = append(out, hViolation{class, fmt.Sprintf(f, a...)})
	}
	svcNames := []string{}
	for s := range in {
		svcNames = append(svcNames, s)
	}
	sort.Strings(svcNames)

	// universe of object fields
	allFields := map[string]bool{}
	for _, vs := range in {
		for _, v := range vs {
			for _, t := range v.Schema.Types {
				if t.Kind == "OBJECT" {
					for _, f := range t.Fields {
						allFields[t.Name+"."+f.Name] = true
					}
				}
			}
		}
	}
	for _, t := range merged.Schema.Types {
		if t.Kind == "OBJECT" {
			for _, f := range t.Fields {
				allFields[t.Name+"."+f.Name] = true
			}
		}
	}
	keys := []string{}
	for k := range allFields {
		keys = append(keys, k)
	}
	sort.Strings(keys)

	// input types that each version may receive, to be checked afterwards
	type inputUse struct {
		typ string
		c   hContrib
	}
	inputUses := map[string]inputUse{}
	var visitInput func(name, kind string, c hContrib)
	visitInput = func(name, kind string, c hContrib) {
		if kind != "INPUT_OBJECT" && kind != "ENUM" {
			return
		}
		k := name + "@" + c.service + "/" + c.version
		if _, ok := inputUses[k]; ok {
			return
		}
		inputUses[k] = inputUse{name, c}
		if kind == "INPUT_OBJECT" {
			mt := hType(merged, name)
			if mt == nil {
				return
			}
			for _, f := range mt.InputFields {
				all := true
				for _, v := range in[c.service] {
					vt := hType(v, name)
					if vt == nil || hInput(vt.InputFields, f.Name) == nil {
						all = false
					}
				}
				if !all {
					continue // reported as E-input-missing, do not cascade
				}
				_, bk, bn := hDecomp(f.Type)
				visitInput(bn, bk, c)
			}
		}
	}

	checkInputs := func(where string, m []introspectionInputField, contribs []hContrib, get func(c hContrib) []introspectionInputField) {
		names := map[string]bool{}
		for _, a := range m {
			names[a.Name] = true
		}
		for _, c := range contribs {
			for _, a := range get(c) {
				names[a.Name] = true
			}
		}
		for n := range names {
			ma := hInput(m, n)
			var mflags []bool
			if ma != nil {
				mflags, _, _ = hDecomp(ma.Type)
			}
			anyReq := make([]bool, 8)
			inAll := true
			for _, c := range contribs {
				va := hInput(get(c), n)
				if va == nil {
					inAll = false
					if ma != nil {
						add("E-input-missing", "%s: merged has input %s but %s/%s does not", where, n, c.service, c.version)
					}
					continue
				}
				vflags, _, _ := hDecomp(va.Type)
				for i, b := range vflags {
					if b {
						anyReq[i] = true
					}
				}
				if ma == nil {
					if vflags[0] {
						add("E-required-missing", "%s: %s/%s requires input %s which merged lacks", where, c.service, c.version, n)
					}
					continue
				}
				svcHasAll := true
				for _, c2 := range contribs {
					if c2.service == c.service && hInput(get(c2), n) == nil {
						svcHasAll = false
					}
				}
				for i := range vflags {
					if vflags[i] && !mflags[i] && svcHasAll {
						add("E-input-nullability", "%s.%s: %s/%s requires non-null at level %d but merged is nullable", where, n, c.service, c.version, i)
					}
				}
			}
			if ma != nil {
				for i := range mflags {
					if mflags[i] && !anyReq[i] {
						add("X-input-overstrict", "%s.%s: merged non-null at level %d but no side requires it", where, n, i)
					}
				}
				_, bk, bn := hDecomp(ma.Type)
				svcAll := map[string]bool{}
				for _, c := range contribs {
					if _, ok := svcAll[c.service]; !ok {
						svcAll[c.service] = true
					}
					if hInput(get(c), n) == nil {
						svcAll[c.service] = false
					}
				}
				for _, c := range contribs {
					if svcAll[c.service] {
						visitInput(bn, bk, c)
					}
				}
			}
			if ma == nil && inAll {
				add("U-input-dropped", "%s: input %s in all contributing sides but not in merged", where, n)
			}
		}
	}

	for _, k := range keys {
		parts := strings.SplitN(k, ".", 2)
		tn, fn := parts[0], parts[1]
		// expected services
		exp := map[string]bool{}
		for _, s := range svcNames {
			all := true
			for _, v := range in[s] {
				if hField(hType(v, tn), fn) == nil {
					all = false
				}
			}
			if all {
				exp[s] = true
			}
		}
		mf := hField(hType(merged, tn), fn)
		got := svc[k]
		if len(exp) == 0 {
			if mf != nil {
				add("I-not-all-versions", "%s in merged though no service supports it in all versions", k)
			}
			continue
		}
		if _, reach := svc[k]; mf != nil && !reach {
			continue // type not reachable from the merged roots
		}
		if mf == nil {
			add("U-missing", "%s supported by %v but missing from merged", k, exp)
			continue
		}
		for s := range exp {
			if !got[s] {
				add("S-missing-service", "%s: service %s supports it in all versions but is not annotated", k, s)
			}
		}
		for s := range got {
			if !exp[s] {
				add("S-extra-service", "%s: service %s annotated but not all versions support it", k, s)
			}
		}
		var contribs []hContrib
		for _, s := range svcNames {
			if !got[s] && !exp[s] {
				continue
			}
			vnames := []string{}
			for v := range in[s] {
				vnames = append(vnames, v)
			}
			sort.Strings(vnames)
			for _, v := range vnames {
				if hField(hType(in[s][v], tn), fn) != nil {
					contribs = append(contribs, hContrib{s, v, in[s][v]})
				}
			}
		}
		// output type
		mflags, _, _ := hDecomp(mf.Type)
		all := make([]bool, len(mflags))
		for i := range all {
			all[i] = true
		}
		for _, c := range contribs {
			vf := hField(hType(c.s, tn), fn)
			vflags, _, _ := hDecomp(vf.Type)
			for i := range vflags {
				if !vflags[i] {
					all[i] = false
					if mflags[i] {
						add("E-output-nonnull", "%s: merged non-null at level %d but %s/%s nullable", k, i, c.service, c.version)
					}
				}
			}
		}
		for i := range all {
			if all[i] && !mflags[i] {
				add("X-output-overnullable", "%s: all sides non-null at level %d but merged nullable", k, i)
			}
		}
		// union possible types in output
		_, bk, bn := hDecomp(mf.Type)
		if bk == "UNION" {
			mu := hType(merged, bn)
			for _, c := range contribs {
				vu := hType(c.s, bn)
				for _, p := range mu.PossibleTypes {
					found := false
					for _, q := range vu.PossibleTypes {
						if q.Name == p.Name {
							found = true
						}
					}
					if !found {
						add("E-union-member", "%s: merged union %s has member %s unknown to %s/%s", k, bn, p.Name, c.service, c.version)
					}
				}
			}
		}
		// args
		checkInputs(k, mf.Args, contribs, func(c hContrib) []introspectionInputField {
			return hField(hType(c.s, tn), fn).Args
		})
	}
	// input types
	ukeys := []string{}
	for k := range inputUses {
		ukeys = append(ukeys, k)
	}
	sort.Strings(ukeys)
	for _, k := range ukeys {
		u := inputUses[k]
		mt := hType(merged, u.typ)
		vt := hType(u.c.s, u.typ)
		if mt == nil {
			add("E-type-missing", "merged lacks input type %s", u.typ)
			continue
		}
		if vt == nil {
			add("E-type-missing", "%s/%s lacks input type %s which it may receive", u.c.service, u.c.version, u.typ)
			continue
		}
		if mt.Kind == "ENUM" {
			for _, v := range mt.EnumValues {
				found := false
				for _, w := range vt.EnumValues {
					if w.Name == v.Name {
						found = true
					}
				}
				if !found {
					add("E-enum-value", "enum %s: merged value %s unknown to %s/%s", u.typ, v.Name, u.c.service, u.c.version)
				}
			}
			continue
		}
		// one contributor at a time (no exactness check here)
		for _, f := range mt.InputFields {
			vf := hInput(vt.InputFields, f.Name)
			if vf == nil {
				add("E-input-missing", "input %s: merged field %s unknown to %s/%s", u.typ, f.Name, u.c.service, u.c.version)
				continue
			}
			mflags, _, _ := hDecomp(f.Type)
			vflags, _, _ := hDecomp(vf.Type)
			for i := range vflags {
				if vflags[i] && !mflags[i] {
					add("E-input-nullability", "input %s.%s: %s/%s requires non-null at level %d", u.typ, f.Name, u.c.service, u.c.version, i)
				}
			}
		}
		for _, vf := range vt.InputFields {
			if vf.Type.Kind == "NON_NULL" && hInput(mt.InputFields, vf.Name) == nil {
				add("E-required-missing", "input %s: %s/%s requires field %s which merged lacks", u.typ, u.c.service, u.c.version, vf.Name)
			}
		}
	}
	return out
}

func hServices(res *SchemaWithFederationInfo) map[string]map[string]bool {
	types := make(map[graphql.Type]string)
	CollectTypes(res.Schema.Query, types)
	CollectTypes(res.Schema.Mutation, types)
	out := map[string]map[string]bool{}
	for typ := range types {
		obj, ok := typ.(*graphql.Object)
		if !ok {
			continue
		}
		for fn, f := range obj.Fields {
			if info, ok := res.Fields[f]; ok {
				m := map[string]bool{}
				for s, b := range info.Services {
					if b {
						m[s] = true
					}
				}
				out[obj.Name+"."+fn] = m
			}
		}
	}
	return out
}

func hGen(r *rand.Rand) serviceSchemas {
	in := serviceSchemas{}
	ns := 1 + r.Intn(hMaxSvc)
	for s := 0; s < ns; s++ {
		base := &hChoices{r: r, m: map[string]bool{}}
		nv := 1 + r.Intn(hMaxVer)
		vs := map[string]*IntrospectionQueryResult{}
		for v := 0; v < nv; v++ {
			c := &hChoices{r: r, m: map[string]bool{}, parent: base, flip: 0.08}
			vs[fmt.Sprintf("v%d", v)] = hBuild(c)
		}
		in[fmt.Sprintf("s%d", s)] = vs
	}
	return in
}

func hRename(in serviceSchemas, r *rand.Rand) (serviceSchemas, map[string]string) {
	out := serviceSchemas{}
	names := []string{}
	for s := range in {
		names = append(names, s)
	}
	sort.Strings(names)
	perm := r.Perm(len(names))
	back := map[string]string{}
	for i, s := range names {
		ns := fmt.Sprintf("t%d", perm[i])
		back[ns] = s
		vnames := []string{}
		for v := range in[s] {
			vnames = append(vnames, v)
		}
		sort.Strings(vnames)
		vperm := r.Perm(len(vnames))
		out[ns] = map[string]*IntrospectionQueryResult{}
		for j, v := range vnames {
			out[ns][fmt.Sprintf("w%d", vperm[j])] = in[s][v]
		}
	}
	return out, back
}

func hJSON(v interface{}) string {
	b, _ := json.Marshal(v)
	return string(b)
}

func TestHuntFuzzAlt(t *testing.T) {
	hAlt = 0.04
	defer func() { hAlt = 0 }()
	TestHuntFuzz(t)
}

func TestHuntFuzzOneService(t *testing.T) {
	hAlt = 0.04
	hMaxSvc, hMaxVer = 1, 4
	defer func() { hAlt = 0; hMaxSvc, hMaxVer = 3, 3 }()
	TestHuntFuzz(t)
}

func TestHuntFuzz(t *testing.T) {
	classes := map[string]int{}
	examples := map[string]string{}
	nErr, nOK := 0, 0
	orderDiff := 0
	for iter := 0; iter < 6000; iter++ {
		r := rand.New(rand.NewSource(int64(hSeed()*1000000 + iter)))
		in := hGen(r)
		merged, err := MergeIntrospectionSchemas(in)
		res, err2 := ConvertVersionedSchemas(in)
		if (err == nil) != (err2 == nil) {
			classes["convert-vs-merge-error-mismatch"]++
			if _, ok := examples["convert-vs-merge-error-mismatch"]; !ok {
				examples["convert-vs-merge-error-mismatch"] = fmt.Sprintf("%v / %v", err, err2)
			}
		}
		// order / naming invariance
		for k := 0; k < 3; k++ {
			in2, back := hRename(in, r)
			merged2, errB := MergeIntrospectionSchemas(in2)
			if (err == nil) != (errB == nil) {
				orderDiff++
				classes["O-error-depends-on-naming"]++
				{
					e := err
					if e == nil {
						e = errB
					}
					msg := e.Error()
					kind := "other"
					for _, k := range []string{"new field", "conflicting kinds", "incompatible types", "kinds"} {
						if strings.Contains(msg, "incompatible arguments") && strings.Contains(msg, "incompatible types") {
							kind = "incompatible arg types"
							break
						}
						if strings.Contains(msg, k) {
							kind = k
							break
						}
					}
					mode := "union"
					multi := false
					for _, vs := range in {
						if len(vs) > 2 {
							multi = true
						}
					}
					_ = multi
					classes["O-detail: "+kind+" / first-order-ok="+fmt.Sprint(err == nil)+" / "+mode]++
				}
				if _, ok := examples["O-error-depends-on-naming"]; !ok {
					examples["O-error-depends-on-naming"] = fmt.Sprintf("iter %d: %v vs %v", iter, err, errB)
				}
				break
			}
			if err == nil {
				if hJSON(merged) != hJSON(merged2) {
					classes["O-schema-depends-on-naming"]++
					if _, ok := examples["O-schema-depends-on-naming"]; !ok {
						examples["O-schema-depends-on-naming"] = fmt.Sprintf("iter %d", iter)
					}
					break
				}
				res2, errC := ConvertVersionedSchemas(in2)
				if errC == nil && err2 == nil {
					s1 := hServices(res)
					s2 := hServices(res2)
					m2 := map[string]map[string]bool{}
					for f, ss := range s2 {
						m2[f] = map[string]bool{}
						for s := range ss {
							m2[f][back[s]] = true
						}
					}
					if hJSON(s1) != hJSON(m2) {
						classes["O-services-depend-on-naming"]++
					}
				}
			}
		}
		if err != nil || err2 != nil {
			nErr++
			continue
		}
		nOK++
		vs := hCheck(in, merged, hServices(res))
		seen := map[string]bool{}
		for _, v := range vs {
			if !seen[v.class] {
				seen[v.class] = true
				classes[v.class]++
				if _, ok := examples[v.class]; !ok {
					examples[v.class] = fmt.Sprintf("iter %d: %s", iter, v.msg)
				}
			}
		}
	}
	t.Logf("ok=%d err=%d", nOK, nErr)
	keys := []string{}
	for k := range classes {
		keys = append(keys, k)
	}
	sort.Strings(keys)
	for _, k := range keys {
		t.Logf("%-35s %5d   e.g. %s", k, classes[k], examples[k])
	}
}

func hDump(s *IntrospectionQueryResult) string {
	var sb strings.Builder
	for _, t := range s.Schema.Types {
		switch t.Kind {
		case "OBJECT":
			fmt.Fprintf(&sb, "  type %s {", t.Name)
			for _, f := range t.Fields {
				fmt.Fprintf(&sb, " %s", f.Name)
				if len(f.Args) > 0 {
					sb.WriteString("(")
					for i, a := range f.Args {
						if i > 0 {
							sb.WriteString(", ")
						}
						fmt.Fprintf(&sb, "%s: %s", a.Name, a.Type)
					}
					sb.WriteString(")")
				}
				fmt.Fprintf(&sb, ": %s;", f.Type)
			}
			sb.WriteString(" }\n")
		case "INPUT_OBJECT":
			fmt.Fprintf(&sb, "  input %s {", t.Name)
			for _, f := range t.InputFields {
				fmt.Fprintf(&sb, " %s: %s;", f.Name, f.Type)
			}
			sb.WriteString(" }\n")
		case "ENUM":
			fmt.Fprintf(&sb, "  enum %s {", t.Name)
			for _, f := range t.EnumValues {
				fmt.Fprintf(&sb, " %s", f.Name)
			}
			sb.WriteString(" }\n")
		case "UNION":
			fmt.Fprintf(&sb, "  union %s =", t.Name)
			for _, f := range t.PossibleTypes {
				fmt.Fprintf(&sb, " %s", f.Name)
			}
			sb.WriteString("\n")
		}
	}
	return sb.String()
}

func hDumpAll(in serviceSchemas) string {
	var sb strings.Builder
	ss := []string{}
	for s := range in {
		ss = append(ss, s)
	}
	sort.Strings(ss)
	for _, s := range ss {
		vs := []string{}
		for v := range in[s] {
			vs = append(vs, v)
		}
		sort.Strings(vs)
		for _, v := range vs {
			fmt.Fprintf(&sb, "%s/%s:\n%s", s, v, hDump(in[s][v]))
		}
	}
	return sb.String()
}

func TestHuntDump(t *testing.T) {
	want := map[int]bool{}
	for _, s := range strings.Split(os.Getenv("HUNT_ITER"), ",") {
		n, err := strconv.Atoi(s)
		if err == nil {
			want[n] = true
		}
	}
	for iter := 0; iter < 6000; iter++ {
		r := rand.New(rand.NewSource(int64(hSeed()*1000000 + iter)))
		in := hGen(r)
		if want[iter] {
			merged, err := MergeIntrospectionSchemas(in)
			t.Logf("iter %d\n%s", iter, hDumpAll(in))
			if err != nil {
				t.Logf("error: %v", err)
			} else {
				t.Logf("merged:\n%s", hDump(merged))
				res, err := ConvertVersionedSchemas(in)
				if err == nil {
					for _, v := range hCheck(in, merged, hServices(res)) {
						t.Logf("  %s: %s", v.class, v.msg)
					}
				}
			}
		}
	}
}
