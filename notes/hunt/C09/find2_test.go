// find2_test.go -- Intersection of the versions of ONE service depends on how
// the versions are named.
//
// Copy into:  federation/   (package federation)
// Run:        go test ./federation/ -run 'TestFind2' -v
//
// Versions are folded pairwise in the order of the sorted version names
// (processSchemaVersions, schema.go:187-198 -> mergeSchemaSlice,
// merge_schemas.go:479-491). In Intersection mode an item missing on one side
// is dropped (mergeFields, merge_schemas.go:254-258; same in mergeSchemas /
// mergeInputFields), so whether two versions that disagree about the item are
// ever compared depends on whether the version lacking the item sorts between
// them. The same three live versions give a schema under some version names
// and an error (no gateway schema at all) under others.
package federation

import (
	"encoding/json"
	"fmt"
	"testing"

	"github.com/samsarahq/thunder/graphql"
	"github.com/samsarahq/thunder/graphql/introspection"
	"github.com/samsarahq/thunder/graphql/schemabuilder"
)

func f2Extract(t *testing.T, s *schemabuilder.Schema) *IntrospectionQueryResult {
	var schema *graphql.Schema = s.MustBuild()
	bytes, err := introspection.RunIntrospectionQuery(introspection.BareIntrospectionSchema(schema))
	if err != nil {
		t.Fatal(err)
	}
	var iq IntrospectionQueryResult
	if err := json.Unmarshal(bytes, &iq); err != nil {
		t.Fatal(err)
	}
	return &iq
}

func f2Run(t *testing.T, what string, s1, s2, s3 *IntrospectionQueryResult) {
	perms := [][3]string{{"1", "2", "3"}, {"1", "3", "2"}, {"2", "1", "3"}, {"2", "3", "1"}, {"3", "1", "2"}, {"3", "2", "1"}}
	outcomes := map[string][]string{}
	for _, p := range perms {
		in := serviceSchemas{"svc": {
			"v" + p[0]: s1,
			"v" + p[1]: s2,
			"v" + p[2]: s3,
		}}
		o := "ok"
		res, err := ConvertVersionedSchemas(in)
		if err != nil {
			o = "error"
		} else {
			fields := res.Schema.Query.(*graphql.Object).Fields
			if _, ok := fields["f"]; ok {
				o += " with f"
			}
			if _, ok := fields["g"]; !ok {
				o += " WITHOUT g"
			}
		}
		naming := fmt.Sprintf("old-f=v%s no-f=v%s new-f=v%s", p[0], p[1], p[2])
		t.Logf("%s: %s -> %s (%v)", what, naming, o, err)
		outcomes[o] = append(outcomes[o], naming)
	}
	if len(outcomes) != 1 {
		t.Errorf("%s: outcome of intersecting the same three versions depends on their names: %v", what, outcomes)
	}
}

// Query.f changes its type between the first and the third version and does
// not exist in the second one; Query.g is in all three.
func TestFind2IntersectionFieldTypeChange(t *testing.T) {
	v1 := schemabuilder.NewSchema()
	v1.Query().FieldFunc("f", func() int64 { return 1 })
	v1.Query().FieldFunc("g", func() int64 { return 1 })
	v1.Mutation()
	v2 := schemabuilder.NewSchema()
	v2.Query().FieldFunc("g", func() int64 { return 1 })
	v2.Mutation()
	v3 := schemabuilder.NewSchema()
	v3.Query().FieldFunc("f", func() string { return "" })
	v3.Query().FieldFunc("g", func() int64 { return 1 })
	v3.Mutation()
	f2Run(t, "field type change", f2Extract(t, v1), f2Extract(t, v2), f2Extract(t, v3))
}

// Query.f gains a required argument between the first and the third version
// and does not exist in the second one.
func TestFind2IntersectionRequiredArg(t *testing.T) {
	v1 := schemabuilder.NewSchema()
	v1.Query().FieldFunc("f", func(args struct{ A *int64 }) int64 { return 1 })
	v1.Query().FieldFunc("g", func() int64 { return 1 })
	v1.Mutation()
	v2 := schemabuilder.NewSchema()
	v2.Query().FieldFunc("g", func() int64 { return 1 })
	v2.Mutation()
	v3 := schemabuilder.NewSchema()
	v3.Query().FieldFunc("f", func(args struct {
		A *int64
		B int64
	}) int64 {
		return 1
	})
	v3.Query().FieldFunc("g", func() int64 { return 1 })
	v3.Mutation()
	f2Run(t, "required argument added", f2Extract(t, v1), f2Extract(t, v2), f2Extract(t, v3))
}
