// FINDING 2 (C20; same root cause as finding 1, reached through batch.Func.Invoke).
//
// Copy into:  batch/
// Run with:   go test -count=1 -run TestFind2 ./batch/
//
// P holds the only token and is the creator of a batch group, so it keeps its
// token and runs Func.Many. C is sub-work of P with an expired context: its own
// Acquire returns immediately without a token, but the context it gets back
// still carries P's holder (concurrencylimiter.Acquire, ctx.Done() path). C
// joins P's batch group; as a joiner Invoke wraps the wait for the result in
// concurrencylimiter.TemporarilyRelease(ctx, ...) (batch.go line 236), which
// releases P's token while P is executing Many. X, unrelated work with a live
// context, then acquires: with limit 1, P (inside Many) and X run at once.
package batch

import (
	"context"
	"testing"
	"time"

	"github.com/samsarahq/thunder/concurrencylimiter"
)

func TestFind2BatchJoinerGivesAwayCreatorToken(t *testing.T) {
	const limit = 1
	root := WithBatching(concurrencylimiter.With(context.Background(), limit))
	bctx := root.Value(batchContextKey{}).(*batchContext)

	inMany, leaveMany := make(chan struct{}), make(chan struct{})
	f := &Func{
		MaxSize:      2,
		WaitInterval: 10 * time.Second,
		MaxDuration:  10 * time.Second,
		Many: func(ctx context.Context, args []interface{}) ([]interface{}, error) {
			close(inMany)
			<-leaveMany
			return args, nil
		},
	}

	// P: holds the only token, creates the batch group, will run Many.
	ctxP, releaseP := concurrencylimiter.Acquire(root)
	pDone := make(chan struct{})
	go func() {
		defer close(pDone)
		if v, err := f.Invoke(ctxP, "p"); err != nil || v != "p" {
			t.Errorf("P: %v %v", v, err)
		}
	}()
	for deadline := time.Now().Add(2 * time.Second); ; {
		bctx.mu.Lock()
		n := len(bctx.pendingBatchGroups)
		bctx.mu.Unlock()
		if n == 1 {
			break
		}
		if time.Now().After(deadline) {
			t.Fatal("setup: P did not publish its batch group")
		}
		time.Sleep(time.Millisecond)
	}

	// C: sub-work of P whose context has expired. It calls Acquire itself.
	cctx, cancel := context.WithCancel(ctxP)
	cancel()
	ctxC, releaseC := concurrencylimiter.Acquire(cctx) // channel full: leaves through ctx.Done()
	cDone := make(chan struct{})
	go func() {
		defer close(cDone)
		defer releaseC()
		f.Invoke(ctxC, "c") // joins P's group, fills it (MaxSize 2), waits for the result
	}()

	select {
	case <-inMany: // P is now executing Many; it never released and is not in TemporarilyRelease
	case <-time.After(2 * time.Second):
		t.Fatal("setup: Many not started")
	}

	// X: unrelated work, live context, same limiter.
	xctx, xcancel := context.WithTimeout(root, 300*time.Millisecond)
	defer xcancel()
	_, releaseX := concurrencylimiter.Acquire(xctx)
	// With the channel full, Acquire only returns before the deadline if it got a spot.
	if xctx.Err() == nil {
		t.Errorf("limit %d: X acquired a token while P is running Func.Many with its token: "+
			"2 goroutines between Acquire and release", limit)
	}
	releaseX()
	close(leaveMany)
	<-pDone
	<-cDone
	releaseP()
}
