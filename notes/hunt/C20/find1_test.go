// FINDING 1 (C20): a child goroutine whose own Acquire came back empty-handed
// because its context is cancelled gives away its PARENT's token.
//
// Copy into:  concurrencylimiter/
// Run with:   go test -count=1 -run TestFind1 ./concurrencylimiter/
//
// Acquire, on the ctx.Done() path (concurrencylimiter.go, `case <-ctx.Done():
// return ctx, func() {}`), returns the incoming context unchanged. If that
// context was derived from the context of a goroutine that holds a token (the
// normal way to start sub-work: the parent passes the context that its own
// Acquire returned), it still carries the parent's *holder under holderKey. The
// child's TemporarilyRelease therefore finds the parent's holder, moves it
// from acquired to blocked and takes the parent's token out of the channel
// while the parent is running outside of any TemporarilyRelease. A third
// goroutine then acquires that spot: two goroutines between Acquire and
// release with a limit of 1, none of them inside TemporarilyRelease.
//
// Every goroutine below calls Acquire itself and only ever uses the context
// that its own Acquire returned.
package concurrencylimiter_test

import (
	"context"
	"testing"
	"time"

	"github.com/samsarahq/thunder/concurrencylimiter"
)

func TestFind1CancelledChildGivesAwayParentToken(t *testing.T) {
	const limit = 1
	root := concurrencylimiter.With(context.Background(), limit)

	// P takes the only token. P stays between Acquire and release for the whole
	// test and never calls TemporarilyRelease.
	ctxP, releaseP := concurrencylimiter.Acquire(root)

	// C is sub-work of P with its own (already expired) deadline. The channel
	// is full, so Acquire can only leave through ctx.Done(): deterministic.
	cctx, cancel := context.WithCancel(ctxP)
	cancel()
	var ctxC context.Context
	var releaseC concurrencylimiter.ReleaseFunc
	acq := make(chan struct{})
	go func() {
		ctxC, releaseC = concurrencylimiter.Acquire(cctx)
		close(acq)
	}()
	select {
	case <-acq:
	case <-time.After(2 * time.Second):
		t.Fatal("Acquire blocks on a cancelled context")
	}

	// C waits for something inside TemporarilyRelease, with its own context.
	inF, leave, cDone := make(chan struct{}), make(chan struct{}), make(chan struct{})
	go func() {
		defer close(cDone)
		concurrencylimiter.TemporarilyRelease(ctxC, func() {
			close(inF)
			<-leave
		})
		releaseC()
	}()
	<-inF

	// X is unrelated work on the same limiter with a live context. P still
	// holds the only token, so X must not get one.
	xctx, xcancel := context.WithTimeout(root, 300*time.Millisecond)
	defer xcancel()
	_, releaseX := concurrencylimiter.Acquire(xctx)
	// With the channel full, Acquire only returns before the deadline if it got a spot.
	if xctx.Err() == nil {
		t.Errorf("limit %d: X acquired a token while P, which has not released and is not inside "+
			"TemporarilyRelease, still counts as running: 2 goroutines between Acquire and release", limit)
	}
	releaseX()
	close(leave)
	<-cDone
	releaseP()
}
