// FINDING 3 (C20): on 32-bit platforms (386, arm, mips) release and
// TemporarilyRelease panic, and the token taken by Acquire is lost for good.
//
// Copy into:  concurrencylimiter/
// Run with:   GOARCH=386 go test -count=1 -run TestFind3 ./concurrencylimiter/
//             (passes on 64-bit platforms; linux/amd64 runs the 386 test binary natively.
//             The package's own TestTemporarilyReleaseAfterRelease etc. fail the same way.)
//
// holder is `struct { l *limiter; status int64 }` and status is accessed with
// atomic.SwapInt64 / atomic.CompareAndSwapInt64 (release, block). sync/atomic
// requires 64-bit alignment of such words on 32-bit platforms and only
// guarantees it for the first word of an allocated struct; here status sits
// at offset 4 after a 4-byte pointer, so every atomic operation on it panics
// with "unaligned 64-bit atomic operation". Acquire has already put the token
// into the channel by then, and nothing ever takes it out: with limit n, after
// n Acquire/release pairs every further Acquire blocks forever.
package concurrencylimiter_test

import (
	"context"
	"testing"
	"time"

	"github.com/samsarahq/thunder/concurrencylimiter"
)

func TestFind3ReleasePanicsAndLosesTokenOn32Bit(t *testing.T) {
	root := concurrencylimiter.With(context.Background(), 1)

	try := func(name string, f func()) {
		defer func() {
			if p := recover(); p != nil {
				t.Errorf("%s panicked: %v", name, p)
			}
		}()
		f()
	}

	ctx, release := concurrencylimiter.Acquire(root)
	try("TemporarilyRelease", func() { concurrencylimiter.TemporarilyRelease(ctx, func() {}) })
	try("release", release)
	try("second release", release)

	// All holders have released: the full capacity must be available again.
	c2, cancel := context.WithTimeout(root, 300*time.Millisecond)
	defer cancel()
	_, release2 := concurrencylimiter.Acquire(c2)
	if c2.Err() != nil {
		t.Errorf("token lost: after the only holder released, Acquire on a limiter of size 1 blocks until its context expires")
	}
	try("release of second holder", release2)
}
