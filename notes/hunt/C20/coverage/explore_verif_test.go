//go:build verif
// +build verif

// COVERAGE harness: controlled-schedule exploration of the real code through VerifHook.
// Copy into concurrencylimiter/ ; go test -tags verif -count=1 -v -run TestExplore ./concurrencylimiter/
// Basic/Remote/Cancel/Foreign pass on the unmodified tree; Child fails on 7 of 20000 seeds, all
// of them finding 1 (0 of 20000 with the repair described in README.md).
package concurrencylimiter

import (
	"bytes"
	"context"
	"fmt"
	"math/rand"
	"runtime"
	"strconv"
	"strings"
	"sync"
	"sync/atomic"
	"testing"
	"time"
)

// Controlled-schedule exploration of the real limiter code through VerifHook.
// Exactly one actor is stepped at a time; an actor that is about to do a
// channel send on a full channel is marked blocked and left alone until a
// receive (or a cancel) wakes it. At every quiescent point the property is
// checked against flags that the test code maintains.

func goid() int64 {
	var buf [64]byte
	n := runtime.Stack(buf[:], false)
	f := bytes.Fields(buf[:n])
	id, _ := strconv.ParseInt(string(f[1]), 10, 64)
	return id
}

const (
	opAcq = iota
	opTR
	opRel
	opRemoteRel // release of actor target's holder from this goroutine
	opCancel    // cancel actor target's context
	opForeignTR // TemporarilyRelease on target's context without own Acquire
)

type xop struct {
	kind   int
	inner  []xop
	target int
}

func (o xop) String() string {
	switch o.kind {
	case opAcq:
		return "ACQ"
	case opTR:
		return fmt.Sprintf("TR%v", o.inner)
	case opRel:
		return "REL"
	case opRemoteRel:
		return fmt.Sprintf("RREL(%d)", o.target)
	case opCancel:
		return fmt.Sprintf("CANCEL(%d)", o.target)
	case opForeignTR:
		return fmt.Sprintf("FTR(%d)%v", o.target, o.inner)
	}
	return "?"
}

type xactor struct {
	id     int
	script []xop
	parent int // -1: context derived from base; else from parent's acquired ctx

	mu       sync.Mutex
	baseCtx  context.Context // context given to Acquire
	cancel   context.CancelFunc
	ctx      context.Context // after Acquire
	rel      ReleaseFunc
	real     bool
	holding  bool
	released bool
	inTR     int

	// scheduler side
	state string // "paused", "blocked", "running", "done"
	point string
	goCh  chan struct{}
}

type xevent struct {
	actor int
	point string
}

type xsched struct {
	t      *testing.T
	rng    *rand.Rand
	n      int
	root   context.Context
	lim    *limiter
	actors []*xactor
	arrive chan xevent
	goids  sync.Map
	trace  []string
	fail   string
	// allowShared: foreign TR / inherited holders are in play, so the count of
	// running goroutines is only reported, not asserted.
	maxRunning int
}

func (s *xsched) pause(a *xactor, point string) {
	s.arrive <- xevent{a.id, point}
	<-a.goCh
}

func (s *xsched) hook(point string, holder interface{}, status int64, chanLen int) {
	v, ok := s.goids.Load(goid())
	if !ok {
		return
	}
	s.pause(v.(*xactor), point)
}

func (s *xsched) runOps(a *xactor, ops []xop) {
	for _, o := range ops {
		switch o.kind {
		case opAcq:
			s.pause(a, "t.preacq")
			ctx, rel := Acquire(a.baseCtx)
			a.mu.Lock()
			a.ctx, a.rel = ctx, rel
			h, _ := ctx.Value(holderKey{}).(*holder)
			var ph *holder
			ph, _ = a.baseCtx.Value(holderKey{}).(*holder)
			a.real = h != nil && h != ph && atomic.LoadInt64(&h.status) != released
			a.holding = a.real
			a.mu.Unlock()
			s.pause(a, "t.acquired")
		case opTR:
			s.pause(a, "t.pretr")
			a.mu.Lock()
			a.inTR++
			ctx := a.ctx
			a.mu.Unlock()
			TemporarilyRelease(ctx, func() {
				s.pause(a, "t.inf")
				s.runOps(a, o.inner)
			})
			a.mu.Lock()
			a.inTR--
			a.mu.Unlock()
			s.pause(a, "t.trdone")
		case opRel:
			s.pause(a, "t.prerel")
			a.mu.Lock()
			a.released = true
			rel := a.rel
			a.mu.Unlock()
			rel()
			s.pause(a, "t.reldone")
		case opRemoteRel:
			s.pause(a, fmt.Sprintf("t.waitrel:%d", o.target))
			tg := s.actors[o.target]
			tg.mu.Lock()
			tg.released = true
			rel := tg.rel
			tg.mu.Unlock()
			rel()
			s.pause(a, "t.rreldone")
		case opCancel:
			s.pause(a, fmt.Sprintf("t.cancel:%d", o.target))
			s.actors[o.target].cancel()
			s.pause(a, "t.canceldone")
		case opForeignTR:
			s.pause(a, fmt.Sprintf("t.waitctx:%d", o.target))
			tg := s.actors[o.target]
			tg.mu.Lock()
			ctx := tg.ctx
			tg.mu.Unlock()
			a.mu.Lock()
			a.ctx = ctx
			a.mu.Unlock()
			TemporarilyRelease(ctx, func() {
				s.pause(a, "t.inf")
				s.runOps(a, o.inner)
			})
			s.pause(a, "t.ftrdone")
		}
	}
}

func isSendPoint(p string) bool { return p == "acquire.enter" || p == "block.send" }
func isRecvPoint(p string) bool {
	return p == "release.recv" || p == "block.recv" || p == "block.giveback"
}

func (s *xsched) eligible(a *xactor) bool {
	if a.state != "paused" {
		return false
	}
	if strings.HasPrefix(a.point, "t.waitrel:") || strings.HasPrefix(a.point, "t.waitctx:") {
		i, _ := strconv.Atoi(a.point[strings.Index(a.point, ":")+1:])
		tg := s.actors[i]
		tg.mu.Lock()
		ok := tg.rel != nil
		tg.mu.Unlock()
		return ok
	}
	if a.point == "t.start" && a.parent >= 0 {
		tg := s.actors[a.parent]
		tg.mu.Lock()
		ok := tg.rel != nil
		tg.mu.Unlock()
		return ok
	}
	return true
}

func (s *xsched) logf(f string, args ...interface{}) {
	s.trace = append(s.trace, fmt.Sprintf(f, args...))
}

// wait for arrivals of the given actors (by id) plus `anyBlocked` arrivals from
// actors currently in state blocked.
func (s *xsched) collect(want map[int]bool, anyBlocked int) bool {
	for len(want) > 0 || anyBlocked > 0 {
		select {
		case ev := <-s.arrive:
			a := s.actors[ev.actor]
			if want[ev.actor] {
				delete(want, ev.actor)
			} else if a.state == "blocked" && anyBlocked > 0 {
				anyBlocked--
			} else {
				s.fail = fmt.Sprintf("unexpected arrival of actor %d at %s (state %s)", ev.actor, ev.point, a.state)
				// still record it
			}
			s.logf("   arrive %d @%s len=%d", ev.actor, ev.point, len(s.lim.ch))
			if ev.point == "t.done" {
				a.state = "done"
			} else {
				a.state = "paused"
			}
			a.point = ev.point
			if s.fail != "" {
				return false
			}
		case <-time.After(2 * time.Second):
			s.fail = fmt.Sprintf("hang: waiting for %v and %d blocked wakeups; len(ch)=%d cap=%d", want, anyBlocked, len(s.lim.ch), cap(s.lim.ch))
			return false
		}
	}
	return true
}

func (s *xsched) running() int {
	c := 0
	for _, a := range s.actors {
		a.mu.Lock()
		if a.real && a.holding && !a.released && a.inTR == 0 {
			c++
		}
		a.mu.Unlock()
	}
	return c
}

// run executes the scenario; returns "" or a failure description.
func (s *xsched) run(assertLimit bool) string {
	VerifHook = s.hook
	defer func() { VerifHook = nil }()
	for _, a := range s.actors {
		a := a
		a.goCh = make(chan struct{})
		a.state = "running"
		go func() {
			s.goids.Store(goid(), a)
			s.pause(a, "t.start")
			if a.parent >= 0 {
				p := s.actors[a.parent]
				p.mu.Lock()
				pc := p.ctx
				p.mu.Unlock()
				a.baseCtx, a.cancel = context.WithCancel(pc)
			}
			s.runOps(a, a.script)
			s.arrive <- xevent{a.id, "t.done"}
		}()
	}
	want := map[int]bool{}
	for _, a := range s.actors {
		want[a.id] = true
	}
	if !s.collect(want, 0) {
		return s.fail
	}
	for step := 0; ; step++ {
		// quiescent: check property
		if r := s.running(); r > s.maxRunning {
			s.maxRunning = r
		}
		if assertLimit {
			if r := s.running(); r > s.n {
				return fmt.Sprintf("over-admission: %d goroutines running with limit %d", r, s.n)
			}
		}
		if len(s.lim.ch) > cap(s.lim.ch) {
			return "len>cap"
		}
		var el []*xactor
		done, blocked := 0, 0
		for _, a := range s.actors {
			if s.eligible(a) {
				el = append(el, a)
			}
			if a.state == "done" {
				done++
			}
			if a.state == "blocked" {
				blocked++
			}
		}
		if done == len(s.actors) {
			break
		}
		if len(el) == 0 {
			return fmt.Sprintf("deadlock: done=%d blocked=%d len(ch)=%d", done, blocked, len(s.lim.ch))
		}
		a := el[s.rng.Intn(len(el))]
		p := a.point
		s.logf("step %d: actor %d from %s len=%d", step, a.id, p, len(s.lim.ch))
		full := len(s.lim.ch) == cap(s.lim.ch)
		if isRecvPoint(p) && len(s.lim.ch) == 0 {
			return fmt.Sprintf("actor %d would block on receive at %s: channel empty", a.id, p)
		}
		nblocked := 0
		for _, b := range s.actors {
			if b.state == "blocked" {
				nblocked++
			}
		}
		if isSendPoint(p) && full && !(p == "acquire.enter" && a.baseCtx.Err() != nil) {
			a.state = "blocked"
			a.goCh <- struct{}{}
			// give it a moment to actually park so that FIFO order is stable
			time.Sleep(50 * time.Microsecond)
			continue
		}
		a.state = "running"
		a.goCh <- struct{}{}
		wake := 0
		if isRecvPoint(p) && nblocked > 0 {
			wake = 1
		}
		if !s.collect(map[int]bool{a.id: true}, wake) {
			return s.fail
		}
		if strings.HasPrefix(p, "t.cancel:") {
			// every actor blocked in Acquire on a now-cancelled ctx wakes up
			w := map[int]bool{}
			for _, b := range s.actors {
				if b.state == "blocked" && b.point == "acquire.enter" && b.baseCtx.Err() != nil {
					w[b.id] = true
				}
			}
			if !s.collect(w, 0) {
				return s.fail
			}
		}
	}
	// all done: every real holder must have been released by construction
	for _, a := range s.actors {
		if a.real && !a.released {
			return fmt.Sprintf("script bug: actor %d never released", a.id)
		}
	}
	if l := len(s.lim.ch); l != 0 {
		return fmt.Sprintf("token lost: after all holders released len(ch)=%d", l)
	}
	// full capacity is available again
	for i := 0; i < s.n; i++ {
		okc := make(chan struct{})
		go func() { Acquire(s.root); close(okc) }()
		select {
		case <-okc:
		case <-time.After(time.Second):
			return fmt.Sprintf("capacity not restored: fresh Acquire %d of %d blocks", i+1, s.n)
		}
	}
	return ""
}

func genInner(rng *rand.Rand, depth int, allowRel bool) []xop {
	var ops []xop
	k := rng.Intn(3)
	for i := 0; i < k; i++ {
		switch rng.Intn(3) {
		case 0:
			if allowRel {
				ops = append(ops, xop{kind: opRel})
			}
		case 1:
			if depth < 2 {
				ops = append(ops, xop{kind: opTR, inner: genInner(rng, depth+1, allowRel)})
			}
		}
	}
	return ops
}

func genHolderScript(rng *rand.Rand) []xop {
	ops := []xop{{kind: opAcq}}
	k := rng.Intn(4)
	for i := 0; i < k; i++ {
		switch rng.Intn(4) {
		case 0, 1:
			ops = append(ops, xop{kind: opTR, inner: genInner(rng, 0, true)})
		case 2:
			ops = append(ops, xop{kind: opRel})
		}
	}
	ops = append(ops, xop{kind: opRel})
	if rng.Intn(3) == 0 {
		ops = append(ops, xop{kind: opRel})
	}
	if rng.Intn(4) == 0 {
		ops = append(ops, xop{kind: opTR, inner: nil})
	}
	return ops
}

type xmode struct {
	remote, cancel, foreign, child bool
}

func newScenario(t *testing.T, seed int64, m xmode) *xsched {
	rng := rand.New(rand.NewSource(seed))
	n := 1 + rng.Intn(3)
	root := With(context.Background(), n)
	s := &xsched{t: t, rng: rng, n: n, root: root, arrive: make(chan xevent)}
	s.lim = root.Value(limiterKey{}).(*limiter)
	nh := 1 + rng.Intn(4)
	for i := 0; i < nh; i++ {
		a := &xactor{id: len(s.actors), script: genHolderScript(rng), parent: -1}
		if m.child && i > 0 && rng.Intn(2) == 0 {
			a.parent = rng.Intn(i)
		} else {
			a.baseCtx, a.cancel = context.WithCancel(root)
		}
		s.actors = append(s.actors, a)
	}
	extra := rng.Intn(3)
	for i := 0; i < extra; i++ {
		var kinds []int
		if m.remote {
			kinds = append(kinds, opRemoteRel)
		}
		if m.cancel {
			kinds = append(kinds, opCancel)
		}
		if m.foreign {
			kinds = append(kinds, opForeignTR)
		}
		if len(kinds) == 0 {
			break
		}
		a := &xactor{id: len(s.actors), parent: -1}
		a.baseCtx, a.cancel = context.WithCancel(root)
		k := 1 + rng.Intn(2)
		for j := 0; j < k; j++ {
			kind := kinds[rng.Intn(len(kinds))]
			tg := rng.Intn(nh)
			if kind == opCancel && s.actors[tg].parent >= 0 {
				// its cancel func only exists once it has started; cancel the
				// parent chain's root instead
				for s.actors[tg].parent >= 0 {
					tg = s.actors[tg].parent
				}
			}
			o := xop{kind: kind, target: tg}
			if kind == opForeignTR {
				o.inner = genInner(rng, 1, false)
			}
			a.script = append(a.script, o)
		}
		s.actors = append(s.actors, a)
	}
	return s
}

func (s *xsched) describe() string {
	var b strings.Builder
	fmt.Fprintf(&b, "limit %d\n", s.n)
	for _, a := range s.actors {
		fmt.Fprintf(&b, " actor %d (parent %d): %v\n", a.id, a.parent, a.script)
	}
	return b.String()
}

func exploreMode(t *testing.T, m xmode, seeds int, assertLimit bool) {
	fails := 0
	over := 0
	for seed := int64(1); seed <= int64(seeds); seed++ {
		s := newScenario(t, seed, m)
		res := s.run(assertLimit)
		if s.maxRunning > s.n {
			over++
		}
		if res != "" {
			fails++
			if fails <= 3 {
				t.Errorf("seed %d: %s\n%s%s", seed, res, s.describe(), strings.Join(s.trace, "\n"))
			}
			if strings.HasPrefix(res, "hang") || strings.HasPrefix(res, "deadlock") || strings.HasPrefix(res, "unexpected") {
				// goroutines are stuck on the hook; stop here
				t.Fatalf("stopping after stuck scenario")
			}
		}
	}
	t.Logf("mode %+v: %d scenarios, %d failures, %d with more than n running", m, seeds, fails, over)
}

func TestExploreBasic(t *testing.T)  { exploreMode(t, xmode{}, 1500, true) }
func TestExploreRemote(t *testing.T) { exploreMode(t, xmode{remote: true}, 3000, true) }
func TestExploreCancel(t *testing.T) {
	exploreMode(t, xmode{remote: true, cancel: true}, 3000, true)
}
func TestExploreChild(t *testing.T) {
	exploreMode(t, xmode{remote: true, cancel: true, child: true}, 20000, true)
}
func TestExploreForeign(t *testing.T) {
	exploreMode(t, xmode{remote: true, foreign: true}, 2000, false)
}
