// COVERAGE (not a finding): free-running stress against an exact reference counter.
// Copy into concurrencylimiter/ ; go test -race -count=1 -v -run TestZZStressCounted ./concurrencylimiter/
// Passes on the unmodified tree.
package concurrencylimiter_test

import (
	"context"
	"math/rand"
	"runtime"
	"sync"
	"sync/atomic"
	"testing"
	"time"

	"github.com/samsarahq/thunder/concurrencylimiter"
)

type hstate struct {
	mu       sync.Mutex
	counted  bool
	released bool
}

// TestZZStressCounted: free-running stress with an exact reference counter.
func TestZZStressCounted(t *testing.T) {
	for _, n := range []int{1, 2, 3, 7} {
		root := concurrencylimiter.With(context.Background(), n)
		var cnt, max, viol int64
		inc := func() {
			c := atomic.AddInt64(&cnt, 1)
			if c > int64(n) {
				atomic.AddInt64(&viol, 1)
			}
			for {
				m := atomic.LoadInt64(&max)
				if c <= m || atomic.CompareAndSwapInt64(&max, m, c) {
					break
				}
			}
		}
		dec := func() { atomic.AddInt64(&cnt, -1) }
		type job struct {
			rel concurrencylimiter.ReleaseFunc
			st  *hstate
		}
		remote := make(chan job, 64)
		var rwg sync.WaitGroup
		for i := 0; i < 4; i++ {
			rwg.Add(1)
			go func() {
				defer rwg.Done()
				for j := range remote {
					runtime.Gosched()
					j.st.mu.Lock()
					j.st.released = true
					if j.st.counted {
						j.st.counted = false
						dec()
					}
					j.st.mu.Unlock()
					j.rel()
				}
			}()
		}
		var wg sync.WaitGroup
		for g := 0; g < 24; g++ {
			wg.Add(1)
			go func(g int) {
				defer wg.Done()
				rng := rand.New(rand.NewSource(int64(g)))
				for it := 0; it < 3000; it++ {
					ctx, rel := concurrencylimiter.Acquire(root)
					st := &hstate{}
					st.mu.Lock()
					st.counted = true
					inc()
					st.mu.Unlock()
					release := func() {
						st.mu.Lock()
						st.released = true
						if st.counted {
							st.counted = false
							dec()
						}
						st.mu.Unlock()
						rel()
					}
					k := rng.Intn(4)
					for i := 0; i < k; i++ {
						if rng.Intn(5) == 0 {
							remote <- job{rel, st}
						}
						st.mu.Lock()
						if st.counted {
							st.counted = false
							dec()
						}
						st.mu.Unlock()
						concurrencylimiter.TemporarilyRelease(ctx, func() {
							switch rng.Intn(4) {
							case 0:
								runtime.Gosched()
							case 1:
								release()
							case 2:
								concurrencylimiter.TemporarilyRelease(ctx, runtime.Gosched)
							}
						})
						st.mu.Lock()
						if !st.released {
							st.counted = true
							inc()
						}
						st.mu.Unlock()
						if rng.Intn(3) == 0 {
							runtime.Gosched()
						}
					}
					release()
					if rng.Intn(3) == 0 {
						release()
					}
				}
			}(g)
		}
		wg.Wait()
		close(remote)
		rwg.Wait()
		if viol > 0 {
			t.Errorf("n=%d: %d over-admissions, max %d", n, viol, max)
		}
		if cnt != 0 {
			t.Errorf("n=%d: reference counter %d at end", n, cnt)
		}
		// full capacity available again
		done := make(chan struct{})
		go func() {
			for i := 0; i < n; i++ {
				concurrencylimiter.Acquire(root)
			}
			close(done)
		}()
		select {
		case <-done:
		case <-time.After(2 * time.Second):
			t.Errorf("n=%d: capacity not restored", n)
		}
		// and not more than that
		c2, cancel := context.WithTimeout(root, 50*time.Millisecond)
		ctx3, _ := concurrencylimiter.Acquire(c2)
		cancel()
		if ctx3 != c2 {
			t.Errorf("n=%d: an n+1st Acquire succeeded", n)
		}
		t.Logf("n=%d max=%d", n, max)
	}
}
