// COVERAGE (not a finding): batch.Func.Invoke under a limiter, reference counter over the
// segments in which the goroutine must own a token (before Invoke, inside Many, after Invoke).
// Copy into batch/ ; go test -race -count=1 -v -run TestZZBatchLimiter ./batch/
// Passes on the unmodified tree.
package batch_test

import (
	"context"
	"runtime"
	"sync"
	"sync/atomic"
	"testing"
	"time"

	"github.com/samsarahq/thunder/batch"
	"github.com/samsarahq/thunder/concurrencylimiter"
)

// Segments in which the goroutine certainly owns a token: before Invoke,
// inside Many (the creator keeps its token), after Invoke.
func TestZZBatchLimiter(t *testing.T) {
	for _, n := range []int{1, 2, 5} {
		for _, maxSize := range []int{0, 3} {
			root := batch.WithBatching(concurrencylimiter.With(context.Background(), n))
			var cnt, viol, max, manyCalls int64
			inc := func() {
				c := atomic.AddInt64(&cnt, 1)
				if c > int64(n) {
					atomic.AddInt64(&viol, 1)
				}
				for {
					m := atomic.LoadInt64(&max)
					if c <= m || atomic.CompareAndSwapInt64(&max, m, c) {
						break
					}
				}
			}
			dec := func() { atomic.AddInt64(&cnt, -1) }
			f := &batch.Func{
				MaxSize: maxSize,
				Many: func(ctx context.Context, args []interface{}) ([]interface{}, error) {
					atomic.AddInt64(&manyCalls, 1)
					inc()
					runtime.Gosched()
					time.Sleep(20 * time.Microsecond)
					dec()
					return args, nil
				},
			}
			var wg sync.WaitGroup
			for g := 0; g < 40; g++ {
				wg.Add(1)
				go func(g int) {
					defer wg.Done()
					for it := 0; it < 60; it++ {
						ctx, rel := concurrencylimiter.Acquire(root)
						inc()
						runtime.Gosched()
						dec()
						v, err := f.Invoke(ctx, g*1000+it)
						inc()
						if err != nil || v.(int) != g*1000+it {
							t.Errorf("bad result %v %v", v, err)
						}
						runtime.Gosched()
						dec()
						rel()
						rel()
					}
				}(g)
			}
			wg.Wait()
			if viol > 0 {
				t.Errorf("n=%d maxSize=%d: %d over-admissions (max %d)", n, maxSize, viol, max)
			}
			done := make(chan struct{})
			go func() {
				for i := 0; i < n; i++ {
					concurrencylimiter.Acquire(root)
				}
				close(done)
			}()
			select {
			case <-done:
			case <-time.After(2 * time.Second):
				t.Errorf("n=%d: capacity not restored", n)
			}
			c2, cancel := context.WithTimeout(root, 30*time.Millisecond)
			c3, _ := concurrencylimiter.Acquire(c2)
			cancel()
			if c3 != c2 {
				t.Errorf("n=%d: n+1st Acquire succeeded", n)
			}
			t.Logf("n=%d maxSize=%d max=%d many=%d", n, maxSize, max, manyCalls)
		}
	}
}
