package sqlgen

// find6 (borderline): goes into sqlgen/ (package sqlgen). No database needed.
//
// A filter made from a row whose float column holds NaN does not match that
// row: driverValuesEqual compares the two float64 driver values with ==.

import (
	"math"
	"testing"
)

type find6Row struct {
	Id int64 `sql:",primary"`
	F  float64
	G  float32
}

func TestFind6NaNFilterDoesNotMatchOwnRow(t *testing.T) {
	s := NewSchema()
	if err := s.RegisterType("find6", UniqueId, find6Row{}); err != nil {
		t.Fatal(err)
	}
	row := &find6Row{Id: 1, F: math.NaN(), G: float32(math.NaN())}
	for col, val := range map[string]interface{}{"f": row.F, "g": row.G} {
		tester, err := s.MakeTester("find6", Filter{col: val})
		if err != nil {
			t.Fatal(err)
		}
		if !tester.Test(row) {
			t.Errorf("filter {%s: %v} made from the row's own value does not match the row", col, val)
		}
	}
	// For contrast: +Inf and -0 are fine.
	row2 := &find6Row{Id: 2, F: math.Inf(1), G: float32(math.Copysign(0, -1))}
	tester, _ := s.MakeTester("find6", Filter{"f": row2.F, "g": row2.G})
	if !tester.Test(row2) {
		t.Errorf("filter from row with +Inf / -0 does not match the row")
	}
}
