package sqlgen

// find2: goes into sqlgen/ (package sqlgen). No database needed.
//
// A []byte (or *[]byte) field tagged `sql:",json"` is accepted by
// RegisterType. Valuer.Value writes it with json.Marshal (a base64 JSON
// string), but Scanner.Scan handles *[]byte before it looks at the tags and
// copies the raw JSON text into the field instead of decoding it.

import (
	"database/sql/driver"
	"reflect"
	"testing"
)

type find2Row struct {
	Id   int64   `sql:",primary"`
	Data []byte  `sql:",json"`
	Ptr  *[]byte `sql:",json"`
}

func TestFind2JSONTaggedBytesDoNotRoundTrip(t *testing.T) {
	s := NewSchema()
	if err := s.RegisterType("find2", UniqueId, find2Row{}); err != nil {
		t.Logf("type refused at registration (no violation): %v", err)
		return
	}

	p := []byte{4, 5}
	row := &find2Row{Id: 1, Data: []byte{1, 2, 3}, Ptr: &p}
	vals, err := s.UnbuildStruct("find2", row)
	if err != nil {
		t.Fatalf("UnbuildStruct: %v", err)
	}
	t.Logf("column values: data=%q ptr=%q", vals[1], vals[2])

	forms := map[string][]driver.Value{
		"query result / binlog JSON ([]byte)": {int64(1), vals[1], vals[2]},
		"binlog (string)":                     {int64(1), string(vals[1].([]byte)), string(vals[2].([]byte))},
	}
	for name, form := range forms {
		back, err := s.BuildStruct("find2", form)
		if err != nil {
			t.Errorf("%s: decode error: %v", name, err)
			continue
		}
		got := back.(*find2Row)
		if !reflect.DeepEqual(got.Data, row.Data) {
			t.Errorf("%s: Data %v came back as %v (%q)", name, row.Data, got.Data, got.Data)
		}
		if got.Ptr == nil || !reflect.DeepEqual(*got.Ptr, *row.Ptr) {
			t.Errorf("%s: Ptr %v came back as %v", name, *row.Ptr, got.Ptr)
		}
	}
}
