package livesql

// find3: goes into livesql/ (package livesql). No database needed.
//
// A `sql:",binary"` field cannot be decoded from a change-log (binlog) row
// when the column is BINARY / VARBINARY (or CHAR / VARCHAR): the binlog reader
// hands those columns over as a Go string, and Scanner.Scan insists on []byte
// for the binary tag ("binary column must be of type []byte, got string"),
// although it accepts a string for an untagged []byte field and for the
// string and json tags.

import (
	"reflect"
	"testing"

	"github.com/samsarahq/thunder/internal/proto"
	"github.com/samsarahq/thunder/sqlgen"
)

type find3Key struct{ A, B uint8 }

func (k find3Key) MarshalBinary() ([]byte, error) { return []byte{k.A, k.B}, nil }
func (k *find3Key) UnmarshalBinary(b []byte) error {
	if len(b) == 2 {
		k.A, k.B = b[0], b[1]
	}
	return nil
}

type find3Row struct {
	Id    int64               `sql:",primary"`
	Key   find3Key            `sql:",binary"`
	Event proto.ExampleEvent  `sql:",binary"`
	PEv   *proto.ExampleEvent `sql:",binary"`
	Plain []byte
}

func TestFind3BinaryTagRefusesBinlogStrings(t *testing.T) {
	schema := sqlgen.NewSchema()
	if err := schema.RegisterType("find3", sqlgen.UniqueId, find3Row{}); err != nil {
		t.Fatal(err)
	}
	table := schema.ByName["find3"]

	row := &find3Row{
		Id:    1,
		Key:   find3Key{7, 9},
		Event: proto.ExampleEvent{Table: "users"},
		PEv:   &proto.ExampleEvent{Table: "owls"},
		Plain: []byte("plain"),
	}
	vals, err := schema.UnbuildStruct("find3", row)
	if err != nil {
		t.Fatal(err)
	}
	cm := &columnMap{expectedColumns: len(vals), source: []int{0, 1, 2, 3, 4}}

	// BLOB columns: the binlog reader returns []byte. This works.
	blob := []interface{}{int64(1), vals[1], vals[2], vals[3], vals[4]}
	back, err := parseBinlogRow(table, blob, cm)
	if err != nil {
		t.Fatalf("binlog row with []byte values: %v", err)
	}
	if !reflect.DeepEqual(back, row) {
		t.Fatalf("binlog row with []byte values: %+v came back as %+v", row, back)
	}

	// BINARY / VARBINARY columns: the binlog reader (siddontang/go-mysql,
	// RowsEvent.decodeValue, MYSQL_TYPE_STRING / MYSQL_TYPE_VARCHAR /
	// MYSQL_TYPE_VAR_STRING -> decodeString) returns the same bytes as a string.
	str := func(v interface{}) interface{} { return string(v.([]byte)) }
	varbinary := []interface{}{int64(1), str(vals[1]), str(vals[2]), str(vals[3]), str(vals[4])}
	back, err = parseBinlogRow(table, varbinary, cm)
	if err != nil {
		t.Fatalf("binlog row with the same bytes as strings (BINARY/VARBINARY columns) cannot be decoded: %v", err)
	}
	if !reflect.DeepEqual(back, row) {
		t.Fatalf("binlog row with string values: %+v came back as %+v", row, back)
	}
}
