package livesql

// find8 (borderline: depends on the column being an ENUM): goes into
// livesql/ (package livesql). No database needed.
//
// A string field stored in an ENUM column comes back from a query as the
// label, but from the change log as the decimal index of the label: the
// binlog reader hands ENUM columns over as int64 (siddontang/go-mysql
// RowsEvent.decodeValue, MYSQL_TYPE_ENUM -> int64(data[0])), and
// fields.Scanner.Scan turns any int64 into a string with sql.NullString
// ("2") without complaint, so the tracker is handed a row that was never in
// the table.

import (
	"reflect"
	"testing"

	"github.com/samsarahq/thunder/sqlgen"
)

type find8Row struct {
	Id   int64  `sql:",primary"`
	Mood string // mood ENUM('happy','grumpy')
}

func TestFind8EnumLabelComesBackAsIndexFromChangeLog(t *testing.T) {
	schema := sqlgen.NewSchema()
	if err := schema.RegisterType("find8", sqlgen.UniqueId, find8Row{}); err != nil {
		t.Fatal(err)
	}
	row := &find8Row{Id: 1, Mood: "grumpy"}
	cm := &columnMap{expectedColumns: 2, source: []int{0, 1}}

	// Query result: the label, as text.
	back, err := parseBinlogRow(schema.ByName["find8"], []interface{}{[]byte("1"), []byte("grumpy")}, cm)
	if err != nil || !reflect.DeepEqual(back, row) {
		t.Fatalf("query form: back=%+v err=%v", back, err)
	}
	// Change-log row: 'grumpy' is the second label, the binlog carries int64(2).
	back, err = parseBinlogRow(schema.ByName["find8"], []interface{}{int64(1), int64(2)}, cm)
	if err != nil {
		t.Logf("change-log form rejected with an error (fine): %v", err)
		return
	}
	if !reflect.DeepEqual(back, row) {
		t.Errorf("row %+v came back from the change log as %+v", *row, back)
	}
}
