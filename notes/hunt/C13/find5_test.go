package livesql

// find5: goes into livesql/ (package livesql). No database needed.
//
// A field type with its own Scan/Value methods is decoded by handing the raw
// source value to its Scan method. For change-log (binlog) rows that raw value
// is what the binlog reader produced: int8 / int16 / int32 by column width,
// float32, string for DATETIME - none of which is a driver.Value. A Scan
// method written to the sql.Scanner contract ("src is one of int64, float64,
// bool, []byte, string, time.Time, nil") fails on them, so the struct that was
// written does not come back from the change log, although it comes back from
// a query. Plain (method-less) fields of the same kinds are fine, because
// fields.Scanner.Scan normalises them through sql.NullInt64 & co.

import (
	"database/sql"
	"database/sql/driver"
	"fmt"
	"reflect"
	"strconv"
	"testing"
	"time"

	"github.com/samsarahq/thunder/sqlgen"
)

// find5Level follows the sql.Scanner / driver.Valuer contracts to the letter.
type find5Level int64

func (l find5Level) Value() (driver.Value, error) { return int64(l), nil }
func (l *find5Level) Scan(src interface{}) error {
	switch v := src.(type) {
	case nil:
		*l = 0
	case int64:
		*l = find5Level(v)
	case float64:
		*l = find5Level(v)
	case bool:
		if v {
			*l = 1
		} else {
			*l = 0
		}
	case []byte:
		n, err := strconv.ParseInt(string(v), 10, 64)
		if err != nil {
			return err
		}
		*l = find5Level(n)
	case string:
		n, err := strconv.ParseInt(v, 10, 64)
		if err != nil {
			return err
		}
		*l = find5Level(n)
	case time.Time:
		return fmt.Errorf("find5Level: cannot scan a time")
	default:
		// Not a driver.Value: database/sql never passes this.
		return fmt.Errorf("find5Level: %T is not a driver.Value", src)
	}
	return nil
}

type find5Row struct {
	Id    int64 `sql:",primary"`
	Level find5Level // INT column
	Plain int64      // INT column, no methods: control
}

type find5TimeRow struct {
	Id    int64 `sql:",primary"`
	At    sql.NullTime // DATETIME column
	Plain time.Time    // DATETIME column, no methods: control
}

func TestFind5ScannerTypesGetRawBinlogValues(t *testing.T) {
	schema := sqlgen.NewSchema()
	if err := schema.RegisterType("find5", sqlgen.UniqueId, find5Row{}); err != nil {
		t.Fatal(err)
	}
	if err := schema.RegisterType("find5time", sqlgen.UniqueId, find5TimeRow{}); err != nil {
		t.Fatal(err)
	}

	row := &find5Row{Id: 1, Level: 3, Plain: 3}
	vals, err := schema.UnbuildStruct("find5", row)
	if err != nil {
		t.Fatal(err)
	}
	cm := &columnMap{expectedColumns: 3, source: []int{0, 1, 2}}

	// Query result forms: text protocol ([]byte) and binary protocol (int64).
	for _, form := range [][]interface{}{
		{[]byte("1"), []byte("3"), []byte("3")},
		{vals[0], vals[1], vals[2]},
	} {
		back, err := parseBinlogRow(schema.ByName["find5"], form, cm)
		if err != nil || !reflect.DeepEqual(back, row) {
			t.Fatalf("control form %#v: back=%+v err=%v", form, back, err)
		}
	}
	// Change-log form: BIGINT -> int64, INT -> int32 (siddontang/go-mysql
	// RowsEvent.decodeValue: MYSQL_TYPE_LONG -> ParseBinaryInt32).
	back, err := parseBinlogRow(schema.ByName["find5"], []interface{}{int64(1), int32(3), int32(3)}, cm)
	if err != nil {
		t.Errorf("row %+v cannot be decoded from its change-log form (INT columns as int32): %v", *row, err)
	} else if !reflect.DeepEqual(back, row) {
		t.Errorf("row %+v came back from the change log as %+v", *row, back)
	}

	// Same thing with the standard library's own nullable time and a DATETIME
	// column, which the binlog reader returns as a "2006-01-02 15:04:05" string.
	at := time.Date(2020, 2, 29, 1, 2, 3, 0, time.UTC)
	trow := &find5TimeRow{Id: 1, At: sql.NullTime{Time: at, Valid: true}, Plain: at}
	tcm := &columnMap{expectedColumns: 3, source: []int{0, 1, 2}}
	tback, err := parseBinlogRow(schema.ByName["find5time"], []interface{}{int64(1), "2020-02-29 01:02:03", "2020-02-29 01:02:03"}, tcm)
	if err != nil {
		t.Errorf("row %+v cannot be decoded from its change-log form (DATETIME as string): %v", *trow, err)
	} else if !reflect.DeepEqual(tback, trow) {
		t.Errorf("row %+v came back from the change log as %+v", *trow, tback)
	}
}
