package livesql

// find4: goes into livesql/ (package livesql). No database needed.
//
// For a non-pointer `sql:",binary"` column whose type has its Marshal method
// (or proto.Message) on the pointer receiver - every gogo/protobuf message -
// Valuer.Value panics (reflect.Set) when the filter value is not exactly of
// the column's Go type: the column's own SQL value ([]byte, what
// UnbuildStruct returned for the row) or a pointer to the message. The row
// tester, FilterToProto and the WHERE builder all go through that Valuer, so
// the filter is neither "rejected with an error" nor does it match its row:
// the process panics.

import (
	"fmt"
	"testing"

	"github.com/samsarahq/thunder/internal/proto"
	"github.com/samsarahq/thunder/sqlgen"
)

type find4Row struct {
	Id    int64                    `sql:",primary"`
	Event proto.ExampleEvent       `sql:",binary"` // has Marshal() on *ExampleEvent
	Plain proto.SimpleExampleEvent `sql:",binary"` // only proto.Message on *SimpleExampleEvent
}

type find4PtrRow struct {
	Id    int64               `sql:",primary"`
	Event *proto.ExampleEvent `sql:",binary"`
}

func find4Try(f func() error) (err error) {
	defer func() {
		if r := recover(); r != nil {
			err = fmt.Errorf("PANIC: %v", r)
		}
	}()
	return f()
}

func TestFind4BinaryColumnFilterPanics(t *testing.T) {
	schema := sqlgen.NewSchema()
	if err := schema.RegisterType("find4", sqlgen.UniqueId, find4Row{}); err != nil {
		t.Fatal(err)
	}
	if err := schema.RegisterType("find4ptr", sqlgen.UniqueId, find4PtrRow{}); err != nil {
		t.Fatal(err)
	}

	row := &find4Row{Id: 1, Event: proto.ExampleEvent{Table: "users"}, Plain: proto.SimpleExampleEvent{Table: "owls"}}
	vals, err := schema.UnbuildStruct("find4", row)
	if err != nil {
		t.Fatal(err)
	}

	// Control: the same two kinds of filter value on a pointer column are fine.
	ptrRow := &find4PtrRow{Id: 1, Event: &proto.ExampleEvent{Table: "users"}}
	for _, fv := range []interface{}{vals[1], ptrRow.Event} {
		tester, _ := schema.MakeTester("find4ptr", sqlgen.Filter{"event": fv})
		if !tester.Test(ptrRow) {
			t.Fatalf("control: filter %T on the pointer column does not match", fv)
		}
	}

	filters := map[string]sqlgen.Filter{
		"event = the row's own column value ([]byte)": {"event": vals[1]},
		"plain = the row's own column value ([]byte)": {"plain": vals[2]},
		"event = pointer to the row's own message":    {"event": &row.Event},
		"plain = pointer to the row's own message":    {"plain": &row.Plain},
	}
	for name, filter := range filters {
		filter := filter
		// 1. the row tester
		matched := false
		err := find4Try(func() error {
			tester, err := schema.MakeTester("find4", filter)
			if err != nil {
				return err
			}
			matched = tester.Test(row)
			return nil
		})
		if err != nil {
			t.Errorf("tester, %s: %v", name, err)
		} else if !matched {
			t.Errorf("tester, %s: filter made from the row does not match the row", name)
		}

		// 2. shipping the filter: must be an error or an equivalent filter.
		err = find4Try(func() error {
			p, err := FilterToProto(schema, "find4", filter)
			if err != nil {
				t.Logf("FilterToProto, %s: rejected with error %v (fine)", name, err)
				return nil
			}
			_, f2, err := FilterFromProto(schema, p)
			if err != nil {
				t.Logf("FilterFromProto, %s: rejected with error %v (fine)", name, err)
				return nil
			}
			tester, err := schema.MakeTester("find4", f2)
			if err != nil {
				return err
			}
			if !tester.Test(row) {
				return fmt.Errorf("shipped filter no longer matches the row")
			}
			return nil
		})
		if err != nil {
			t.Errorf("FilterToProto/FromProto, %s: %v", name, err)
		}
	}
}
