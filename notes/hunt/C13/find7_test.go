package livesql

// find7 (borderline, rooted in documented encoding/json behaviour): goes into
// livesql/ (package livesql). No database needed.
//
// A filter on a `sql:",json"` column that matches a row stops matching that
// row once it has been through FilterToProto / FilterFromProto, when the JSON
// value does not survive json.Unmarshal + json.Marshal unchanged:
//   - a map[string]interface{} holding an integer above 2^53 (comes back as a
//     float64 and is re-encoded with other digits),
//   - a string with invalid UTF-8 (encoded as the six-character escape \ufffd, decoded to
//     U+FFFD, re-encoded as the literal three bytes).
// Before shipping, the filter matches both the original row (byte-equal) and,
// through the tester's coerceToColumn step, the "rounded" row; after shipping
// it only matches the rounded one.

import (
	"testing"

	"github.com/samsarahq/thunder/sqlgen"
	"github.com/samsarahq/thunder/thunderpb"
)

type find7Row struct {
	Id    int64                  `sql:",primary"`
	Attrs map[string]interface{} `sql:",json"`
	Tags  map[string]string      `sql:",json"`
}

func TestFind7JSONFilterChangesMeaningWhenShipped(t *testing.T) {
	schema := sqlgen.NewSchema()
	if err := schema.RegisterType("find7", sqlgen.UniqueId, find7Row{}); err != nil {
		t.Fatal(err)
	}

	cases := []struct {
		name   string
		row    *find7Row
		filter sqlgen.Filter
	}{
		{
			name:   "integer above 2^53 in map[string]interface{}",
			row:    &find7Row{Id: 1, Attrs: map[string]interface{}{"n": int64(1<<53 + 1)}},
			filter: sqlgen.Filter{"attrs": map[string]interface{}{"n": int64(1<<53 + 1)}},
		},
		{
			name:   "invalid UTF-8 in map[string]string",
			row:    &find7Row{Id: 2, Tags: map[string]string{"k": "h\xff"}},
			filter: sqlgen.Filter{"tags": map[string]string{"k": "h\xff"}},
		},
	}
	for _, c := range cases {
		pre, err := schema.MakeTester("find7", c.filter)
		if err != nil {
			t.Fatal(err)
		}
		if !pre.Test(c.row) {
			t.Errorf("%s: filter made from the row does not match it even before shipping", c.name)
			continue
		}

		p, err := FilterToProto(schema, "find7", c.filter)
		if err != nil {
			t.Logf("%s: rejected by FilterToProto (fine): %v", c.name, err)
			continue
		}
		wire, err := p.Marshal()
		if err != nil {
			t.Logf("%s: rejected by Marshal (fine): %v", c.name, err)
			continue
		}
		var p2 thunderpb.SQLFilter
		if err := p2.Unmarshal(wire); err != nil {
			t.Logf("%s: rejected by Unmarshal (fine): %v", c.name, err)
			continue
		}
		_, shipped, err := FilterFromProto(schema, &p2)
		if err != nil {
			t.Logf("%s: rejected by FilterFromProto (fine): %v", c.name, err)
			continue
		}
		post, err := schema.MakeTester("find7", shipped)
		if err != nil {
			t.Fatal(err)
		}
		if !post.Test(c.row) {
			t.Errorf("%s: filter %#v matched row %+v before shipping; the shipped filter %#v does not", c.name, c.filter, *c.row, shipped)
		}
	}
}
