package sqlgen

// find1: goes into sqlgen/ (package sqlgen). No database needed.
//
// A named type over []byte (type find1Blob []byte, or json.RawMessage / net.IP
// used without a tag) is accepted by RegisterType, but no non-nil value of it
// can be decoded again, and a filter made from the row's own field value does
// not match the row.

import (
	"database/sql/driver"
	"encoding/json"
	"reflect"
	"testing"
)

type find1Blob []byte

type find1Row struct {
	Id   int64 `sql:",primary"`
	Data find1Blob
	Raw  json.RawMessage
}

func TestFind1NamedByteSliceDoesNotRoundTrip(t *testing.T) {
	s := NewSchema()
	if err := s.RegisterType("find1", UniqueId, find1Row{}); err != nil {
		// Refusing the type at registration would be a legitimate way out.
		t.Logf("type refused at registration (no violation): %v", err)
		return
	}

	row := &find1Row{Id: 1, Data: find1Blob{1, 2, 3}, Raw: json.RawMessage(`{"a":1}`)}
	vals, err := s.UnbuildStruct("find1", row)
	if err != nil {
		t.Fatalf("UnbuildStruct: %v", err)
	}
	for i, v := range vals {
		if !driver.IsValue(v) {
			t.Errorf("UnbuildStruct column %d: %T is not a driver.Value (int64, float64, bool, []byte, string, time.Time, nil)", i, v)
		}
	}

	// What MySQL hands back for these two columns: the same bytes, as []byte
	// (query results, BLOB in the binlog) or as string (VARBINARY/VARCHAR in
	// the binlog).
	asBytes := func(v interface{}) []byte { return reflect.ValueOf(v).Bytes() }
	forms := map[string][]driver.Value{
		"query result ([]byte)": {int64(1), asBytes(vals[1]), asBytes(vals[2])},
		"binlog (string)":       {int64(1), string(asBytes(vals[1])), string(asBytes(vals[2]))},
		"column values as is":   {vals[0], vals[1], vals[2]},
	}
	for name, form := range forms {
		back, err := s.BuildStruct("find1", form)
		if err != nil {
			t.Errorf("%s: row %+v cannot be decoded from its own column values: %v", name, *row, err)
			continue
		}
		if !reflect.DeepEqual(back, row) {
			t.Errorf("%s: row %+v came back as %+v", name, *row, back)
		}
	}

	// A filter made from the row's own field value must match the row.
	for col, val := range map[string]interface{}{"data": row.Data, "raw": row.Raw} {
		tester, err := s.MakeTester("find1", Filter{col: val})
		if err != nil {
			t.Fatalf("MakeTester: %v", err)
		}
		if !tester.Test(row) {
			t.Errorf("filter {%s: %T(%v)} made from the row's own value does not match the row", col, val, val)
		}
	}
}
