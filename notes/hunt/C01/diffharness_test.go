//go:build go1.18

// Differential harness used for the conformance sweep (not a finding; it PASSES
// on the unmodified tree). Random queries over a schema that exposes every
// relation in nine resolution modes (plain, value receiver, parallel
// invocations, expensive, batch, batch + parallel invocations, batch with
// fallback, fallback + expensive, fallback + parallel invocations) are executed
// under 16 configurations (goroutine / FIFO / LIFO / random scheduler x
// use-batch flag x plain context or reactive.Rerunner with one forced rerun)
// and compared with an independent sequential evaluator that works on the
// generator's own AST (it never sees thunder's parser output).
//
// Copy into: graphql/   (package graphql_test)
// Run:       DIFF_N=3000 DIFF_SEED=1 go test ./graphql/ -run '^TestDiffRandom$' -v
//            DIFF_UNIONSELF=1 additionally generates `... on <Union>` fragments
//            under union fields (finding 6) and therefore fails.

package graphql_test

// Differential tester: random schemas-queries vs. an independent sequential
// reference evaluator that works on the generator's own AST.

import (
	"context"
	"encoding/json"
	"fmt"
	"math/rand"
	"os"
	"sort"
	"strconv"
	"strings"
	"sync"
	"testing"
	"time"

	"github.com/samsarahq/thunder/batch"
	"github.com/samsarahq/thunder/graphql"
	"github.com/samsarahq/thunder/graphql/schemabuilder"
	"github.com/samsarahq/thunder/reactive"
)

// ---------------------------------------------------------------- data model

type DKind int32

type DNode struct {
	ID   int64
	Name string
	Opt  *string
	Tags []string
	Kind DKind
	Raw  []byte
}

type DLeaf struct {
	ID    int64 `graphql:",key"`
	Label string
}

type DU struct {
	schemabuilder.Union
	*DNode
	*DLeaf
}

const dMod = 23

var dNodes [dMod]*DNode
var dLeaves [dMod]*DLeaf

func init() {
	for i := int64(0); i < dMod; i++ {
		n := &DNode{ID: i, Name: fmt.Sprintf("n%d", i), Kind: DKind(i % 3)}
		if i%2 == 0 {
			s := fmt.Sprintf("opt%d", i)
			n.Opt = &s
		}
		if i%4 != 0 {
			for j := int64(0); j < i%3; j++ {
				n.Tags = append(n.Tags, fmt.Sprintf("t%d", j))
			}
			if i%3 == 0 {
				n.Tags = []string{}
			}
		}
		if i%5 != 0 {
			n.Raw = []byte{byte(i), 1}
		}
		dNodes[i] = n
		dLeaves[i] = &DLeaf{ID: i, Label: fmt.Sprintf("l%d", i)}
	}
}

func dn(id int64) *DNode { return dNodes[((id%dMod)+dMod)%dMod] }
func dl(id int64) *DLeaf { return dLeaves[((id%dMod)+dMod)%dMod] }

// pure relations
func relChild(n *DNode) *DNode {
	if n.ID%3 == 0 {
		return nil
	}
	return dn(n.ID*2 + 1)
}
func relSelf(n *DNode) *DNode { return dn(n.ID) }
func relKids(n *DNode) []*DNode {
	if n.ID%7 == 6 {
		return nil
	}
	var out []*DNode
	for j := int64(0); j < n.ID%4; j++ {
		if (n.ID+j)%5 == 0 {
			out = append(out, nil)
		} else if j == 2 {
			out = append(out, dn(n.ID+1)) // duplicate of j==0 entry
		} else {
			out = append(out, dn(n.ID+j+1))
		}
	}
	return out
}
func relVKids(n *DNode) []DNode {
	var out []DNode
	for j := int64(0); j < (n.ID+1)%3; j++ {
		out = append(out, *dn(n.ID + 3)) // duplicates by value
	}
	return out
}
func relLeaf(n *DNode) *DLeaf {
	if n.ID%4 == 1 {
		return nil
	}
	return dl(n.ID + 2)
}
func relU(n *DNode) *DU {
	switch n.ID % 4 {
	case 0:
		return nil
	case 1:
		return &DU{DNode: dn(n.ID + 5)}
	case 2:
		return &DU{DLeaf: dl(n.ID)}
	default:
		return &DU{}
	}
}
func relUs(n *DNode) []*DU {
	var out []*DU
	for j := int64(0); j < n.ID%5; j++ {
		out = append(out, relU(dn(n.ID+j)))
	}
	return out
}
func relUVs(n *DNode) []DU {
	var out []DU
	for j := int64(0); j < n.ID%3; j++ {
		if u := relU(dn(n.ID + j + 1)); u != nil {
			out = append(out, *u)
		}
	}
	return out
}
func relNN(n *DNode) [][]*DNode {
	var out [][]*DNode
	for j := int64(0); j < n.ID%3; j++ {
		out = append(out, relKids(dn(n.ID+j)))
	}
	return out
}
func relOptS(n *DNode) *string { return n.Opt }
func relTags(n *DNode) []string { return n.Tags }
func relKind(n *DNode) DKind   { return n.Kind }

type dArgs struct{ N int64 }

func relAdd(n *DNode, a dArgs) *int64 { v := n.ID + a.N; return &v }
func relNth(n *DNode, a dArgs) *DNode {
	if (n.ID+a.N)%6 == 0 {
		return nil
	}
	return dn(n.ID + a.N)
}

type useBatchKey struct{}

func dFlag(ctx context.Context) bool {
	v, _ := ctx.Value(useBatchKey{}).(bool)
	return v
}

var dModes = []string{"p", "pv", "pn", "e", "b", "bn", "f", "fe", "fn"}

func par(k int) schemabuilder.NumParallelInvocationsFunc {
	return func(ctx context.Context, n int) int { return k }
}

func regRel[T any](o *schemabuilder.Object, name string, f func(*DNode) T) {
	bf := func(in map[batch.Index]*DNode) map[batch.Index]T {
		out := make(map[batch.Index]T, len(in))
		for k, v := range in {
			out[k] = f(v)
		}
		return out
	}
	bfv := func(ctx context.Context, in map[batch.Index]DNode) (map[batch.Index]T, error) {
		out := make(map[batch.Index]T, len(in))
		for k, v := range in {
			v := v
			out[k] = f(&v)
		}
		return out, nil
	}
	fb := func(n *DNode) T { return f(n) }
	o.FieldFunc(name+"_p", func(n *DNode) T { return f(n) })
	o.FieldFunc(name+"_pv", func(n DNode) T { return f(&n) })
	o.FieldFunc(name+"_pn", func(n *DNode) T { return f(n) }, par(2))
	o.FieldFunc(name+"_e", func(ctx context.Context, n *DNode) (T, error) { return f(n), nil }, schemabuilder.Expensive)
	o.BatchFieldFunc(name+"_b", bf)
	o.BatchFieldFunc(name+"_bn", bfv, par(3))
	o.BatchFieldFuncWithFallback(name+"_f", bf, fb, dFlag)
	o.BatchFieldFuncWithFallback(name+"_fe", bf, fb, dFlag, schemabuilder.Expensive)
	o.BatchFieldFuncWithFallback(name+"_fn", bf, fb, dFlag, par(2))
}

func regRelA[T any](o *schemabuilder.Object, name string, f func(*DNode, dArgs) T) {
	bf := func(in map[batch.Index]*DNode, a dArgs) map[batch.Index]T {
		out := make(map[batch.Index]T, len(in))
		for k, v := range in {
			out[k] = f(v, a)
		}
		return out
	}
	bfv := func(ctx context.Context, in map[batch.Index]DNode, a dArgs) (map[batch.Index]T, error) {
		out := make(map[batch.Index]T, len(in))
		for k, v := range in {
			v := v
			out[k] = f(&v, a)
		}
		return out, nil
	}
	fb := func(n *DNode, a dArgs) T { return f(n, a) }
	o.FieldFunc(name+"_p", func(n *DNode, a dArgs) T { return f(n, a) })
	o.FieldFunc(name+"_pv", func(n DNode, a dArgs) T { return f(&n, a) })
	o.FieldFunc(name+"_pn", func(n *DNode, a dArgs) T { return f(n, a) }, par(2))
	o.FieldFunc(name+"_e", func(ctx context.Context, n *DNode, a dArgs) (T, error) { return f(n, a), nil }, schemabuilder.Expensive)
	o.BatchFieldFunc(name+"_b", bf)
	o.BatchFieldFunc(name+"_bn", bfv, par(3))
	o.BatchFieldFuncWithFallback(name+"_f", bf, fb, dFlag)
	o.BatchFieldFuncWithFallback(name+"_fe", bf, fb, dFlag, schemabuilder.Expensive)
	o.BatchFieldFuncWithFallback(name+"_fn", bf, fb, dFlag, par(2))
}

var dSchemaOnce sync.Once
var dSchema *graphql.Schema

func buildDSchema() *graphql.Schema {
	dSchemaOnce.Do(func() {
		sb := schemabuilder.NewSchema()
		sb.Enum(DKind(0), map[string]DKind{"ZERO": 0, "ONE": 1, "TWO": 2})
		q := sb.Query()
		q.FieldFunc("node", func(a dArgs) *DNode {
			if a.N%9 == 8 {
				return nil
			}
			return dn(a.N)
		})
		q.FieldFunc("nodeE", func(ctx context.Context, a dArgs) *DNode { return dn(a.N) }, schemabuilder.Expensive)
		q.FieldFunc("nodes", func() []*DNode { return []*DNode{dn(1), dn(2), nil, dn(1), dn(7), dn(10)} })
		q.FieldFunc("vnodes", func() []DNode { return []DNode{*dn(3), *dn(3), *dn(5)} })
		q.FieldFunc("us", func() []*DU { return relUs(dn(4)) })
		q.FieldFunc("u", func(a dArgs) *DU { return relU(dn(a.N)) })
		o := sb.Object("DNode", DNode{})
		sb.Object("DLeaf", DLeaf{})
		regRel(o, "child", relChild)
		regRel(o, "self", relSelf)
		regRel(o, "kids", relKids)
		regRel(o, "vkids", relVKids)
		regRel(o, "leaf", relLeaf)
		regRel(o, "u", relU)
		regRel(o, "us", relUs)
		regRel(o, "uvs", relUVs)
		regRel(o, "nn", relNN)
		regRel(o, "optS", relOptS)
		regRel(o, "tagsF", relTags)
		regRelA(o, "add", relAdd)
		regRelA(o, "nth", relNth)
		dSchema = sb.MustBuild()
	})
	return dSchema
}

// ---------------------------------------------------------------- generator AST

type gDir struct {
	name    string // skip / include
	lit     bool   // literal value used when varName == ""
	varName string
}

type gItem struct {
	// field
	isField bool
	alias   string // "" = none
	name    string
	hasArg  bool
	arg     int64
	argVar  string // variable carrying the arg (value = arg)
	sub     *gSet
	// fragment
	on     string
	spread string // named fragment
	set    *gSet  // inline fragment body
	dirs   []gDir
}

type gSet struct{ items []*gItem }

type gFragDef struct {
	name string
	on   string
	set  *gSet
}

type gQuery struct {
	root  *gSet
	frags map[string]*gFragDef
	order []string
	vars  map[string]interface{}
	// variable declarations
	decls []string
}

type gen struct {
	r       *rand.Rand
	q       *gQuery
	unionSelf bool // allow "... on DU" under unions
	fragsByType map[string][]string
}

var boolVars = map[string]bool{"t": true, "f": false, "dt": true, "df": false}

func (g *gen) dirs() []gDir {
	if g.r.Intn(6) != 0 {
		return nil
	}
	n := 1
	if g.r.Intn(4) == 0 {
		n = 2
	}
	var out []gDir
	names := []string{"skip", "include"}
	g.r.Shuffle(2, func(i, j int) { names[i], names[j] = names[j], names[i] })
	for i := 0; i < n; i++ {
		d := gDir{name: names[i]}
		if g.r.Intn(2) == 0 {
			d.lit = g.r.Intn(2) == 0
		} else {
			vs := []string{"t", "f", "dt", "df"}
			d.varName = vs[g.r.Intn(len(vs))]
		}
		out = append(out, d)
	}
	return out
}

func dirVal(d gDir) bool {
	if d.varName != "" {
		return boolVars[d.varName]
	}
	return d.lit
}

func included(ds []gDir) bool {
	for _, d := range ds {
		if d.name == "skip" && dirVal(d) {
			return false
		}
		if d.name == "include" && !dirVal(d) {
			return false
		}
	}
	return true
}

var nodeScalars = []string{"iD", "name", "opt", "tags", "kind", "raw"}
var leafScalars = []string{"iD", "label"}

// relation -> result type
var relTypes = map[string]string{
	"child": "DNode", "self": "DNode", "kids": "DNode", "vkids": "DNode", "leaf": "DLeaf",
	"u": "DU", "us": "DU", "uvs": "DU", "nn": "DNode", "optS": "", "tagsF": "", "add": "", "nth": "DNode",
}
var relNames = []string{"child", "self", "kids", "vkids", "leaf", "u", "us", "uvs", "nn", "optS", "tagsF", "add", "nth"}

func (g *gen) field(typ string, depth int) *gItem {
	it := &gItem{isField: true}
	switch typ {
	case "Query":
		switch g.r.Intn(8) {
		case 0:
			it.name = "__typename"
		case 1:
			it.name, it.hasArg, it.sub = "nodeE", true, g.set("DNode", depth-1)
		case 2:
			it.name, it.sub = "nodes", g.set("DNode", depth-1)
		case 3:
			it.name, it.sub = "vnodes", g.set("DNode", depth-1)
		case 4:
			it.name, it.sub = "us", g.set("DU", depth-1)
		case 5:
			it.name, it.hasArg, it.sub = "u", true, g.set("DU", depth-1)
		default:
			it.name, it.hasArg, it.sub = "node", true, g.set("DNode", depth-1)
		}
	case "DLeaf":
		if g.r.Intn(5) == 0 {
			it.name = "__typename"
		} else {
			it.name = leafScalars[g.r.Intn(len(leafScalars))]
		}
	case "DNode":
		k := g.r.Intn(10)
		if depth <= 0 && k >= 4 {
			k = g.r.Intn(4)
		}
		switch {
		case k == 0:
			it.name = "__typename"
		case k < 4:
			it.name = nodeScalars[g.r.Intn(len(nodeScalars))]
		default:
			rel := relNames[g.r.Intn(len(relNames))]
			mode := dModes[g.r.Intn(len(dModes))]
			it.name = rel + "_" + mode
			if rel == "add" || rel == "nth" {
				it.hasArg = true
			}
			if t := relTypes[rel]; t != "" {
				it.sub = g.set(t, depth-1)
			}
		}
	}
	if it.hasArg {
		it.arg = int64(g.r.Intn(12))
		if g.r.Intn(4) == 0 {
			it.argVar = "n" + strconv.FormatInt(it.arg, 10)
		}
		it.alias = fmt.Sprintf("%s_%d", it.name, it.arg)
		if g.r.Intn(3) == 0 {
			it.alias = fmt.Sprintf("x%d_%s_%d", g.r.Intn(2), it.name, it.arg)
		}
	} else if g.r.Intn(5) == 0 {
		it.alias = fmt.Sprintf("x%d_%s", g.r.Intn(2), it.name)
	}
	it.dirs = g.dirs()
	return it
}

func (g *gen) set(typ string, depth int) *gSet {
	s := &gSet{}
	if typ == "DU" {
		n := 1 + g.r.Intn(4)
		for i := 0; i < n; i++ {
			k := g.r.Intn(10)
			switch {
			case k < 2:
				it := &gItem{isField: true, name: "__typename", dirs: g.dirs()}
				if g.r.Intn(4) == 0 {
					it.alias = "x0___typename"
				}
				s.items = append(s.items, it)
			case k < 9 || !g.unionSelf:
				m := []string{"DNode", "DLeaf"}[g.r.Intn(2)]
				s.items = append(s.items, g.frag(m, m, depth))
			default:
				s.items = append(s.items, &gItem{on: "DU", set: g.set("DU", depth), dirs: g.dirs()})
			}
		}
		return s
	}
	n := 1 + g.r.Intn(4)
	for i := 0; i < n; i++ {
		if g.r.Intn(5) == 0 && depth > 0 {
			on := typ
			if g.r.Intn(8) == 0 {
				on = []string{"DNode", "DLeaf", "Query", "Bogus"}[g.r.Intn(4)]
			}
			s.items = append(s.items, g.frag(typ, on, depth))
		} else {
			s.items = append(s.items, g.field(typ, depth))
		}
	}
	return s
}

// frag produces an inline fragment or a named-fragment spread whose content is
// valid for typ.
func (g *gen) frag(typ, on string, depth int) *gItem {
	if g.r.Intn(3) == 0 && on == typ {
		// named fragment: reuse or create
		names := g.fragsByType[typ]
		if len(names) > 0 && g.r.Intn(2) == 0 {
			return &gItem{spread: names[g.r.Intn(len(names))], dirs: g.dirs()}
		}
		name := fmt.Sprintf("F%d", len(g.q.frags))
		def := &gFragDef{name: name, on: typ}
		g.q.frags[name] = def
		g.q.order = append(g.q.order, name)
		// Build the body BEFORE registering for reuse: prevents cycles.
		def.set = g.set(typ, depth-1)
		g.fragsByType[typ] = append(g.fragsByType[typ], name)
		return &gItem{spread: name, dirs: g.dirs()}
	}
	return &gItem{on: on, set: g.set(typ, depth-1), dirs: g.dirs()}
}

func newGen(seed int64, unionSelf bool) *gen {
	g := &gen{r: rand.New(rand.NewSource(seed)), unionSelf: unionSelf, fragsByType: map[string][]string{}}
	g.q = &gQuery{frags: map[string]*gFragDef{}, vars: map[string]interface{}{}}
	return g
}

func (g *gen) query() *gQuery {
	depth := 1 + g.r.Intn(4)
	g.q.root = g.set("Query", depth)
	return g.q
}

// ---------------------------------------------------------------- rendering

func renderDirs(b *strings.Builder, ds []gDir, used map[string]bool) {
	for _, d := range ds {
		if d.varName != "" {
			used[d.varName] = true
			fmt.Fprintf(b, " @%s(if: $%s)", d.name, d.varName)
		} else {
			fmt.Fprintf(b, " @%s(if: %v)", d.name, d.lit)
		}
	}
}

func renderSet(b *strings.Builder, s *gSet, used map[string]bool, usedFrags map[string]bool, q *gQuery) {
	b.WriteString("{ ")
	for _, it := range s.items {
		if it.isField {
			if it.alias != "" {
				b.WriteString(it.alias + ": ")
			}
			b.WriteString(it.name)
			if it.hasArg {
				if it.argVar != "" {
					used[it.argVar] = true
					fmt.Fprintf(b, "(n: $%s)", it.argVar)
				} else {
					fmt.Fprintf(b, "(n: %d)", it.arg)
				}
			}
			renderDirs(b, it.dirs, used)
			if it.sub != nil {
				b.WriteString(" ")
				renderSet(b, it.sub, used, usedFrags, q)
			}
			b.WriteString(" ")
		} else if it.spread != "" {
			usedFrags[it.spread] = true
			b.WriteString("..." + it.spread)
			renderDirs(b, it.dirs, used)
			b.WriteString(" ")
		} else {
			b.WriteString("... on " + it.on)
			renderDirs(b, it.dirs, used)
			b.WriteString(" ")
			renderSet(b, it.set, used, usedFrags, q)
			b.WriteString(" ")
		}
	}
	b.WriteString("}")
}

func (q *gQuery) render() (string, map[string]interface{}) {
	used := map[string]bool{}
	usedFrags := map[string]bool{}
	var body strings.Builder
	renderSet(&body, q.root, used, usedFrags, q)
	// fragments reachable
	var fragText strings.Builder
	done := map[string]bool{}
	for {
		progress := false
		for _, name := range q.order {
			if usedFrags[name] && !done[name] {
				done[name] = true
				progress = true
				def := q.frags[name]
				fmt.Fprintf(&fragText, "\nfragment %s on %s ", name, def.on)
				renderSet(&fragText, def.set, used, usedFrags, q)
			}
		}
		if !progress {
			break
		}
	}
	vars := map[string]interface{}{}
	var decls []string
	var names []string
	for v := range used {
		names = append(names, v)
	}
	sort.Strings(names)
	for _, v := range names {
		switch {
		case v == "t" || v == "f":
			decls = append(decls, fmt.Sprintf("$%s: Boolean!", v))
			vars[v] = boolVars[v]
		case v == "dt" || v == "df":
			decls = append(decls, fmt.Sprintf("$%s: Boolean = %v", v, boolVars[v]))
		default:
			n, _ := strconv.ParseInt(v[1:], 10, 64)
			decls = append(decls, fmt.Sprintf("$%s: int64!", v))
			vars[v] = float64(n)
		}
	}
	head := "query Q"
	if len(decls) > 0 {
		head += "(" + strings.Join(decls, ", ") + ")"
	}
	return head + " " + body.String() + fragText.String(), vars
}

// ---------------------------------------------------------------- reference

type refOpts struct {
	unionSelfApplies bool
}

type refField struct {
	first *gItem
	subs  []*gSet
}

// collect gathers, in order, the fields that apply to an object of type typ.
// underUnion: only fragments whose condition equals typ (or, if
// unionSelfApplies, the union's own name) apply; plain fields are __typename.
func (q *gQuery) collect(sets []*gSet, typ string, underUnion bool, o refOpts, order *[]string, fields map[string]*refField) {
	for _, s := range sets {
		for _, it := range s.items {
			if !included(it.dirs) {
				continue
			}
			if it.isField {
				f, ok := fields[aliasOf(it)]
				if !ok {
					f = &refField{first: it}
					fields[aliasOf(it)] = f
					*order = append(*order, aliasOf(it))
				}
				if it.sub != nil {
					f.subs = append(f.subs, it.sub)
				}
				continue
			}
			on, body := it.on, it.set
			if it.spread != "" {
				def := q.frags[it.spread]
				on, body = def.on, def.set
			}
			if underUnion {
				if on == typ {
					// member fragment: its content is object-level
					q.collect([]*gSet{body}, typ, false, o, order, fields)
				} else if on == "DU" && o.unionSelfApplies {
					q.collect([]*gSet{body}, typ, true, o, order, fields)
				}
				continue
			}
			// object level: fragments apply whatever their type condition
			q.collect([]*gSet{body}, typ, false, o, order, fields)
		}
	}
}

func aliasOf(it *gItem) string {
	if it.alias != "" {
		return it.alias
	}
	return it.name
}

var kindNames = map[DKind]string{0: "ZERO", 1: "ONE", 2: "TWO"}

func (q *gQuery) evalObject(typ string, obj interface{}, sets []*gSet, underUnion bool, o refOpts) map[string]interface{} {
	var order []string
	fields := map[string]*refField{}
	q.collect(sets, typ, underUnion, o, &order, fields)
	out := map[string]interface{}{}
	for _, alias := range order {
		f := fields[alias]
		name := f.first.name
		if name == "__typename" {
			out[alias] = typ
			continue
		}
		out[alias] = q.complete(q.resolve(typ, obj, f.first), f.subs, o)
	}
	if typ == "DLeaf" {
		out["__key"] = obj.(*DLeaf).ID
	}
	return out
}

func (q *gQuery) resolve(typ string, obj interface{}, it *gItem) interface{} {
	a := dArgs{N: it.arg}
	switch typ {
	case "Query":
		switch it.name {
		case "node":
			if a.N%9 == 8 {
				return (*DNode)(nil)
			}
			return dn(a.N)
		case "nodeE":
			return dn(a.N)
		case "nodes":
			return []*DNode{dn(1), dn(2), nil, dn(1), dn(7), dn(10)}
		case "vnodes":
			return []DNode{*dn(3), *dn(3), *dn(5)}
		case "us":
			return relUs(dn(4))
		case "u":
			return relU(dn(a.N))
		}
	case "DLeaf":
		l := obj.(*DLeaf)
		switch it.name {
		case "iD":
			return l.ID
		case "label":
			return l.Label
		}
	case "DNode":
		n := obj.(*DNode)
		switch it.name {
		case "iD":
			return n.ID
		case "name":
			return n.Name
		case "opt":
			return n.Opt
		case "tags":
			return n.Tags
		case "kind":
			return n.Kind
		case "raw":
			return n.Raw
		}
		rel := it.name[:strings.LastIndex(it.name, "_")]
		switch rel {
		case "child":
			return relChild(n)
		case "self":
			return relSelf(n)
		case "kids":
			return relKids(n)
		case "vkids":
			return relVKids(n)
		case "leaf":
			return relLeaf(n)
		case "u":
			return relU(n)
		case "us":
			return relUs(n)
		case "uvs":
			return relUVs(n)
		case "nn":
			return relNN(n)
		case "optS":
			return relOptS(n)
		case "tagsF":
			return relTags(n)
		case "add":
			return relAdd(n, a)
		case "nth":
			return relNth(n, a)
		}
	}
	panic("ref: unknown field " + typ + "." + it.name)
}

func (q *gQuery) complete(v interface{}, subs []*gSet, o refOpts) interface{} {
	switch v := v.(type) {
	case *DNode:
		if v == nil {
			return nil
		}
		return q.evalObject("DNode", v, subs, false, o)
	case DNode:
		return q.evalObject("DNode", &v, subs, false, o)
	case *DLeaf:
		if v == nil {
			return nil
		}
		return q.evalObject("DLeaf", v, subs, false, o)
	case *DU:
		if v == nil {
			return nil
		}
		return q.complete(*v, subs, o)
	case DU:
		switch {
		case v.DNode != nil:
			return q.evalObject("DNode", v.DNode, subs, true, o)
		case v.DLeaf != nil:
			return q.evalObject("DLeaf", v.DLeaf, subs, true, o)
		}
		return nil
	case []*DNode:
		out := make([]interface{}, 0, len(v))
		for _, e := range v {
			out = append(out, q.complete(e, subs, o))
		}
		return out
	case [][]*DNode:
		out := make([]interface{}, 0, len(v))
		for _, e := range v {
			out = append(out, q.complete(e, subs, o))
		}
		return out
	case []DNode:
		out := make([]interface{}, 0, len(v))
		for _, e := range v {
			out = append(out, q.complete(e, subs, o))
		}
		return out
	case []*DU:
		out := make([]interface{}, 0, len(v))
		for _, e := range v {
			out = append(out, q.complete(e, subs, o))
		}
		return out
	case []DU:
		out := make([]interface{}, 0, len(v))
		for _, e := range v {
			out = append(out, q.complete(e, subs, o))
		}
		return out
	case []string:
		out := make([]interface{}, 0, len(v))
		for _, e := range v {
			out = append(out, e)
		}
		return out
	case []byte:
		if v == nil {
			return []byte{}
		}
		return v
	case *string:
		if v == nil {
			return nil
		}
		return *v
	case *int64:
		if v == nil {
			return nil
		}
		return *v
	case DKind:
		return kindNames[v]
	case string, int64:
		return v
	}
	panic(fmt.Sprintf("ref: unknown value %T", v))
}

func (q *gQuery) reference(o refOpts) string {
	out := q.evalObject("Query", nil, []*gSet{q.root}, false, o)
	b, err := json.Marshal(out)
	if err != nil {
		panic(err)
	}
	return string(b)
}

// ---------------------------------------------------------------- schedulers

type listSched struct {
	mode int // 0 fifo, 1 lifo, 2 random
	r    *rand.Rand
}

func (s *listSched) Run(resolver graphql.UnitResolver, units ...*graphql.WorkUnit) {
	q := append([]*graphql.WorkUnit{}, units...)
	for len(q) > 0 {
		i := 0
		switch s.mode {
		case 1:
			i = len(q) - 1
		case 2:
			i = s.r.Intn(len(q))
		}
		u := q[i]
		q = append(q[:i:i], q[i+1:]...)
		q = append(q, resolver(u)...)
	}
}

type cfg struct {
	name     string
	sched    func() graphql.WorkScheduler
	useBatch bool
	reactive bool
}

func allCfgs(seed int64) []cfg {
	var out []cfg
	scheds := map[string]func() graphql.WorkScheduler{
		"go":   func() graphql.WorkScheduler { return graphql.NewImmediateGoroutineScheduler() },
		"fifo": func() graphql.WorkScheduler { return &listSched{mode: 0} },
		"lifo": func() graphql.WorkScheduler { return &listSched{mode: 1} },
		"rand": func() graphql.WorkScheduler { return &listSched{mode: 2, r: rand.New(rand.NewSource(seed))} },
	}
	for _, n := range []string{"go", "fifo", "lifo", "rand"} {
		for _, b := range []bool{true, false} {
			for _, re := range []bool{false, true} {
				out = append(out, cfg{name: fmt.Sprintf("%s/batch=%v/reactive=%v", n, b, re), sched: scheds[n], useBatch: b, reactive: re})
			}
		}
	}
	return out
}

func execCfg(c cfg, s *graphql.Schema, query *graphql.Query) (string, error) {
	ctx := context.WithValue(context.Background(), useBatchKey{}, c.useBatch)
	e := graphql.NewExecutor(c.sched())
	if !c.reactive {
		v, err := e.Execute(ctx, s.Query, nil, query)
		if err != nil {
			return "", err
		}
		b, err := json.Marshal(v)
		return string(b), err
	}
	type res struct {
		s   string
		err error
	}
	reactive.WriteThenReadDelay = 0
	ch := make(chan res, 4)
	resource := reactive.NewResource()
	runs := 0
	rr := reactive.NewRerunner(ctx, func(ctx context.Context) (interface{}, error) {
		reactive.AddDependency(ctx, resource, nil)
		v, err := e.Execute(ctx, s.Query, nil, query)
		var r res
		if err != nil {
			r.err = err
		} else {
			b, err := json.Marshal(v)
			r = res{string(b), err}
		}
		runs++
		if runs <= 2 {
			ch <- r
		}
		return nil, nil
	}, time.Millisecond, false)
	r := <-ch
	if r.err == nil {
		resource.Strobe()
		r2 := <-ch
		if r2.err != nil || r2.s != r.s {
			rr.Stop()
			return "RERUN DIFFERS: " + r2.s, r2.err
		}
	}
	rr.Stop()
	return r.s, r.err
}

func TestDiffRandom(t *testing.T) {
	s := buildDSchema()
	n := 3000
	if v := os.Getenv("DIFF_N"); v != "" {
		n, _ = strconv.Atoi(v)
	}
	base := int64(1)
	if v := os.Getenv("DIFF_SEED"); v != "" {
		base, _ = strconv.ParseInt(v, 10, 64)
	}
	unionSelf := os.Getenv("DIFF_UNIONSELF") != ""
	rejected, ok, bad := 0, 0, 0
	rejReasons := map[string]int{}
	for i := 0; i < n; i++ {
		seed := base*1000003 + int64(i)
		g := newGen(seed, unionSelf)
		q := g.query()
		text, vars := q.render()
		parsed, err := graphql.Parse(text, vars)
		if err == nil {
			err = graphql.PrepareQuery(context.Background(), s.Query, parsed.SelectionSet)
		}
		if err != nil {
			rejected++
			rejReasons[err.Error()]++
			continue
		}
		want := q.reference(refOpts{unionSelfApplies: true})
		failed := false
		for _, c := range allCfgs(seed) {
			got, err := execCfg(c, s, parsed)
			if err != nil {
				t.Errorf("seed %d cfg %s: error %v\nquery: %s", seed, c.name, err, text)
				failed = true
				break
			}
			if got != want {
				t.Errorf("seed %d cfg %s: mismatch\nquery: %s\nvars: %v\n got: %s\nwant: %s", seed, c.name, text, vars, got, want)
				failed = true
				break
			}
		}
		if failed {
			bad++
			if bad > 5 {
				break
			}
		} else {
			ok++
		}
	}
	t.Logf("ok=%d bad=%d rejected=%d reasons=%v", ok, bad, rejected, rejReasons)
}
