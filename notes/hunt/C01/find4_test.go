// FINDING 4: the top-level fields of a mutation are executed in a random order,
// even with a strictly sequential work scheduler: graphql.Flatten returns the
// merged selections in Go map iteration order, and Executor.Execute hands the
// resulting work units to the scheduler in that order (the default goroutine
// scheduler additionally runs them concurrently). A naive sequential evaluation
// runs `first` before `second`.
//
// Copy into: graphql/   (package graphql_test)
// Run:       go test ./graphql/ -run '^TestFind4_' -v
package graphql_test

import (
	"context"
	"encoding/json"
	"testing"

	"github.com/samsarahq/thunder/graphql"
	"github.com/samsarahq/thunder/graphql/schemabuilder"
)

type f4Seq struct{}

func (f4Seq) Run(resolver graphql.UnitResolver, units ...*graphql.WorkUnit) {
	q := append([]*graphql.WorkUnit{}, units...)
	for len(q) > 0 {
		u := q[0]
		q = append(q[1:], resolver(u)...)
	}
}

func TestFind4_MutationFieldsRunInRandomOrder(t *testing.T) {
	var log []int64
	sb := schemabuilder.NewSchema()
	sb.Query().FieldFunc("x", func() int64 { return 0 })
	sb.Mutation().FieldFunc("push", func(args struct{ V int64 }) []int64 {
		log = append(log, args.V)
		return append([]int64{}, log...)
	})
	s := sb.MustBuild()

	const want = `{"first":[1],"second":[1,2]}`
	seen := map[string]int{}
	for i := 0; i < 300; i++ {
		log = nil
		q := graphql.MustParse(`mutation { first: push(v: 1) second: push(v: 2) }`, nil)
		if err := graphql.PrepareQuery(context.Background(), s.Mutation, q.SelectionSet); err != nil {
			t.Fatal(err)
		}
		v, err := graphql.NewExecutor(f4Seq{}).Execute(context.Background(), s.Mutation, s.Mutation, q)
		if err != nil {
			t.Fatal(err)
		}
		b, _ := json.Marshal(v)
		seen[string(b)]++
	}
	if len(seen) != 1 || seen[want] == 0 {
		t.Errorf("300 sequential executions of the same mutation gave %v; want only %s", seen, want)
	}
}
