// FINDING 1: a union member whose object was registered under a name different
// from its Go type name makes every non-nil value of the union panic in
// graphql.resolveUnionBatch (reflect: call of reflect.Value.IsNil on zero Value).
// With the default goroutine scheduler the panic is on a worker goroutine and
// takes the whole process down.
//
// Copy into: graphql/   (package graphql_test)
// Run:       go test ./graphql/ -run '^TestFind1_' -v
package graphql_test

import (
	"context"
	"encoding/json"
	"fmt"
	"testing"

	"github.com/samsarahq/thunder/graphql"
	"github.com/samsarahq/thunder/graphql/schemabuilder"
)

type F1Vehicle struct{ Name string }
type F1Asset struct{ Name string }
type f1Gateway struct {
	schemabuilder.Union
	*F1Vehicle
	*F1Asset
}

// f1Seq runs work units one after the other on the calling goroutine, so that a
// panic can be reported by the test instead of killing the test binary.
type f1Seq struct{}

func (f1Seq) Run(resolver graphql.UnitResolver, units ...*graphql.WorkUnit) {
	q := append([]*graphql.WorkUnit{}, units...)
	for len(q) > 0 {
		u := q[0]
		q = append(q[1:], resolver(u)...)
	}
}

func f1Run(s *graphql.Schema, text string) (out string, err error) {
	defer func() {
		if p := recover(); p != nil {
			err = fmt.Errorf("PANIC: %v", p)
		}
	}()
	q, err := graphql.Parse(text, nil)
	if err != nil {
		return "", err
	}
	if err := graphql.PrepareQuery(context.Background(), s.Query, q.SelectionSet); err != nil {
		return "", err
	}
	v, err := graphql.NewExecutor(f1Seq{}).Execute(context.Background(), s.Query, nil, q)
	if err != nil {
		return "", err
	}
	b, err := json.Marshal(v)
	return string(b), err
}

func TestFind1_UnionMemberRegisteredUnderOtherName(t *testing.T) {
	for _, name := range []string{"F1Vehicle", "Car"} {
		sb := schemabuilder.NewSchema()
		sb.Object(name, F1Vehicle{}) // "Car": legal, Object's name "defaults to Type's name"
		sb.Query().FieldFunc("gateway", func() *f1Gateway {
			return &f1Gateway{F1Vehicle: &F1Vehicle{Name: "v"}}
		})
		s, err := sb.Build()
		if err != nil {
			t.Fatalf("%s: build: %v", name, err)
		}
		got, err := f1Run(s, `{ gateway { __typename ... on `+name+` { name } } }`)
		want := `{"gateway":{"__typename":"` + name + `","name":"v"}}`
		if err != nil || got != want {
			t.Errorf("object named %q: got %s, err %v; want %s", name, got, err, want)
		}
	}
}
