// FINDING 3: same place as finding 2 (graphql.getWorkCacheKey): an object passed
// by value whose struct type is comparable but which holds an unhashable value
// in an interface field (here a field hidden from GraphQL with `graphql:"-"`)
// panics with "hash of unhashable type" in reactive.(*locker).Lock when one of
// its Expensive fields is selected under a reactive.Rerunner (HTTPHandler,
// websocket server). Without the Expensive option the same query works.
//
// Copy into: graphql/   (package graphql_test)
// Run:       go test ./graphql/ -run '^TestFind3_' -v
package graphql_test

import (
	"context"
	"encoding/json"
	"fmt"
	"testing"
	"time"

	"github.com/samsarahq/thunder/graphql"
	"github.com/samsarahq/thunder/graphql/schemabuilder"
	"github.com/samsarahq/thunder/reactive"
)

type F3Item struct {
	ID    int64
	Extra interface{} `graphql:"-"`
}

type f3Seq struct{}

func (f3Seq) Run(resolver graphql.UnitResolver, units ...*graphql.WorkUnit) {
	q := append([]*graphql.WorkUnit{}, units...)
	for len(q) > 0 {
		u := q[0]
		q = append(q[1:], resolver(u)...)
	}
}

func f3Run(s *graphql.Schema, text string) (string, error) {
	q, err := graphql.Parse(text, nil)
	if err != nil {
		return "", err
	}
	if err := graphql.PrepareQuery(context.Background(), s.Query, q.SelectionSet); err != nil {
		return "", err
	}
	type res struct {
		out string
		err error
	}
	ch := make(chan res, 1)
	rr := reactive.NewRerunner(context.Background(), func(ctx context.Context) (_ interface{}, _ error) {
		var r res
		defer func() {
			if p := recover(); p != nil {
				r = res{"", fmt.Errorf("PANIC: %v", p)}
			}
			select {
			case ch <- r:
			default:
			}
		}()
		v, err := graphql.NewExecutor(f3Seq{}).Execute(ctx, s.Query, nil, q)
		if err != nil {
			r.err = err
			return nil, nil
		}
		b, err := json.Marshal(v)
		r = res{string(b), err}
		return nil, nil
	}, time.Hour, false)
	r := <-ch
	go rr.Stop()
	return r.out, r.err
}

func TestFind3_ExpensiveFieldOnValueWithUnhashableInterface(t *testing.T) {
	for _, expensive := range []bool{false, true} {
		sb := schemabuilder.NewSchema()
		sb.Query().FieldFunc("items", func() []F3Item {
			return []F3Item{{ID: 1, Extra: map[string]int{"a": 1}}}
		})
		o := sb.Object("F3Item", F3Item{})
		double := func(ctx context.Context, s F3Item) int64 { return s.ID * 2 }
		if expensive {
			o.FieldFunc("double", double, schemabuilder.Expensive)
		} else {
			o.FieldFunc("double", double)
		}
		got, err := f3Run(sb.MustBuild(), `{ items { iD double } }`)
		want := `{"items":[{"double":2,"iD":1}]}`
		if err != nil || got != want {
			t.Errorf("expensive=%v: got %s, err %v; want %s", expensive, got, err, want)
		}
	}
}
