// FINDING 7: a batch field whose result type marshals itself as text
// (encoding.TextMarshaler) crashes the process when the batch function leaves
// an entry out or sets it to a nil pointer, while the fallback / one-object-at-
// a-time resolution of the same field renders the nil as "" and every other
// scalar type renders a missing batch entry as null.
// schemabuilder.(*batchFuncContext).extractResultsAndErr turns a missing / nil
// entry into an untyped nil; the Unwrapper made by
// schemabuilder.(*schemaBuilder).getTextMarshalerType then calls
// reflect.ValueOf(nil).Interface(), which panics in graphql.resolveScalarBatch,
// outside of any recover (on a worker goroutine with the default scheduler).
//
// Copy into: graphql/   (package graphql_test)
// Run:       go test ./graphql/ -run '^TestFind7_' -v
package graphql_test

import (
	"context"
	"encoding/json"
	"fmt"
	"testing"

	"github.com/samsarahq/thunder/batch"
	"github.com/samsarahq/thunder/graphql"
	"github.com/samsarahq/thunder/graphql/schemabuilder"
)

type F7Code struct{ S string }

func (c F7Code) MarshalText() ([]byte, error) { return []byte("code:" + c.S), nil }

type F7Item struct{ ID int64 }

type f7Seq struct{}

func (f7Seq) Run(resolver graphql.UnitResolver, units ...*graphql.WorkUnit) {
	q := append([]*graphql.WorkUnit{}, units...)
	for len(q) > 0 {
		u := q[0]
		q = append(q[1:], resolver(u)...)
	}
}

func f7Run(s *graphql.Schema, text string) (out string, err error) {
	defer func() {
		if p := recover(); p != nil {
			err = fmt.Errorf("PANIC: %v", p)
		}
	}()
	q, err := graphql.Parse(text, nil)
	if err != nil {
		return "", err
	}
	if err := graphql.PrepareQuery(context.Background(), s.Query, q.SelectionSet); err != nil {
		return "", err
	}
	v, err := graphql.NewExecutor(f7Seq{}).Execute(context.Background(), s.Query, nil, q)
	if err != nil {
		return "", err
	}
	b, err := json.Marshal(v)
	return string(b), err
}

// Same schema, same data, same query: only the use-batch flag differs.
func TestFind7_NilTextMarshalerBatchVersusFallback(t *testing.T) {
	results := map[bool]string{}
	for _, useBatch := range []bool{false, true} {
		useBatch := useBatch
		sb := schemabuilder.NewSchema()
		sb.Query().FieldFunc("items", func() []*F7Item { return []*F7Item{{ID: 1}, {ID: 2}} })
		o := sb.Object("F7Item", F7Item{})
		one := func(v *F7Item) *F7Code {
			if v.ID == 1 {
				return &F7Code{"one"}
			}
			return nil
		}
		o.BatchFieldFuncWithFallback("code", func(in map[batch.Index]*F7Item) map[batch.Index]*F7Code {
			out := map[batch.Index]*F7Code{}
			for k, v := range in {
				out[k] = one(v)
			}
			return out
		}, one, func(context.Context) bool { return useBatch })
		got, err := f7Run(sb.MustBuild(), `{ items { code } }`)
		if err != nil {
			t.Errorf("useBatch=%v: %v", useBatch, err)
			continue
		}
		results[useBatch] = got
	}
	if len(results) == 2 && results[true] != results[false] {
		t.Errorf("batch %s != fallback %s", results[true], results[false])
	}
}

// A value-typed text marshaler left out of the batch result: a string left out
// is rendered as null, the text marshaler panics.
func TestFind7_MissingTextMarshalerBatchEntry(t *testing.T) {
	sb := schemabuilder.NewSchema()
	sb.Query().FieldFunc("items", func() []*F7Item { return []*F7Item{{ID: 1}, {ID: 2}} })
	o := sb.Object("F7Item", F7Item{})
	o.BatchFieldFunc("str", func(in map[batch.Index]*F7Item) map[batch.Index]string {
		out := map[batch.Index]string{}
		for k, v := range in {
			if v.ID == 1 {
				out[k] = "one"
			}
		}
		return out
	})
	o.BatchFieldFunc("code", func(in map[batch.Index]*F7Item) map[batch.Index]F7Code {
		out := map[batch.Index]F7Code{}
		for k, v := range in {
			if v.ID == 1 {
				out[k] = F7Code{"one"}
			}
		}
		return out
	})
	s := sb.MustBuild()
	if got, err := f7Run(s, `{ items { str } }`); err != nil || got != `{"items":[{"str":"one"},{"str":null}]}` {
		t.Errorf("str: got %s err %v", got, err)
	}
	if got, err := f7Run(s, `{ items { code } }`); err != nil || got != `{"items":[{"code":"code:one"},{"code":null}]}` {
		t.Errorf("code: got %s err %v; want %s", got, err, `{"items":[{"code":"code:one"},{"code":null}]}`)
	}
}
