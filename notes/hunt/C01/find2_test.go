// FINDING 2: an Expensive field on an object that is passed by value and holds
// a NaN float crashes the process as soon as the query runs under a
// reactive.Rerunner (that is: under graphql.HTTPHandler and under the websocket
// server). graphql.getWorkCacheKey uses the source value as a map key when its
// *type* is comparable; a value containing NaN is not equal to itself, so
// reactive.(*locker).Unlock does not find the lock it created and dereferences
// nil (while holding the locker's mutex). The same field without the Expensive
// option works.
//
// Copy into: graphql/   (package graphql_test)
// Run:       go test ./graphql/ -run '^TestFind2_' -v
package graphql_test

import (
	"context"
	"encoding/json"
	"fmt"
	"math"
	"testing"
	"time"

	"github.com/samsarahq/thunder/graphql"
	"github.com/samsarahq/thunder/graphql/schemabuilder"
	"github.com/samsarahq/thunder/reactive"
)

type F2Stat struct {
	ID  int64
	Avg float64
}

type f2Seq struct{}

func (f2Seq) Run(resolver graphql.UnitResolver, units ...*graphql.WorkUnit) {
	q := append([]*graphql.WorkUnit{}, units...)
	for len(q) > 0 {
		u := q[0]
		q = append(q[1:], resolver(u)...)
	}
}

// f2Run executes the query the way graphql.HTTPHandler does (inside a
// reactive.Rerunner), but with a sequential scheduler and a recover so that the
// panic is reported instead of killing the test binary.
func f2Run(s *graphql.Schema, text string) (string, error) {
	q, err := graphql.Parse(text, nil)
	if err != nil {
		return "", err
	}
	if err := graphql.PrepareQuery(context.Background(), s.Query, q.SelectionSet); err != nil {
		return "", err
	}
	type res struct {
		out string
		err error
	}
	ch := make(chan res, 1)
	rr := reactive.NewRerunner(context.Background(), func(ctx context.Context) (_ interface{}, _ error) {
		var r res
		defer func() {
			if p := recover(); p != nil {
				r = res{"", fmt.Errorf("PANIC: %v", p)}
			}
			select {
			case ch <- r:
			default:
			}
		}()
		v, err := graphql.NewExecutor(f2Seq{}).Execute(ctx, s.Query, nil, q)
		if err != nil {
			r.err = err
			return nil, nil
		}
		b, err := json.Marshal(v)
		r = res{string(b), err}
		return nil, nil
	}, time.Hour, false)
	r := <-ch
	go rr.Stop()
	return r.out, r.err
}

func TestFind2_ExpensiveFieldOnValueWithNaN(t *testing.T) {
	for _, expensive := range []bool{false, true} {
		sb := schemabuilder.NewSchema()
		sb.Query().FieldFunc("stats", func() []F2Stat { return []F2Stat{{ID: 1, Avg: math.NaN()}} })
		o := sb.Object("F2Stat", F2Stat{})
		double := func(ctx context.Context, s F2Stat) int64 { return s.ID * 2 }
		if expensive {
			o.FieldFunc("double", double, schemabuilder.Expensive)
		} else {
			o.FieldFunc("double", double)
		}
		got, err := f2Run(sb.MustBuild(), `{ stats { iD double } }`)
		want := `{"stats":[{"double":2,"iD":1}]}`
		if err != nil || got != want {
			t.Errorf("expensive=%v: got %s, err %v; want %s", expensive, got, err, want)
		}
	}
}
