// FINDING 6: under a union-typed field, a fragment whose type condition is the
// union itself (`...F` with `fragment F on SearchResult { ... on A { .. } }`,
// or `... on SearchResult { __typename }`) passes validation and is then
// silently dropped together with everything inside it: graphql.prepareQuery
// (Union case) only looks at fragments whose condition names a member, and
// graphql.resolveUnionBatch only merges `fragment.On == srcType`. The selected
// fields are missing from the result; no error is reported.
//
// Reading used: a fragment that applies to the value (the union type is the
// declared type of the field, so it applies to every member) is merged into
// the selection like any other fragment.
//
// Copy into: graphql/   (package graphql_test)
// Run:       go test ./graphql/ -run '^TestFind6_' -v
package graphql_test

import (
	"context"
	"encoding/json"
	"testing"

	"github.com/samsarahq/thunder/graphql"
	"github.com/samsarahq/thunder/graphql/schemabuilder"
)

type F6Vehicle struct{ Name string }
type F6Asset struct{ Label string }
type F6Result struct {
	schemabuilder.Union
	*F6Vehicle
	*F6Asset
}

func TestFind6_FragmentOnTheUnionTypeIsDropped(t *testing.T) {
	sb := schemabuilder.NewSchema()
	sb.Query().FieldFunc("results", func() []*F6Result {
		return []*F6Result{{F6Vehicle: &F6Vehicle{Name: "v"}}, {F6Asset: &F6Asset{Label: "a"}}}
	})
	s := sb.MustBuild()

	const want = `{"results":[{"__typename":"F6Vehicle","name":"v"},{"__typename":"F6Asset","label":"a"}]}`
	for _, text := range []string{
		// control: member fragments directly under the field
		`{ results { __typename ... on F6Vehicle { name } ... on F6Asset { label } } }`,
		// named fragment on the union type
		`{ results { ...R } } fragment R on F6Result { __typename ... on F6Vehicle { name } ... on F6Asset { label } }`,
		// inline fragment on the union type
		`{ results { ... on F6Result { __typename ... on F6Vehicle { name } ... on F6Asset { label } } } }`,
	} {
		q, err := graphql.Parse(text, nil)
		if err != nil {
			t.Fatalf("%s: %v", text, err)
		}
		if err := graphql.PrepareQuery(context.Background(), s.Query, q.SelectionSet); err != nil {
			t.Fatalf("%s: did not pass validation: %v", text, err)
		}
		v, err := graphql.NewExecutor(graphql.NewImmediateGoroutineScheduler()).Execute(context.Background(), s.Query, nil, q)
		if err != nil {
			t.Fatalf("%s: %v", text, err)
		}
		b, _ := json.Marshal(v)
		if string(b) != want {
			t.Errorf("%s\n got %s\nwant %s", text, b, want)
		}
	}
}
