// FINDING 5: an object whose key (Object.Key) is a batch field can not be
// queried at all. graphql.resolveObjectBatch resolves the key field through
// executeWorkUnit with a WorkUnit that has useBatch == false, so the executor
// calls field.Resolve, which is nil for a BatchFieldFunc: every query touching
// the object fails with "graphql: panic: ... nil pointer dereference" at path
// <object>.__key, although the selected fields resolve fine.
//
// Copy into: graphql/   (package graphql_test)
// Run:       go test ./graphql/ -run '^TestFind5_' -v
package graphql_test

import (
	"context"
	"encoding/json"
	"testing"

	"github.com/samsarahq/thunder/batch"
	"github.com/samsarahq/thunder/graphql"
	"github.com/samsarahq/thunder/graphql/schemabuilder"
)

type F5Item struct{ Num int64 }

func TestFind5_KeyFieldThatIsABatchField(t *testing.T) {
	for _, asBatch := range []bool{false, true} {
		sb := schemabuilder.NewSchema()
		sb.Query().FieldFunc("item", func() *F5Item { return &F5Item{Num: 7} })
		o := sb.Object("F5Item", F5Item{})
		if asBatch {
			o.BatchFieldFunc("slug", func(in map[batch.Index]*F5Item) map[batch.Index]string {
				out := make(map[batch.Index]string, len(in))
				for k := range in {
					out[k] = "item-7"
				}
				return out
			})
		} else {
			o.FieldFunc("slug", func(in *F5Item) string { return "item-7" })
		}
		o.Key("slug")
		s, err := sb.Build()
		if err != nil {
			t.Fatalf("batch=%v: build: %v", asBatch, err)
		}
		q := graphql.MustParse(`{ item { num } }`, nil)
		if err := graphql.PrepareQuery(context.Background(), s.Query, q.SelectionSet); err != nil {
			t.Fatal(err)
		}
		v, err := graphql.NewExecutor(graphql.NewImmediateGoroutineScheduler()).Execute(context.Background(), s.Query, nil, q)
		if err != nil {
			msg := err.Error()
			if len(msg) > 120 {
				msg = msg[:120] + "..."
			}
			t.Errorf("batch=%v: execution failed: %s", asBatch, msg)
			continue
		}
		b, _ := json.Marshal(v)
		if want := `{"item":{"__key":"item-7","num":7}}`; string(b) != want {
			t.Errorf("batch=%v: got %s want %s", asBatch, b, want)
		}
	}
}
