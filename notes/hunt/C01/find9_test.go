// FINDING 9 (lower confidence: argument coercion rather than scheduling): an
// integer literal (or variable) above 2^53 reaches the resolver as a different
// number. graphql.valueToJson (parser.go) converts every IntValue to float64
// before the argument parser converts it back to int64.
//
// Copy into: graphql/   (package graphql_test)
// Run:       go test ./graphql/ -run '^TestFind9_' -v
package graphql_test

import (
	"context"
	"encoding/json"
	"testing"

	"github.com/samsarahq/thunder/graphql"
	"github.com/samsarahq/thunder/graphql/schemabuilder"
)

func TestFind9_LargeIntArgument(t *testing.T) {
	sb := schemabuilder.NewSchema()
	sb.Query().FieldFunc("echo", func(args struct{ V int64 }) int64 { return args.V })
	s := sb.MustBuild()
	q := graphql.MustParse(`{ echo(v: 9007199254740993) }`, nil)
	if err := graphql.PrepareQuery(context.Background(), s.Query, q.SelectionSet); err != nil {
		t.Fatal(err)
	}
	v, err := graphql.NewExecutor(graphql.NewImmediateGoroutineScheduler()).Execute(context.Background(), s.Query, nil, q)
	if err != nil {
		t.Fatal(err)
	}
	b, _ := json.Marshal(v)
	if want := `{"echo":9007199254740993}`; string(b) != want {
		t.Errorf("got %s want %s", b, want)
	}
}
