// FINDING 8 (lower confidence, batch-only semantics): an enum-typed batch field
// fails the whole query ("enum is not valid") when the batch function leaves an
// entry out, whereas every other leaf type renders a left-out entry as null
// (schemabuilder strips NonNull from batch results for exactly that reason:
// "Batch functions don't support NonNull responses by default").
// graphql.resolveEnumBatch looks unwrap(nil) == nil up in the enum's reverse map.
//
// Copy into: graphql/   (package graphql_test)
// Run:       go test ./graphql/ -run '^TestFind8_' -v
package graphql_test

import (
	"context"
	"encoding/json"
	"testing"

	"github.com/samsarahq/thunder/batch"
	"github.com/samsarahq/thunder/graphql"
	"github.com/samsarahq/thunder/graphql/schemabuilder"
)

type F8Kind int32
type F8Item struct{ ID int64 }

func TestFind8_MissingEnumBatchEntry(t *testing.T) {
	sb := schemabuilder.NewSchema()
	sb.Enum(F8Kind(0), map[string]F8Kind{"A": 0, "B": 1})
	sb.Query().FieldFunc("items", func() []*F8Item { return []*F8Item{{ID: 1}, {ID: 2}} })
	o := sb.Object("F8Item", F8Item{})
	o.BatchFieldFunc("kind", func(in map[batch.Index]*F8Item) map[batch.Index]F8Kind {
		out := map[batch.Index]F8Kind{}
		for k, v := range in {
			if v.ID == 1 {
				out[k] = 1
			}
		}
		return out
	})
	s := sb.MustBuild()
	q := graphql.MustParse(`{ items { kind } }`, nil)
	if err := graphql.PrepareQuery(context.Background(), s.Query, q.SelectionSet); err != nil {
		t.Fatal(err)
	}
	v, err := graphql.NewExecutor(graphql.NewImmediateGoroutineScheduler()).Execute(context.Background(), s.Query, nil, q)
	if err != nil {
		t.Fatalf("execution failed: %v", err)
	}
	b, _ := json.Marshal(v)
	if want := `{"items":[{"kind":"B"},{"kind":null}]}`; string(b) != want {
		t.Errorf("got %s want %s", b, want)
	}
}
