// find2_test.go - copy into reactive/ and run:
//
//	go test ./reactive/ -run TestHuntBlockedSiblingStallsPropagation -count=1
//
// CONDITIONAL finding (needs a sibling computation that does not return, e.g.
// a graphql subscription whose writeOrClose blocks on a client that stopped
// reading; conn.writeOrClose has no write deadline).
//
// With alwaysSpawnGoroutine=false the whole rerun (timer wait for
// minRerunInterval, WriteThenReadDelay, the computation itself) executes inside
// node.invalidate's call of afterInvalidate, i.e. on the goroutine that walks
// the strobed resource's dependents. While one such computation does not
// return, the remaining dependents of the resource are not invalidated, so
// healthy rerunners that were neither stopped nor failed are not run again.
package reactive

import (
	"context"
	"sync/atomic"
	"testing"
	"time"
)

func TestHuntBlockedSiblingStallsPropagation(t *testing.T) {
	old := WriteThenReadDelay
	WriteThenReadDelay = 0
	defer func() { WriteThenReadDelay = old }()

	// Three trials: a trial can only pass if the blocked computation happens to
	// be the last dependent visited (map order, chance 1/17).
	for trial := 0; trial < 3; trial++ {
		huntBlockedSiblingTrial(t)
	}
}

func huntBlockedSiblingTrial(t *testing.T) {
	const siblings = 16
	res := NewResource()
	unblock := make(chan struct{})
	defer close(unblock)

	var aRuns int32
	a := NewRerunner(context.Background(), func(ctx context.Context) (interface{}, error) {
		AddDependency(ctx, res, nil)
		if atomic.AddInt32(&aRuns, 1) == 2 {
			<-unblock // e.g. a socket write to a client that stopped reading
		}
		return nil, nil
	}, 0, false)
	_ = a

	var runs [siblings]int32
	for i := 0; i < siblings; i++ {
		i := i
		NewRerunner(context.Background(), func(ctx context.Context) (interface{}, error) {
			AddDependency(ctx, res, nil)
			atomic.AddInt32(&runs[i], 1)
			return nil, nil
		}, 0, true)
	}
	count := func(n int32) int {
		c := 0
		for i := range runs {
			if atomic.LoadInt32(&runs[i]) >= n {
				c++
			}
		}
		return c
	}
	deadline := time.Now().Add(2 * time.Second)
	for (count(1) < siblings || atomic.LoadInt32(&aRuns) < 1) && time.Now().Before(deadline) {
		time.Sleep(time.Millisecond)
	}
	if count(1) < siblings {
		t.Fatal("first runs did not happen")
	}

	res.Strobe()

	deadline = time.Now().Add(3 * time.Second)
	for count(2) < siblings && time.Now().Before(deadline) {
		time.Sleep(time.Millisecond)
	}
	if c := count(2); c < siblings {
		t.Errorf("resource strobed 3s ago: %d of %d healthy rerunners have not been run again while a sibling's computation is blocked on the propagating goroutine", siblings-c, siblings)
	}
}
