// find1_test.go - copy into reactive/ and run:
//
//	go test ./reactive/ -run TestHuntGoexitStrandsSiblings -count=1
//
// A rerunner created with alwaysSpawnGoroutine=false runs its computation on
// the goroutine that is propagating the invalidation (node.invalidate calls
// afterInvalidate, which calls r.run() directly). If that computation leaves
// through runtime.Goexit (t.FailNow / t.Fatal / require.* inside a computation
// do exactly that), the propagating goroutine dies in the middle of the loop
// over the resource's dependents. Every other rerunner whose last successful
// run depended on the same resource is never invalidated and never run again,
// although it was neither stopped nor failed.
package reactive

import (
	"context"
	"runtime"
	"sync/atomic"
	"testing"
	"time"
)

func TestHuntGoexitStrandsSiblings(t *testing.T) {
	old := WriteThenReadDelay
	WriteThenReadDelay = 0
	defer func() { WriteThenReadDelay = old }()

	const siblings = 16
	for trial := 0; trial < 3; trial++ {
		res := NewResource()

		// The rerunner whose second run exits its goroutine.
		var aRuns int32
		a := NewRerunner(context.Background(), func(ctx context.Context) (interface{}, error) {
			AddDependency(ctx, res, nil)
			if atomic.AddInt32(&aRuns, 1) == 2 {
				runtime.Goexit() // what t.FailNow() does
			}
			return nil, nil
		}, 0, false)

		// Innocent bystanders: healthy rerunners depending on the same resource.
		var runs [siblings]int32
		var rs []*Rerunner
		for i := 0; i < siblings; i++ {
			i := i
			rs = append(rs, NewRerunner(context.Background(), func(ctx context.Context) (interface{}, error) {
				AddDependency(ctx, res, nil)
				atomic.AddInt32(&runs[i], 1)
				return nil, nil
			}, 0, true))
		}

		waitFor := func(what string, cond func() bool) bool {
			deadline := time.Now().Add(2 * time.Second)
			for !cond() {
				if time.Now().After(deadline) {
					return false
				}
				time.Sleep(time.Millisecond)
			}
			return true
		}
		allAtLeast := func(n int32) func() bool {
			return func() bool {
				for i := range runs {
					if atomic.LoadInt32(&runs[i]) < n {
						return false
					}
				}
				return true
			}
		}
		if !waitFor("first runs", func() bool { return atomic.LoadInt32(&aRuns) >= 1 && allAtLeast(1)() }) {
			t.Fatal("first runs did not happen")
		}

		res.Strobe()

		if !waitFor("reruns", allAtLeast(2)) {
			stranded := 0
			for i := range runs {
				if atomic.LoadInt32(&runs[i]) < 2 {
					stranded++
				}
			}
			t.Errorf("trial %d: resource strobed, but %d of %d healthy rerunners were never run again (a sibling computation called runtime.Goexit on the propagating goroutine)", trial, stranded, siblings)
		}
		a.Stop()
		for _, r := range rs {
			r.Stop()
		}
	}
}
