package reactive

import (
	"math/rand"
	"sync"
	"testing"
	"time"
)

// Node-level reference: after quiescence, for every completed addOut(n,to):
// n.invalidated => to.invalidated; for every strobe(n) started after a
// completed addOut(n,to): to.invalidated; released => invalidated.
func TestHuntNodeModel(t *testing.T) {
	n := hIters(300) * 10
	for seed := int64(1); seed <= int64(n); seed++ {
		rng := rand.New(rand.NewSource(seed))
		N := 2 + rng.Intn(7)
		nodes := make([]*node, N)
		for i := range nodes {
			nodes[i] = &node{}
		}
		type edge struct{ a, b int }
		var mu sync.Mutex
		var edges []edge
		mustInv := map[int]bool{}
		var wg sync.WaitGroup
		G := 1 + rng.Intn(4)
		for g := 0; g < G; g++ {
			gr := rand.New(rand.NewSource(seed*131 + int64(g)))
			wg.Add(1)
			go func() {
				defer wg.Done()
				for i := 0; i < 12; i++ {
					switch gr.Intn(8) {
					case 0, 1, 2, 3:
						a := gr.Intn(N - 1)
						b := a + 1 + gr.Intn(N-a-1)
						nodes[a].addOut(nodes[b])
						mu.Lock()
						edges = append(edges, edge{a, b})
						mu.Unlock()
					case 4:
						a := gr.Intn(N)
						nodes[a].invalidate()
						mu.Lock()
						mustInv[a] = true
						mu.Unlock()
					case 5, 6:
						a := gr.Intn(N)
						mu.Lock()
						var tos []int
						for _, e := range edges {
							if e.a == a {
								tos = append(tos, e.b)
							}
						}
						mu.Unlock()
						nodes[a].strobe()
						mu.Lock()
						for _, b := range tos {
							mustInv[b] = true
						}
						mu.Unlock()
					case 7:
						a := gr.Intn(N)
						nodes[a].release()
						mu.Lock()
						mustInv[a] = true
						mu.Unlock()
					}
				}
			}()
		}
		wg.Wait()
		ok := func() (bool, string) {
			for k := range mustInv {
				if !nodes[k].Invalidated() {
					return false, "mustInv"
				}
			}
			for _, e := range edges {
				if nodes[e.a].Invalidated() && !nodes[e.b].Invalidated() {
					return false, "edge"
				}
			}
			for _, x := range nodes {
				x.mu.Lock()
				bad := x.released && !x.invalidated
				x.mu.Unlock()
				if bad {
					return false, "released not invalidated"
				}
			}
			return true, ""
		}
		deadline := time.Now().Add(2 * time.Second)
		for {
			good, why := ok()
			if good {
				break
			}
			if time.Now().After(deadline) {
				t.Errorf("seed %d: %s", seed, why)
				break
			}
			time.Sleep(100 * time.Microsecond)
		}
	}
}
