package reactive

import (
	"context"
	"errors"
	"fmt"
	"math/rand"
	"os"
	"strconv"
	"sync"
	"sync/atomic"
	"testing"
	"time"
)

// Reference reading of the property implemented here:
//   - every resource k has a version ver[k]; a writer bumps ver[k] and then
//     strobes / invalidates the resource object that is current for k;
//   - a computation calls AddDependency and then reads ver[k];
//   - therefore, whenever the system is quiescent, every rerunner that has
//     neither been stopped nor failed (hard error) must have a most recent
//     successful run whose observed versions are all current;
//   - runs of one rerunner never overlap; after Stop returns nothing runs.

type hWorld struct {
	mu  sync.Mutex
	res []*Resource
	ver []int64
}

func newHWorld(n int) *hWorld {
	w := &hWorld{res: make([]*Resource, n), ver: make([]int64, n)}
	for i := range w.res {
		w.res[i] = NewResource()
	}
	return w
}

func (w *hWorld) cur(k int) *Resource {
	w.mu.Lock()
	defer w.mu.Unlock()
	return w.res[k]
}

func (w *hWorld) read(ctx context.Context, k int) int64 {
	r := w.cur(k)
	AddDependency(ctx, r, nil)
	return atomic.LoadInt64(&w.ver[k])
}

func (w *hWorld) strobe(k int) {
	v := atomic.AddInt64(&w.ver[k], 1)
	if os.Getenv("HUNT_FAULT") != "" && v%7 == 0 {
		return
	}
	w.cur(k).Strobe()
}

func (w *hWorld) invalidateReplace(k int) {
	atomic.AddInt64(&w.ver[k], 1)
	n := NewResource()
	w.mu.Lock()
	old := w.res[k]
	w.res[k] = n
	w.mu.Unlock()
	old.Invalidate()
}

type obs map[int]int64

func (o obs) merge(p obs) {
	for k, v := range p {
		if old, ok := o[k]; !ok || v < old {
			o[k] = v
		}
	}
}

type hRunner struct {
	id       int
	w        *hWorld
	rr       *Rerunner
	inRun    int32
	overlap  int32
	afterStp int32
	stopped  int32 // set after Stop returned
	failed   int32
	runs     int64

	mu   sync.Mutex
	last obs // observation of the most recent successful run
	seed int64

	nres, nkeys int
	pRetry      float64
	pFail       float64
	parallel    bool
}

// keyDeps: deterministic set of resources and sub keys of a cache key.
func (h *hRunner) keyPlan(key int) (res []int, sub []int) {
	rng := rand.New(rand.NewSource(h.seed*1000 + int64(key)))
	n := rng.Intn(3)
	for i := 0; i < n; i++ {
		res = append(res, rng.Intn(h.nres))
	}
	if key+1 < h.nkeys && rng.Intn(2) == 0 {
		sub = append(sub, key+1+rng.Intn(h.nkeys-key-1))
	}
	return
}

func (h *hRunner) cached(ctx context.Context, key int) obs {
	v, err := Cache(ctx, key, func(ctx context.Context) (interface{}, error) {
		o := obs{}
		res, sub := h.keyPlan(key)
		for _, k := range res {
			o.merge(obs{k: h.w.read(ctx, k)})
		}
		for _, s := range sub {
			o.merge(h.cached(ctx, s))
		}
		return o, nil
	})
	if err != nil {
		return nil
	}
	return v.(obs)
}

func (h *hRunner) compute(ctx context.Context) (interface{}, error) {
	if atomic.AddInt32(&h.inRun, 1) != 1 {
		atomic.StoreInt32(&h.overlap, 1)
	}
	defer atomic.AddInt32(&h.inRun, -1)
	if atomic.LoadInt32(&h.stopped) != 0 {
		atomic.StoreInt32(&h.afterStp, 1)
	}
	run := atomic.AddInt64(&h.runs, 1)
	rng := rand.New(rand.NewSource(h.seed*7919 + run))

	o := obs{}
	var omu sync.Mutex
	var wg sync.WaitGroup
	do := func(f func() obs) {
		if h.parallel && rng.Intn(2) == 0 {
			wg.Add(1)
			go func() {
				defer wg.Done()
				p := f()
				omu.Lock()
				o.merge(p)
				omu.Unlock()
			}()
			return
		}
		p := f()
		omu.Lock()
		o.merge(p)
		omu.Unlock()
	}
	nd := rng.Intn(3)
	for i := 0; i < nd; i++ {
		k := rng.Intn(h.nres)
		do(func() obs { return obs{k: h.w.read(ctx, k)} })
	}
	nc := rng.Intn(3)
	for i := 0; i < nc; i++ {
		key := rng.Intn(h.nkeys)
		do(func() obs { return h.cached(ctx, key) })
	}
	// always at least one dependency so the runner stays interesting
	k0 := h.id % h.nres
	do(func() obs { return obs{k0: h.w.read(ctx, k0)} })
	wg.Wait()
	if rng.Intn(3) == 0 {
		time.Sleep(time.Duration(rng.Intn(300)) * time.Microsecond)
	}

	x := rng.Float64()
	if x < h.pFail {
		atomic.StoreInt32(&h.failed, 1)
		return nil, errors.New("hard")
	}
	if x < h.pFail+h.pRetry {
		return nil, RetrySentinelError
	}
	if ctx.Err() != nil {
		// cancelled run: Cache may have failed; treat as failed run
		atomic.StoreInt32(&h.failed, 1)
		return nil, ctx.Err()
	}
	h.mu.Lock()
	h.last = o
	h.mu.Unlock()
	return nil, nil
}

func (h *hRunner) fresh() (bool, string) {
	h.mu.Lock()
	defer h.mu.Unlock()
	if h.last == nil {
		return false, "no successful run"
	}
	for k, v := range h.last {
		if cur := atomic.LoadInt64(&h.w.ver[k]); cur != v {
			return false, fmt.Sprintf("resource %d observed %d current %d", k, v, cur)
		}
	}
	return true, ""
}

func hIters(def int) int {
	if s := os.Getenv("HUNT_ITERS"); s != "" {
		if n, err := strconv.Atoi(s); err == nil {
			return n
		}
	}
	return def
}

func runHuntScenario(t *testing.T, seed int64) (bad string) {
	rng := rand.New(rand.NewSource(seed))
	nres := 1 + rng.Intn(4)
	nkeys := 1 + rng.Intn(4)
	nrun := 1 + rng.Intn(3)
	w := newHWorld(nres)
	var hs []*hRunner
	for i := 0; i < nrun; i++ {
		h := &hRunner{id: i, w: w, seed: seed*31 + int64(i), nres: nres, nkeys: nkeys,
			parallel: rng.Intn(2) == 0}
		if rng.Intn(3) == 0 {
			h.pRetry = 0.2
		}
		if rng.Intn(6) == 0 {
			h.pFail = 0.05
		}
		hs = append(hs, h)
	}
	for _, h := range hs {
		var d time.Duration
		if rng.Intn(4) == 0 {
			d = time.Duration(rng.Intn(300)) * time.Microsecond
		}
		h.rr = NewRerunner(context.Background(), h.compute, d, rng.Intn(2) == 0)
	}
	// mutators
	var wg sync.WaitGroup
	nmut := 1 + rng.Intn(3)
	for m := 0; m < nmut; m++ {
		mr := rand.New(rand.NewSource(seed*977 + int64(m)))
		wg.Add(1)
		go func() {
			defer wg.Done()
			nops := 5 + mr.Intn(40)
			for i := 0; i < nops; i++ {
				switch x := mr.Intn(20); {
				case x < 9:
					w.strobe(mr.Intn(nres))
				case x < 16:
					w.invalidateReplace(mr.Intn(nres))
				case x < 17:
					hs[mr.Intn(len(hs))].rr.RerunImmediately()
				case x < 18:
					h := hs[mr.Intn(len(hs))]
					if mr.Intn(4) == 0 {
						h.rr.Stop()
						atomic.StoreInt32(&h.stopped, 1)
					}
				default:
					time.Sleep(time.Duration(mr.Intn(200)) * time.Microsecond)
				}
				if mr.Intn(3) == 0 {
					time.Sleep(time.Duration(mr.Intn(100)) * time.Microsecond)
				}
			}
		}()
	}
	wg.Wait()
	// quiescence
	deadline := time.Now().Add(3 * time.Second)
	for {
		all := true
		why := ""
		for _, h := range hs {
			if atomic.LoadInt32(&h.stopped) != 0 || atomic.LoadInt32(&h.failed) != 0 {
				continue
			}
			if ok, s := h.fresh(); !ok {
				all = false
				why = fmt.Sprintf("runner %d (runs=%d): %s", h.id, atomic.LoadInt64(&h.runs), s)
			}
		}
		if all {
			break
		}
		if time.Now().After(deadline) {
			bad = "stale: " + why
			break
		}
		time.Sleep(200 * time.Microsecond)
	}
	for _, h := range hs {
		h.rr.Stop()
		atomic.StoreInt32(&h.stopped, 1)
		if atomic.LoadInt32(&h.inRun) != 0 {
			bad += " run in progress after Stop"
		}
	}
	// strobe everything once more: nothing may run now
	for k := 0; k < nres; k++ {
		w.strobe(k)
		w.invalidateReplace(k)
	}
	time.Sleep(500 * time.Microsecond)
	for _, h := range hs {
		if atomic.LoadInt32(&h.overlap) != 0 {
			bad += fmt.Sprintf(" overlap in runner %d", h.id)
		}
		if atomic.LoadInt32(&h.afterStp) != 0 {
			bad += fmt.Sprintf(" run after stop in runner %d", h.id)
		}
	}
	return bad
}

func TestHuntStress(t *testing.T) {
	old := WriteThenReadDelay
	WriteThenReadDelay = 0
	if os.Getenv("HUNT_WTR") != "" {
		WriteThenReadDelay = 50 * time.Microsecond
	}
	defer func() { WriteThenReadDelay = old }()
	n := hIters(300)
	for seed := int64(1); seed <= int64(n); seed++ {
		if bad := runHuntScenario(t, seed); bad != "" {
			t.Errorf("seed %d: %s", seed, bad)
		}
	}
}
