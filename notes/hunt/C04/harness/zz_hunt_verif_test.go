//go:build verif
// +build verif

package reactive

import (
	"runtime"
	"sync/atomic"
	"time"
)

var huntCtr uint64

func init() {
	VerifHook = func(kind string, a, b interface{}) {
		x := atomic.AddUint64(&huntCtr, 0x9e3779b97f4a7c15)
		x ^= x >> 30
		x *= 0xbf58476d1ce4e5b9
		x ^= x >> 27
		x *= 0x94d049bb133111eb
		x ^= x >> 31
		if kind != "yield" {
			if x%16 == 0 {
				runtime.Gosched()
			}
			return
		}
		switch x % 8 {
		case 0, 1, 2:
			runtime.Gosched()
		case 3:
			time.Sleep(time.Duration(x>>8%50) * time.Microsecond)
		}
	}
}
