//go:build verif
// +build verif

package reactive

import (
	"context"
	"sync"
	"sync/atomic"
	"testing"
	"time"
)

// Directed: invalidate / strobe exactly between run's return and handleInvalidate.
func TestHuntWindowArming(t *testing.T) {
	oldD := WriteThenReadDelay
	WriteThenReadDelay = 0
	oldH := VerifHook
	defer func() { WriteThenReadDelay = oldD; VerifHook = oldH }()

	for _, spawn := range []bool{false, true} {
		for _, strobe := range []bool{false, true} {
			res := NewResource()
			var mu sync.Mutex
			var comp *node
			var fReturned, done bool
			var hits int32
			VerifHook = func(kind string, a, b interface{}) {
				mu.Lock()
				switch {
				case kind == "comp.new":
					if comp == nil {
						comp = a.(*node)
					}
				case kind == "yield" && !done && fReturned:
					if n, ok := a.(*node); ok && n == comp {
						done = true
						mu.Unlock()
						atomic.AddInt32(&hits, 1)
						if strobe {
							res.node.strobe()
						} else {
							res.node.invalidate()
						}
						return
					}
				}
				mu.Unlock()
			}
			var runs int32
			r := NewRerunner(context.Background(), func(ctx context.Context) (interface{}, error) {
				AddDependency(ctx, res, nil)
				atomic.AddInt32(&runs, 1)
				mu.Lock()
				fReturned = true
				mu.Unlock()
				return nil, nil
			}, 0, spawn)
			deadline := time.Now().Add(2 * time.Second)
			for atomic.LoadInt32(&runs) < 2 && time.Now().Before(deadline) {
				time.Sleep(time.Millisecond)
			}
			if atomic.LoadInt32(&hits) != 1 {
				t.Errorf("window not hit")
			}
			if atomic.LoadInt32(&runs) < 2 {
				t.Errorf("spawn=%v strobe=%v: lost invalidation in arming window", spawn, strobe)
			}
			r.Stop()
			VerifHook = nil
		}
	}
}
