package graphql_test

// find3: when the key field of the node type is a pointer (e.g. Id *int64, which
// thunder accepts: the schema builds and __key is output as the pointed-to
// value), the edge cursor is base64 of the pointer's ADDRESS
// (nodesToEdges formats the field with fmt.Sprintf("%v", ...)), not of the key.
// A resolver that builds its result per request therefore hands out different
// cursors on every request, `after: <endCursor of the previous page>` never
// matches, is silently ignored, and a forward walk returns the first page
// forever: elements 1 and 2 are visited again and again, element 3 never.
//
// List: {Id: &1}, {Id: &2}, {Id: &3} (unique keys 1, 2, 3), first: 2.

import (
	"context"
	"fmt"
	"testing"

	"github.com/samsarahq/thunder/graphql"
	"github.com/samsarahq/thunder/graphql/schemabuilder"
	"github.com/samsarahq/thunder/internal"
)

type find3Item struct {
	Id   *int64
	Name string
}

func TestFind3PointerKeyCursorIsAddress(t *testing.T) {
	schema := schemabuilder.NewSchema()
	item := schema.Object("find3Item", find3Item{})
	item.Key("id")
	schema.Query().FieldFunc("items", func() []find3Item {
		var out []find3Item
		for i := int64(1); i <= 3; i++ {
			id := i
			out = append(out, find3Item{Id: &id, Name: fmt.Sprint(i)})
		}
		return out
	}, schemabuilder.Paginated)
	built, err := schema.Build()
	if err != nil {
		t.Fatalf("build: %v", err)
	}

	page := func(vars map[string]interface{}) (ids []int64, cursors []string, hasNext bool, end string) {
		q, err := graphql.Parse(`query Q($after: string) {
			items(first: 2, after: $after) { totalCount edges { cursor node { id } } pageInfo { hasNextPage endCursor } }
		}`, vars)
		if err != nil {
			t.Fatalf("parse: %v", err)
		}
		if err := graphql.PrepareQuery(context.Background(), built.Query, q.SelectionSet); err != nil {
			t.Fatalf("prepare: %v", err)
		}
		e := graphql.NewExecutor(graphql.NewImmediateGoroutineScheduler())
		val, err := e.Execute(context.Background(), built.Query, nil, q)
		if err != nil {
			t.Fatalf("execute: %v", err)
		}
		conn := internal.AsJSON(val).(map[string]interface{})["items"].(map[string]interface{})
		for _, e := range conn["edges"].([]interface{}) {
			em := e.(map[string]interface{})
			ids = append(ids, int64(em["node"].(map[string]interface{})["id"].(float64)))
			cursors = append(cursors, em["cursor"].(string))
		}
		pi := conn["pageInfo"].(map[string]interface{})
		return ids, cursors, pi["hasNextPage"].(bool), pi["endCursor"].(string)
	}

	ids1, cur1, hasNext1, end1 := page(map[string]interface{}{})
	if fmt.Sprint(ids1) != "[1 2]" || !hasNext1 {
		t.Fatalf("first page: ids %v hasNextPage %v, want [1 2] true", ids1, hasNext1)
	}
	_, cur1again, _, _ := page(map[string]interface{}{})
	if fmt.Sprint(cur1) != fmt.Sprint(cur1again) {
		t.Errorf("the same query twice gives different cursors for the same elements: %v then %v (cursors are pointer addresses)", cur1, cur1again)
	}
	ids2, _, hasNext2, _ := page(map[string]interface{}{"after": end1})
	if fmt.Sprint(ids2) != "[3]" || hasNext2 {
		t.Errorf("second page (first: 2, after: endCursor of the first page): got ids %v hasNextPage %v, want [3] false; "+
			"the walk revisits elements 1 and 2 and never reaches element 3", ids2, hasNext2)
	}
}
