package graphql_test

// find4 (peripheral: the cause is in argument parsing, graphql/parser.go
// valueToJson + schemabuilder/input.go int64 parser, not in pagination.go):
// `first: 9223372036854775807` (math.MaxInt64, a natural "give me everything")
// is a well-formed non-negative int64, but the literal goes through float64
// (rounds to 2^63) and is converted back with int64(asFloat), which on amd64
// yields math.MinInt64, so the connection answers
// "first/last cannot be a negative integer".

import (
	"context"
	"testing"

	"github.com/samsarahq/thunder/graphql"
	"github.com/samsarahq/thunder/graphql/schemabuilder"
	"github.com/samsarahq/thunder/internal"
)

type find4Item struct {
	Id int64
}

func TestFind4MaxInt64FirstIsRejectedAsNegative(t *testing.T) {
	schema := schemabuilder.NewSchema()
	item := schema.Object("find4Item", find4Item{})
	item.Key("id")
	schema.Query().FieldFunc("items", func() []find4Item {
		return []find4Item{{1}, {2}}
	}, schemabuilder.Paginated)
	built, err := schema.Build()
	if err != nil {
		t.Fatalf("build: %v", err)
	}
	for _, arg := range []string{"first", "last"} {
		q, err := graphql.Parse(`{ items(`+arg+`: 9223372036854775807) { totalCount edges { node { id } } pageInfo { hasNextPage hasPrevPage } } }`, nil)
		if err != nil {
			t.Fatalf("parse: %v", err)
		}
		if err := graphql.PrepareQuery(context.Background(), built.Query, q.SelectionSet); err != nil {
			t.Errorf("%s: 9223372036854775807: prepare error: %v", arg, err)
			continue
		}
		e := graphql.NewExecutor(graphql.NewImmediateGoroutineScheduler())
		val, err := e.Execute(context.Background(), built.Query, nil, q)
		if err != nil {
			t.Errorf("%s: 9223372036854775807 over a 2-element list: got error %q, want both elements, totalCount 2, hasNextPage and hasPrevPage false", arg, err)
			continue
		}
		conn := internal.AsJSON(val).(map[string]interface{})["items"].(map[string]interface{})
		if n := len(conn["edges"].([]interface{})); n != 2 {
			t.Errorf("%s: 9223372036854775807: got %d edges, want 2", arg, n)
		}
	}
}
