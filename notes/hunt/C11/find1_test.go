package graphql_test

// find1: the default filterText tokenizer (internal/filter.GetDefaultSearchTokens)
// silently drops a word of filterText when it touches a double quote, so an
// element that passes the text filter under every reading of "passes the text
// filter" is missing from every page and from totalCount.
//
// List (key id, filter field "name"):
//   {1, "Dell monitor"}, {2, "room 27"}, {3, "keyboard"}
// filterText: `27" monitor`   (a 27-inch monitor), filterTextFields: ["name"]
//
//   - whitespace-separated words are `27"` and `monitor`; `monitor` occurs in
//     element 1, so element 1 passes;
//   - if the quote is read as opening a phrase, the tokens are `27` and
//     ` monitor`; ` monitor` occurs in element 1 as well, so element 1 passes
//     (and so does element 2).
//
// thunder returns only element 2 with totalCount 1: element 1 is never visited.

import (
	"context"
	"fmt"
	"testing"

	"github.com/samsarahq/thunder/graphql"
	"github.com/samsarahq/thunder/graphql/schemabuilder"
	"github.com/samsarahq/thunder/internal"
)

type find1Item struct {
	Id   int64
	Name string
}

func find1Schema(t *testing.T) *graphql.Schema {
	schema := schemabuilder.NewSchema()
	item := schema.Object("find1Item", find1Item{})
	item.Key("id")
	schema.Query().FieldFunc("items", func() []find1Item {
		return []find1Item{{1, "Dell monitor"}, {2, "room 27"}, {3, "keyboard"}}
	}, schemabuilder.Paginated,
		schemabuilder.FilterField("name", func(i find1Item) string { return i.Name }))
	built, err := schema.Build()
	if err != nil {
		t.Fatalf("build: %v", err)
	}
	return built
}

// find1Page runs one query and returns ids, totalCount, hasNextPage, endCursor.
func find1Page(t *testing.T, schema *graphql.Schema, vars map[string]interface{}) ([]int64, int64, bool, string) {
	q, err := graphql.Parse(`query Q($filterText: string, $first: int64, $after: string) {
		items(filterText: $filterText, filterTextFields: ["name"], first: $first, after: $after) {
			totalCount
			edges { cursor node { id } }
			pageInfo { hasNextPage endCursor }
		}
	}`, vars)
	if err != nil {
		t.Fatalf("parse: %v", err)
	}
	if err := graphql.PrepareQuery(context.Background(), schema.Query, q.SelectionSet); err != nil {
		t.Fatalf("prepare: %v", err)
	}
	e := graphql.NewExecutor(graphql.NewImmediateGoroutineScheduler())
	val, err := e.Execute(context.Background(), schema.Query, nil, q)
	if err != nil {
		t.Fatalf("execute: %v", err)
	}
	conn := internal.AsJSON(val).(map[string]interface{})["items"].(map[string]interface{})
	var ids []int64
	for _, e := range conn["edges"].([]interface{}) {
		ids = append(ids, int64(e.(map[string]interface{})["node"].(map[string]interface{})["id"].(float64)))
	}
	pi := conn["pageInfo"].(map[string]interface{})
	return ids, int64(conn["totalCount"].(float64)), pi["hasNextPage"].(bool), pi["endCursor"].(string)
}

func TestFind1FilterDropsWordNextToQuote(t *testing.T) {
	schema := find1Schema(t)

	// Sanity: the word alone finds element 1.
	ids, total, _, _ := find1Page(t, schema, map[string]interface{}{"filterText": "monitor"})
	if fmt.Sprint(ids) != "[1]" || total != 1 {
		t.Fatalf(`sanity: filterText "monitor" gave ids %v totalCount %d, want [1] 1`, ids, total)
	}

	filterText := `27" monitor`

	// One unbounded page.
	ids, total, _, _ = find1Page(t, schema, map[string]interface{}{"filterText": filterText})
	has1 := false
	for _, id := range ids {
		if id == 1 {
			has1 = true
		}
	}
	if !has1 {
		t.Errorf("filterText %q over names [Dell monitor, room 27, keyboard]: got ids %v totalCount %d; "+
			"element 1 (\"Dell monitor\") contains the whitespace-separated word \"monitor\" (and the phrase \" monitor\") "+
			"of filterText, so it passes the text filter, but it is not returned and not counted", filterText, ids, total)
	}

	// Forward walk with first: 1 must visit element 1 exactly once.
	seen := map[int64]int{}
	var after interface{}
	for step := 0; step < 10; step++ {
		vars := map[string]interface{}{"filterText": filterText, "first": float64(1)}
		if after != nil {
			vars["after"] = after
		}
		ids, _, hasNext, end := find1Page(t, schema, vars)
		for _, id := range ids {
			seen[id]++
		}
		if !hasNext {
			break
		}
		after = end
	}
	if seen[1] != 1 {
		t.Errorf("forward walk (first: 1) with filterText %q visited element 1 %d times, want exactly once (visited: %v)", filterText, seen[1], seen)
	}
}
