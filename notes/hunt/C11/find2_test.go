package graphql_test

// find2: sorting by a float SortField whose values include NaN returns the
// comparable values out of order: with sort values [3, NaN, 1] and
// sortBy "f", sortOrder asc, thunder returns 3, NaN, 1 (3 before 1); with
// [1, NaN, 3] and sortOrder desc it returns 1, NaN, 3 (1 before 3).
//
// The comparator in schemabuilder/pagination.go (sorts[reflect.Float64]) is
// `a.Float() < b.Float()`, which is not a strict weak order once a NaN is
// present, so sort.SliceStable leaves the slice unsorted. Wherever a reading
// puts the NaN element itself, no reading of "in the requested sort order"
// allows 3 before 1 in ascending order.

import (
	"context"
	"math"
	"testing"

	"github.com/samsarahq/thunder/graphql"
	"github.com/samsarahq/thunder/graphql/schemabuilder"
	"github.com/samsarahq/thunder/internal"
)

type find2Item struct {
	Id int64
	F  float64
}

type find2Args struct{ Set string }

func TestFind2FloatSortWithNaN(t *testing.T) {
	nan := math.NaN()
	sets := map[string][]find2Item{
		"a": {{1, 3}, {2, nan}, {3, 1}},
		"b": {{1, 1}, {2, nan}, {3, 3}},
	}
	schema := schemabuilder.NewSchema()
	item := schema.Object("find2Item", find2Item{})
	item.Key("id")
	schema.Query().FieldFunc("items", func(args find2Args) []find2Item { return sets[args.Set] },
		schemabuilder.Paginated,
		schemabuilder.SortField("f", func(i find2Item) float64 { return i.F }))
	built, err := schema.Build()
	if err != nil {
		t.Fatalf("build: %v", err)
	}

	run := func(set, order string) []int64 {
		q, err := graphql.Parse(`query Q($set: string!, $order: SortOrder) {
			items(set: $set, sortBy: "f", sortOrder: $order) { totalCount edges { node { id } } }
		}`, map[string]interface{}{"set": set, "order": order})
		if err != nil {
			t.Fatalf("parse: %v", err)
		}
		if err := graphql.PrepareQuery(context.Background(), built.Query, q.SelectionSet); err != nil {
			t.Fatalf("prepare: %v", err)
		}
		e := graphql.NewExecutor(graphql.NewImmediateGoroutineScheduler())
		val, err := e.Execute(context.Background(), built.Query, nil, q)
		if err != nil {
			t.Fatalf("execute: %v", err)
		}
		var ids []int64
		for _, e := range internal.AsJSON(val).(map[string]interface{})["items"].(map[string]interface{})["edges"].([]interface{}) {
			ids = append(ids, int64(e.(map[string]interface{})["node"].(map[string]interface{})["id"].(float64)))
		}
		return ids
	}
	pos := func(ids []int64, id int64) int {
		for i, x := range ids {
			if x == id {
				return i
			}
		}
		t.Fatalf("id %d missing from %v", id, ids)
		return -1
	}

	// Set a: id1 has 3, id2 has NaN, id3 has 1. Ascending: id3 (1) must precede id1 (3).
	ids := run("a", "asc")
	if pos(ids, 3) > pos(ids, 1) {
		t.Errorf("sort values {id1: 3, id2: NaN, id3: 1}, sortBy f asc: got ids %v, i.e. the element with 3 before the element with 1", ids)
	}
	// Set b: id1 has 1, id2 has NaN, id3 has 3. Descending: id3 (3) must precede id1 (1).
	ids = run("b", "desc")
	if pos(ids, 3) > pos(ids, 1) {
		t.Errorf("sort values {id1: 1, id2: NaN, id3: 3}, sortBy f desc: got ids %v, i.e. the element with 1 before the element with 3", ids)
	}
}
