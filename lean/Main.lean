import Driver.C01
import Driver.C02
import Driver.C03
import Driver.C04
import Driver.C05
import Driver.C06
import Driver.C07
import Driver.C08
import Driver.C09
import Driver.C10
import Driver.C11
import Driver.C12
import Driver.C13
import Driver.C14
import Driver.C15
import Driver.C16
import Driver.C17
import Driver.C18
import Driver.C19
import Driver.C20
/-!
`tmodel <PROPERTY>`: reads one JSON request per line on stdin, writes one JSON response per
line on stdout (`{"ok": …}` or `{"err": "…"}`), flushed per line.
-/
open Lean

def handlers : List (String × Driver.Handler) := [
  ("C01", Driver.C01.handle),
  ("C02", Driver.C02.handle),
  ("C03", Driver.C03.handle),
  ("C04", Driver.C04.handle),
  ("C05", Driver.C05.handle),
  ("C06", Driver.C06.handle),
  ("C07", Driver.C07.handle),
  ("C08", Driver.C08.handle),
  ("C09", Driver.C09.handle),
  ("C10", Driver.C10.handle),
  ("C11", Driver.C11.handle),
  ("C12", Driver.C12.handle),
  ("C13", Driver.C13.handle),
  ("C14", Driver.C14.handle),
  ("C15", Driver.C15.handle),
  ("C16", Driver.C16.handle),
  ("C17", Driver.C17.handle),
  ("C18", Driver.C18.handle),
  ("C19", Driver.C19.handle),
  ("C20", Driver.C20.handle)]

partial def loop (h : Driver.Handler) (stdin stdout : IO.FS.Stream) : IO Unit := do
  let line ← stdin.getLine
  if line.isEmpty then return ()
  let resp : Json :=
    match Json.parse line with
    | .error e => Json.mkObj [("err", s!"parse: {e}")]
    | .ok req =>
      match h req with
      | .ok r => Json.mkObj [("ok", r)]
      | .error e => Json.mkObj [("err", e)]
  stdout.putStrLn resp.compress
  stdout.flush
  loop h stdin stdout

def main (args : List String) : IO UInt32 := do
  match args with
  | [p] =>
    match handlers.lookup p with
    | some h => loop h (← IO.getStdin) (← IO.getStdout); return 0
    | none => IO.eprintln s!"unknown property {p}"; return 2
  | _ => IO.eprintln "usage: tmodel <PROPERTY>"; return 2
