import Driver.C12
import ThunderModel.Sql.BatchQuery
import ThunderModel.Sql.Tester
/-! C10 handler: rows of a query alone and of the same query inside a batch. -/
open Lean TM.Sql.Batch TM.Sql.Limit

namespace Driver.C10

def decRow (j : Json) : Except String Row := do
  let a ← j.getArr?
  a.toList.mapM fun kv => do
    let p ← kv.getArr?
    let k ← (p[0]?.getD Json.null).getNat?
    let v ← match p[1]?.getD Json.null with
      | .null => pure none
      | x => do pure (some (← x.getInt?))
    pure (k, v)

def encRow (r : Row) : Json :=
  Json.arr (r.map fun (k, v) => Json.arr #[(k : Json), match v with | some x => (x : Json) | none => Json.null]).toArray

/-- an invalid filter travels as `[[999, null]]` -/
def validF (f : KVs) : Bool := !f.any (·.1 == 999)

def encRes : Res → Json
  | .err => Json.null
  | .rows rs => Json.arr (rs.map encRow).toArray

def handle : Handler := fun req => do
  let op ← str req "op"
  match op with
  | "batch" =>
    let fs ← listOf Driver.C12.decKVs (← field req "filters")
    let table ← listOf decRow (← field req "table")
    pure <| Json.mkObj [
      ("alone", Json.arr (fs.map fun f => Json.arr ((alone f table).map encRow).toArray).toArray),
      ("batched", Json.arr (fs.map fun f => Json.arr ((dispatched fs table f).map encRow).toArray).toArray),
      ("callAlone", Json.arr (fs.map fun f => encRes (callAlone validF table f)).toArray),
      ("callBatched", Json.arr (fs.map fun f => encRes (callBatched validF fs table f)).toArray),
      ("old", Json.arr (fs.map fun f => Json.arr ((dispatchedOld (fun _ => 0) fs table f).map encRow).toArray).toArray)]
  | "tester" =>
    -- the row tester and the database's `=` on an integer column of kind [bits, signed] holding x
    let kd ← arr req "kind"
    let bits ← (kd[0]?.getD Json.null).getNat?
    let signed ← (kd[1]?.getD Json.null).getBool?
    let width ← match bits with
      | 8 => pure TM.Codec.Width.w8 | 16 => pure TM.Codec.Width.w16 | 32 => pure TM.Codec.Width.w32 | 64 => pure TM.Codec.Width.w64
      | _ => throw "C10: bad width"
    let k : TM.Codec.IKind := ⟨width, signed⟩
    let x ← int req "x"
    let sp ← field req "spell"
    let spell : TM.Sql.Tester.Spell ←
      match sp with
      | .str "fracFloat" => pure .fracFloat
      | _ =>
        match sp.getObjVal? "int", sp.getObjVal? "wholeFloat", sp.getObjVal? "bool" with
        | .ok v, _, _ => do pure (.int (← v.getInt?))
        | _, .ok v, _ => do pure (.wholeFloat (← v.getInt?))
        | _, _, .ok v => do pure (.bool (← v.getBool?))
        | _, _, _ => throw "C10: bad spelling"
    pure <| Json.mkObj [("tester", TM.Sql.Tester.testerMatch k x spell), ("db", TM.Sql.Tester.dbMatch x spell),
      ("inRange", decide (TM.Codec.inRange k x))]
  | _ => throw s!"C10: unknown op {op}"

end Driver.C10
