import Driver.Proto
/-! C10 handler (not implemented yet). -/
namespace Driver.C10
def handle : Handler := fun _ => throw "C10: no model yet"
end Driver.C10
