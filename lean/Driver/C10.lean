import Driver.C12
import ThunderModel.Sql.BatchQuery
/-! C10 handler: rows of a query alone and of the same query inside a batch. -/
open Lean TM.Sql.Batch TM.Sql.Limit

namespace Driver.C10

def decRow (j : Json) : Except String Row := do
  let a ← j.getArr?
  a.toList.mapM fun kv => do
    let p ← kv.getArr?
    let k ← (p[0]?.getD Json.null).getNat?
    let v ← match p[1]?.getD Json.null with
      | .null => pure none
      | x => do pure (some (← x.getInt?))
    pure (k, v)

def encRow (r : Row) : Json :=
  Json.arr (r.map fun (k, v) => Json.arr #[(k : Json), match v with | some x => (x : Json) | none => Json.null]).toArray

/-- an invalid filter travels as `[[999, null]]` -/
def validF (f : KVs) : Bool := !f.any (·.1 == 999)

def encRes : Res → Json
  | .err => Json.null
  | .rows rs => Json.arr (rs.map encRow).toArray

def handle : Handler := fun req => do
  let op ← str req "op"
  match op with
  | "batch" =>
    let fs ← listOf Driver.C12.decKVs (← field req "filters")
    let table ← listOf decRow (← field req "table")
    pure <| Json.mkObj [
      ("alone", Json.arr (fs.map fun f => Json.arr ((alone f table).map encRow).toArray).toArray),
      ("batched", Json.arr (fs.map fun f => Json.arr ((dispatched fs table f).map encRow).toArray).toArray),
      ("callAlone", Json.arr (fs.map fun f => encRes (callAlone validF table f)).toArray),
      ("callBatched", Json.arr (fs.map fun f => encRes (callBatched validF fs table f)).toArray),
      ("old", Json.arr (fs.map fun f => Json.arr ((dispatchedOld (fun _ => 0) fs table f).map encRow).toArray).toArray)]
  | _ => throw s!"C10: unknown op {op}"

end Driver.C10
