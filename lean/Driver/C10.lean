import Driver.C12
import ThunderModel.Sql.BatchQuery
/-! C10 handler: rows of a query alone and of the same query inside a batch. -/
open Lean TM.Sql.Batch TM.Sql.Limit

namespace Driver.C10

def decRow (j : Json) : Except String Row := do
  let a ← j.getArr?
  a.toList.mapM fun kv => do
    let p ← kv.getArr?
    let k ← (p[0]?.getD Json.null).getNat?
    let v ← match p[1]?.getD Json.null with
      | .null => pure none
      | x => do pure (some (← x.getInt?))
    pure (k, v)

def encRow (r : Row) : Json :=
  Json.arr (r.map fun (k, v) => Json.arr #[(k : Json), match v with | some x => (x : Json) | none => Json.null]).toArray

def handle : Handler := fun req => do
  let op ← str req "op"
  match op with
  | "batch" =>
    let fs ← listOf Driver.C12.decKVs (← field req "filters")
    let table ← listOf decRow (← field req "table")
    pure <| Json.mkObj [
      ("alone", Json.arr (fs.map fun f => Json.arr ((alone f table).map encRow).toArray).toArray),
      ("batched", Json.arr (fs.map fun f => Json.arr ((dispatched fs table f).map encRow).toArray).toArray),
      ("old", Json.arr (fs.map fun f => Json.arr ((dispatchedOld (fun _ => 0) fs table f).map encRow).toArray).toArray)]
  | _ => throw s!"C10: unknown op {op}"

end Driver.C10
