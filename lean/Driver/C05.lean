import Driver.Proto
import ThunderModel.Batch
/-! C05 handler: replays a labelled trace of `Invoke` steps. -/
open Lean TM.Batch

namespace Driver.C05

def decOutcome (j : Json) : Except String Outcome :=
  match j with
  | .str "err" => pure .err
  | .str "panic" => pure .panic
  | _ => do pure (.ok (← nats (← j.getObjVal? "ok")))

def decLabel (j : Json) : Except String Label := do
  let a ← j.getArr?
  let name ← (a[0]?.getD Json.null).getStr?
  let n (i : Nat) : Except String Nat := (a[i]?.getD Json.null).getNat?
  match name with
  | "join" => pure (.join (← n 1) (← n 2))
  | "wake" => pure (.wake (← n 1))
  | "unpublish" => pure (.unpublish (← n 1))
  | "run" => pure (.run (← n 1) (← decOutcome (a[2]?.getD Json.null)))
  | "ret" => pure (.ret (← n 1))
  | "cancel" => pure .cancel
  | _ => throw s!"unknown label {name}"

def encPC : PC → Json
  | .joined => "joined" | .woke => "woke" | .unpublished => "unpublished" | .waiting => "waiting" | .ran => "ran"
  | .returned none => Json.mkObj [("returned", Json.null)]
  | .returned (some v) => Json.mkObj [("returned", (v : Json))]

def snap (s : St) : Json :=
  Json.mkObj [
    ("calls", jList (fun (c : Call) => Json.mkObj [("group", (c.group : Json)), ("index", (c.index : Json)), ("creator", c.creator), ("pc", encPC c.pc)]) s.calls),
    ("groups", jList (fun (g : Group) => Json.mkObj [("args", jNats g.args), ("published", g.published), ("many", (g.manyCalls : Json)),
        ("done", match g.done with | none => Json.null | some none => "err" | some (some rs) => jNats rs)]) s.groups)]

def replay (s : St) : List Label → List Json
  | [] => []
  | l :: ls =>
      match step? s l with
      | none => [Json.mkObj [("enabled", false)]]
      | some s' => Json.mkObj [("enabled", true), ("state", snap s')] :: replay s' ls

def handle : Handler := fun req => do
  let op ← str req "op"
  match op with
  | "run" =>
    let m ← nat req "maxSize"
    let ls ← listOf decLabel (← field req "labels")
    pure <| Json.mkObj [("steps", Json.arr (replay (init m) ls).toArray)]
  | _ => throw s!"C05: unknown op {op}"

end Driver.C05
