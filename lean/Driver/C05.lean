import Driver.Proto
/-! C05 handler (not implemented yet). -/
namespace Driver.C05
def handle : Handler := fun _ => throw "C05: no model yet"
end Driver.C05
