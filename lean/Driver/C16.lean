import Driver.Gql
import ThunderModel.Gql.Errors
/-! C16 handler: executor / reference on failing data, the admissible errors, sanitisation. -/
open Lean TM TM.Gql Driver.Gql

namespace Driver.C16

def encErr (e : Err) : Json :=
  Json.mkObj [("code", (e.code : Json)), ("safe", e.safe), ("path", jList encPE e.path)]

partial def decGoErr (j : Json) : Except String GoErr := do
  let k ← str j "k"
  match k with
  | "plain" => pure (.plain (← nat j "t"))
  | "safe" => pure (.safe (← nat j "t"))
  | "panic" => pure (.panicked (← nat j "t"))
  | "wrapSafe" => pure (.wrapSafe (← decGoErr (← field j "inner")) (← nat j "t"))
  | "wrapf" => pure (.wrapf (← decGoErr (← field j "inner")) (← nat j "t"))
  | "path" => pure (.path (← decGoErr (← field j "inner")) (← nats (← field j "p")))
  | _ => throw s!"bad GoErr kind {k}"

def encMsg : Msg → Json
  | .generic => Json.mkObj [("generic", true)]
  | .text t => Json.mkObj [("text", (t : Json))]

def handle : Handler := fun req => do
  let op ← str req "op"
  match op with
  | "exec" =>
    let σ ← decSchema (← field req "schema")
    let root ← nat req "root"
    let data ← decVal (← field req "data")
    let q ← decSelSet (← field req "query")
    let fuel ← nat req "fuel"
    let errs := referenceErrs σ fuel root data q
    pure <| Json.mkObj [("exec", encRes (execute σ fuel root data q)), ("ref", encRes (reference σ fuel root data q)),
      ("errs", Json.arr (errs.map fun (e, b) => Json.mkObj [("err", encErr e), ("batch", b)]).toArray)]
  | "sanitize" =>
    let e ← decGoErr (← field req "err")
    let keys ← nats (← field req "keys")
    let nested := keys.foldl (fun acc k => nest k acc) e
    pure <| Json.mkObj [("msg", encMsg (sanitize nested)), ("sanitized", nested.isSanitized)]
  | _ => throw s!"C16: unknown op {op}"

end Driver.C16
