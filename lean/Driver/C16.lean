import Driver.Proto
/-! C16 handler (not implemented yet). -/
namespace Driver.C16
def handle : Handler := fun _ => throw "C16: no model yet"
end Driver.C16
