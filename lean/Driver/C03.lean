import Driver.Proto
import ThunderModel.MergeJs
/-! C03 handler: `{"old": J, "new": J}` ↦ model delta, merged value, spec, well-formedness. -/
open Lean TM

namespace Driver.C03

partial def decJ (j : Json) : Except String J :=
  match j with
  | .null => .ok .null
  | .arr xs => do
      let l ← xs.toList.mapM decJ
      .ok (.arr l)
  | .obj _ => do
      if let .ok v := j.getObjVal? "s" then return .sc (← v.getInt?)
      if let .ok v := j.getObjVal? "y" then return .by (← v.getInt?)
      let kvs ← (← j.getObjVal? "o").getArr?
      let l ← kvs.toList.mapM fun kv => do
        let a ← kv.getArr?
        if h : a.size = 2 then
          let k ← a[0].getNat?
          let v ← decJ a[1]
          pure (k, v)
        else throw "bad kv"
      .ok (.obj l)
  | _ => .error "bad J"

partial def encJ : J → Json
  | .null => .null
  | .sc n => Json.mkObj [("s", (n : Json))]
  | .by n => Json.mkObj [("y", (n : Json))]
  | .arr xs => Json.arr (xs.map encJ).toArray
  | .obj kvs => Json.mkObj [("o", Json.arr (kvs.map fun (k, v) => Json.arr #[(k : Json), encJ v]).toArray)]

/-- decidable well-formedness (mirrors `ThunderProofs` `WFJ`): sorted keys, scalar `__key`s -/
partial def wf : J → Bool
  | .arr xs => xs.all wf
  | .obj kvs =>
      let rec sorted : List (Nat × J) → Bool
        | a :: b :: r => a.1 < b.1 && sorted (b :: r)
        | _ => true
      sorted kvs && (match J.keyOf kvs with | none => true | some (.sc _) => true | some .null => true | _ => false)
        && kvs.all (fun p => wf p.2)
  | _ => true

def handle : Handler := fun req => do
  let op ← str req "op"
  match op with
  | "case" =>
    let old ← decJ (← field req "old")
    let new ← decJ (← field req "new")
    -- exactly the expressions of theorems `merge_diff` / `mergeJs_diff` at `f = depth old + 1`
    let f := J.depth old + 1
    let d := J.diffA J.reorder f old new
    let prev := J.strip old
    let merged := J.applyA f prev d
    let mergedJs := J.applyJs f prev d
    pure <| Json.mkObj [
      ("wf", wf old && wf new),
      ("delta", jOpt encJ d),
      ("merged", jExcept encJ merged),
      ("mergedJs", jExcept encJ mergedJs),
      ("spec", encJ (J.strip new)),
      ("stripOld", encJ prev)]
  | "merge" =>
    let prev ← decJ (← field req "prev")
    let delta ← decJ (← field req "delta")
    pure <| Json.mkObj [("merged", jExcept encJ (J.mergeTop prev delta))]
  | _ => throw s!"C03: unknown op {op}"

end Driver.C03
