import Driver.Proto
/-! C17 handler (not implemented yet). -/
namespace Driver.C17
def handle : Handler := fun _ => throw "C17: no model yet"
end Driver.C17
