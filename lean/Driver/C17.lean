import Driver.Proto
import ThunderModel.Conn
/-! C17 handler: replay of a connection history in the lifecycle model. -/
open Lean TM TM.Conn

namespace Driver.C17

def decLabel (j : Json) : Except String Label := do
  let k ← str j "l"
  let a := (j.getObjValAs? Nat "a").toOption.getD 0
  let acc := (j.getObjValAs? Bool "acc").toOption.getD false
  match k with
  | "subscribe" => pure (.subscribe a acc)
  | "mutate" => pure (.mutate a acc)
  | "closeSub" =>
      match j.getObjVal? "by" with
      | .ok (.num n) => pure (.closeSub a (some n.mantissa.toNat))
      | _ => pure (.closeSub a none)
  | "runOk" => pure (.runOk a)
  | "runFail" => pure (.runFail a)
  | "sockClose" => pure .sockClose
  | _ => throw s!"bad label {k}"

def replay (cfg : Cfg) : St → List Label → Nat → St × Option Nat
  | s, [], _ => (s, none)
  | s, l :: ls, i => match step cfg s l with
      | some s' => replay cfg s' ls (i + 1)
      | none => (s, some i)

def encEv : Ev → Json
  | .S id rid => Json.mkObj [("e", "S"), ("id", (id : Nat)), ("rid", (rid : Nat))]
  | .U id rid => Json.mkObj [("e", "U"), ("id", (id : Nat)), ("rid", (rid : Nat))]

def encSt (s : St) (mutUnsub : Bool := false) : Json :=
  Json.mkObj [
    -- what the subscription logger is told: before the repair C17-4 also the end of every mutation
    ("seen", Json.arr ((if mutUnsub then s.log else seen s.log).map encEv).toArray),
    ("subs", Json.arr (s.subs.map fun e => Json.mkObj [("id", (e.id : Nat)), ("rid", (e.rid : Nat)),
      ("kind", match e.kind with | .sub => "sub" | .mut => "mut")]).toArray),
    ("stopped", jNats s.stopped), ("dead", jNats s.dead), ("log", Json.arr (s.log.map encEv).toArray),
    ("pending", Json.arr (s.pending.map fun (a, b) => Json.arr #[(a : Json), (b : Json)]).toArray),
    ("closed", s.closed), ("orphans", jNats (orphans s))]

def handle : Handler := fun req => do
  let op ← str req "op"
  match op with
  | "replay" =>
    let ls ← listOf decLabel (← field req "labels")
    let mx := (req.getObjValAs? Nat "max").toOption.getD 200
    let cfg : Cfg := if (req.getObjValAs? Bool "old").toOption.getD false then { old with max := mx } else repairedWith mx
    let (s, bad) := replay cfg init ls 0
    let mutUnsub := (req.getObjValAs? Bool "mutUnsub").toOption.getD false
    pure <| Json.mkObj [("state", encSt s mutUnsub), ("stuck", match bad with | some i => (i : Json) | none => Json.null)]
  | _ => throw s!"C17: unknown op {op}"

end Driver.C17
