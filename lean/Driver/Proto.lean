import Lean.Data.Json
/-! Line protocol helpers shared by all per-property handlers (core Lean only). -/
open Lean

namespace Driver

abbrev Handler := Json → Except String Json

def field (j : Json) (k : String) : Except String Json := j.getObjVal? k
def fieldD (j : Json) (k : String) (d : Json) : Json := (j.getObjVal? k).toOption.getD d
def str (j : Json) (k : String) : Except String String := do (← field j k).getStr?
def int (j : Json) (k : String) : Except String Int := do (← field j k).getInt?
def nat (j : Json) (k : String) : Except String Nat := do (← field j k).getNat?
def bool (j : Json) (k : String) : Except String Bool := do (← field j k).getBool?
def arr (j : Json) (k : String) : Except String (Array Json) := do (← field j k).getArr?

def listOf {α} (f : Json → Except String α) (j : Json) : Except String (List α) := do
  let a ← j.getArr?
  a.toList.mapM f

def ints (j : Json) : Except String (List Int) := listOf (·.getInt?) j
def nats (j : Json) : Except String (List Nat) := listOf (·.getNat?) j

def jInts (l : List Int) : Json := Json.arr (l.map (fun (i : Int) => (i : Json))).toArray
def jNats (l : List Nat) : Json := Json.arr (l.map (fun (i : Nat) => (i : Json))).toArray
def jList {α} (f : α → Json) (l : List α) : Json := Json.arr (l.map f).toArray
def jOpt {α} (f : α → Json) : Option α → Json
  | none => Json.null
  | some a => Json.mkObj [("some", f a)]
def jExcept {α} (f : α → Json) : Except String α → Json
  | .ok a => Json.mkObj [("ok", f a)]
  | .error e => Json.mkObj [("err", e)]

end Driver
