import Driver.Proto
import ThunderModel.Cost
import ThunderModel.OneShot
/-! C15 handler: traversal cost of a selection DAG; one-shot request protocol. -/
open Lean TM

namespace Driver.C15

def decLabel (s : String) : Except String OneShot.Label :=
  match s with
  | "cancel" => pure .cancel
  | "sched" => pure .sched
  | "finish" => pure .finish
  | "wake" => pure .wake
  | "stopped" => pure .stopped
  | _ => throw s!"bad label {s}"

def handle : Handler := fun req => do
  let op ← str req "op"
  match op with
  | "cost" =>
    let g ← listOf (fun j => nats j) (← field req "graph")
    let root ← nat req "root"
    let fuel ← nat req "fuel"
    pure <| Json.mkObj [("memo", (Cost.memoCost g fuel root : Nat)), ("nodes", (g.length : Nat))]
  | "oneshot" =>
    let ls ← listOf (fun j => do decLabel (← j.getStr?)) (← field req "labels")
    let rep ← bool req "repaired"
    match OneShot.run rep OneShot.init ls with
    | some s => pure <| Json.mkObj [("ok", true), ("returned", decide (s.handler = .returned)),
        ("canProgress", OneShot.canProgress rep s), ("cancelled", s.cancelled)]
    | none => pure <| Json.mkObj [("ok", false)]
  | _ => throw s!"C15: unknown op {op}"

end Driver.C15
