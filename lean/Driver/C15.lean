import Driver.Proto
/-! C15 handler (not implemented yet). -/
namespace Driver.C15
def handle : Handler := fun _ => throw "C15: no model yet"
end Driver.C15
