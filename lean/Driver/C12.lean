import Driver.Proto
import ThunderModel.Sql.Limit
/-! C12 handler: what a limited handle issues for an operation. -/
open Lean TM.Sql.Limit

namespace Driver.C12

def decIV (j : Json) : Except String IV :=
  match j with
  | .null => pure none
  | _ => do pure (some ⟨← nat j "ty", ← int j "v"⟩)

def decKVs (j : Json) : Except String KVs := do
  let a ← j.getArr?
  a.toList.mapM fun kv => do
    let p ← kv.getArr?
    pure ((← (p[0]?.getD Json.null).getNat?), (← decIV (p[1]?.getD Json.null)))

def decHandle (j : Json) : Except String Handle := do
  let shard ← match j.getObjVal? "shard" with
    | .ok .null => pure none
    | .ok v => do pure (some (← decKVs v))
    | .error _ => pure none
  let dyn ← match j.getObjVal? "dyn" with
    | .ok .null => pure none
    | .ok v => do
        let f ← match v.getObjVal? "filter" with
          | .ok .null => pure none
          | .ok x => do pure (some (← decKVs x))
          | .error _ => pure none
        pure (some { filter := f, continueOnError := ← bool v "continue" })
    | .error _ => pure none
  pure { shard := shard, dyn := dyn }

def decOp (j : Json) : Except String Op := do
  let k ← str j "op"
  match k with
  | "query" => pure (.query (← decKVs (← field j "filter")))
  | "insertRow" => pure (.insertRow (← decKVs (← field j "row")) (← bool j "upsert"))
  | "insertRows" => pure (.insertRows (← listOf decKVs (← field j "rows")) (← nat j "chunk") (← bool j "upsert"))
  | "updateRow" => pure (.updateRow (← decKVs (← field j "pk")) (← decKVs (← field j "rest")))
  | "deleteRow" => pure (.deleteRow (← decKVs (← field j "pk")))
  | _ => throw s!"bad op {k}"

def encIV : IV → Json
  | none => Json.null
  | some g => Json.mkObj [("ty", (g.ty : Nat)), ("v", (g.v : Int))]

def encKVs (kvs : KVs) : Json := Json.arr (kvs.map fun (k, v) => Json.arr #[(k : Json), encIV v]).toArray

def encStmt : Stmt → Json
  | .select w => Json.mkObj [("k", "select"), ("where", encKVs w)]
  | .selectBatch bs => Json.mkObj [("k", "selectBatch"), ("branches", Json.arr (bs.map encKVs).toArray)]
  | .insert rows u => Json.mkObj [("k", "insert"), ("rows", Json.arr (rows.map encKVs).toArray), ("upsert", u)]
  | .update set w => Json.mkObj [("k", "update"), ("set", encKVs set), ("where", encKVs w)]
  | .delete w => Json.mkObj [("k", "delete"), ("where", encKVs w)]

def handle : Handler := fun req => do
  let op ← str req "op"
  match op with
  | "exec" =>
    let h ← decHandle (← field req "handle")
    let o ← decOp (← field req "call")
    let (stmts, err) := exec h o
    pure <| Json.mkObj [("stmts", Json.arr (stmts.map encStmt).toArray), ("error", err),
      ("enforced", encKVs (enforced h)), ("carries", stmts.all (carries (enforced h)))]
  | "batch" =>
    let qs ← listOf (fun j => do pure ((← decHandle (← field j "handle")), (← decKVs (← field j "filter")))) (← field req "queries")
    pure <| Json.mkObj [("stmt", match execBatch qs with | some s => encStmt s | none => Json.null)]
  | _ => throw s!"C12: unknown op {op}"

end Driver.C12
