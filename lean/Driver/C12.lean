import Driver.Proto
/-! C12 handler (not implemented yet). -/
namespace Driver.C12
def handle : Handler := fun _ => throw "C12: no model yet"
end Driver.C12
