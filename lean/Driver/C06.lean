import Driver.Proto
/-! C06 handler (not implemented yet). -/
namespace Driver.C06
def handle : Handler := fun _ => throw "C06: no model yet"
end Driver.C06
