import ThunderModel.Fed.Keys
import Driver.Proto
import ThunderModel.Fed.Normalize
/-! C06 handler: the gateway model on one normalized query: plan, literal execution, the
object-by-object form, and the combined server. -/
open Lean TM.Fed.Gateway

namespace Driver.C06

partial def decQ (j : Json) : Except String Q := do
  pure (.sel (← nat j "a") (← nat j "n") (← listOf decQ (← field j "k")))

partial def encQ : Q → Json
  | .sel a n k => Json.mkObj [("a", (a : Json)), ("n", (n : Json)), ("k", Json.arr (k.map encQ).toArray)]

partial def encPlan : Plan → Json
  | .mk p s t sel after => Json.mkObj [("path", jNats p), ("svc", (s : Json)), ("typ", (t : Json)),
      ("sel", Json.arr (sel.map encQ).toArray), ("after", Json.arr (after.map encPlan).toArray)]

partial def encR : R → Json
  | .null => Json.null
  | .sc v => Json.mkObj [("s", (v : Json))]
  | .arr xs => Json.arr (xs.map encR).toArray
  | .obj fs => Json.mkObj [("o", Json.arr (fs.map fun (k, v) => Json.arr #[(k : Json), encR v]).toArray)]

def decRef (j : Json) : Except String Ref := do pure ⟨← nat j "t", ← int j "k"⟩

def decFV (j : Json) : Except String FV := do
  match ← str j "k" with
  | "null" => pure .null
  | "sc" => pure (.sc (← int j "v"))
  | "ref" => pure (.ref (← decRef (← field j "r")))
  | "refs" => do
    let rs ← listOf (fun x => match x with | .null => pure none | y => do pure (some (← decRef y))) (← field j "rs")
    pure (.refs rs)
  | k => throw s!"C06: unknown value kind {k}"

/-- assoc-list lookup with three keys -/
def find3 {α} (l : List (Nat × Nat × Nat × α)) (a b c : Nat) : Option α :=
  (l.find? fun (x, y, z, _) => x == a && y == b && z == c).map fun (_, _, _, v) => v

def find2 {α} (l : List (Nat × Nat × α)) (a b : Nat) : Option α :=
  (l.find? fun (x, y, _) => x == a && y == b).map fun (_, _, v) => v

mutual
partial def decRSel (j : Json) : Except String RSel := do
  pure (.mk (← nat j "a") (← nat j "n") (← bool j "i") (← decRSet (← field j "s")))
partial def decRSet (j : Json) : Except String RSet := do
  pure (.mk (← listOf decRSel (← field j "sels")) (← listOf decRFrag (← field j "frags")))
partial def decRFrag (j : Json) : Except String RFrag := do
  pure (.mk (← nat j "on") (← bool j "i") (← decRSet (← field j "s")))
end

def handle : Handler := fun req => do
  let op ← str req "op"
  match op with
  | "keysel" =>
    let fields ← nats (← field req "fields")
    let keys ← listOf (fun j => do pure (← nat j "s", ← nat j "f")) (← field req "keys")
    let targets ← nats (← field req "targets")
    pure <| Json.mkObj [("sel", Json.arr ((TM.Fed.Keys.keySel fields (fun s f => keys.contains (s, f)) targets).map fun (n : Nat) => (n : Json)).toArray)]
  | "gateway" =>
    let owners ← listOf (fun j => do pure (← nat j "t", ← nat j "n", ← nats (← field j "s"))) (← field req "owners")
    let picks ← listOf (fun j => do pure (← nat j "t", ← nat j "n", ← nat j "a", ← nat j "s")) (← field req "picks")
    let child ← listOf (fun j => do pure (← nat j "t", ← nat j "n", ← nat j "c")) (← field req "child")
    let store ← listOf (fun j => do pure (← nat j "t", ← int j "k", ← nat j "n", ← decFV (← field j "v"))) (← field req "store")
    let σ : Sch := {
      owners := fun t n => (find2 owners t n).getD []
      custom := fun _ _ => none
      pick := fun t q => (find3 picks t q.name q.alias).getD 0
      child := fun t n => find2 child t n }
    let st : Store := fun r n =>
      ((store.find? fun (t, k, m, _) => t == r.t && k == r.k && m == n).map fun (_, _, _, v) => v).getD .null
    let root ← decRef (← field req "root")
    let svc ← nat req "svc"
    let qs ← listOf decQ (← field req "query")
    let body := planBody σ svc root.t qs
    let lit := gateway σ st svc root qs
    let fused := dropFed (.obj (fusedBody σ st svc qs root))
    pure <| Json.mkObj [
      ("sel", Json.arr (body.1.map encQ).toArray),
      ("after", Json.arr (body.2.map encPlan).toArray),
      ("gateway", encR lit), ("fused", encR fused), ("mono", encR (.obj (evalSels st qs root)))]
  | "normalize" =>
    let child ← listOf (fun j => do pure (← nat j "t", ← nat j "n", ← nat j "c")) (← field req "child")
    let applies ← listOf (fun j => do pure (← nat j "on", ← nat j "t")) (← field req "applies")
    let raw ← decRSet (← field req "raw")
    let t ← nat req "t"
    let fuel ← nat req "fuel"
    let ap : Nat → Nat → Bool := fun on t => applies.any fun (o, t') => o == on && t' == t
    pure <| Json.mkObj [
      ("normalized", Json.arr ((normalize ap (fun t n => find2 child t n) fuel t raw).map encQ).toArray),
      ("old", Json.arr ((normalizeOld ap (fun t n => find2 child t n) fuel t raw).map encQ).toArray)]
  | _ => throw s!"C06: unknown op {op}"

end Driver.C06
