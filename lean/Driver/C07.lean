import Driver.Proto
/-! C07 handler (not implemented yet). -/
namespace Driver.C07
def handle : Handler := fun _ => throw "C07: no model yet"
end Driver.C07
