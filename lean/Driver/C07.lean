import Driver.C10
import ThunderModel.Sql.Live
import ThunderModel.Sql.ColMap
/-! C07 handler: replays a history of the live-SQL model step by step. -/
open Lean TM.Sql.Live TM.Sql.Batch TM.Sql.Limit

namespace Driver.C07

def decChange (j : Json) : Except String Change := do
  match ← str j "c" with
  | "ins" => pure (.ins (← Driver.C10.decRow (← field j "r")))
  | "del" => pure (.del (← nat j "i"))
  | "upd" => pure (.upd (← nat j "i") (← Driver.C10.decRow (← field j "r")))
  | c => throw s!"C07: unknown change {c}"

def decLabel (j : Json) : Except String Label := do
  match ← str j "l" with
  | "write" => pure (.write (← nat j "t") (← listOf decChange (← field j "cs")) (← bool j "bad"))
  | "register" => pure (.register (← nat j "q"))
  | "read" => pure (.read (← nat j "q"))
  | "deliver" => pure .deliver
  | l => throw s!"C07: unknown label {l}"

def decQuery (j : Json) : Except String LQ := do
  pure { tbl := ← nat j "t", filter := ← Driver.C12.decKVs (← field j "f") }

def encRows (rs : List Row) : Json := Json.arr (rs.map Driver.C10.encRow).toArray
def encORow : Option Row → Json
  | none => Json.null
  | some r => Driver.C10.encRow r
def encDelta (d : Delta) : Json := Json.mkObj [("before", encORow d.before), ("after", encORow d.after)]

def encQ (q : LQ) : Json := Json.mkObj [("registered", q.registered), ("invalid", q.invalid),
  ("rows", match q.rows with | some r => encRows r | none => Json.null)]

def freshB (s : St) : Bool :=
  s.qs.all fun q => match q.rows with
    | some r => decide (r = alone q.filter (tableOf s q.tbl))
    | none => true

/-- what a step shows to the outside -/
def stepInfo (cfg : Cfg) (s : St) (l : Label) (s' : St) : Json :=
  match l with
  | .write _ _ _ => match s'.queue.getLast? with
    | some e => Json.mkObj [("deltas", Json.arr (e.deltas.map encDelta).toArray)]
    | none => Json.null
  | .deliver => match s.queue with
    | e :: _ => Json.mkObj [("invalidated", jNats ((List.range s.qs.length).filter fun i =>
        match s.qs[i]? with | some q => q.registered && hits cfg q e | none => false))]
    | [] => Json.null
  | .read k => match s'.qs[k]? with
    | some q => Json.mkObj [("rows", match q.rows with | some r => encRows r | none => Json.null)]
    | none => Json.null
  | .register _ => Json.null

def replay (cfg : Cfg) : St → List Label → Nat → List Json → (St × Option Nat × List Json)
  | s, [], _, acc => (s, none, acc.reverse)
  | s, l :: ls, i, acc =>
    match step cfg s l with
    | some s' => replay cfg s' ls (i + 1) (stepInfo cfg s l s' :: acc)
    | none => (s, some i, acc.reverse)

def decColEv (j : Json) : Except String TM.Sql.ColMap.Ev := do
  match ← str j "k" with
  | "tmap" => pure (.tmap (← nat j "id") (← nat j "v"))
  | "rows" => pure (.rows (← nat j "v") (← nat j "cur"))
  | k => throw s!"C07: unknown column-map event {k}"

def encColOut : TM.Sql.ColMap.Out → Json
  | .none => Json.null
  | .decoded f c => Json.mkObj [("fetched", f), ("with", (c : Nat))]

def handle : Handler := fun req => do
  let op ← str req "op"
  match op with
  | "colmap" =>
    let evs ← listOf decColEv (← field req "events")
    let v0 ← nat req "v0"
    let cfg : TM.Sql.ColMap.Cfg := match (str req "cfg").toOption with
      | some "noFlush" => TM.Sql.ColMap.noFlush
      | _ => TM.Sql.ColMap.repaired
    let outs := TM.Sql.ColMap.run cfg {} evs
    pure <| Json.mkObj [
      ("wf", TM.Sql.ColMap.wf v0 none false evs),
      ("outs", Json.arr (outs.map encColOut).toArray),
      ("right", TM.Sql.ColMap.allRight evs outs)]
  | "run" =>
    let tables ← listOf (listOf Driver.C10.decRow) (← field req "tables")
    let qs ← listOf decQuery (← field req "queries")
    let ls ← listOf decLabel (← field req "labels")
    let cfg : Cfg := match (str req "cfg").toOption with
      | some "old" => old
      | some "readFirst" => { readFirst := true }
      | _ => repaired
    let (s, rej, infos) := replay cfg { tables := tables, qs := qs } ls 0 []
    pure <| Json.mkObj [
      ("rejected", match rej with | some i => (i : Json) | none => Json.null),
      ("steps", Json.arr infos.toArray),
      ("queue", (s.queue.length : Json)),
      ("queries", Json.arr (s.qs.map encQ).toArray),
      ("tables", Json.arr (s.tables.map encRows).toArray),
      ("quiescent", quiescent s),
      ("fresh", freshB s)]
  | _ => throw s!"C07: unknown op {op}"

end Driver.C07
