import Driver.Proto
/-! C08 handler (not implemented yet). -/
namespace Driver.C08
def handle : Handler := fun _ => throw "C08: no model yet"
end Driver.C08
