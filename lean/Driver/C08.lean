import Driver.C04
import ThunderModel.Reactive.Release
/-! C08 handler: replay of the invalidation trace (as C04) and of the release trace. -/
open Lean TM

namespace Driver.C08

def decLabel (j : Json) : Except String Release.Label := do
  let k ← str j "l"
  let a := (j.getObjValAs? Nat "a").toOption.getD 0
  let b := (j.getObjValAs? Nat "b").toOption.getD 0
  match k with
  | "newNode" => pure .newNode
  | "callRelease" => pure (.callRelease a)
  | "addOut" => pure (.addOut a b)
  | "relCS" => pure (.relCS a)
  | "relEdge" => pure (.relEdge a b)
  | "handleRelease" => pure (.handleRelease a)
  | _ => throw s!"bad release label {k}"

def replay : Release.St → List Release.Label → Nat → Release.St × Option Nat
  | s, [], _ => (s, none)
  | s, l :: ls, i => match Release.step s l with
      | some s' => replay s' ls (i + 1)
      | none => (s, some i)

def encSt (s : Release.St) : Json :=
  Json.mkObj [
    ("nodes", Json.arr (s.nodes.map fun n => Json.mkObj [("released", n.released), ("fired", (n.fired : Nat)),
      ("handler", n.handler), ("everOut", n.everOut), ("out", jNats n.out)]).toArray),
    ("pendRel", jNats s.pendRel),
    ("pendEdge", Json.arr (s.pendEdge.map fun (a, b) => Json.arr #[(a : Json), (b : Json)]).toArray)]

def handle : Handler := fun req => do
  let op ← str req "op"
  match op with
  | "replay" => Driver.C04.handle req
  | "replayRelease" =>
    let ls ← listOf decLabel (← field req "labels")
    let (s, bad) := replay Release.init ls 0
    pure <| Json.mkObj [("state", encSt s), ("stuck", match bad with | some i => (i : Json) | none => Json.null)]
  | _ => throw s!"C08: unknown op {op}"

end Driver.C08
