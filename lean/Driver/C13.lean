import Driver.Proto
/-! C13 handler (not implemented yet). -/
namespace Driver.C13
def handle : Handler := fun _ => throw "C13: no model yet"
end Driver.C13
