import Driver.Proto
import ThunderModel.Sql.Codec
/-! C13 handler. Wire forms: kind `"bool" | "float" | "str" | "bytes" | "time" | "enc" | {"int":[bits,signed]}`;
FV `null | {"b":bool} | {"i":[bits,signed,value]} | {"f":t} | {"s":t} | {"y":t} | {"t":t} | {"e":t}`;
DV `null | {"int":v} | {"float":t} | {"bool":b} | {"bytes":t} | {"str":t} | {"time":t}`. -/
open Lean TM.Codec

namespace Driver.C13

def decWidth (n : Nat) : Except String Width :=
  match n with
  | 8 => pure .w8 | 16 => pure .w16 | 32 => pure .w32 | 64 => pure .w64
  | _ => throw "bad width"

def decIKind (a : Array Json) : Except String IKind := do
  let w ← decWidth (← (a[0]?.getD Json.null).getNat?)
  let s ← (a[1]?.getD Json.null).getBool?
  pure ⟨w, s⟩

def decKind (j : Json) : Except String Kind :=
  match j with
  | .str "bool" => pure .bool | .str "float" => pure .float | .str "str" => pure .str
  | .str "bytes" => pure .bytes | .str "time" => pure .time | .str "enc" => pure .enc
  | _ => do
    let a ← (← j.getObjVal? "int").getArr?
    pure (.int (← decIKind a))

def decDesc (j : Json) : Except String Desc := do
  pure { kind := ← decKind (← field j "kind"), ptr := ← bool j "ptr", implicitNull := ← bool j "inull" }

def decFV (j : Json) : Except String FV :=
  match j with
  | .null => pure .nil
  | _ => do
    if let .ok v := j.getObjVal? "b" then return .val (.b (← v.getBool?))
    if let .ok v := j.getObjVal? "f" then return .val (.f (← v.getInt?))
    if let .ok v := j.getObjVal? "s" then return .val (.s (← v.getInt?))
    if let .ok v := j.getObjVal? "y" then return .val (.by (← v.getInt?))
    if let .ok v := j.getObjVal? "t" then return .val (.tm (← v.getInt?))
    if let .ok v := j.getObjVal? "e" then return .val (.e (← v.getInt?))
    let a ← (← j.getObjVal? "i").getArr?
    let k ← decIKind a
    let v ← (a[2]?.getD Json.null).getInt?
    pure (.val (.i k v))

def widthBits : Width → Nat | .w8 => 8 | .w16 => 16 | .w32 => 32 | .w64 => 64

def encFV : FV → Json
  | .nil => .null
  | .val (.b v) => Json.mkObj [("b", v)]
  | .val (.i k v) => Json.mkObj [("i", Json.arr #[(widthBits k.width : Json), k.signed, (v : Json)])]
  | .val (.f t) => Json.mkObj [("f", (t : Json))]
  | .val (.s t) => Json.mkObj [("s", (t : Json))]
  | .val (.by t) => Json.mkObj [("y", (t : Json))]
  | .val (.tm t) => Json.mkObj [("t", (t : Json))]
  | .val (.e t) => Json.mkObj [("e", (t : Json))]

def encDV : DV → Json
  | .null => .null
  | .int v => Json.mkObj [("int", (v : Json))]
  | .float t => Json.mkObj [("float", (t : Json))]
  | .bool b => Json.mkObj [("bool", b)]
  | .bytes t => Json.mkObj [("bytes", (t : Json))]
  | .str t => Json.mkObj [("str", (t : Json))]
  | .time t => Json.mkObj [("time", (t : Json))]

def decRep (s : String) : Except String Rep :=
  match s with
  | "driver" => pure .driver | "text" => pure .text | "binlog" => pure .binlog
  | _ => throw "bad rep"

def encErr : Err → String | .coerce => "coerce" | .parse => "parse" | .nilNonPtr => "nilNonPtr"

def jRes (r : Except Err (List FV)) : Json :=
  match r with
  | .ok l => Json.mkObj [("ok", jList encFV l)]
  | .error e => Json.mkObj [("err", encErr e)]

def handle : Handler := fun req => do
  let op ← str req "op"
  match op with
  | "row" =>
    let ds ← listOf decDesc (← field req "descs")
    let vs ← listOf decFV (← field req "vals")
    let dvs := unbuild ds vs
    pure <| Json.mkObj [
      ("dvs", jList encDV dvs),
      ("driver", jRes (build .driver ds dvs)), ("text", jRes (build .text ds dvs)), ("binlog", jRes (build .binlog ds dvs)),
      ("short", jRes (build .driver ds (dvs.drop 1))),
      ("testSelf", test ds vs vs)]
  | "test" =>
    let ds ← listOf decDesc (← field req "descs")
    let f ← listOf decFV (← field req "filter")
    let row ← listOf decFV (← field req "row")
    pure <| Json.mkObj [("match", test ds f row)]
  | "proto" =>
    let d ← decDesc (← field req "desc")
    let x ← decFV (← field req "x")
    let r := viaProto d x
    pure <| Json.mkObj [
      ("res", match r with | .ok y => Json.mkObj [("ok", encFV y)] | .error e => Json.mkObj [("err", encErr e)]),
      ("dv", encDV (value d x)),
      ("dvAfter", match r with | .ok y => encDV (value d y) | .error _ => Json.null)]
  | _ => throw s!"C13: unknown op {op}"

end Driver.C13
