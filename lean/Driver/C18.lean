import Driver.Proto
/-! C18 handler (not implemented yet). -/
namespace Driver.C18
def handle : Handler := fun _ => throw "C18: no model yet"
end Driver.C18
