import Driver.Proto
import ThunderModel.Gql.Args
/-! C18 handler. Wire forms:
ATy: "bool"|"float"|"str"|"bytes"|"time"|"text" | {"int":[bits,signed]} | {"enum":[ids]} | {"ptr":T} | {"opt":T} | {"list":T} | {"struct":[[k,T]]}
JV:  null | {"b":bool} | {"num":[tok,trunc]} | {"str":tok} | {"enum":id} | [JV…] | {"obj":[[k,JV]]}
Lit: {"int":[n,tok]} | {"float":[tok,trunc]} | {"str":tok} | {"enumstr":id} | {"b":bool} | {"enum":id} | {"list":[Lit]} | {"obj":[[k,Lit]]} | {"var":name}
GV:  {"b"}|{"i":[bits,signed,v]}|{"f":tok}|{"s":tok}|{"y":tok}|{"t":tok}|{"e":id}|{"x":tok}|null(nil)|{"p":GV}|{"l":[GV]}|{"o":[[k,GV]]} -/
open Lean TM.Args

namespace Driver.C18

def decWidth (n : Nat) : Except String Width :=
  match n with
  | 8 => pure .w8 | 16 => pure .w16 | 32 => pure .w32 | 64 => pure .w64
  | _ => throw "bad width"

def pairs {α} (f : Json → Except String α) (j : Json) : Except String (List (Nat × α)) := do
  let a ← j.getArr?
  a.toList.mapM fun kv => do
    let p ← kv.getArr?
    pure (← (p[0]?.getD Json.null).getNat?, ← f (p[1]?.getD Json.null))

partial def decTy (j : Json) : Except String ATy :=
  match j with
  | .str "bool" => pure .bool | .str "float" => pure .float | .str "str" => pure .str
  | .str "bytes" => pure .bytes | .str "time" => pure .time | .str "text" => pure .text
  | _ => do
    if let .ok v := j.getObjVal? "int" then
      let a ← v.getArr?
      return .int ⟨← decWidth (← (a[0]?.getD Json.null).getNat?), ← (a[1]?.getD Json.null).getBool?⟩
    if let .ok v := j.getObjVal? "enum" then return .enum (← nats v)
    if let .ok v := j.getObjVal? "ptr" then return .ptr (← decTy v)
    if let .ok v := j.getObjVal? "opt" then return .optional (← decTy v)
    if let .ok v := j.getObjVal? "list" then return .list (← decTy v)
    if let .ok v := j.getObjVal? "struct" then return .struct (← pairs decTy v)
    throw "bad ATy"

partial def decJV (j : Json) : Except String JV :=
  match j with
  | .null => pure .null
  | .arr xs => do pure (.list (← xs.toList.mapM decJV))
  | _ => do
    if let .ok v := j.getObjVal? "b" then return .b (← v.getBool?)
    if let .ok v := j.getObjVal? "num" then
      let a ← v.getArr?
      return .num (← (a[0]?.getD Json.null).getInt?) (← (a[1]?.getD Json.null).getInt?)
    if let .ok v := j.getObjVal? "str" then return .str (← v.getInt?)
    if let .ok v := j.getObjVal? "enum" then return .enumStr (← v.getNat?)
    if let .ok v := j.getObjVal? "obj" then return .obj (← pairs decJV v)
    throw "bad JV"

partial def decLit (j : Json) : Except String Lit := do
  if let .ok v := j.getObjVal? "int" then
    let a ← v.getArr?
    return .int (← (a[0]?.getD Json.null).getInt?) (← (a[1]?.getD Json.null).getInt?)
  if let .ok v := j.getObjVal? "float" then
    let a ← v.getArr?
    return .float (← (a[0]?.getD Json.null).getInt?) (← (a[1]?.getD Json.null).getInt?)
  if let .ok v := j.getObjVal? "str" then return .str (← v.getInt?)
  if let .ok v := j.getObjVal? "enumstr" then return .enumStrLit (← v.getNat?)
  if let .ok v := j.getObjVal? "b" then return .b (← v.getBool?)
  if let .ok v := j.getObjVal? "enum" then return .enum (← v.getNat?)
  if let .ok v := j.getObjVal? "list" then return .list (← (← v.getArr?).toList.mapM decLit)
  if let .ok v := j.getObjVal? "obj" then return .obj (← pairs decLit v)
  if let .ok v := j.getObjVal? "var" then return .var (← v.getNat?)
  throw "bad Lit"

def widthBits : Width → Nat | .w8 => 8 | .w16 => 16 | .w32 => 32 | .w64 => 64

partial def encGV : GV → Json
  | .b v => Json.mkObj [("b", v)]
  | .i k v => Json.mkObj [("i", Json.arr #[(widthBits k.width : Json), k.signed, (v : Json)])]
  | .f t => Json.mkObj [("f", (t : Json))]
  | .s t => Json.mkObj [("s", (t : Json))]
  | .by t => Json.mkObj [("y", (t : Json))]
  | .tm t => Json.mkObj [("t", (t : Json))]
  | .enumv n => Json.mkObj [("e", (n : Json))]
  | .text t => Json.mkObj [("x", (t : Json))]
  | .nil => .null
  | .ptr v => Json.mkObj [("p", encGV v)]
  | .list xs => Json.mkObj [("l", Json.arr (xs.map encGV).toArray)]
  | .struct fs => Json.mkObj [("o", Json.arr (fs.map fun (k, v) => Json.arr #[(k : Json), encGV v]).toArray)]

def decVarDef (j : Json) : Except String VarDef := do
  let d ← match j.getObjVal? "default" with
    | .ok .null => pure none
    | .ok v => do pure (some (← decLit v))
    | .error _ => pure none
  pure ⟨← nat j "name", ← bool j "nonNull", d⟩

def handle : Handler := fun req => do
  let op ← str req "op"
  match op with
  | "args" =>
    -- the whole pipeline for one field: variable defaults, literal → JSON, JSON → Go value
    let τ ← decTy (← field req "type")
    let lit ← decLit (← field req "lit")
    let vars ← pairs decJV (← field req "vars")
    let defs ← listOf decVarDef (← field req "defs")
    let res : Except Err GV := do
      let vars' ← applyDefaults defs vars
      let j ← litJson vars' lit
      parse (τ.depth + 2) τ j
    pure <| Json.mkObj [("res", match res with | .ok v => Json.mkObj [("ok", encGV v)] | .error _ => Json.mkObj [("err", "rejected")])]
  | _ => throw s!"C18: unknown op {op}"

end Driver.C18
