import Driver.Proto
/-! C01 handler (not implemented yet). -/
namespace Driver.C01
def handle : Handler := fun _ => throw "C01: no model yet"
end Driver.C01
