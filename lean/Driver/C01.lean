import Driver.Gql
/-! C01 handler: executor model and reference semantics on one case. -/
open Lean TM TM.Gql Driver.Gql

namespace Driver.C01

def handle : Handler := fun req => do
  let op ← str req "op"
  match op with
  | "exec" =>
    let σ ← decSchema (← field req "schema")
    let root ← nat req "root"
    let data ← decVal (← field req "data")
    let q ← decSelSet (← field req "query")
    let fuel ← nat req "fuel"
    pure <| Json.mkObj [("exec", encRes (execute σ fuel root data q)), ("ref", encRes (reference σ fuel root data q))]
  | _ => throw s!"C01: unknown op {op}"

end Driver.C01
