import Driver.Gql
import ThunderModel.Gql.Prune
/-! C19 handler: executor and reference on the annotated query, reference on the pruned query,
and the pruned query itself. -/
open Lean TM TM.Gql Driver.Gql

namespace Driver.C19

def encDirs (d : Dirs) : Json :=
  Json.mkObj [("skip", match d.skip with | some b => (b : Json) | none => Json.null),
              ("incl", match d.incl with | some b => (b : Json) | none => Json.null)]

mutual
partial def encSel : Sel → Json
  | .mk a n d sub => Json.mkObj [("a", (a : Json)), ("n", (n : Json)), ("d", encDirs d),
      ("sub", match sub with | some s => encSelSet s | none => Json.null)]
partial def encSelSet : SelSet → Json
  | .mk sels frags => Json.mkObj [("sels", Json.arr (sels.map encSel).toArray), ("frags", Json.arr (frags.map encFrag).toArray)]
partial def encFrag : Frag → Json
  | .mk on d set => Json.mkObj [("on", (on : Json)), ("d", encDirs d), ("set", encSelSet set)]
end

def handle : Handler := fun req => do
  let op ← str req "op"
  match op with
  | "exec" =>
    let σ ← decSchema (← field req "schema")
    let root ← nat req "root"
    let data ← decVal (← field req "data")
    let q ← decSelSet (← field req "query")
    let fuel ← nat req "fuel"
    pure <| Json.mkObj [("exec", encRes (execute σ fuel root data q)), ("ref", encRes (reference σ fuel root data q)),
      ("refPruned", encRes (reference σ fuel root data q.prune)), ("pruned", encSelSet q.prune)]
  | _ => throw s!"C19: unknown op {op}"

end Driver.C19
