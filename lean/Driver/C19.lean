import Driver.Proto
/-! C19 handler (not implemented yet). -/
namespace Driver.C19
def handle : Handler := fun _ => throw "C19: no model yet"
end Driver.C19
