import Driver.Proto
/-! C09 handler (not implemented yet). -/
namespace Driver.C09
def handle : Handler := fun _ => throw "C09: no model yet"
end Driver.C09
