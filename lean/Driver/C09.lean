import Driver.Proto
import ThunderModel.Fed.SchemaMerge
/-! C09 handler. Wire: Ty = {"n":[kind,name]} | {"l":Ty} | {"nn":Ty};
TypeDef = {"scalar":true} | {"enum":[names]} | {"union":[names]} | {"object":[[name,{"type":Ty,"args":[[name,Ty]]}]]} | {"input":[[name,Ty]]};
Schema = [[name, TypeDef]] (sorted by name). -/
open Lean TM.SM

namespace Driver.C09

partial def decTy (j : Json) : Except String Ty := do
  if let .ok v := j.getObjVal? "n" then
    let a ← v.getArr?
    return .named (← (a[0]?.getD Json.null).getNat?) (← (a[1]?.getD Json.null).getNat?)
  if let .ok v := j.getObjVal? "l" then return .list (← decTy v)
  if let .ok v := j.getObjVal? "nn" then return .nonNull (← decTy v)
  throw "bad Ty"

partial def encTy : Ty → Json
  | .named k n => Json.mkObj [("n", Json.arr #[(k : Json), (n : Json)])]
  | .list t => Json.mkObj [("l", encTy t)]
  | .nonNull t => Json.mkObj [("nn", encTy t)]

def decPairs {α} (f : Json → Except String α) (j : Json) : Except String (List (Nat × α)) := do
  let a ← j.getArr?
  a.toList.mapM fun kv => do
    let p ← kv.getArr?
    let k ← (p[0]?.getD Json.null).getNat?
    let v ← f (p[1]?.getD Json.null)
    pure (k, v)

def decNames (j : Json) : Except String (List (Nat × Unit)) := do
  let l ← nats j
  pure (l.map (fun n => (n, ())))

def decField (j : Json) : Except String Field := do
  pure ⟨← decTy (← field j "type"), ← decPairs decTy (← field j "args")⟩

def decTypeDef (j : Json) : Except String TypeDef := do
  if let .ok _ := j.getObjVal? "scalar" then return .scalar
  if let .ok v := j.getObjVal? "enum" then return .enum (← decNames v)
  if let .ok v := j.getObjVal? "union" then return .union (← decNames v)
  if let .ok v := j.getObjVal? "object" then return .object (← decPairs decField v)
  if let .ok v := j.getObjVal? "input" then return .input (← decPairs decTy v)
  throw "bad TypeDef"

def encPairs {α} (f : α → Json) (l : List (Nat × α)) : Json :=
  Json.arr (l.map fun (k, v) => Json.arr #[(k : Json), f v]).toArray

def encField (f : Field) : Json := Json.mkObj [("type", encTy f.type), ("args", encPairs encTy f.args)]

def encTypeDef : TypeDef → Json
  | .scalar => Json.mkObj [("scalar", true)]
  | .enum vs => Json.mkObj [("enum", jNats (vs.map (·.1)))]
  | .union vs => Json.mkObj [("union", jNats (vs.map (·.1)))]
  | .object fs => Json.mkObj [("object", encPairs encField fs)]
  | .input fs => Json.mkObj [("input", encPairs encTy fs)]

def decSchema (j : Json) : Except String Schema := decPairs decTypeDef j
def encSchema (s : Schema) : Json := encPairs encTypeDef s

/-- intersection over the versions of each service, then union over the services -/
def mergeAll (services : List (List Schema)) : Option Schema := do
  let per ← services.mapM (mergeSlice false)
  mergeSlice true per

def handle : Handler := fun req => do
  let op ← str req "op"
  match op with
  | "merge" =>
    let services ← listOf (listOf decSchema) (← field req "services")
    pure <| Json.mkObj [("merged", jOpt encSchema (mergeAll services))]
  | "pair" =>
    let a ← decSchema (← field req "a")
    let b ← decSchema (← field req "b")
    let mode ← bool req "union"
    pure <| Json.mkObj [("ab", jOpt encSchema (mergeSchemas mode a b)), ("ba", jOpt encSchema (mergeSchemas mode b a))]
  | _ => throw s!"C09: unknown op {op}"

end Driver.C09
