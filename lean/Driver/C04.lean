import Driver.Proto
import ThunderModel.Reactive.Graph
/-! C04 handler: replay of an event trace of the real `reactive` package in the model. -/
open Lean TM TM.Reactive

namespace Driver.C04

def decLabel (j : Json) : Except String Label := do
  let k ← str j "l"
  let a := (j.getObjValAs? Nat "a").toOption.getD 0
  let b := (j.getObjValAs? Nat "b").toOption.getD 0
  match k with
  | "newNode" => pure .newNode
  | "newRr" => pure .newRr
  | "spawnInv" => pure (.spawnInv a)
  | "strobe" => pure (.strobe a)
  | "addOut" => pure (.addOut a b)
  | "runInv" => pure (.runInv a)
  | "rrEnter" => pure (.rrEnter a b)
  | "rrSkip" => pure (.rrSkip a)
  | "rrExitOk" => pure (.rrExitOk a)
  | "rrExitFail" => pure (.rrExitFail a)
  | "rrExitRetry" => pure (.rrExitRetry a)
  | "rrCancel" => pure (.rrCancel a)
  | "rrStop" => pure (.rrStop a)
  | _ => throw s!"bad label {k}"

/-- run as far as possible; the index of the first disabled label, if any -/
def replay : St → List Label → Nat → St × Option Nat
  | s, [], _ => (s, none)
  | s, l :: ls, i => match step s l with
      | some s' => replay s' ls (i + 1)
      | none => (s, some i)

def encSt (s : St) : Json :=
  Json.mkObj [
    ("invalidated", Json.arr (s.nodes.map fun n => (n.invalidated : Json)).toArray),
    ("fired", Json.arr (s.nodes.map fun n => (n.fired : Json)).toArray),
    ("rrs", Json.arr (s.rrs.map fun r => Json.mkObj [
      ("comp", match r.comp with | some c => (c : Json) | none => Json.null),
      ("inRun", match r.inRun with | some c => (c : Json) | none => Json.null),
      ("cancelled", r.cancelled), ("stopped", r.stopped), ("failed", r.failed), ("runs", (r.runs : Nat))]).toArray),
    ("pendingInv", jNats s.pendingInv), ("pendingRun", jNats s.pendingRun)]

def handle : Handler := fun req => do
  let op ← str req "op"
  match op with
  | "replay" =>
    let ls ← listOf decLabel (← field req "labels")
    let (s, bad) := replay init ls 0
    pure <| Json.mkObj [("state", encSt s), ("stuck", match bad with | some i => (i : Json) | none => Json.null)]
  | _ => throw s!"C04: unknown op {op}"

end Driver.C04
