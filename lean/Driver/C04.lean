import Driver.Proto
/-! C04 handler (not implemented yet). -/
namespace Driver.C04
def handle : Handler := fun _ => throw "C04: no model yet"
end Driver.C04
