import Driver.Proto
/-! C14 handler (not implemented yet). -/
namespace Driver.C14
def handle : Handler := fun _ => throw "C14: no model yet"
end Driver.C14
