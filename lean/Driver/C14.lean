import Driver.Gql
import ThunderModel.Gql.Conform
/-! C14 handler: verdicts of validation and conformance of a response. -/
open Lean TM TM.Gql Driver.Gql

namespace Driver.C14

partial def decJ (j : Json) : Except String J :=
  match j with
  | .null => pure .null
  | .arr a => do pure (.arr (← a.toList.mapM decJ))
  | .obj _ =>
    match j.getObjVal? "s" with
    | .ok v => do pure (.sc (← v.getInt?))
    | .error _ =>
      match j.getObjVal? "o" with
      | .ok (.arr kvs) => do
          let l ← kvs.toList.mapM fun kv => do
            let a ← kv.getArr?
            let k ← (a[0]?.getD Json.null).getNat?
            let v ← decJ (a[1]?.getD Json.null)
            pure (k, v)
          pure (.obj l)
      | _ => throw "bad J"
  | _ => throw "bad J"

def handle : Handler := fun req => do
  let op ← str req "op"
  match op with
  | "verdict" =>
    let σ ← decSchema (← field req "schema")
    let root ← nat req "root"
    let q ← decSelSet (← field req "query")
    let fuel ← nat req "fuel"
    pure <| Json.mkObj [("validate", validate σ fuel (.object root) (some q)), ("noConflict", noConflict σ fuel (.object root) (some q)),
      ("validF", validF σ fuel (.object root) (some q))]
  | "conform" =>
    let σ ← decSchema (← field req "schema")
    let root ← nat req "root"
    let data ← decVal (← field req "data")
    let q ← decSelSet (← field req "query")
    let fuel ← nat req "fuel"
    let resp ← decJ (← field req "response")
    -- the root object carries no key entry
    let σ' : Schema := { σ with objects := σ.objects.map fun (n, od) => if n = root then (n, { od with key := none }) else (n, od) }
    pure <| Json.mkObj [("conforms", conforms σ' fuel (.object root) (some q) resp),
      ("wellTyped", wellTyped σ fuel (.object root) data),
      ("shapeOk", shapeOk σ fuel (.object root) (some q) data),
      ("exec", encRes (execute σ fuel root data q))]
  | _ => throw s!"C14: unknown op {op}"

end Driver.C14
