import Driver.Proto
import ThunderModel.Gql.Exec
/-! Shared wire decoding for the GraphQL execution family (C01, C14, C16, C19).
Ty: "scalar" | {"list":T} | {"nn":T} | {"obj":n} | {"union":n}
FieldDef: {"name":n,"ty":T,"mode":"inline"|"external"|"expensive"|"batch"|"fallbackT"|"fallbackF","par":k|null}
Schema: {"objects":[[n,{"fields":[FieldDef],"key":k|null}]],"unions":[[n,[members]]]}
Val: null | {"s":v} | {"l":[Val]} | {"o":[typ,[[k,Val]]]} | {"fail":[code,safe]}
SelSet: {"sels":[Sel],"frags":[Frag]};  Sel: {"a":alias,"n":name,"d":Dirs,"sub":SelSet|null};  Frag: {"on":n,"d":Dirs,"set":SelSet}
Dirs: {"skip":bool|null,"incl":bool|null}
J (out): null | {"s":v} | [J] | {"o":[[k,J]]} -/
open Lean TM TM.Gql

namespace Driver.Gql

partial def decTy (j : Json) : Except String Ty :=
  match j with
  | .str "scalar" => pure .scalar
  | _ => do
    if let .ok v := j.getObjVal? "list" then return .list (← decTy v)
    if let .ok v := j.getObjVal? "nn" then return .nonNull (← decTy v)
    if let .ok v := j.getObjVal? "obj" then return .object (← v.getNat?)
    if let .ok v := j.getObjVal? "union" then return .union (← v.getNat?)
    throw "bad Ty"

def decMode (s : String) : Except String Mode :=
  match s with
  | "inline" => pure .inline | "external" => pure .external | "expensive" => pure .expensive
  | "batch" => pure .batch | "fallbackT" => pure (.fallback true) | "fallbackF" => pure (.fallback false)
  | _ => throw "bad mode"

def optNat (j : Json) (k : String) : Except String (Option Nat) :=
  match j.getObjVal? k with
  | .ok .null => pure none
  | .ok v => do pure (some (← v.getNat?))
  | .error _ => pure none

def optBool (j : Json) (k : String) : Except String (Option Bool) :=
  match j.getObjVal? k with
  | .ok .null => pure none
  | .ok v => do pure (some (← v.getBool?))
  | .error _ => pure none

def decFieldDef (j : Json) : Except String FieldDef := do
  pure { name := ← nat j "name", ty := ← decTy (← field j "ty"), mode := ← decMode (← str j "mode"), parallel := ← optNat j "par",
         src := ← nat j "src" }

def decPairs {α} (f : Json → Except String α) (j : Json) : Except String (List (Nat × α)) := do
  let a ← j.getArr?
  a.toList.mapM fun kv => do
    let p ← kv.getArr?
    pure (← (p[0]?.getD Json.null).getNat?, ← f (p[1]?.getD Json.null))

def decObjDef (j : Json) : Except String ObjDef := do
  pure { fields := ← listOf decFieldDef (← field j "fields"), key := ← optNat j "key" }

def decSchema (j : Json) : Except String Schema := do
  pure { objects := ← decPairs decObjDef (← field j "objects"), unions := ← decPairs nats (← field j "unions") }

partial def decVal (j : Json) : Except String Val :=
  match j with
  | .null => pure .null
  | _ => do
    if let .ok v := j.getObjVal? "s" then return .sc (← v.getInt?)
    if let .ok v := j.getObjVal? "l" then return .list (← (← v.getArr?).toList.mapM decVal)
    if let .ok v := j.getObjVal? "fail" then
      let a ← v.getArr?
      return .fail (← (a[0]?.getD Json.null).getNat?) (← (a[1]?.getD Json.null).getBool?)
    let a ← (← j.getObjVal? "o").getArr?
    let typ ← (a[0]?.getD Json.null).getNat?
    let fs ← decPairs decVal (a[1]?.getD Json.null)
    pure (.obj typ fs)

def decDirs (j : Json) : Except String Dirs := do
  pure { skip := ← optBool j "skip", incl := ← optBool j "incl" }

mutual
partial def decSel (j : Json) : Except String Sel := do
  let sub ← match j.getObjVal? "sub" with
    | .ok .null => pure none
    | .ok v => do pure (some (← decSelSet v))
    | .error _ => pure none
  pure (.mk (← nat j "a") (← nat j "n") (← decDirs (← field j "d")) sub)
partial def decSelSet (j : Json) : Except String SelSet := do
  pure (.mk (← listOf decSel (← field j "sels")) (← listOf decFrag (← field j "frags")))
partial def decFrag (j : Json) : Except String Frag := do
  pure (.mk (← nat j "on") (← decDirs (← field j "d")) (← decSelSet (← field j "set")))
end

partial def encJ : J → Json
  | .null => .null
  | .sc n => Json.mkObj [("s", (n : Json))]
  | .by n => Json.mkObj [("y", (n : Json))]
  | .arr xs => Json.arr (xs.map encJ).toArray
  | .obj kvs => Json.mkObj [("o", Json.arr (kvs.map fun (k, v) => Json.arr #[(k : Json), encJ v]).toArray)]

def encPE : PE → Json
  | .key a => Json.mkObj [("k", (a : Json))]
  | .idx i => Json.mkObj [("i", (i : Json))]

def encRes (r : Except Err J) : Json :=
  match r with
  | .ok j => Json.mkObj [("ok", encJ j)]
  | .error e => Json.mkObj [("err", Json.mkObj [("code", (e.code : Json)), ("safe", e.safe), ("path", jList encPE e.path)])]

end Driver.Gql
