import Driver.Proto
/-! C20 handler (not implemented yet). -/
namespace Driver.C20
def handle : Handler := fun _ => throw "C20: no model yet"
end Driver.C20
