import Driver.Proto
import ThunderModel.Limiter
/-! C20 handler: replays a labelled trace, returning the abstract state after every step. -/
open Lean TM.Limiter

namespace Driver.C20

def decLabel (j : Json) : Except String Label := do
  let a ← j.getArr?
  let name ← (a[0]?.getD Json.null).getStr?
  let i : Nat := ((a[1]?.getD (Json.num 0)).getNat?).toOption.getD 0
  match name with
  | "acquire" => pure .acquire
  | "releaseSwap" => pure (.releaseSwap i)
  | "releaseRecv" => pure (.releaseRecv i)
  | "blockCas" => pure (.blockCas i)
  | "blockRecv" => pure (.blockRecv i)
  | "fDone" => pure (.fDone i)
  | "deferSend" => pure (.deferSend i)
  | "deferCas" => pure (.deferCas i)
  | "giveBack" => pure (.giveBack i)
  | "nestedDone" => pure (.nestedDone i)
  | "noop" => pure .noop
  | _ => throw s!"unknown label {name}"

def statusCode : Status → Nat
  | .acquired => 0 | .blocked => 1 | .released => 2 | .reacquiring => 3

def snap (s : St) : Json :=
  Json.mkObj [("chan", (s.chan : Json)), ("statuses", jNats (s.holders.map (fun h => statusCode h.status))),
    ("running", (running s : Json)), ("allReleased", allReleased s)]

def replay (s : St) : List Label → List Json
  | [] => []
  | l :: ls =>
      match step? s l with
      | none => [Json.mkObj [("enabled", false)]]
      | some s' => Json.mkObj [("enabled", true), ("state", snap s')] :: replay s' ls

def handle : Handler := fun req => do
  let op ← str req "op"
  match op with
  | "run" =>
    let cap ← nat req "cap"
    let ls ← listOf decLabel (← field req "labels")
    pure <| Json.mkObj [("steps", Json.arr (replay (init cap) ls).toArray)]
  | _ => throw s!"C20: unknown op {op}"

end Driver.C20
