import Driver.Proto
/-! C02 handler (not implemented yet). -/
namespace Driver.C02
def handle : Handler := fun _ => throw "C02: no model yet"
end Driver.C02
