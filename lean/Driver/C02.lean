import Driver.C03
import ThunderModel.Subscription
/-! C02 handler: the messages and the client state of a subscription, from the results of its runs. -/
open Lean TM TM.J

namespace Driver.C02

def handle : Handler := fun req => do
  let op ← str req "op"
  match op with
  | "session" =>
    let rs ← listOf Driver.C03.decJ (← field req "results")
    let f := (rs.map depth).foldl max 0 + 1
    let msgs := Sub.messages f .null true rs
    let fin := Sub.session f .null .null true rs
    pure <| Json.mkObj [
      ("messages", Json.arr (msgs.map fun m => match m with | some d => Driver.C03.encJ d | none => Json.mkObj [("none", true)]).toArray),
      ("final", jExcept (fun (p : J × J) => Json.mkObj [("previous", Driver.C03.encJ p.1), ("client", Driver.C03.encJ p.2)]) fin),
      ("wf", rs.all Driver.C03.wf)]
  | _ => throw s!"C02: unknown op {op}"

end Driver.C02
