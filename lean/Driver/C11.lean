import Driver.Proto
import ThunderModel.Pagination
import ThunderModel.PageFilter
/-! C11 handler. -/
open Lean TM.Page

namespace Driver.C11

def optNat (j : Json) (k : String) : Except String (Option Nat) :=
  match j.getObjVal? k with
  | .ok .null => .ok none
  | .ok v => do .ok (some (← v.getNat?))
  | .error _ => .ok none

def optInt (j : Json) (k : String) : Except String (Option Int) :=
  match j.getObjVal? k with
  | .ok .null => .ok none
  | .ok v => do .ok (some (← v.getInt?))
  | .error _ => .ok none

def decNode (j : Json) : Except String Node := do
  let key ← nat j "key"
  let keep ← listOf (·.getBool?) (← field j "keep")
  let sk ← ints (← field j "sort")
  pure { key := key, keep := keep, sortKey := sk }

def decArgs (j : Json) : Except String Args := do
  let sortBy : Option (Option Nat) ←
    match j.getObjVal? "sortBy" with
    | .ok .null => pure none
    | .ok (.str _) => pure (some none)
    | .ok v => do pure (some (some (← v.getNat?)))
    | .error _ => pure none
  pure { first := ← optInt j "first", last := ← optInt j "last", after := ← optNat j "after",
         before := ← optNat j "before", filter := (← bool j "filter"),
         fields := ← nats (← field j "fields"), sortBy := sortBy, desc := (← bool j "desc") }

def encOptNat : Option Nat → Json
  | none => .null
  | some n => (n : Json)

def encResult (r : Result) : Json :=
  Json.mkObj [("edges", jNats r.edges), ("hasNext", r.hasNext), ("hasPrev", r.hasPrev),
    ("start", encOptNat r.startCursor), ("end", encOptNat r.endCursor), ("total", (r.total : Json))]

def encErr : Err → String
  | .negative => "negative" | .firstAndLast => "firstAndLast" | .unknownSort => "unknownSort"

def handle : Handler := fun req => do
  let op ← str req "op"
  match op with
  | "conn" =>
    let nodes ← listOf decNode (← field req "nodes")
    let a ← decArgs (← field req "args")
    let res := connection nodes a
    let l := specList nodes a
    -- S: specPage over the spec list, with the argument checks of the property's wording
    let spec : Except String Result :=
      if nodes.isEmpty then .ok emptyResult else
      match l with
      | .error e => .error (encErr e)
      | .ok l =>
        if intNeg a.first || intNeg a.last then .error "negative"
        else if a.first.isSome && a.last.isSome then .error "firstAndLast"
        else .ok (specPage l (a.first.map Int.toNat) (a.last.map Int.toNat) a.after a.before)
    pure <| Json.mkObj [
      ("res", match res with | .ok r => Json.mkObj [("ok", encResult r)] | .error e => Json.mkObj [("err", encErr e)]),
      ("spec", jExcept encResult spec),
      ("L", match l with | .ok l => jNats l | .error e => Json.mkObj [("err", encErr e)]),
      ("nodup", decide ((nodes.map (·.key)).Nodup))]
  | "walk" =>
    let l ← nats (← field req "L")
    let n ← nat req "n"
    pure <| Json.mkObj [("forward", jNats (walk l n (l.length + 1) none)),
                        ("backward", jNats (walkBack l n (l.length + 1) none))]
  | "filter" =>
    -- the tokens of a filter text and, for each text, whether it passes the default filter
    let ft ← str req "ft"
    let texts ← listOf (·.getStr?) (← field req "texts")
    let toks := tokens ft.toList
    pure <| Json.mkObj [("tokens", jList (fun t => Json.str (String.ofList t)) toks),
                        ("passes", jList (fun (t : String) => Json.bool (passes t.toList toks)) texts)]
  | _ => throw s!"C11: unknown op {op}"

end Driver.C11
