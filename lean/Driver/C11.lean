import Driver.Proto
/-! C11 handler (not implemented yet). -/
namespace Driver.C11
def handle : Handler := fun _ => throw "C11: no model yet"
end Driver.C11
