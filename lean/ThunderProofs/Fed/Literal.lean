import ThunderProofs.Fed.Stitch
/-! Executing the plan tree — run the sub-query for all keys, extract keys along each sub-plan's
path, execute it, stitch result `i` into target `i` — computes the object-by-object form. -/
namespace TM.Fed.Gateway

/-- the store respects the schema's field types: object-valued fields hold objects of the
declared type, other fields hold scalars -/
structure WT (σ : Sch) (st : Store) : Prop where
  ref : ∀ r n r', st r n = .ref r' → σ.child r.t n = some r'.t
  refs : ∀ r n rs r', st r n = .refs rs → some r' ∈ rs → σ.child r.t n = some r'.t
  scalar : ∀ r n, σ.child r.t n = none → st r n = .null ∨ ∃ v, st r n = .sc v

/-- what the remote sub-plan for service `o` returns for a key -/
def remoteH (σ : Sch) (st : Store) (svc t o : Nat) (qs : List Q) : Int → R :=
  fun k => .obj (fusedSels σ st svc o qs ⟨t, k⟩)

def semRemote (σ : Sch) (st : Store) (svc t : Nat) (qs : List Q) : SP :=
  (others σ svc t qs).map fun o => (remoteH σ st svc t o qs, [])

mutual
def semSels (σ : Sch) (st : Store) (cur t want : Nat) : List Q → SP
  | [] => []
  | q :: qs =>
    if σ.choose t cur q = want then semSel σ st want t q ++ semSels σ st cur t want qs
    else semSels σ st cur t want qs
def semSel (σ : Sch) (st : Store) (svc t : Nat) : Q → SP
  | .sel a n kids =>
    match σ.child t n with
    | none => []
    | some ct => SP.push a (semSels σ st svc ct svc kids ++ semRemote σ st svc ct kids)
end

/-! ### small facts -/

theorem svcSels_append (st : Store) (r : Ref) : ∀ l1 l2 : List Q, svcSels st (l1 ++ l2) r = svcSels st l1 r ++ svcSels st l2 r
  | [], _ => rfl
  | q :: l1, l2 => by simp [svcSels, svcSels_append st r l1 l2]

theorem svcSels_fed (st : Store) (r : Ref) : svcSels st [fedSel] r = [(FED, R.sc r.k)] := by
  simp [svcSels, svcSel, fedSel]

theorem keysOf_append (l1 l2 : List (Nat × R)) : keysOf (l1 ++ l2) = keysOf l1 ++ keysOf l2 := by
  simp [keysOf]

theorem keysOf_fusedSels (σ : Sch) (st : Store) (cur want : Nat) (r : Ref) : ∀ qs : List Q,
    ∀ a ∈ keysOf (fusedSels σ st cur want qs r), a ∈ aliases qs
  | [], a, h => by simp [fusedSels, keysOf] at h
  | q :: qs, a, h => by
    rw [aliases_eq] at *
    rw [fusedSels] at h
    by_cases hc : σ.choose r.t cur q = want
    · simp only [hc, if_true, keysOf, List.map_cons, List.mem_cons] at h
      rcases h with h | h
      · rw [fusedSel_fst] at h; simp [h]
      · have := keysOf_fusedSels σ st cur want r qs a h
        rw [aliases_eq] at this
        simp [this]
    · simp only [hc, if_false] at h
      have := keysOf_fusedSels σ st cur want r qs a h
      rw [aliases_eq] at this
      simp [this]

theorem lookup_none_of_not_mem (a : Nat) : ∀ fs : List (Nat × R), a ∉ keysOf fs → lookup a fs = none
  | [], _ => rfl
  | (k, v) :: fs, h => by
    simp only [keysOf, List.map_cons, List.mem_cons, not_or] at h
    simp only [lookup, h.1, if_false]
    exact lookup_none_of_not_mem a fs h.2

/-- remote sub-plans at the object itself: each appends its fields, the key stays visible -/
theorem applyAll_remote (k : Int) (hh : Nat → Int → R) : ∀ (os : List Nat) (fs : List (Nat × R)),
    lookup FED fs = some (.sc k) →
    applyAll (os.map fun o => (hh o, ([] : List Nat))) (.obj fs) = .obj (fs ++ os.flatMap fun o => fieldsOf (hh o k))
  | [], fs, _ => by simp
  | o :: os, fs, hl => by
    simp only [List.map_cons, applyAll_cons, applyAt, hl, List.flatMap_cons]
    rw [applyAll_remote k hh os (fs ++ fieldsOf (hh o k)) (by rw [lookup_append, hl]; rfl)]
    simp [List.append_assoc]

theorem Sem_remote (st : Store) (mkP : Nat → Plan) (mkH : Nat → Int → R) : ∀ os : List Nat,
    (∀ o ∈ os, PlanOK st (mkP o) (mkH o) ∧ (mkP o).path = []) →
    Sem st (os.map mkP) (os.map fun o => (mkH o, []))
  | [], _ => .nil
  | o :: os, h => by
    simp only [List.map_cons]
    have h1 := h o (List.mem_cons_self ..)
    have := Sem.cons h1.1 (Sem_remote st mkP mkH os fun o' ho' => h o' (List.mem_cons_of_mem _ ho'))
    rw [h1.2] at this
    exact this

theorem applyAll_onValue' (sp : SP) (v : FV) (F G : Ref → List (Nat × R))
    (hFG : ∀ r, (v = .ref r ∨ ∃ rs, v = .refs rs ∧ some r ∈ rs) → applyAll sp (.obj (F r)) = .obj (G r)) :
    applyAll sp (onValue v F) = onValue v G := by
  cases v with
  | null => exact applyAll_null sp
  | sc x => exact applyAll_sc sp x
  | ref r => exact hFG r (Or.inl rfl)
  | refs rs =>
    simp only [onValue]
    rw [applyAll_arr]
    congr 1
    simp only [List.map_map]
    apply List.map_congr_left
    intro o ho
    cases o with
    | none => exact applyAll_null sp
    | some r => exact hFG r (Or.inr ⟨rs, rfl, ho⟩)

/-! ### one object: local selections, key, remote sub-plans -/

/-- what is needed of the selections of one object (provided by the induction) -/
structure GroupOK (σ : Sch) (st : Store) (cur t want : Nat) (qs : List Q) : Prop where
  sem : Sem st (planSels σ cur t want qs).2 (semSels σ st cur t want qs)
  eq : ∀ r, r.t = t → ∀ pre extra, (∀ a ∈ aliases qs, a ∉ keysOf pre) →
    applyAll (semSels σ st cur t want qs) (.obj (pre ++ svcSels st (planSels σ cur t want qs).1 r ++ extra)) =
      .obj (pre ++ fusedSels σ st cur want qs r ++ extra)

theorem remote_planOK (σ : Sch) (st : Store) (svc t o : Nat) (qs : List Q) (g : GroupOK σ st svc t o qs) :
    PlanOK st (Plan.mk [] o t (planSels σ svc t o qs).1 (planSels σ svc t o qs).2) (remoteH σ st svc t o qs) := by
  intro keys
  rw [exec, execAfter_sem st _ _ g.sem]
  simp only [List.map_map]
  apply List.map_congr_left
  intro k _
  have := g.eq ⟨t, k⟩ rfl [] [] (by intro a _; simp [keysOf])
  simpa [remoteH] using this

theorem assemble_ok (σ : Sch) (st : Store) (svc t : Nat) (qs : List Q) (hfed : FED ∉ aliases qs)
    (g : ∀ want, GroupOK σ st svc t want qs) :
    let body := assemble svc t (others σ svc t qs) fun want => planSels σ svc t want qs
    let sp := semSels σ st svc t svc qs ++ semRemote σ st svc t qs
    Sem st body.2 sp ∧ ∀ r, r.t = t → applyAll sp (.obj (svcSels st body.1 r)) = .obj (fusedBody σ st svc qs r) := by
  intro body sp
  constructor
  · -- the plans
    show Sem st ((planSels σ svc t svc qs).2 ++ (others σ svc t qs).map fun o =>
      Plan.mk [] o t (planSels σ svc t o qs).1 (planSels σ svc t o qs).2) sp
    apply Sem.append (g svc).sem
    exact Sem_remote st _ (fun o => remoteH σ st svc t o qs) _ fun o _ => ⟨remote_planOK σ st svc t o qs (g o), rfl⟩
  · intro r hr
    show applyAll sp (.obj (svcSels st ((planSels σ svc t svc qs).1 ++
      (if (others σ svc t qs).isEmpty then [] else [fedSel])) r)) = _
    rw [svcSels_append, applyAll_append]
    have h1 := (g svc).eq r hr [] (svcSels st (if (others σ svc t qs).isEmpty then [] else [fedSel]) r)
      (by intro a _; simp [keysOf])
    simp only [List.nil_append] at h1
    rw [h1]
    unfold fusedBody semRemote
    rw [hr]
    by_cases he : (others σ svc t qs).isEmpty = true
    · have : others σ svc t qs = [] := List.isEmpty_iff.mp he
      simp [this, svcSels]
    · simp only [he, Bool.false_eq_true, if_false]
      rw [svcSels_fed]
      have hl : lookup FED (fusedSels σ st svc svc qs r ++ [(FED, R.sc r.k)]) = some (.sc r.k) := by
        rw [lookup_append, lookup_none_of_not_mem]
        · simp [lookup]
        · intro hm; exact hfed (keysOf_fusedSels σ st svc svc r qs FED hm)
      have := applyAll_remote r.k (fun o => remoteH σ st svc t o qs) (others σ svc t qs) _ hl
      rw [this]
      have hrr : (⟨t, r.k⟩ : Ref) = r := by cases r; simp at hr; simp [hr]
      simp [remoteH, fieldsOf, hrr, List.append_assoc]

theorem fed_not_alias {qs : List Q} (h : normL qs) : FED ∉ aliases qs := by
  rw [aliases_eq]
  intro hm
  obtain ⟨q, hq, e⟩ := List.mem_map.mp hm
  have := normL_mem h hq
  cases q with
  | sel a n kids => simp only [normQ] at this; exact this.1 e

/-! ### all levels -/

mutual
theorem selOK (σ : Sch) (st : Store) (wt : WT σ st) : ∀ (q : Q) (svc t : Nat), normQ q →
    Sem st (planSel σ svc t q).2 (semSel σ st svc t q) ∧
    ∀ r, r.t = t → ∀ pre tail, q.alias ∉ keysOf pre →
      applyAll (semSel σ st svc t q) (.obj (pre ++ svcSel st (planSel σ svc t q).1 r :: tail)) =
        .obj (pre ++ fusedSel σ st svc q r :: tail)
  | .sel a n kids, svc, t, hn => by
    simp only [normQ] at hn
    cases hc : σ.child t n with
    | none =>
      simp only [planSel, semSel, hc]
      refine ⟨.nil, ?_⟩
      intro r hr pre tail _
      simp only [applyAll_nil, svcSel, fusedSel, if_neg hn.2.1]
      by_cases ht : n = TYPENAME
      · simp [ht]
      · simp only [ht, if_false]
        have hs := wt.scalar r n (by rw [hr]; exact hc)
        rcases hs with h0 | ⟨v, h0⟩ <;> simp [h0, onValue]
    | some ct =>
      have gk : ∀ want, GroupOK σ st svc ct want kids := fun want => groupOK σ st wt kids svc ct want hn.2.2.1 hn.2.2.2
      have asm := assemble_ok σ st svc ct kids (fed_not_alias hn.2.2.2) gk
      simp only [planSel, semSel, hc]
      refine ⟨Sem.push a asm.1, ?_⟩
      intro r hr pre tail hpre
      simp only [Q.alias] at hpre
      simp only [svcSel, fusedSel, if_neg hn.2.1]
      by_cases ht : n = TYPENAME
      · simp only [ht, if_true]
        rw [applyAll_obj_field a pre tail hpre, applyAll_sc]
      · simp only [ht, if_false]
        rw [applyAll_obj_field a pre tail hpre]
        refine congrArg (fun x => R.obj (pre ++ (a, x) :: tail)) ?_
        apply applyAll_onValue'
        intro r' hr'
        have hrt : r'.t = ct := by
          have : σ.child r.t n = some r'.t := by
            rcases hr' with h1 | ⟨rs, h1, h2⟩
            · exact wt.ref r n r' h1
            · exact wt.refs r n rs r' h1 h2
          rw [hr, hc] at this
          exact (Option.some.inj this).symm
        have := asm.2 r' hrt
        unfold fusedBody at this
        exact this
theorem groupOK (σ : Sch) (st : Store) (wt : WT σ st) : ∀ (qs : List Q) (cur t want : Nat),
    (aliases qs).Nodup → normL qs → GroupOK σ st cur t want qs
  | [], cur, t, want, _, _ => by
    refine ⟨by simp only [planSels, semSels]; exact .nil, ?_⟩
    intro r _ pre extra _
    simp [planSels, semSels, svcSels, fusedSels]
  | q :: qs, cur, t, want, nd, nl => by
    simp only [normL] at nl
    have nd' : q.alias ∉ aliases qs ∧ (aliases qs).Nodup := by
      rw [aliases_eq] at nd ⊢
      simpa using nd
    have ih := groupOK σ st wt qs cur t want nd'.2 nl.2
    have hs := selOK σ st wt q want t nl.1
    by_cases hch : σ.choose t cur q = want
    · refine ⟨?_, ?_⟩
      · simp only [planSels, semSels, hch, if_true]
        exact Sem.append hs.1 ih.sem
      · intro r hr pre extra hpre
        simp only [planSels, semSels, hch, if_true, svcSels]
        rw [fusedSels, hr]
        simp only [hch, if_true]
        rw [applyAll_append]
        have hq : q.alias ∉ keysOf pre := hpre q.alias (by rw [aliases_eq]; simp)
        have e1 := hs.2 r hr pre (svcSels st (planSels σ cur t want qs).1 r ++ extra) hq
        simp only [List.cons_append, List.append_assoc] at e1 ⊢
        rw [e1]
        have e2 := ih.eq r hr (pre ++ [fusedSel σ st want q r]) extra (by
          intro a ha
          rw [keysOf_append]
          simp only [List.mem_append, not_or]
          refine ⟨hpre a (by rw [aliases_eq] at ha ⊢; simp [ha]), ?_⟩
          simp only [keysOf, List.map_cons, List.map_nil, List.mem_singleton, fusedSel_fst]
          intro e; rw [e] at ha; exact nd'.1 ha)
        simpa [List.append_assoc] using e2
    · refine ⟨?_, ?_⟩
      · simp only [planSels, semSels, hch, if_false]
        exact ih.sem
      · intro r hr pre extra hpre
        simp only [planSels, semSels, hch, if_false]
        rw [fusedSels, hr]
        simp only [hch, if_false]
        exact ih.eq r hr pre extra (fun a ha => hpre a (by rw [aliases_eq] at ha ⊢; simp [ha]))
end

/-- **executing the plan computes the object-by-object form** -/
theorem exec_eq_fused (σ : Sch) (st : Store) (wt : WT σ st) (qs : List Q) (hn : Norm qs) (svc t : Nat)
    (path : List Nat) (keys : List Int) :
    exec st (.mk path svc t (planBody σ svc t qs).1 (planBody σ svc t qs).2) keys =
      keys.map fun k => .obj (fusedBody σ st svc qs ⟨t, k⟩) := by
  have asm := assemble_ok σ st svc t qs (fed_not_alias hn.2) fun want => groupOK σ st wt qs svc t want hn.1 hn.2
  rw [exec]
  unfold planBody
  rw [execAfter_sem st _ _ asm.1]
  simp only [List.map_map]
  apply List.map_congr_left
  intro k _
  exact asm.2 ⟨t, k⟩ rfl

theorem gateway_eq_fused (σ : Sch) (st : Store) (wt : WT σ st) (qs : List Q) (hn : Norm qs) (svc : Nat) (r : Ref) :
    gateway σ st svc r qs = dropFed (.obj (fusedBody σ st svc qs r)) := by
  unfold gateway
  simp only
  rw [exec_eq_fused σ st wt qs hn svc r.t [] [r.k]]
  simp

end TM.Fed.Gateway
