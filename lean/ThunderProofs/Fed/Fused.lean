import ThunderModel.Fed.Gateway
/-! The object-by-object form of the gateway's computation answers like the combined server:
whatever the partition of fields over services and whichever service is picked, the JSON object
(as a map from response keys to values, `_federation` removed) is the monolith's. -/
namespace TM.Fed.Gateway

/-- JSON values up to the order of object fields: an object is a map (first entry wins, as `lookup`) -/
inductive D where
  | null
  | sc (v : Int)
  | arr (xs : List D)
  | obj (f : Nat → Option D)

mutual
def den : R → D
  | .null => .null
  | .sc v => .sc v
  | .arr xs => .arr (denL xs)
  | .obj fs => .obj (denF fs)
def denL : List R → List D
  | [] => []
  | x :: xs => den x :: denL xs
def denF : List (Nat × R) → Nat → Option D
  | [], _ => none
  | (k, v) :: r, a => if a = k then some (den v) else denF r a
end

theorem denL_map (xs : List R) : denL xs = xs.map den := by
  induction xs with
  | nil => rfl
  | cons x xs ih => simp [denL, ih]

theorem denF_eq_lookup (fs : List (Nat × R)) (a : Nat) : denF fs a = (lookup a fs).map den := by
  induction fs with
  | nil => rfl
  | cons h t ih =>
    obtain ⟨k, v⟩ := h
    simp only [denF, lookup]
    split <;> simp [ih]

theorem lookup_append (a : Nat) (l1 l2 : List (Nat × R)) :
    lookup a (l1 ++ l2) = (lookup a l1).orElse fun _ => lookup a l2 := by
  induction l1 with
  | nil => simp [lookup]
  | cons h t ih =>
    obtain ⟨k, v⟩ := h
    simp only [List.cons_append, lookup]
    split <;> simp [ih]

theorem lookup_dropFedF (fs : List (Nat × R)) (a : Nat) :
    lookup a (dropFedF fs) = if a = FED then none else (lookup a fs).map dropFed := by
  induction fs with
  | nil => simp [dropFedF, lookup]
  | cons h t ih =>
    obtain ⟨k, v⟩ := h
    simp only [dropFedF, lookup]
    by_cases hk : k = FED
    · simp only [hk, if_true, ih]
      by_cases ha : a = FED <;> simp [ha]
    · simp only [hk, if_false, lookup, ih]
      by_cases ha : a = k
      · subst ha; simp [hk]
      · simp [ha]

/-! ### normalized queries -/

mutual
/-- hereditarily: no response key or field is `_federation`, and the selections of an object have distinct aliases -/
def normQ : Q → Prop
  | .sel a n kids => a ≠ FED ∧ n ≠ FED ∧ (aliases kids).Nodup ∧ normL kids
def normL : List Q → Prop
  | [] => True
  | q :: qs => normQ q ∧ normL qs
def aliases : List Q → List Nat
  | [] => []
  | q :: qs => (match q with | .sel a _ _ => a) :: aliases qs
end

def Norm (qs : List Q) : Prop := (aliases qs).Nodup ∧ normL qs

theorem aliases_eq (qs : List Q) : aliases qs = qs.map Q.alias := by
  induction qs with
  | nil => rfl
  | cons q qs ih => cases q; simp [aliases, Q.alias, ih]

theorem normL_mem {qs : List Q} (h : normL qs) {q : Q} (hq : q ∈ qs) : normQ q := by
  induction qs with
  | nil => cases hq
  | cons x xs ih =>
    simp only [normL] at h
    rcases List.mem_cons.mp hq with rfl | hq
    · exact h.1
    · exact ih h.2 hq

/-! ### lookups in the three evaluations -/

theorem evalSel_fst (st : Store) (q : Q) (r : Ref) : (evalSel st q r).1 = q.alias := by
  cases q with
  | sel a n kids => simp only [evalSel, Q.alias]; split <;> rfl

theorem fusedSel_fst (σ : Sch) (st : Store) (s : Nat) (q : Q) (r : Ref) : (fusedSel σ st s q r).1 = q.alias := by
  cases q with
  | sel a n kids => simp only [fusedSel, Q.alias]; split <;> rfl

theorem evalSel_eta (st : Store) (q : Q) (r : Ref) : evalSel st q r = (q.alias, (evalSel st q r).2) := by
  rw [← evalSel_fst st q r]

theorem fusedSel_eta (σ : Sch) (st : Store) (s : Nat) (q : Q) (r : Ref) :
    fusedSel σ st s q r = (q.alias, (fusedSel σ st s q r).2) := by
  rw [← fusedSel_fst σ st s q r]

theorem lookup_evalSels (st : Store) (r : Ref) (a : Nat) : ∀ qs : List Q,
    lookup a (evalSels st qs r) = (qs.find? fun q => q.alias == a).map fun q => (evalSel st q r).2
  | [] => rfl
  | q :: qs => by
    have ih := lookup_evalSels st r a qs
    rw [evalSels, evalSel_eta]
    simp only [lookup, List.find?_cons]
    by_cases h : a = q.alias
    · simp [h]
    · have : (q.alias == a) = false := by simp; exact fun e => h e.symm
      simp [h, this, ih]

theorem lookup_fusedSels_none (σ : Sch) (st : Store) (cur want : Nat) (r : Ref) (a : Nat) : ∀ qs : List Q,
    (∀ q ∈ qs, q.alias = a → σ.choose r.t cur q ≠ want) →
    lookup a (fusedSels σ st cur want qs r) = none
  | [], _ => rfl
  | q :: qs, h => by
    have ih := lookup_fusedSels_none σ st cur want r a qs fun q' hq' => h q' (List.mem_cons_of_mem _ hq')
    rw [fusedSels]
    by_cases hc : σ.choose r.t cur q = want
    · simp only [hc, if_true]
      rw [fusedSel_eta]
      have : a ≠ q.alias := by
        intro e
        exact h q (List.mem_cons_self ..) e.symm hc
      simp [lookup, this, ih]
    · simp only [hc, if_false]; exact ih

theorem lookup_fusedSels_some (σ : Sch) (st : Store) (cur want : Nat) (r : Ref) : ∀ (qs : List Q) (q : Q),
    (aliases qs).Nodup → q ∈ qs → σ.choose r.t cur q = want →
    lookup q.alias (fusedSels σ st cur want qs r) = some (fusedSel σ st want q r).2
  | [], q, _, hq, _ => by cases hq
  | x :: xs, q, nd, hq, hc => by
    rw [aliases_eq] at nd
    simp only [List.map_cons, List.nodup_cons] at nd
    rw [fusedSels]
    rcases List.mem_cons.mp hq with rfl | hq'
    · simp only [hc, if_true]
      rw [fusedSel_eta]
      simp [lookup]
    · have hne : q.alias ≠ x.alias := by
        intro e
        exact nd.1 (e ▸ List.mem_map_of_mem hq')
      have ih := lookup_fusedSels_some σ st cur want r xs q (by rw [aliases_eq]; exact nd.2) hq' hc
      by_cases hx : σ.choose r.t cur x = want
      · simp only [hx, if_true]
        rw [fusedSel_eta]
        simp only [lookup]
        rw [if_neg hne]
        exact ih
      · simp only [hx, if_false]; exact ih

/-! ### `others` -/

theorem mem_insertSorted (x y : Nat) : ∀ l : List Nat, y ∈ insertSorted x l ↔ y = x ∨ y ∈ l
  | [] => by simp [insertSorted]
  | z :: zs => by
    have ih := mem_insertSorted x y zs
    simp only [insertSorted]
    by_cases h1 : x < z
    · simp [h1]
    · by_cases h2 : x = z
      · subst h2; simp
      · simp only [h1, h2, if_false, List.mem_cons, ih]
        constructor
        · rintro (h | h | h)
          · exact Or.inr (Or.inl h)
          · exact Or.inl h
          · exact Or.inr (Or.inr h)
        · rintro (h | h | h)
          · exact Or.inr (Or.inl h)
          · exact Or.inl h
          · exact Or.inr (Or.inr h)

theorem mem_others (σ : Sch) (svc t : Nat) (o : Nat) : ∀ qs : List Q,
    o ∈ others σ svc t qs ↔ o ≠ svc ∧ ∃ q ∈ qs, σ.choose t svc q = o
  | [] => by simp [others]
  | q :: qs => by
    have ih := mem_others σ svc t o qs
    simp only [others]
    by_cases hc : σ.choose t svc q = svc
    · simp only [hc, if_true, ih, List.mem_cons, exists_eq_or_imp]
      constructor
      · rintro ⟨h1, h2⟩; exact ⟨h1, Or.inr h2⟩
      · rintro ⟨h1, h2 | h2⟩
        · exact absurd h2.symm h1
        · exact ⟨h1, h2⟩
    · simp only [hc, if_false, mem_insertSorted, ih, List.mem_cons, exists_eq_or_imp]
      constructor
      · rintro (h | ⟨h1, h2⟩)
        · exact ⟨by rw [h]; exact hc, Or.inl h.symm⟩
        · exact ⟨h1, Or.inr h2⟩
      · rintro ⟨h1, h2 | h2⟩
        · exact Or.inl h2.symm
        · exact Or.inr ⟨h1, h2⟩

theorem lookup_flatMap_none (a : Nat) (g : Nat → List (Nat × R)) : ∀ os : List Nat,
    (∀ o ∈ os, lookup a (g o) = none) → lookup a (os.flatMap g) = none
  | [], _ => rfl
  | o :: os, h => by
    simp only [List.flatMap_cons, lookup_append, h o (List.mem_cons_self ..), Option.orElse_none]
    exact lookup_flatMap_none a g os fun o' ho' => h o' (List.mem_cons_of_mem _ ho')

theorem lookup_flatMap_some (a : Nat) (g : Nat → List (Nat × R)) (c : Nat) (v : R) (hv : lookup a (g c) = some v) :
    ∀ os : List Nat, (∀ o ∈ os, o ≠ c → lookup a (g o) = none) → c ∈ os → lookup a (os.flatMap g) = some v
  | [], _, hc => by cases hc
  | o :: os, h, hc => by
    simp only [List.flatMap_cons, lookup_append]
    by_cases e : o = c
    · subst e; simp [hv]
    · rw [h o (List.mem_cons_self ..) e]
      simp only [Option.orElse_none]
      rcases List.mem_cons.mp hc with rfl | hc'
      · exact absurd rfl e
      · exact lookup_flatMap_some a g c v hv os (fun o' ho' => h o' (List.mem_cons_of_mem _ ho')) hc'

/-! ### the object level -/

theorem alias_unique {qs : List Q} (nd : (aliases qs).Nodup) {q q' : Q} (hq : q ∈ qs) (hq' : q' ∈ qs)
    (e : q'.alias = q.alias) : q' = q := by
  induction qs with
  | nil => cases hq
  | cons x xs ih =>
    rw [aliases_eq] at nd
    simp only [List.map_cons, List.nodup_cons] at nd
    have nd2 : (aliases xs).Nodup := by rw [aliases_eq]; exact nd.2
    rcases List.mem_cons.mp hq with rfl | hq1 <;> rcases List.mem_cons.mp hq' with rfl | hq1'
    · rfl
    · exact absurd (e ▸ List.mem_map_of_mem hq1') nd.1
    · exact absurd (e ▸ List.mem_map_of_mem hq1) nd.1
    · exact ih nd2 hq1 hq1'

theorem find_alias_none {qs : List Q} {a : Nat} (h : ∀ q ∈ qs, q.alias ≠ a) :
    qs.find? (fun q => q.alias == a) = none := by
  rw [List.find?_eq_none]
  intro q hq
  simpa using h q hq

theorem den_onValue (v : FV) (f g : Ref → List (Nat × R))
    (h : ∀ r', denF (dropFedF (f r')) = denF (g r')) : den (dropFed (onValue v f)) = den (onValue v g) := by
  cases v with
  | null => rfl
  | sc x => rfl
  | ref r' => simp only [onValue, dropFed, den, h r']
  | refs rs =>
    simp only [onValue, dropFed, den]
    congr 1
    induction rs with
    | nil => rfl
    | cons o os ih =>
      simp only [List.map_cons, dropFedL, denL, ih]
      cases o with
      | none => rfl
      | some r' => simp only [dropFed, den, h r']

/-- an object of the gateway's answer is, as a map, the combined server's — given that its
selections' values are -/
theorem obj_eq (σ : Sch) (st : Store) (qs : List Q) (hn : Norm qs)
    (hS : ∀ q ∈ qs, ∀ s r, den (dropFed (fusedSel σ st s q r).2) = den (evalSel st q r).2)
    (svc : Nat) (r : Ref) : denF (dropFedF (fusedBody σ st svc qs r)) = denF (evalSels st qs r) := by
  funext a
  rw [denF_eq_lookup, denF_eq_lookup, lookup_dropFedF, lookup_evalSels]
  by_cases ha : a = FED
  · simp only [ha, if_true]
    rw [find_alias_none]
    · rfl
    · intro q hq
      have := normL_mem hn.2 hq
      cases q with
      | sel a' n kids => simp only [normQ] at this; exact this.1
  · simp only [ha, if_false]
    unfold fusedBody
    simp only [lookup_append]
    have hfed : lookup a (if (others σ svc r.t qs).isEmpty then [] else [(FED, R.sc r.k)]) = none := by
      split
      · rfl
      · simp [lookup, ha]
    rw [hfed]
    cases hf : qs.find? (fun q => q.alias == a) with
    | none =>
      have hno : ∀ q ∈ qs, q.alias ≠ a := by
        intro q hq e
        have := List.find?_eq_none.mp hf q hq
        simp [e] at this
      rw [lookup_fusedSels_none σ st svc svc r a qs (fun q hq e => absurd e (hno q hq))]
      rw [lookup_flatMap_none a _ _ (fun o _ => lookup_fusedSels_none σ st svc o r a qs (fun q hq e => absurd e (hno q hq)))]
      rfl
    | some q =>
      have hq : q ∈ qs := List.mem_of_find?_eq_some hf
      have hqa : q.alias = a := by simpa using List.find?_some hf
      simp only [Option.map_some]
      by_cases hc : σ.choose r.t svc q = svc
      · have := lookup_fusedSels_some σ st svc svc r qs q hn.1 hq hc
        rw [hqa] at this
        rw [this]
        simp only [Option.orElse_some, Option.map_some]
        rw [hS q hq svc r]
      · have hloc : lookup a (fusedSels σ st svc svc qs r) = none := by
          apply lookup_fusedSels_none
          intro q' hq' e
          have : q' = q := alias_unique hn.1 hq hq' (e.trans hqa.symm)
          rw [this]; exact hc
        rw [hloc]
        simp only [Option.orElse_none]
        have hsome := lookup_fusedSels_some σ st svc (σ.choose r.t svc q) r qs q hn.1 hq rfl
        rw [hqa] at hsome
        rw [lookup_flatMap_some a _ (σ.choose r.t svc q) _ hsome]
        · simp only [Option.map_some]
          rw [hS q hq _ r]
        · intro o _ ho
          apply lookup_fusedSels_none
          intro q' hq' e
          have : q' = q := alias_unique hn.1 hq hq' (e.trans hqa.symm)
          rw [this]; exact fun e2 => ho e2.symm
        · exact (mem_others σ svc r.t _ qs).mpr ⟨hc, q, hq, rfl⟩

/-! ### all levels -/

mutual
theorem sel_eq (σ : Sch) (st : Store) : ∀ (q : Q), normQ q → ∀ s r,
    den (dropFed (fusedSel σ st s q r).2) = den (evalSel st q r).2
  | .sel a n kids, hn, s, r => by
    simp only [normQ] at hn
    simp only [fusedSel, evalSel]
    by_cases ht : n = TYPENAME
    · simp [ht, dropFed, den]
    · simp only [ht, if_false]
      apply den_onValue
      intro r'
      exact obj_eq σ st kids ⟨hn.2.2.1, hn.2.2.2⟩ (sels_eq σ st kids hn.2.2.2) s r'
theorem sels_eq (σ : Sch) (st : Store) : ∀ (qs : List Q), normL qs → ∀ q ∈ qs, ∀ s r,
    den (dropFed (fusedSel σ st s q r).2) = den (evalSel st q r).2
  | [], _, q, hq, _, _ => by cases hq
  | x :: xs, hn, q, hq, s, r => by
    simp only [normL] at hn
    rcases List.mem_cons.mp hq with h | hq'
    · rw [h]; exact sel_eq σ st x hn.1 s r
    · exact sels_eq σ st xs hn.2 q hq' s r
end

/-- **the stitched answer is the combined server's**, for every partition (`owners`), custom
selector, fallback pick, starting service, store and normalized query -/
theorem fused_eq_monolith (σ : Sch) (st : Store) (qs : List Q) (hn : Norm qs) (svc : Nat) (r : Ref) :
    den (dropFed (.obj (fusedBody σ st svc qs r))) = den (.obj (evalSels st qs r)) := by
  simp only [dropFed, den]
  rw [obj_eq σ st qs hn (sels_eq σ st qs hn.2) svc r]

end TM.Fed.Gateway
