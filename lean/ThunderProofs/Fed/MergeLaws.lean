import ThunderModel.Fed.SchemaMerge
namespace TM.SM

theorem mergeRef_comm (i : Bool) : ∀ a b, mergeRef i a b = mergeRef i b a := by
  intro a b
  fun_induction mergeRef i a b with
  | case1 a b ih => simp [mergeRef, ih]
  | case2 a k n ih => simp [mergeRef, ih]
  | case3 a b ih => simp [mergeRef, ih]
  | case4 k n b ih => simp [mergeRef, ih]
  | case5 a b ih => simp [mergeRef, ih]
  | case6 k n k' n' h => obtain ⟨rfl, rfl⟩ := h; simp [mergeRef]
  | case7 k n k' n' h =>
    simp only [mergeRef]
    have : ¬(k' = k ∧ n' = n) := fun ⟨a, b⟩ => h ⟨a.symm, b.symm⟩
    simp [this]
  | case8 a b ih => simp [mergeRef, ih]
  | case9 => simp [mergeRef]
  | case10 => simp [mergeRef]

theorem mergeRef_self (i : Bool) : ∀ a, mergeRef i a a = some a := by
  intro a
  induction a with
  | named k n => simp [mergeRef]
  | list a ih => simp [mergeRef, ih]
  | nonNull a ih => simp [mergeRef, ih]

/-- two types merge iff they agree up to non-null modifiers -/
theorem mergeRef_isSome_iff (i : Bool) : ∀ a b, (mergeRef i a b).isSome ↔ erase a = erase b := by
  intro a b
  fun_induction mergeRef i a b with
  | case1 a b ih => simpa [erase] using ih
  | case2 a k n ih => simpa [erase] using ih
  | case3 a b ih => simpa [erase] using ih
  | case4 k n b ih => simpa [erase] using ih
  | case5 a b ih => simpa [erase] using ih
  | case6 k n k' n' h => simp [h, erase]
  | case7 k n k' n' h => simp [h, erase]
  | case8 a b ih => simpa [erase] using ih
  | case9 => simp [erase]
  | case10 => simp [erase]

/-- a type without doubled non-null modifiers (what introspection produces) -/
def WFTy : Ty → Prop
  | .named _ _ => True
  | .list t => WFTy t
  | .nonNull (.nonNull _) => False
  | .nonNull t => WFTy t

/-- the merged type has the common shape, and its top-level nullability follows the rule:
an input is required if either side requires it, an output is non-null only if both sides
guarantee it -/
theorem mergeRef_spec (i : Bool) : ∀ a b m, WFTy a → WFTy b → mergeRef i a b = some m →
    erase m = erase a ∧ WFTy m ∧
    m.isNonNull = (if i then a.isNonNull || b.isNonNull else a.isNonNull && b.isNonNull) := by
  intro a b
  fun_induction mergeRef i a b with
  | case1 a b ih =>
    intro m wa wb h; simp only [Option.map_eq_some_iff] at h
    obtain ⟨x, hx, rfl⟩ := h
    have wa' : WFTy a := by cases a <;> simp_all [WFTy]
    have wb' : WFTy b := by cases b <;> simp_all [WFTy]
    obtain ⟨h1, h2, h3⟩ := ih x wa' wb' hx
    refine ⟨by simpa [erase] using h1, ?_, by cases i <;> simp [Ty.isNonNull]⟩
    cases a <;> cases b <;> cases x <;> simp_all [WFTy, Ty.isNonNull]
  | case2 a k n ih =>
    intro m wa wb h; simp only [Option.map_eq_some_iff] at h
    obtain ⟨x, hx, rfl⟩ := h
    have wa' : WFTy a := by cases a <;> simp_all [WFTy]
    obtain ⟨h1, h2, h3⟩ := ih x wa' wb hx
    cases a <;> cases x <;> cases i <;> simp_all [wrapIf, erase, WFTy, Ty.isNonNull]
  | case3 a b ih =>
    intro m wa wb h; simp only [Option.map_eq_some_iff] at h
    obtain ⟨x, hx, rfl⟩ := h
    have wa' : WFTy a := by cases a <;> simp_all [WFTy]
    obtain ⟨h1, h2, h3⟩ := ih x wa' wb hx
    cases a <;> cases x <;> cases i <;> simp_all [wrapIf, erase, WFTy, Ty.isNonNull]
  | case4 k n b ih =>
    intro m wa wb h; simp only [Option.map_eq_some_iff] at h
    obtain ⟨x, hx, rfl⟩ := h
    have wb' : WFTy b := by cases b <;> simp_all [WFTy]
    obtain ⟨h1, h2, h3⟩ := ih x wa wb' hx
    cases b <;> cases x <;> cases i <;> simp_all [wrapIf, erase, WFTy, Ty.isNonNull]
  | case5 a b ih =>
    intro m wa wb h; simp only [Option.map_eq_some_iff] at h
    obtain ⟨x, hx, rfl⟩ := h
    have wb' : WFTy b := by cases b <;> simp_all [WFTy]
    obtain ⟨h1, h2, h3⟩ := ih x wa wb' hx
    cases b <;> cases x <;> cases i <;> simp_all [wrapIf, erase, WFTy, Ty.isNonNull]
  | case6 k n k' n' h =>
    intro m _ _ hm; obtain ⟨rfl, rfl⟩ := h; simp at hm; subst hm
    cases i <;> simp [erase, WFTy, Ty.isNonNull]
  | case7 k n k' n' h => intro m _ _ hm; simp [h] at hm
  | case8 a b ih =>
    intro m wa wb h; simp only [Option.map_eq_some_iff] at h
    obtain ⟨x, hx, rfl⟩ := h
    obtain ⟨h1, h2, h3⟩ := ih x (by simpa [WFTy] using wa) (by simpa [WFTy] using wb) hx
    cases i <;> simp_all [erase, WFTy, Ty.isNonNull]
  | case9 => intro m _ _ h; cases h
  | case10 => intro m _ _ h; cases h

/-! ## The merge-join -/

theorem mergeNamed_comm {α : Type} (both : α → α → Option α) (single : α → Option Bool)
    (hb : ∀ a b, both a b = both b a) :
    ∀ as bs, mergeNamed both single as bs = mergeNamed both single bs as := by
  intro as bs
  fun_induction mergeNamed both single as bs with
  | case1 => simp [mergeNamed]
  | case2 k a as ih => rw [mergeNamed]; simp [ih]
  | case3 k b bs ih => rw [mergeNamed]; simp [ih]
  | case4 ka a as kb b bs hlt ih =>
    have h1 : ¬ kb < ka := by omega
    rw [mergeNamed.eq_4 both single kb b bs ka a as]
    simp [h1, hlt, ih]
  | case5 ka a as kb b bs hnlt hlt ih =>
    rw [mergeNamed.eq_4 both single kb b bs ka a as]
    simp [hlt, ih]
  | case6 ka a as kb b bs hnlt hnlt' ih =>
    have : ka = kb := by omega
    subst this
    rw [mergeNamed.eq_4 both single ka b bs ka a as]
    simp [hb a b, ih]

theorem mergeNamed_self {α : Type} (both : α → α → Option α) (single : α → Option Bool)
    (l : List (Nat × α)) (hb : ∀ p ∈ l, both p.2 p.2 = some p.2) :
    mergeNamed both single l l = some l := by
  induction l with
  | nil => simp [mergeNamed]
  | cons hd tl ih =>
    obtain ⟨k, a⟩ := hd
    rw [mergeNamed]
    simp [hb (k, a) (by simp), ih (fun p hp => hb p (by simp [hp]))]

/-! ## Lifting to fields, types and schemas -/

theorem mergeInputs_comm (m : Bool) (a b) : mergeInputs m a b = mergeInputs m b a :=
  mergeNamed_comm _ _ (mergeRef_comm true) a b

theorem mergeField_comm (m : Bool) (a b : Field) : mergeField m a b = mergeField m b a := by
  simp [mergeField, mergeRef_comm false a.type b.type, mergeInputs_comm m a.args b.args]

theorem mergeFields_comm (m : Bool) (a b) : mergeFields m a b = mergeFields m b a :=
  mergeNamed_comm _ _ (mergeField_comm m) a b

theorem mergeNames_comm (m : Bool) (a b) : mergeNames m a b = mergeNames m b a :=
  mergeNamed_comm _ _ (fun _ _ => rfl) a b

theorem mergeType_comm (m : Bool) (a b : TypeDef) : mergeType m a b = mergeType m b a := by
  cases a <;> cases b <;>
    simp [mergeType, mergeNames_comm m, mergeFields_comm m, mergeInputs_comm m]
  all_goals first
    | rw [mergeNames_comm]
    | rw [mergeFields_comm]
    | rw [mergeInputs_comm]

/-- **Merging two schemas does not depend on their order** (both modes). -/
theorem mergeSchemas_comm (m : Bool) (a b : Schema) : mergeSchemas m a b = mergeSchemas m b a :=
  mergeNamed_comm _ _ (mergeType_comm m) a b

theorem mergeInputs_self (m : Bool) (a) : mergeInputs m a a = some a :=
  mergeNamed_self _ _ a (fun p _ => mergeRef_self true p.2)

theorem mergeField_self (m : Bool) (a : Field) : mergeField m a a = some a := by
  simp [mergeField, mergeRef_self, mergeInputs_self]

theorem mergeFields_self (m : Bool) (a) : mergeFields m a a = some a :=
  mergeNamed_self _ _ a (fun p _ => mergeField_self m p.2)

theorem mergeNames_self (m : Bool) (a) : mergeNames m a a = some a :=
  mergeNamed_self _ _ a (fun _ _ => rfl)

theorem mergeType_self (m : Bool) (a : TypeDef) : mergeType m a a = some a := by
  cases a <;> simp [mergeType, mergeNames_self, mergeFields_self, mergeInputs_self]

/-- **Merging a schema with itself changes nothing** (a redeploy of the same version). -/
theorem mergeSchemas_self (m : Bool) (a : Schema) : mergeSchemas m a a = some a :=
  mergeNamed_self _ _ a (fun p _ => mergeType_self m p.2)

end TM.SM
