import ThunderProofs.Fed.MergeLaws
/-! Lower bound (intersection) and upper bound (union) of the merge, via a lookup characterisation. -/
namespace TM.SM

/-- strictly increasing keys -/
def Sorted {α : Type} : List (Nat × α) → Prop
  | [] => True
  | [_] => True
  | a :: b :: r => a.1 < b.1 ∧ Sorted (b :: r)

theorem Sorted.tail {α : Type} {a : Nat × α} {r} (h : Sorted (a :: r)) : Sorted r := by
  cases r with
  | nil => trivial
  | cons b r => exact h.2

theorem Sorted.head_lt {α : Type} {a : Nat × α} {r} (h : Sorted (a :: r)) : ∀ p ∈ r, a.1 < p.1 := by
  induction r generalizing a with
  | nil => intro p hp; cases hp
  | cons b r ih =>
    intro p hp
    cases hp with
    | head => exact h.1
    | tail _ hp' => exact Nat.lt_trans h.1 (ih h.2 p hp')

theorem lookup_none_of_lt {α : Type} (k : Nat) (l : List (Nat × α)) (h : ∀ p ∈ l, k < p.1) : lookup k l = none := by
  induction l with
  | nil => rfl
  | cons hd tl ih =>
    obtain ⟨k', a⟩ := hd
    have : k < k' := h (k', a) (by simp)
    have hne : k ≠ k' := by omega
    simp [lookup, hne, ih (fun p hp => h p (by simp [hp]))]

/-- what the merge puts under key `k`, given what the two sides have -/
def slot {α : Type} (both : α → α → Option α) (single : α → Option Bool) : Option α → Option α → Option α
  | some a, some b => both a b
  | some a, none => if single a = some true then some a else none
  | none, some b => if single b = some true then some b else none
  | none, none => none

/-- **Lookup characterisation of the merge-join** (sorted inputs, successful merge). -/
theorem mergeNamed_lookup {α : Type} (both : α → α → Option α) (single : α → Option Bool) :
    ∀ as bs r, Sorted as → Sorted bs → mergeNamed both single as bs = some r →
      ∀ k, lookup k r = slot both single (lookup k as) (lookup k bs) := by
  intro as bs
  fun_induction mergeNamed both single as bs with
  | case1 => intro r _ _ h k; simp at h; subst h; simp [lookup, slot]
  | case2 k' a as ih =>
    intro r sa sb h k
    cases hs : single a with
    | none => simp [hs] at h
    | some keep =>
      cases hr : mergeNamed both single as [] with
      | none => simp [hs, hr] at h
      | some r' =>
        simp [hs, hr] at h
        have := ih r' sa.tail sb hr k
        by_cases hk : k = k'
        · subst hk
          have hn : lookup k as = none := lookup_none_of_lt k as (sa.head_lt)
          rw [hn] at this
          cases keep <;> simp at h <;> subst h <;> simp_all [lookup, slot]
        · cases keep <;> simp at h <;> subst h <;> simp_all [lookup, slot]
  | case3 k' b bs ih =>
    intro r sa sb h k
    cases hs : single b with
    | none => simp [hs] at h
    | some keep =>
      cases hr : mergeNamed both single [] bs with
      | none => simp [hs, hr] at h
      | some r' =>
        simp [hs, hr] at h
        have := ih r' sa sb.tail hr k
        by_cases hk : k = k'
        · subst hk
          have hn : lookup k bs = none := lookup_none_of_lt k bs (sb.head_lt)
          rw [hn] at this
          cases keep <;> simp at h <;> subst h <;> simp_all [lookup, slot]
        · cases keep <;> simp at h <;> subst h <;> simp_all [lookup, slot]
  | case4 ka a as kb b bs hlt ih =>
    intro r sa sb h k
    cases hs : single a with
    | none => simp [hs] at h
    | some keep =>
      cases hr : mergeNamed both single as ((kb, b) :: bs) with
      | none => simp [hs, hr] at h
      | some r' =>
        simp [hs, hr] at h
        have := ih r' sa.tail sb hr k
        by_cases hk : k = ka
        · subst hk
          have hn : lookup k as = none := lookup_none_of_lt k as (sa.head_lt)
          have hn2 : lookup k ((kb, b) :: bs) = none :=
            lookup_none_of_lt k _ (by
              intro p hp
              simp only [List.mem_cons] at hp
              rcases hp with rfl | hp
              · exact hlt
              · exact Nat.lt_trans hlt (sb.head_lt p hp))
          rw [hn, hn2] at this
          cases keep <;> simp at h <;> subst h <;> simp_all [lookup, slot]
        · cases keep <;> simp at h <;> subst h <;> simp_all [lookup, slot]
  | case5 ka a as kb b bs hnlt hlt ih =>
    intro r sa sb h k
    cases hs : single b with
    | none => simp [hs] at h
    | some keep =>
      cases hr : mergeNamed both single ((ka, a) :: as) bs with
      | none => simp [hs, hr] at h
      | some r' =>
        simp [hs, hr] at h
        have := ih r' sa sb.tail hr k
        by_cases hk : k = kb
        · subst hk
          have hn : lookup k bs = none := lookup_none_of_lt k bs (sb.head_lt)
          have hn2 : lookup k ((ka, a) :: as) = none :=
            lookup_none_of_lt k _ (by
              intro p hp
              simp only [List.mem_cons] at hp
              rcases hp with rfl | hp
              · exact hlt
              · exact Nat.lt_trans hlt (sa.head_lt p hp))
          rw [hn, hn2] at this
          cases keep <;> simp at h <;> subst h <;> simp_all [lookup, slot]
        · cases keep <;> simp at h <;> subst h <;> simp_all [lookup, slot]
  | case6 ka a as kb b bs hnlt hnlt' ih =>
    intro r sa sb h k
    have hkk : ka = kb := by omega
    subst hkk
    cases hm : both a b with
    | none => simp [hm] at h
    | some m =>
      cases hr : mergeNamed both single as bs with
      | none => simp [hm, hr] at h
      | some r' =>
        simp [hm, hr] at h
        subst h
        have := ih r' sa.tail sb.tail hr k
        by_cases hk : k = ka
        · subst hk; simp [lookup, slot, hm]
        · simp [lookup, hk, this]

end TM.SM
