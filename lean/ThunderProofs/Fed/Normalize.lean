import ThunderModel.Fed.Normalize
import ThunderProofs.Fed.Literal
/-! The normalizer keeps the meaning of the query: the combined server's answer to the normalized
query is its answer to the raw query (fragments inlined, directives applied per selection, same
response keys merged with all their sub-selections). -/
namespace TM.Fed.Gateway

theorem mem_sortedAliases (a : Nat) : ∀ c : List RSel, a ∈ sortedAliases c ↔ ∃ s ∈ c, s.alias = a
  | [] => by simp [sortedAliases]
  | s :: r => by
    simp only [sortedAliases, mem_insertSorted, mem_sortedAliases a r, List.mem_cons, exists_eq_or_imp]
    constructor
    · rintro (h | h)
      · exact Or.inl h.symm
      · exact Or.inr h
    · rintro (h | h)
      · exact Or.inl h.symm
      · exact Or.inr h

theorem mem_firstAliases (a : Nat) : ∀ c : List RSel, a ∈ firstAliases c ↔ ∃ s ∈ c, s.alias = a
  | [] => by simp [firstAliases]
  | s :: r => by
    simp only [firstAliases, List.mem_cons, List.mem_filter, mem_firstAliases a r, exists_eq_or_imp]
    constructor
    · rintro (h | ⟨h, _⟩)
      · exact Or.inl h.symm
      · exact Or.inr h
    · rintro (h | h)
      · exact Or.inl h.symm
      · by_cases e : a = s.alias
        · exact Or.inl e
        · exact Or.inr ⟨h, by simpa using e⟩

/-- lookup in a list of (key, value of key) pairs -/
theorem lookup_map_key (g : Nat → R) (a : Nat) : ∀ l : List Nat,
    lookup a (l.map fun x => (x, g x)) = if a ∈ l then some (g a) else none
  | [] => by simp [lookup]
  | x :: l => by
    simp only [List.map_cons, lookup, lookup_map_key g a l, List.mem_cons]
    by_cases e : a = x
    · subst e; simp
    · simp [e]

theorem evalSels_map (st : Store) (r : Ref) (mk : Nat → Q) : ∀ l : List Nat,
    evalSels st (l.map mk) r = l.map fun a => evalSel st (mk a) r
  | [] => rfl
  | x :: l => by simp [evalSels, evalSels_map st r mk l]

theorem den_onValue_plain (v : FV) (F G : Ref → List (Nat × R))
    (h : ∀ r', (v = .ref r' ∨ ∃ rs, v = .refs rs ∧ some r' ∈ rs) → denF (F r') = denF (G r')) :
    den (onValue v F) = den (onValue v G) := by
  cases v with
  | null => rfl
  | sc x => rfl
  | ref r' => simp only [onValue, den, h r' (Or.inl rfl)]
  | refs rs =>
    simp only [onValue, den]
    congr 1
    rw [denL_map, denL_map]
    simp only [List.map_map]
    apply List.map_congr_left
    intro o ho
    cases o with
    | none => rfl
    | some r' => simp only [Function.comp, den, h r' (Or.inr ⟨rs, rfl, ho⟩)]

/-- the store agrees with the schema's field types (as `WT`, for a bare `child` function) -/
structure WTc (child : Nat → Nat → Option Nat) (st : Store) : Prop where
  ref : ∀ r n r', st r n = .ref r' → child r.t n = some r'.t
  refs : ∀ r n rs r', st r n = .refs rs → some r' ∈ rs → child r.t n = some r'.t
  scalar : ∀ r n, child r.t n = none → st r n = .null ∨ ∃ v, st r n = .sc v

/-- **normalization keeps the answer** -/
theorem normalize_correct (applies : Nat → Nat → Bool) (child : Nat → Nat → Option Nat) (st : Store)
    (wt : WTc child st) : ∀ (fuel : Nat) (s : RSet) (r : Ref),
    denF (evalSels st (normalize applies child fuel r.t s) r) = denF (evalRaw applies st fuel s r)
  | 0, _, _ => rfl
  | f + 1, s, r => by
    funext a
    rw [denF_eq_lookup, denF_eq_lookup]
    simp only [normalize, evalRaw]
    rw [evalSels_map]
    generalize hc : collect applies r.t (f + 1) s = c
    have hL : ∀ l : List Nat, (l.map fun a => evalSel st (mkSel child (normalize applies child f) r.t a (groupOf a c)) r) =
        l.map fun a => (a, (evalSel st (mkSel child (normalize applies child f) r.t a (groupOf a c)) r).2) := by
      intro l
      apply List.map_congr_left
      intro a _
      rw [evalSel_eta]
      congr 1
      unfold mkSel
      split <;> rfl
    rw [hL, lookup_map_key, lookup_map_key]
    have hm : (a ∈ sortedAliases c) ↔ (a ∈ firstAliases c) := by
      rw [mem_sortedAliases, mem_firstAliases]
    by_cases ha : a ∈ firstAliases c
    · simp only [ha, hm.mpr ha, if_true, Option.map_some]
      congr 1
      unfold mkSel rawVal
      generalize nameOf (groupOf a c) = n
      generalize mergedSub (groupOf a c) = m
      by_cases hn : n = TYPENAME
      · subst hn
        cases hch : child r.t TYPENAME <;> simp [evalSel]
      · simp only [hn, if_false]
        cases hch : child r.t n with
        | none =>
          simp only [evalSel, hn, if_false]
          rcases wt.scalar r n hch with h0 | ⟨v, h0⟩ <;> simp [h0, onValue]
        | some ct =>
          simp only [evalSel, hn, if_false]
          apply den_onValue_plain
          intro r' hr'
          have hrt : r'.t = ct := by
            have : child r.t n = some r'.t := by
              rcases hr' with h1 | ⟨rs, h1, h2⟩
              · exact wt.ref r n r' h1
              · exact wt.refs r n rs r' h1 h2
            rw [hch] at this
            exact (Option.some.inj this).symm
          rw [← hrt]
          exact normalize_correct applies child st wt f m r'
    · have ha' : a ∉ sortedAliases c := fun h => ha (hm.mp h)
      simp [ha, ha']

/-! ### the normalizer's output is normalized -/

mutual
/-- no response key and no field of the raw query is `_federation` -/
def okSel : RSel → Prop
  | .mk a n _ sub => a ≠ FED ∧ n ≠ FED ∧ okSet sub
def okSet : RSet → Prop
  | .mk sels frags => okSels sels ∧ okFrags frags
def okSels : List RSel → Prop
  | [] => True
  | s :: r => okSel s ∧ okSels r
def okFrags : List RFrag → Prop
  | [] => True
  | f :: r => okFrag f ∧ okFrags r
def okFrag : RFrag → Prop
  | .mk _ _ set => okSet set
end

theorem okSels_mem : ∀ {l : List RSel}, okSels l → ∀ x ∈ l, okSel x
  | [], _, x, hx => by cases hx
  | s :: r, h, x, hx => by
    simp only [okSels] at h
    rcases List.mem_cons.mp hx with e | hx'
    · rw [e]; exact h.1
    · exact okSels_mem h.2 x hx'

theorem okSels_of_mem : ∀ {l : List RSel}, (∀ x ∈ l, okSel x) → okSels l
  | [], _ => trivial
  | s :: r, h => ⟨h s (List.mem_cons_self ..), okSels_of_mem fun x hx => h x (List.mem_cons_of_mem _ hx)⟩

theorem okFrags_mem : ∀ {l : List RFrag}, okFrags l → ∀ x ∈ l, okFrag x
  | [], _, x, hx => by cases hx
  | s :: r, h, x, hx => by
    simp only [okFrags] at h
    rcases List.mem_cons.mp hx with e | hx'
    · rw [e]; exact h.1
    · exact okFrags_mem h.2 x hx'

theorem okFrags_of_mem : ∀ {l : List RFrag}, (∀ x ∈ l, okFrag x) → okFrags l
  | [], _ => trivial
  | s :: r, h => ⟨h s (List.mem_cons_self ..), okFrags_of_mem fun x hx => h x (List.mem_cons_of_mem _ hx)⟩

theorem okSet_iff (s : RSet) : okSet s ↔ okSels s.sels ∧ okFrags s.frags := by
  cases s; simp [okSet, RSet.sels, RSet.frags]

theorem okSel_iff (x : RSel) : okSel x ↔ x.alias ≠ FED ∧ x.name ≠ FED ∧ okSet x.sub := by
  cases x; simp [okSel, RSel.alias, RSel.name, RSel.sub]

theorem okFrag_iff (x : RFrag) : okFrag x ↔ okSet x.set := by
  cases x; simp [okFrag, RFrag.set]

theorem collect_ok (applies : Nat → Nat → Bool) (t : Nat) : ∀ (f : Nat) (s : RSet), okSet s →
    ∀ x ∈ collect applies t f s, okSel x
  | 0, _, _, x, hx => by simp [collect] at hx
  | f + 1, s, hs, x, hx => by
    rw [okSet_iff] at hs
    simp only [collect, List.mem_append, List.mem_filter, List.mem_flatMap] at hx
    rcases hx with ⟨hx, _⟩ | ⟨fr, ⟨hfr, _⟩, hx⟩
    · exact okSels_mem hs.1 x hx
    · exact collect_ok applies t f fr.set ((okFrag_iff fr).mp (okFrags_mem hs.2 fr hfr)) x hx

theorem mergedSub_ok {g : List RSel} (h : ∀ x ∈ g, okSel x) : okSet (mergedSub g) := by
  unfold mergedSub
  rw [okSet_iff]
  constructor
  · apply okSels_of_mem
    intro y hy
    simp only [RSet.sels, List.mem_flatMap] at hy
    obtain ⟨x, hx, hy⟩ := hy
    exact okSels_mem ((okSet_iff _).mp ((okSel_iff x).mp (h x hx)).2.2).1 y hy
  · apply okFrags_of_mem
    intro y hy
    simp only [RSet.frags, List.mem_flatMap] at hy
    obtain ⟨x, hx, hy⟩ := hy
    exact okFrags_mem ((okSet_iff _).mp ((okSel_iff x).mp (h x hx)).2.2).2 y hy

theorem insertSorted_sorted (x : Nat) : ∀ l : List Nat, l.Pairwise (· < ·) → (insertSorted x l).Pairwise (· < ·)
  | [], _ => by simp [insertSorted]
  | y :: ys, h => by
    have hy := List.pairwise_cons.mp h
    simp only [insertSorted]
    by_cases h1 : x < y
    · simp only [h1, if_true]
      refine List.pairwise_cons.mpr ⟨?_, h⟩
      intro z hz
      rcases List.mem_cons.mp hz with e | hz'
      · rw [e]; exact h1
      · exact Nat.lt_trans h1 (hy.1 z hz')
    · by_cases h2 : x = y
      · subst h2
        simp only [Nat.lt_irrefl, if_false, if_true]; exact h
      · simp only [h1, h2, if_false]
        refine List.pairwise_cons.mpr ⟨?_, insertSorted_sorted x ys hy.2⟩
        intro z hz
        rcases (mem_insertSorted x z ys).mp hz with e | hz'
        · rw [e]; omega
        · exact hy.1 z hz'

theorem sortedAliases_sorted : ∀ c : List RSel, (sortedAliases c).Pairwise (· < ·)
  | [] => by simp [sortedAliases]
  | s :: r => insertSorted_sorted _ _ (sortedAliases_sorted r)

theorem sortedAliases_nodup (c : List RSel) : (sortedAliases c).Nodup :=
  (sortedAliases_sorted c).imp fun h => Nat.ne_of_lt h

theorem mkSel_alias (child : Nat → Nat → Option Nat) (norm : Nat → RSet → List Q) (t a : Nat) (g : List RSel) :
    (mkSel child norm t a g).alias = a := by
  unfold mkSel; split <;> rfl

theorem aliases_normalize (applies : Nat → Nat → Bool) (child : Nat → Nat → Option Nat) (f t : Nat) (s : RSet) :
    aliases (normalize applies child (f + 1) t s) = sortedAliases (collect applies t (f + 1) s) := by
  rw [aliases_eq]
  simp only [normalize, List.map_map]
  conv => rhs; rw [← List.map_id (sortedAliases _)]
  apply List.map_congr_left
  intro a _
  simp [Function.comp, mkSel_alias]

theorem normL_of_mem : ∀ {l : List Q}, (∀ q ∈ l, normQ q) → normL l
  | [], _ => trivial
  | q :: l, h => ⟨h q (List.mem_cons_self ..), normL_of_mem fun x hx => h x (List.mem_cons_of_mem _ hx)⟩

theorem normalize_norm (applies : Nat → Nat → Bool) (child : Nat → Nat → Option Nat) :
    ∀ (f t : Nat) (s : RSet), okSet s → Norm (normalize applies child f t s)
  | 0, _, _, _ => ⟨by simp [normalize, aliases], trivial⟩
  | f + 1, t, s, hs => by
    refine ⟨by rw [aliases_normalize]; exact sortedAliases_nodup _, ?_⟩
    apply normL_of_mem
    intro q hq
    simp only [normalize, List.mem_map] at hq
    obtain ⟨a, ha, rfl⟩ := hq
    obtain ⟨x, hx, hxa⟩ := (mem_sortedAliases a _).mp ha
    have hok := collect_ok applies t (f + 1) s hs
    have hg : ∀ y ∈ groupOf a (collect applies t (f + 1) s), okSel y := fun y hy => hok y (List.mem_filter.mp hy).1
    have hne : ∃ y ys, groupOf a (collect applies t (f + 1) s) = y :: ys := by
      have : x ∈ groupOf a (collect applies t (f + 1) s) := List.mem_filter.mpr ⟨hx, by simp [hxa]⟩
      cases hgl : groupOf a (collect applies t (f + 1) s) with
      | nil => rw [hgl] at this; cases this
      | cons y ys => exact ⟨y, ys, rfl⟩
    obtain ⟨y, ys, hgy⟩ := hne
    have hy : okSel y := hg y (by rw [hgy]; exact List.mem_cons_self ..)
    have hname : nameOf (groupOf a (collect applies t (f + 1) s)) = y.name := by rw [hgy]; rfl
    have ha0 : a ≠ FED := by rw [← hxa]; exact ((okSel_iff x).mp (hok x hx)).1
    have hn0 : y.name ≠ FED := ((okSel_iff y).mp hy).2.1
    unfold mkSel
    rw [hname]
    cases hch : child t y.name with
    | none => simp [normQ, ha0, hn0, aliases, normL]
    | some ct =>
      have ih := normalize_norm applies child f ct (mergedSub (groupOf a (collect applies t (f + 1) s))) (mergedSub_ok hg)
      simp only [normQ]
      exact ⟨ha0, hn0, ih.1, ih.2⟩

end TM.Fed.Gateway
