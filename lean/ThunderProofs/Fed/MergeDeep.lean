import ThunderProofs.Fed.MergeLaws
/-! Nullability of a merged type reference at every list depth. -/
namespace TM.SM

/-- the type below a top-level non-null modifier -/
def under : Ty → Ty
  | .nonNull t => t
  | t => t

/-- is the reference non-null at list depth `d` (0: the value itself, 1: the elements of the list, ...) -/
def nnAt : Ty → Nat → Bool
  | t, 0 => t.isNonNull
  | t, d + 1 => match under t with
    | .list e => nnAt e d
    | _ => false

theorem under_wrapIf (c : Bool) (t : Ty) (h : t.isNonNull = false) : under (wrapIf c t) = t := by
  cases c <;> cases t <;> simp_all [wrapIf, under, Ty.isNonNull]

/-- merging goes through list elements: the elements of the merged list type are the merge of the elements -/
theorem mergeRef_elems (i : Bool) : ∀ a b m, WFTy a → WFTy b → mergeRef i a b = some m →
    (∀ ea, under a = .list ea → ∃ eb em, under b = .list eb ∧ under m = .list em ∧ mergeRef i ea eb = some em ∧ WFTy ea ∧ WFTy eb) ∧
    ((∀ ea, under a ≠ .list ea) → ∀ em, under m ≠ .list em) := by
  intro a b
  fun_induction mergeRef i a b with
  | case1 a b ih =>
    intro m wa wb h; simp only [Option.map_eq_some_iff] at h
    obtain ⟨x, hx, rfl⟩ := h
    have wa' : WFTy a := by cases a <;> simp_all [WFTy]
    have wb' : WFTy b := by cases b <;> simp_all [WFTy]
    have ha : under a = a := by cases a <;> simp_all [under, WFTy]
    have hb : under b = b := by cases b <;> simp_all [under, WFTy]
    have hxn : x.isNonNull = false := by
      have := (mergeRef_spec i a b x wa' wb' hx).2.2
      cases a <;> cases b <;> cases i <;> simp_all [Ty.isNonNull, WFTy]
    have hx' : under x = x := by cases x <;> simp_all [under, Ty.isNonNull]
    obtain ⟨h1, h2⟩ := ih x wa' wb' hx
    simp only [under] at *
    rw [ha, hb, hx'] at *
    exact ⟨h1, h2⟩
  | case2 a k n ih =>
    intro m wa wb h; simp only [Option.map_eq_some_iff] at h
    obtain ⟨x, hx, rfl⟩ := h
    have wa' : WFTy a := by cases a <;> simp_all [WFTy]
    have ha : under a = a := by cases a <;> simp_all [under, WFTy]
    have hsh := (mergeRef_spec i a (.named k n) x wa' wb hx)
    have hxn : x = .named k n := by
      have h2 := (mergeRef_spec i (.named k n) a x wb wa' (by rw [mergeRef_comm]; exact hx)).1
      have h3 := hsh.2.2
      cases x <;> cases i <;> simp_all [erase, Ty.isNonNull]
      all_goals (cases a <;> simp_all [erase, Ty.isNonNull, WFTy])
    subst hxn
    constructor
    · intro ea hea
      have : erase a = .named k n := by simpa [erase] using hsh.1.symm
      simp only [under] at hea; subst hea
      simp [erase] at this
    · intro _ em hem
      cases i <;> simp [wrapIf, under] at hem
  | case3 a b ih =>
    intro m wa wb h; simp only [Option.map_eq_some_iff] at h
    obtain ⟨x, hx, rfl⟩ := h
    have wa' : WFTy a := by cases a <;> simp_all [WFTy]
    have ha : under a = a := by cases a <;> simp_all [under, WFTy]
    obtain ⟨h1, h2⟩ := ih x wa' wb hx
    have hxn : x.isNonNull = false := by
      have := (mergeRef_spec i a (.list b) x wa' wb hx).2.2
      cases a <;> cases i <;> simp_all [Ty.isNonNull, WFTy]
    have hx' : under x = x := by cases x <;> simp_all [under, Ty.isNonNull]
    have e1 : under (Ty.nonNull a) = a := rfl
    rw [under_wrapIf i x hxn, e1]
    rw [ha, hx'] at h1 h2
    exact ⟨h1, h2⟩
  | case4 k n b ih =>
    intro m wa wb h; simp only [Option.map_eq_some_iff] at h
    obtain ⟨x, hx, rfl⟩ := h
    constructor
    · intro ea hea; simp [under] at hea
    · intro _ em hem
      have wb' : WFTy b := by cases b <;> simp_all [WFTy]
      have hsh := (mergeRef_spec i (.named k n) b x wa wb' hx)
      have : erase x = .named k n := by simpa [erase] using hsh.1
      have hxn : x.isNonNull = false := by
        have := hsh.2.2
        cases b <;> cases i <;> simp_all [Ty.isNonNull, WFTy]
      rw [under_wrapIf i x hxn] at hem
      subst hem
      simp [erase] at this
  | case5 a b ih =>
    intro m wa wb h; simp only [Option.map_eq_some_iff] at h
    obtain ⟨x, hx, rfl⟩ := h
    have wb' : WFTy b := by cases b <;> simp_all [WFTy]
    have hb : under b = b := by cases b <;> simp_all [under, WFTy]
    obtain ⟨h1, h2⟩ := ih x wa wb' hx
    have hxn : x.isNonNull = false := by
      have := (mergeRef_spec i (.list a) b x wa wb' hx).2.2
      cases b <;> cases i <;> simp_all [Ty.isNonNull, WFTy]
    have hx' : under x = x := by cases x <;> simp_all [under, Ty.isNonNull]
    have e1 : under (Ty.nonNull b) = b := rfl
    rw [under_wrapIf i x hxn, e1]
    rw [hb, hx'] at h1
    rw [hx'] at h2
    exact ⟨h1, h2⟩
  | case6 k n k' n' h =>
    intro m _ _ hm; obtain ⟨rfl, rfl⟩ := h; simp at hm; subst hm
    exact ⟨by intro ea h; simp [under] at h, by intro _ em h; simp [under] at h⟩
  | case7 k n k' n' h => intro m _ _ hm; simp [h] at hm
  | case8 a b ih =>
    intro m wa wb h; simp only [Option.map_eq_some_iff] at h
    obtain ⟨x, hx, rfl⟩ := h
    constructor
    · intro ea hea
      simp only [under, Ty.list.injEq] at hea; subst hea
      exact ⟨b, x, rfl, rfl, hx, by simpa [WFTy] using wa, by simpa [WFTy] using wb⟩
    · intro hno; exact absurd rfl (hno a)
  | case9 => intro m _ _ h; cases h
  | case10 => intro m _ _ h; cases h

/-- **Nullability of the merged reference at every list depth**: an input is required at a depth if either
side requires it there, an output is non-null at a depth only if both sides guarantee it there. -/
theorem mergeRef_nnAt (i : Bool) : ∀ (d : Nat) (a b m : Ty), WFTy a → WFTy b → mergeRef i a b = some m →
    nnAt m d = (if i then nnAt a d || nnAt b d else nnAt a d && nnAt b d)
  | 0, a, b, m, wa, wb, h => by simpa [nnAt] using (mergeRef_spec i a b m wa wb h).2.2
  | d + 1, a, b, m, wa, wb, h => by
    obtain ⟨h1, h2⟩ := mergeRef_elems i a b m wa wb h
    obtain ⟨h1', h2'⟩ := mergeRef_elems i b a m wb wa (by rw [mergeRef_comm]; exact h)
    simp only [nnAt]
    cases hu : under a with
    | list ea =>
      obtain ⟨eb, em, hb, hm, hme, wea, web⟩ := h1 ea hu
      rw [hb, hm]
      exact mergeRef_nnAt i d ea eb em wea web hme
    | named k n =>
      have hm : ∀ em, under m ≠ .list em := h2 (by intro ea h'; rw [hu] at h'; cases h')
      have hbn : ∀ eb, under b ≠ .list eb := by
        intro eb hb
        obtain ⟨ea, _, ha, _⟩ := h1' eb hb
        rw [hu] at ha; cases ha
      have e1 : (match under m with | .list e => nnAt e d | _ => false) = false := by
        cases hum : under m with
        | list em => exact absurd hum (hm em)
        | named _ _ => rfl
        | nonNull _ => rfl
      have e2 : (match under b with | .list e => nnAt e d | _ => false) = false := by
        cases hub : under b with
        | list eb => exact absurd hub (hbn eb)
        | named _ _ => rfl
        | nonNull _ => rfl
      rw [e1, e2]; cases i <;> simp
    | nonNull t =>
      -- impossible for a well-formed reference
      exfalso
      cases a with
      | named _ _ => simp [under] at hu
      | list _ => simp [under] at hu
      | nonNull a' => simp only [under] at hu; subst hu; simp [WFTy] at wa

end TM.SM
