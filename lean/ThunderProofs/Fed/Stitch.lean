import ThunderProofs.Fed.Fused
/-! Stitching by position is pointwise: when the results handed to `stitch` are, in order, a
function of the keys `extract` collected, every target receives the result for its own key. -/
namespace TM.Fed.Gateway

mutual
/-- what stitching amounts to when result `i` is `h` of key `i`: every object at the end of the
path that carries a federation key `k` gets the fields of `h k` appended -/
def applyAt (h : Int → R) : R → List Nat → R
  | .null, _ => .null
  | .sc v, _ => .sc v
  | .arr xs, p => .arr (applyAtL h xs p)
  | .obj fs, [] => match lookup FED fs with
    | some (.sc k) => .obj (fs ++ fieldsOf (h k))
    | _ => .obj fs
  | .obj fs, a :: p => .obj (applyAtF h fs a p)
def applyAtL (h : Int → R) : List R → List Nat → List R
  | [], _ => []
  | x :: xs, p => applyAt h x p :: applyAtL h xs p
def applyAtF (h : Int → R) : List (Nat × R) → Nat → List Nat → List (Nat × R)
  | [], _, _ => []
  | (k, v) :: r, a, p => if a = k then (k, applyAt h v p) :: r else (k, v) :: applyAtF h r a p
end

theorem applyAtL_map (h : Int → R) (p : List Nat) : ∀ xs : List R, applyAtL h xs p = xs.map fun x => applyAt h x p
  | [] => rfl
  | x :: xs => by simp [applyAtL, applyAtL_map h p xs]

mutual
theorem stitch_pointwise (h : Int → R) : ∀ (x : R) (p : List Nat) (more : List R),
    stitch x p ((extract x p).map h ++ more) = (applyAt h x p, more)
  | .null, _, _ => by simp [stitch, extract, applyAt]
  | .sc _, _, _ => by simp [stitch, extract, applyAt]
  | .arr xs, p, more => by
    simp only [stitch, extract, applyAt]
    rw [stitchL_pointwise h xs p more]
  | .obj fs, [], more => by
    simp only [stitch, extract, applyAt]
    cases hl : lookup FED fs with
    | none => simp
    | some v =>
      cases v with
      | sc k => simp
      | null => simp
      | arr _ => simp
      | obj _ => simp
  | .obj fs, a :: p, more => by
    simp only [stitch, extract, applyAt]
    rw [stitchF_pointwise h fs a p more]
theorem stitchL_pointwise (h : Int → R) : ∀ (xs : List R) (p : List Nat) (more : List R),
    stitchL xs p ((extractL xs p).map h ++ more) = (applyAtL h xs p, more)
  | [], _, _ => by simp [stitchL, extractL, applyAtL]
  | x :: xs, p, more => by
    simp only [stitchL, extractL, applyAtL, List.map_append, List.append_assoc]
    rw [stitch_pointwise h x p ((extractL xs p).map h ++ more)]
    simp only
    rw [stitchL_pointwise h xs p more]
theorem stitchF_pointwise (h : Int → R) : ∀ (fs : List (Nat × R)) (a : Nat) (p : List Nat) (more : List R),
    stitchF fs a p ((extractF fs a p).map h ++ more) = (applyAtF h fs a p, more)
  | [], _, _, _ => by simp [stitchF, extractF, applyAtF]
  | (k, v) :: r, a, p, more => by
    simp only [stitchF, extractF, applyAtF]
    by_cases e : a = k
    · simp only [e, if_true]
      rw [stitch_pointwise h v p more]
    · simp only [e, if_false]
      rw [stitchF_pointwise h r a p more]
end

/-- a plan whose execution is a function of the key -/
def PlanOK (st : Store) (P : Plan) (h : Int → R) : Prop := ∀ keys, exec st P keys = keys.map h

/-- semantic counterpart of a list of sub-plans: per plan, what it returns for a key, and its path -/
abbrev SP := List ((Int → R) × List Nat)

def applyAll (sp : SP) (x : R) : R := sp.foldl (fun x hp => applyAt hp.1 x hp.2) x

@[simp] theorem applyAll_nil (x : R) : applyAll [] x = x := rfl
theorem applyAll_cons (hp : (Int → R) × List Nat) (sp : SP) (x : R) :
    applyAll (hp :: sp) x = applyAll sp (applyAt hp.1 x hp.2) := rfl

inductive Sem (st : Store) : List Plan → SP → Prop
  | nil : Sem st [] []
  | cons {P ps h sp} : PlanOK st P h → Sem st ps sp → Sem st (P :: ps) ((h, P.path) :: sp)

theorem execAfter_sem (st : Store) : ∀ (ps : List Plan) (sp : SP), Sem st ps sp → ∀ res : List R,
    execAfter st ps res = res.map (applyAll sp)
  | _, _, .nil, res => by
    have : (applyAll ([] : SP)) = id := by funext x; rfl
    simp [execAfter, this]
  | _, _, .cons (P := P) (ps := ps) (h := h) (sp := sp) ok rest, res => by
    rw [execAfter]
    rw [ok (extractL res P.path)]
    have := stitchL_pointwise h res P.path []
    simp only [List.append_nil] at this
    rw [this]
    simp only
    rw [execAfter_sem st ps sp rest, applyAtL_map]
    simp only [List.map_map]
    apply List.map_congr_left
    intro x _
    simp [Function.comp_def, applyAll_cons]

theorem Sem.append {st : Store} : ∀ {ps1 ps2 : List Plan} {sp1 sp2 : SP}, Sem st ps1 sp1 → Sem st ps2 sp2 →
    Sem st (ps1 ++ ps2) (sp1 ++ sp2)
  | _, _, _, _, .nil, h2 => by simpa using h2
  | _, _, _, _, .cons ok rest, h2 => by
    simp only [List.cons_append]
    exact .cons ok (Sem.append rest h2)

theorem applyAll_append (sp1 sp2 : SP) (x : R) : applyAll (sp1 ++ sp2) x = applyAll sp2 (applyAll sp1 x) := by
  simp [applyAll, List.foldl_append]

/-- `exec` does not look at the plan's own path -/
theorem exec_push (st : Store) (a : Nat) (P : Plan) (keys : List Int) : exec st (P.push a) keys = exec st P keys := by
  cases P with
  | mk p s t sel after => simp [Plan.push, exec]

theorem PlanOK.push {st : Store} {P : Plan} {h : Int → R} (ok : PlanOK st P h) (a : Nat) : PlanOK st (P.push a) h := by
  intro keys; rw [exec_push]; exact ok keys

theorem Plan.push_path (a : Nat) (P : Plan) : (P.push a).path = a :: P.path := by
  cases P; rfl

def SP.push (a : Nat) (sp : SP) : SP := sp.map fun hp => (hp.1, a :: hp.2)

theorem Sem.push {st : Store} (a : Nat) : ∀ {ps : List Plan} {sp : SP}, Sem st ps sp →
    Sem st (ps.map (Plan.push a)) (SP.push a sp)
  | _, _, .nil => .nil
  | _, _, .cons (P := P) ok rest => by
    simp only [List.map_cons, SP.push]
    have := Sem.cons (ok.push a) (Sem.push a rest)
    rw [Plan.push_path] at this
    exact this

/-! ### `applyAt` through an object's fields -/

def keysOf (fs : List (Nat × R)) : List Nat := fs.map (·.1)

theorem applyAtF_skip (h : Int → R) (a : Nat) (p : List Nat) (v : R) (tail : List (Nat × R)) :
    ∀ pre : List (Nat × R), a ∉ keysOf pre →
    applyAtF h (pre ++ (a, v) :: tail) a p = pre ++ (a, applyAt h v p) :: tail
  | [], _ => by simp [applyAtF]
  | (k, w) :: pre, hn => by
    simp only [keysOf, List.map_cons, List.mem_cons, not_or] at hn
    simp only [List.cons_append, applyAtF, hn.1, if_false]
    rw [applyAtF_skip h a p v tail pre hn.2]

theorem applyAll_obj_field (a : Nat) (pre tail : List (Nat × R)) (hn : a ∉ keysOf pre) : ∀ (sp : SP) (v : R),
    applyAll (SP.push a sp) (.obj (pre ++ (a, v) :: tail)) = .obj (pre ++ (a, applyAll sp v) :: tail)
  | [], v => rfl
  | (h, p) :: sp, v => by
    simp only [SP.push, List.map_cons, applyAll, List.foldl_cons, applyAt]
    rw [applyAtF_skip h a p v tail pre hn]
    exact applyAll_obj_field a pre tail hn sp (applyAt h v p)

theorem applyAll_null (sp : SP) : applyAll sp .null = .null := by
  induction sp with
  | nil => rfl
  | cons hp sp ih => simp only [applyAll, List.foldl_cons, applyAt] at ih ⊢; exact ih

theorem applyAll_sc (sp : SP) (v : Int) : applyAll sp (.sc v) = .sc v := by
  induction sp with
  | nil => rfl
  | cons hp sp ih => simp only [applyAll, List.foldl_cons, applyAt] at ih ⊢; exact ih

theorem applyAll_arr (sp : SP) : ∀ xs : List R, applyAll sp (.arr xs) = .arr (xs.map (applyAll sp)) := by
  induction sp with
  | nil =>
    intro xs
    have : (applyAll ([] : SP)) = id := by funext x; rfl
    simp [this]
  | cons hp sp ih =>
    intro xs
    rw [applyAll_cons]
    simp only [applyAt, applyAtL_map]
    rw [ih]
    simp only [List.map_map]
    congr 1

/-- through a rendered value: if the plans turn every object `F r` into `G r`, they turn the rendered value accordingly -/
theorem applyAll_onValue (sp : SP) (v : FV) (F G : Ref → List (Nat × R))
    (hFG : ∀ r, applyAll sp (.obj (F r)) = .obj (G r)) : applyAll sp (onValue v F) = onValue v G := by
  cases v with
  | null => exact applyAll_null sp
  | sc x => exact applyAll_sc sp x
  | ref r => exact hFG r
  | refs rs =>
    simp only [onValue]
    rw [applyAll_arr]
    congr 1
    simp only [List.map_map]
    apply List.map_congr_left
    intro o _
    cases o with
    | none => exact applyAll_null sp
    | some r => exact hFG r

end TM.Fed.Gateway
