import ThunderProofs.Reactive.Release
namespace TM.Release

@[simp] theorem getNode_pendRel (s : St) (p : List Nat) (n : Nat) : getNode { s with pendRel := p } n = getNode s n := rfl
@[simp] theorem getNode_pendEdge (s : St) (p : List (Nat × Nat)) (n : Nat) : getNode { s with pendEdge := p } n = getNode s n := rfl

/-- **A release is only ever decided for a node nothing depends on**: whichever step commits the model to
releasing a node (a call by the rerunner, a registration on a released dependant, the last dependant going
away), at that moment the node has no dependant left. -/
theorem release_decided_only_when_unused (s s' : St) (l : Label) (h : step s l = some s') (n : Nat)
    (hn : n ∈ s'.pendRel) (ho : n ∉ s.pendRel) : (getNode s' n).out = [] := by
  cases l with
  | newNode =>
    simp only [step, Option.some.injEq] at h; subst h; exact absurd hn ho
  | callRelease k =>
    simp only [step] at h
    split at h
    · rename_i hc
      injection h with h; subst h
      simp only [List.mem_cons] at hn
      rcases hn with rfl | hn
      · exact hc.2
      · exact absurd hn ho
    · cases h
  | handleRelease k =>
    simp only [step] at h
    split at h
    · injection h with h; subst h; simp only [setNode_pendRel] at hn; exact absurd hn ho
    · cases h
  | relCS k =>
    simp only [step] at h
    split at h
    · split at h
      · injection h with h; subst h
        exact absurd (List.mem_of_mem_erase hn) ho
      · injection h with h; subst h
        simp only [setNode_pendRel] at hn
        exact absurd (List.mem_of_mem_erase hn) ho
    · cases h
  | addOut k to =>
    simp only [step] at h
    split at h
    · rename_i hc
      split at h
      · -- the dependant is released: no edge
        injection h with h; subst h
        by_cases he : (getNode s k).out.isEmpty = true
        · simp only [he, if_true] at hn ⊢
          simp only [List.mem_cons, setNode_pendRel] at hn
          rcases hn with rfl | hn
          · simp only [getNode_pendRel, getNode_setNode, hc.1, and_self, if_true]
            exact List.isEmpty_iff.mp he
          · exact absurd hn ho
        · simp only [he] at hn
          simp only [setNode_pendRel] at hn; exact absurd hn ho
      · split at h
        · injection h with h; subst h; simp only [setNode_pendRel] at hn; exact absurd hn ho
        · injection h with h; subst h; simp only [setNode_pendRel] at hn; exact absurd hn ho
    · cases h
  | relEdge frm k =>
    simp only [step] at h
    split at h
    · rename_i hc
      injection h with h; subst h
      by_cases he : ((getNode s frm).out.erase k).isEmpty = true
      · simp only [he, if_true] at hn ⊢
        simp only [List.mem_cons, setNode_pendRel] at hn
        rcases hn with rfl | hn
        · have hl : n < ({ s with pendEdge := s.pendEdge.erase (n, k) } : St).nodes.length := hc.1
          simp only [getNode_pendRel, getNode_setNode, hl, and_self, if_true]
          exact List.isEmpty_iff.mp he
        · exact absurd hn ho
      · simp only [he] at hn
        simp only [setNode_pendRel] at hn; exact absurd hn ho
    · cases h

end TM.Release
