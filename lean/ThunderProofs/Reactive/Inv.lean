import ThunderProofs.Reactive.Basic
namespace TM.Reactive

/-- what a live rerunner's outstanding runs must add up to: the first run, or the rerun its
current computation has (or has not) asked for -/
def compFired (s : St) (comp : Option Nat) : Nat :=
  match comp with
  | none => 1
  | some c => (getNode s c).fired

@[simp] theorem compFired_none (s : St) : compFired s none = 1 := rfl
@[simp] theorem compFired_some (s : St) (c : Nat) : compFired s (some c) = (getNode s c).fired := rfl

structure Inv (s : St) : Prop where
  closure : ∀ (n m : Nat), (getNode s n).invalidated = true → m ∈ (getNode s n).out →
    (getNode s m).invalidated = true ∨ m ∈ s.pendingInv
  handlerOnce : ∀ (n : Nat), (getNode s n).fired = if (getNode s n).handler.isSome && (getNode s n).invalidated then 1 else 0
  compOk : ∀ (r c : Nat), (getRr s r).comp = some c → c < s.nodes.length ∧ (getNode s c).handler = some r
  handlerOwner : ∀ (n r : Nat), (getNode s n).handler = some r → (getRr s r).comp = some n ∨ (getNode s n).invalidated = true
  inRunFresh : ∀ (r c : Nat), (getRr s r).inRun = some c → c < s.nodes.length ∧ (getNode s c).handler = none
  inRunInj : ∀ (r r' c : Nat), (getRr s r).inRun = some c → (getRr s r').inRun = some c → r = r'
  inRunLive : ∀ (r c : Nat), (getRr s r).inRun = some c → (getRr s r).stopped = false ∧ (getRr s r).failed = false
  pendingRunBound : ∀ r ∈ s.pendingRun, r < s.rrs.length
  skippedCancelled : ∀ (r : Nat), 0 < (getRr s r).skipped →
    ((getRr s r).cancelled || (getRr s r).stopped || (getRr s r).failed) = true
  account : ∀ (r : Nat), r < s.rrs.length → (getRr s r).stopped = false → (getRr s r).failed = false →
    s.pendingRun.count r + (if (getRr s r).inRun.isSome then 1 else 0) + (getRr s r).skipped = compFired s (getRr s r).comp

theorem inv_init : Inv init := by
  refine ⟨?_, ?_, ?_, ?_, ?_, ?_, ?_, ?_, ?_, ?_⟩ <;> intros <;> simp_all [init, getNode, getRr, compFired]

theorem comp_lt {s : St} {r c : Nat} (h : (getRr s r).comp = some c) : r < s.rrs.length := by
  by_cases hr : r < s.rrs.length
  · exact hr
  · rw [getRr_default s r (Nat.le_of_not_lt hr)] at h; cases h

theorem inRun_lt {s : St} {r c : Nat} (h : (getRr s r).inRun = some c) : r < s.rrs.length := by
  by_cases hr : r < s.rrs.length
  · exact hr
  · rw [getRr_default s r (Nat.le_of_not_lt hr)] at h; cases h

theorem fired_le_one {s : St} (inv : Inv s) (n : Nat) : (getNode s n).fired ≤ 1 := by
  rw [inv.handlerOnce n]; split <;> omega

/-- adding a default node at the end changes no lookup -/
theorem getNode_push (s : St) (j : Nat) : (s.nodes ++ [({} : Node)]).getD j {} = getNode s j := by
  rw [getD_append_one]
  by_cases e : j = s.nodes.length
  · subst e; simp [getNode_default s _ (Nat.le_refl _)]
  · simp [e, getNode]

theorem getRr_push (s : St) (j : Nat) : (s.rrs ++ [({} : Rr)]).getD j {} = getRr s j := by
  rw [getD_append_one]
  by_cases e : j = s.rrs.length
  · subst e; simp [getRr_default s _ (Nat.le_refl _)]
  · simp [e, getRr]

end TM.Reactive
