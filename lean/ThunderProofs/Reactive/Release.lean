import ThunderModel.Reactive.Release
import ThunderProofs.Reactive.Basic
namespace TM.Release
open TM.Reactive (getD_set getD_append_one)

@[simp] theorem getNode_setNode (s : St) (n m : Nat) (v : Node) :
    getNode (setNode s n v) m = if m = n ∧ n < s.nodes.length then v else getNode s m := by
  unfold getNode setNode; exact getD_set _ _ _ _ _

@[simp] theorem setNode_len (s : St) (n : Nat) (v : Node) : (setNode s n v).nodes.length = s.nodes.length := by simp [setNode]
@[simp] theorem setNode_pendRel (s : St) (n : Nat) (v : Node) : (setNode s n v).pendRel = s.pendRel := rfl
@[simp] theorem setNode_pendEdge (s : St) (n : Nat) (v : Node) : (setNode s n v).pendEdge = s.pendEdge := rfl

theorem getNode_default (s : St) (n : Nat) (h : s.nodes.length ≤ n) : getNode s n = {} := by
  simp [getNode, List.getD_eq_getElem?_getD, List.getElem?_eq_none h]

theorem getNode_push (s : St) (j : Nat) : (s.nodes ++ [({} : Node)]).getD j {} = getNode s j := by
  rw [getD_append_one]
  by_cases e : j = s.nodes.length
  · subst e; simp [getNode_default s _ (Nat.le_refl _)]
  · simp [e, getNode]

theorem getNode_of_set (s t : St) (k : Nat) (v : Node) (hk : k < s.nodes.length) (hN : t.nodes = s.nodes.set k v) (j : Nat) :
    getNode t j = if j = k then v else getNode s j := by
  unfold getNode; rw [hN, getD_set]; by_cases e : j = k <;> simp [e, hk]

structure Inv (s : St) : Prop where
  edgeIn : ∀ n m, m ∈ (getNode s n).out → n ∈ (getNode s m).ins
  edgeLive : ∀ n m, m ∈ (getNode s n).out → (getNode s m).released = false ∨ (n, m) ∈ s.pendEdge
  refZero : ∀ n, (getNode s n).everOut = true → (getNode s n).released = false →
    (getNode s n).out ≠ [] ∨ n ∈ s.pendRel
  firedOnce : ∀ n, (getNode s n).fired = if (getNode s n).handler && (getNode s n).released then 1 else 0
  outNodup : ∀ n, (getNode s n).out.Nodup

theorem inv_init : Inv init := by
  refine ⟨?_, ?_, ?_, ?_, ?_⟩ <;> intros <;> simp_all [init, getNode]

/-- a generic frame: a state whose nodes are those of `s` except node `k`, described pointwise -/
theorem mem_erase_ne {α : Type} [DecidableEq α] {a b : α} {l : List α} (h : b ∈ l) (hne : b ≠ a) : b ∈ l.erase a :=
  (List.mem_erase_of_ne hne).mpr h

theorem inv_step (s s' : St) (l : Label) (inv : Inv s) (h : step s l = some s') : Inv s' := by
  cases l with
  | newNode =>
    simp only [step, Option.some.injEq] at h; subst h
    have gn : ∀ j, getNode { s with nodes := s.nodes ++ [{}] } j = getNode s j := fun j => getNode_push s j
    refine ⟨?_, ?_, ?_, ?_, ?_⟩
    · intro n m hm; rw [gn] at hm ⊢; exact inv.edgeIn n m hm
    · intro n m hm; rw [gn] at hm ⊢; exact inv.edgeLive n m hm
    · intro n h1 h2; rw [gn] at h1 h2 ⊢; exact inv.refZero n h1 h2
    · intro n; rw [gn]; exact inv.firedOnce n
    · intro n; rw [gn]; exact inv.outNodup n
  | callRelease n =>
    simp only [step] at h
    split at h
    · injection h with h; subst h
      refine ⟨inv.edgeIn, inv.edgeLive, ?_, inv.firedOnce, inv.outNodup⟩
      intro k h1 h2
      rcases inv.refZero k h1 h2 with h3 | h3
      · exact Or.inl h3
      · exact Or.inr (by simp [h3])
    · cases h
  | handleRelease n =>
    simp only [step] at h
    split at h
    · rename_i hc
      injection h with h; subst h
      have hn := hc.1
      have hh := hc.2
      have gn : ∀ j, getNode (setNode s n { getNode s n with handler := true, fired := if (getNode s n).released then (getNode s n).fired + 1 else (getNode s n).fired }) j =
          if j = n then { getNode s n with handler := true, fired := if (getNode s n).released then (getNode s n).fired + 1 else (getNode s n).fired } else getNode s j := by
        intro j; rw [getNode_setNode]; by_cases e : j = n <;> simp [e, hn]
      refine ⟨?_, ?_, ?_, ?_, ?_⟩
      · intro a b hb
        rw [gn] at hb ⊢
        have hb' : b ∈ (getNode s a).out := by by_cases e : a = n <;> simp_all
        have := inv.edgeIn a b hb'
        by_cases e : b = n <;> simp_all
      · intro a b hb
        rw [gn] at hb ⊢
        have hb' : b ∈ (getNode s a).out := by by_cases e : a = n <;> simp_all
        have := inv.edgeLive a b hb'
        by_cases e : b = n <;> simp_all
      · intro k h1 h2
        rw [gn] at h1 h2 ⊢
        by_cases e : k = n
        · subst e; simp only [if_true] at h1 h2 ⊢; exact inv.refZero k h1 h2
        · simp only [e, if_false] at h1 h2 ⊢; exact inv.refZero k h1 h2
      · intro k
        rw [gn]
        by_cases e : k = n
        · subst e
          have f0 := inv.firedOnce k
          rw [hh] at f0
          simp only [if_true]
          by_cases hr : (getNode s k).released = true <;> simp_all
        · simp only [e, if_false]; exact inv.firedOnce k
      · intro k
        rw [gn]
        by_cases e : k = n
        · subst e; simp only [if_true]; exact inv.outNodup k
        · simp only [e, if_false]; exact inv.outNodup k
    · cases h
  | relCS n =>
    simp only [step] at h
    split at h
    · rename_i hc
      have hn := hc.1
      have hp := hc.2
      by_cases hr : (getNode s n).released = true
      · simp only [hr, if_true, Option.some.injEq] at h; subst h
        refine ⟨inv.edgeIn, inv.edgeLive, ?_, inv.firedOnce, inv.outNodup⟩
        intro k h1 h2
        show _ ∨ k ∈ s.pendRel.erase n
        rcases inv.refZero k h1 h2 with h3 | h3
        · exact Or.inl h3
        · right
          apply mem_erase_ne h3
          intro e; subst e
          have h2' : (getNode s k).released = false := h2
          rw [hr] at h2'; cases h2'
      · have hr' : (getNode s n).released = false := by simpa using hr
        simp only [hr', Bool.false_eq_true, if_false, Option.some.injEq] at h; subst h
        let x' : Node := { getNode s n with released := true, fired := if (getNode s n).handler then (getNode s n).fired + 1 else (getNode s n).fired }
        suffices shape : ∀ t : St, t.nodes = s.nodes.set n x' → t.pendRel = s.pendRel.erase n →
            t.pendEdge = ((getNode s n).ins.map fun f => (f, n)) ++ s.pendEdge → Inv t from shape _ rfl rfl rfl
        intro t hN hR hE
        have gn := getNode_of_set s t n x' hn hN
        refine ⟨?_, ?_, ?_, ?_, ?_⟩
        · intro a b hb
          rw [gn] at hb ⊢
          have hb' : b ∈ (getNode s a).out := by by_cases e : a = n <;> simp_all [x']
          have := inv.edgeIn a b hb'
          by_cases e : b = n <;> simp_all [x']
        · intro a b hb
          rw [gn] at hb
          rw [gn]
          have hb' : b ∈ (getNode s a).out := by by_cases e : a = n <;> simp_all [x']
          rw [hE]
          by_cases e : b = n
          · right
            subst e
            have := inv.edgeIn a b hb'
            simp only [List.mem_append, List.mem_map]
            left; exact ⟨a, this, rfl⟩
          · simp only [e, if_false]
            rcases inv.edgeLive a b hb' with h3 | h3
            · exact Or.inl h3
            · right; simp [h3]
        · intro k h1 h2
          rw [gn] at h1 h2 ⊢
          by_cases e : k = n
          · subst e; simp [x'] at h2
          · simp only [e, if_false] at h1 h2 ⊢
            rw [hR]
            rcases inv.refZero k h1 h2 with h3 | h3
            · exact Or.inl h3
            · exact Or.inr (mem_erase_ne h3 e)
        · intro k
          rw [gn]
          by_cases e : k = n
          · subst e
            have f0 := inv.firedOnce k
            rw [hr'] at f0
            simp only [Bool.and_false] at f0
            simp only [if_true, x']
            by_cases hh : (getNode s k).handler = true <;> simp_all
          · simp only [e, if_false]; exact inv.firedOnce k
        · intro k
          rw [gn]
          by_cases e : k = n
          · subst e; simp only [if_true, x']; exact inv.outNodup k
          · simp only [e, if_false]; exact inv.outNodup k
    · cases h
  | relEdge frm n =>
    simp only [step] at h
    split at h
    · rename_i hc
      have hf := hc.1
      have hp := hc.2
      injection h with h
      have nd := inv.outNodup frm
      have shape : ∀ t : St, t.nodes = s.nodes.set frm { getNode s frm with out := (getNode s frm).out.erase n } →
          t.pendEdge = s.pendEdge.erase (frm, n) →
          (∀ k, k ∈ s.pendRel → k ∈ t.pendRel) →
          (((getNode s frm).out.erase n) = [] → frm ∈ t.pendRel) → Inv t := by
        intro t hN hE hR1 hR2
        have gn := getNode_of_set s t frm _ hf hN
        refine ⟨?_, ?_, ?_, ?_, ?_⟩
        · intro a b hb
          rw [gn] at hb ⊢
          have hb' : b ∈ (getNode s a).out := by
            by_cases e : a = frm
            · rw [e] at hb ⊢; simp only [if_true] at hb; exact List.mem_of_mem_erase hb
            · simpa [e] using hb
          have := inv.edgeIn a b hb'
          by_cases e : b = frm
          · rw [e] at this ⊢; simpa using this
          · simpa [e] using this
        · intro a b hb
          rw [gn] at hb
          rw [gn, hE]
          have rel : (if b = frm then ({ getNode s frm with out := (getNode s frm).out.erase n } : Node) else getNode s b).released = (getNode s b).released := by
            by_cases e3 : b = frm
            · rw [e3]; simp
            · simp [e3]
          rw [rel]
          by_cases e : a = frm
          · rw [e] at hb ⊢
            simp only [if_true] at hb
            have hbn : b ≠ n := by
              intro e2; rw [e2] at hb
              exact (List.Nodup.not_mem_erase nd) hb
            have hb' := List.mem_of_mem_erase hb
            rcases inv.edgeLive frm b hb' with h3 | h3
            · exact Or.inl h3
            · right; exact (List.mem_erase_of_ne (fun e2 => hbn (Prod.mk.inj e2).2)).mpr h3
          · simp only [e, if_false] at hb
            rcases inv.edgeLive a b hb with h3 | h3
            · exact Or.inl h3
            · right; exact (List.mem_erase_of_ne (fun e2 => e (Prod.mk.inj e2).1)).mpr h3
        · intro k h1 h2
          rw [gn] at h1 h2 ⊢
          by_cases e : k = frm
          · rw [e] at h1 h2 ⊢
            simp only [if_true] at h1 h2 ⊢
            by_cases he : ((getNode s frm).out.erase n) = []
            · exact Or.inr (hR2 he)
            · exact Or.inl he
          · simp only [e, if_false] at h1 h2 ⊢
            rcases inv.refZero k h1 h2 with h3 | h3
            · exact Or.inl h3
            · exact Or.inr (hR1 k h3)
        · intro k
          rw [gn]
          by_cases e : k = frm
          · rw [e]; simp only [if_true]; exact inv.firedOnce frm
          · simp only [e, if_false]; exact inv.firedOnce k
        · intro k
          rw [gn]
          by_cases e : k = frm
          · rw [e]; simp only [if_true]; exact nd.erase n
          · simp only [e, if_false]; exact inv.outNodup k
      rw [← h]
      by_cases he : ((getNode s frm).out.erase n).isEmpty = true
      · simp only [he, if_true]
        apply shape
        · rfl
        · rfl
        · intro k hk; show k ∈ frm :: s.pendRel; simp [hk]
        · intro _; show frm ∈ frm :: s.pendRel; simp
      · simp only [he]
        apply shape
        · rfl
        · rfl
        · intro k hk; exact hk
        · intro h0; rw [h0] at he; simp at he
    · cases h
  | addOut n to =>
    simp only [step] at h
    split at h
    · rename_i hc
      obtain ⟨hn, hto, hne⟩ := hc
      by_cases hr : (getNode s to).released = true
      · -- no edge is added
        simp only [hr, if_true, Option.some.injEq] at h
        let x := getNode s n
        have key : Inv { setNode s n { x with everOut := true } with
            pendRel := if x.out.isEmpty then n :: s.pendRel else s.pendRel } := by
          have gn : ∀ j, getNode { setNode s n { x with everOut := true } with
              pendRel := if x.out.isEmpty then n :: s.pendRel else s.pendRel } j = if j = n then { x with everOut := true } else getNode s j := by
            intro j
            show getNode (setNode s n { x with everOut := true }) j = _
            rw [getNode_setNode]; by_cases e : j = n <;> simp [e, hn]
          refine ⟨?_, ?_, ?_, ?_, ?_⟩
          · intro a b hb
            rw [gn] at hb ⊢
            have hb' : b ∈ (getNode s a).out := by by_cases e : a = n <;> simp_all [x]
            have := inv.edgeIn a b hb'
            by_cases e : b = n <;> simp_all [x]
          · intro a b hb
            rw [gn] at hb
            rw [gn]
            have hb' : b ∈ (getNode s a).out := by by_cases e : a = n <;> simp_all [x]
            have := inv.edgeLive a b hb'
            by_cases e : b = n <;> simp_all [x]
          · intro k h1 h2
            rw [gn] at h1 h2 ⊢
            show _ ∨ k ∈ (if x.out.isEmpty then n :: s.pendRel else s.pendRel)
            by_cases e : k = n
            · subst e
              simp only [if_true]
              by_cases he : x.out.isEmpty = true
              · right; simp [he]
              · left; intro h0; simp [x, h0] at he
            · simp only [e, if_false] at h1 h2 ⊢
              rcases inv.refZero k h1 h2 with h3 | h3
              · exact Or.inl h3
              · right; split <;> simp [h3]
          · intro k
            rw [gn]
            by_cases e : k = n
            · subst e; simp only [if_true]; exact inv.firedOnce k
            · simp only [e, if_false]; exact inv.firedOnce k
          · intro k
            rw [gn]
            by_cases e : k = n
            · subst e; simp only [if_true]; exact inv.outNodup k
            · simp only [e, if_false]; exact inv.outNodup k
        rw [← h]
        by_cases he : (getNode s n).out.isEmpty = true
        · simp only [he, if_true]
          have := key; simp only [x, he, if_true] at this; exact this
        · simp only [he]
          have := key; simp only [x, he] at this; exact this
      · have hr' : (getNode s to).released = false := by simpa using hr
        simp only [hr', Bool.false_eq_true, if_false] at h
        by_cases hm : to ∈ (getNode s n).out
        · simp only [hm, if_true, Option.some.injEq] at h; subst h
          have gn : ∀ j, getNode (setNode s n { getNode s n with everOut := true }) j =
              if j = n then { getNode s n with everOut := true } else getNode s j := by
            intro j; rw [getNode_setNode]; by_cases e : j = n <;> simp [e, hn]
          refine ⟨?_, ?_, ?_, ?_, ?_⟩
          · intro a b hb
            rw [gn] at hb ⊢
            have hb' : b ∈ (getNode s a).out := by by_cases e : a = n <;> simp_all
            have := inv.edgeIn a b hb'
            by_cases e : b = n <;> simp_all
          · intro a b hb
            rw [gn] at hb ⊢
            have hb' : b ∈ (getNode s a).out := by by_cases e : a = n <;> simp_all
            have := inv.edgeLive a b hb'
            by_cases e : b = n <;> simp_all
          · intro k h1 h2
            rw [gn] at h1 h2 ⊢
            by_cases e : k = n
            · subst e; left; simp only [if_true]; intro h0; rw [h0] at hm; cases hm
            · simp only [e, if_false] at h1 h2 ⊢; exact inv.refZero k h1 h2
          · intro k
            rw [gn]
            by_cases e : k = n
            · subst e; simp only [if_true]; exact inv.firedOnce k
            · simp only [e, if_false]; exact inv.firedOnce k
          · intro k
            rw [gn]
            by_cases e : k = n
            · subst e; simp only [if_true]; exact inv.outNodup k
            · simp only [e, if_false]; exact inv.outNodup k
        · simp only [hm, if_false, Option.some.injEq] at h
          have shape : ∀ t : St,
              t.nodes = (s.nodes.set n { getNode s n with out := to :: (getNode s n).out, everOut := true }).set to
                  { getNode s to with ins := n :: (getNode s to).ins } →
              t.pendRel = s.pendRel → t.pendEdge = s.pendEdge → Inv t := by
            intro t hN hR hE
            have gn : ∀ j, getNode t j =
                if j = to then ({ getNode s to with ins := n :: (getNode s to).ins } : Node)
                else if j = n then ({ getNode s n with out := to :: (getNode s n).out, everOut := true } : Node)
                else getNode s j := by
              intro j
              show t.nodes.getD j {} = _
              rw [hN, getD_set, getD_set]
              by_cases e : j = to
              · rw [if_pos ⟨e, by simpa using hto⟩, if_pos e]
              · rw [if_neg (fun h => e h.1), if_neg e]
                by_cases e2 : j = n
                · rw [if_pos ⟨e2, hn⟩, if_pos e2]
                · rw [if_neg (fun h => e2 h.1), if_neg e2]; rfl
            -- what each lookup of the new state tells about the old one
            have outOf : ∀ a b, b ∈ (getNode t a).out → (a = n ∧ b = to) ∨ b ∈ (getNode s a).out := by
              intro a b hb
              rw [gn] at hb
              by_cases ea : a = to
              · rw [ea] at hb ⊢; simp only [if_true] at hb; exact Or.inr hb
              · by_cases ea2 : a = n
                · rw [ea2] at hb ⊢
                  simp only [hne, if_false, if_true, List.mem_cons] at hb
                  rcases hb with rfl | hb
                  · exact Or.inl ⟨rfl, rfl⟩
                  · exact Or.inr hb
                · simp only [ea, ea2, if_false] at hb; exact Or.inr hb
            have insOf : ∀ a b, a ∈ (getNode s b).ins → a ∈ (getNode t b).ins := by
              intro a b hb
              rw [gn]
              by_cases eb : b = to
              · rw [eb] at hb ⊢; simp only [if_true, List.mem_cons]; exact Or.inr hb
              · by_cases eb2 : b = n
                · rw [eb2] at hb ⊢; simp only [hne, if_false, if_true]; exact hb
                · simp only [eb, eb2, if_false]; exact hb
            have relOf : ∀ b, (getNode t b).released = (getNode s b).released := by
              intro b
              rw [gn]
              by_cases eb : b = to
              · rw [eb]; simp
              · by_cases eb2 : b = n
                · rw [eb2]; simp [hne]
                · simp [eb, eb2]
            refine ⟨?_, ?_, ?_, ?_, ?_⟩
            · intro a b hb
              rcases outOf a b hb with ⟨rfl, rfl⟩ | hb'
              · rw [gn]; simp
              · exact insOf a b (inv.edgeIn a b hb')
            · intro a b hb
              rw [relOf, hE]
              rcases outOf a b hb with ⟨rfl, rfl⟩ | hb'
              · exact Or.inl hr'
              · exact inv.edgeLive a b hb'
            · intro k h1 h2
              rw [relOf] at h2
              rw [hR]
              by_cases ek2 : k = n
              · left; rw [gn, ek2]; simp [hne]
              · have hev : (getNode t k).everOut = (getNode s k).everOut := by
                  rw [gn]
                  by_cases ek : k = to
                  · rw [ek]; simp
                  · simp [ek, ek2]
                have hout : (getNode t k).out = (getNode s k).out := by
                  rw [gn]
                  by_cases ek : k = to
                  · rw [ek]; simp
                  · simp [ek, ek2]
                rw [hev] at h1
                rw [hout]
                exact inv.refZero k h1 h2
            · intro k
              have hfi : (getNode t k).fired = (getNode s k).fired ∧ (getNode t k).handler = (getNode s k).handler := by
                rw [gn]
                by_cases ek : k = to
                · rw [ek]; simp
                · by_cases ek2 : k = n
                  · rw [ek2]; simp [hne]
                  · simp [ek, ek2]
              rw [hfi.1, hfi.2, relOf]; exact inv.firedOnce k
            · intro k
              rw [gn]
              by_cases ek : k = to
              · rw [ek]; simp only [if_true]; exact inv.outNodup to
              · by_cases ek2 : k = n
                · rw [ek2]; simp only [hne, if_false, if_true]
                  exact List.nodup_cons.mpr ⟨hm, inv.outNodup n⟩
                · simp only [ek, ek2, if_false]; exact inv.outNodup k
          rw [← h]
          apply shape
          · have hto' : getNode (setNode s n { getNode s n with out := to :: (getNode s n).out, everOut := true }) to = getNode s to := by
              rw [getNode_setNode]; simp [hne.symm]
            rw [hto']; rfl
          · rfl
          · rfl
    · cases h

end TM.Release

namespace TM.Release

theorem inv_run : ∀ (ls : List Label) (s s' : St), Inv s → run s ls = some s' → Inv s' := by
  intro ls
  induction ls with
  | nil => intro s s' h hr; simp [run] at hr; subst hr; exact h
  | cons l ls ih =>
    intro s s' h hr
    simp only [run] at hr
    cases hs : step s l with
    | none => simp [hs] at hr
    | some s1 => simp only [hs] at hr; exact ih s1 s' (inv_step s s1 l h hs) hr

theorem inv_reachable (ls : List Label) (s : St) (h : run init ls = some s) : Inv s :=
  inv_run ls init s inv_init h

end TM.Release
