import ThunderProofs.Reactive.Steps1
namespace TM.Reactive

theorem mem_erase_or {a b : Nat} {l : List Nat} (h : b ∈ l) : b = a ∨ b ∈ l.erase a := by
  by_cases e : b = a
  · exact Or.inl e
  · exact Or.inr ((List.mem_erase_of_ne e).mpr h)

/-- `invalidate` on an already invalid node: only the pending call disappears -/
theorem inv_runInv_noop (s : St) (n : Nat) (inv : Inv s) (hi : (getNode s n).invalidated = true) :
    Inv { s with pendingInv := s.pendingInv.erase n } := by
  refine ⟨?_, inv.handlerOnce, inv.compOk, inv.handlerOwner, inv.inRunFresh, inv.inRunInj, inv.inRunLive,
    inv.pendingRunBound, inv.skippedCancelled, inv.account⟩
  intro a b ha hb
  rcases inv.closure a b ha hb with h | h
  · exact Or.inl h
  · rcases mem_erase_or (a := n) h with rfl | h'
    · exact Or.inl hi
    · exact Or.inr h'

/-- the critical section of `invalidate` on a valid node -/
theorem inv_runInv (s : St) (n : Nat) (inv : Inv s) (hn : n < s.nodes.length) (hi : (getNode s n).invalidated = false) :
    Inv (doInvalidate { s with pendingInv := s.pendingInv.erase n } n) := by
  -- name the pieces
  let x := getNode s n
  have hx0 : x.fired = 0 := by
    have := inv.handlerOnce n
    simp only [hi, Bool.and_false] at this
    exact this
  let x' : Node := { x with invalidated := true, fired := if x.handler.isSome then x.fired + 1 else x.fired }
  have gN : ∀ (t : St) (j : Nat), t.nodes = s.nodes.set n x' → getNode t j = if j = n then x' else getNode s j := by
    intro t j ht
    unfold getNode; rw [ht, getD_set]
    by_cases e : j = n <;> simp [e, hn]
  have flagOther : ∀ j, j ≠ n → (if j = n then x' else getNode s j) = getNode s j := by
    intro j hj; simp [hj]
  -- the two shapes of the result
  have shape : ∀ (t : St), t.nodes = s.nodes.set n x' → t.rrs = s.rrs →
      t.pendingInv = x.out ++ s.pendingInv.erase n →
      (match x.handler with | some r => t.pendingRun = r :: s.pendingRun | none => t.pendingRun = s.pendingRun) → Inv t := by
    intro t hN hR hP hQ
    have gn := fun j => gN t j hN
    have gr : ∀ j, getRr t j = getRr s j := by intro j; unfold getRr; rw [hR]
    have tlen : t.nodes.length = s.nodes.length := by rw [hN]; simp
    refine ⟨?_, ?_, ?_, ?_, ?_, ?_, ?_, ?_, ?_, ?_⟩
    · intro a b ha hb
      rw [gn] at ha hb
      rw [gn, hP]
      by_cases ea : a = n
      · subst ea
        simp only [if_true] at hb
        right; simp [show b ∈ x.out from hb]
      · simp only [ea, if_false] at ha hb
        by_cases eb : b = n
        · left; simp [eb, x']
        · simp only [eb, if_false]
          rcases inv.closure a b ha hb with h | h
          · exact Or.inl h
          · rcases mem_erase_or (a := n) h with e | h'
            · exact absurd e eb
            · right; simp [h']
    · intro j
      rw [gn]
      by_cases e : j = n
      · simp only [e, if_true, x']
        cases hh : x.handler with
        | none => simp [hh, hx0]
        | some r => simp [hh, hx0]
      · simp only [e, if_false]; exact inv.handlerOnce j
    · intro r c h
      rw [gr] at h
      have := inv.compOk r c h
      rw [gn, tlen]
      refine ⟨this.1, ?_⟩
      by_cases e : c = n
      · simp only [e, if_true, x']; have h2 := this.2; rw [e] at h2; exact h2
      · simp only [e, if_false]; exact this.2
    · intro j r h
      rw [gn] at h
      rw [gr, gn]
      by_cases e : j = n
      · right; simp [e, x']
      · simp only [e, if_false] at h ⊢; exact inv.handlerOwner j r h
    · intro r c h
      rw [gr] at h
      have := inv.inRunFresh r c h
      rw [gn, tlen]
      refine ⟨this.1, ?_⟩
      by_cases e : c = n
      · simp only [e, if_true, x']; have h2 := this.2; rw [e] at h2; exact h2
      · simp only [e, if_false]; exact this.2
    · intro r r' c h h'; rw [gr] at h h'; exact inv.inRunInj r r' c h h'
    · intro r c h; rw [gr] at h ⊢; exact inv.inRunLive r c h
    · intro r hr
      rw [hR]
      cases hh : x.handler with
      | none => simp only [hh] at hQ; rw [hQ] at hr; exact inv.pendingRunBound r hr
      | some q =>
        simp only [hh] at hQ; rw [hQ] at hr
        simp only [List.mem_cons] at hr
        rcases hr with rfl | hr
        · rcases inv.handlerOwner n r hh with h1 | h1
          · exact comp_lt h1
          · rw [hi] at h1; cases h1
        · exact inv.pendingRunBound r hr
    · intro r h; rw [gr] at h ⊢; exact inv.skippedCancelled r h
    · intro r hr hs hf
      rw [hR] at hr
      rw [gr] at hs hf ⊢
      have acc := inv.account r hr hs hf
      cases hh : x.handler with
      | none =>
        simp only [hh] at hQ; rw [hQ]
        cases hc : (getRr s r).comp with
        | none => simpa [compFired, hc] using acc
        | some c =>
          simp only [compFired, hc] at acc ⊢
          rw [gn]
          by_cases e : c = n
          · -- comp node with no handler: impossible
            have := (inv.compOk r c hc).2
            rw [e] at this
            rw [show (getNode s n).handler = x.handler from rfl, hh] at this; cases this
          · simp only [e, if_false]; exact acc
      | some q =>
        simp only [hh] at hQ; rw [hQ]
        have hq : (getRr s q).comp = some n := by
          rcases inv.handlerOwner n q hh with h1 | h1
          · exact h1
          · rw [hi] at h1; cases h1
        cases hc : (getRr s r).comp with
        | none =>
          have hne : q ≠ r := by intro e; rw [e, hc] at hq; cases hq
          simp only [compFired, hc] at acc ⊢
          simp only [List.count_cons, beq_iff_eq, hne, if_false, Nat.add_zero]
          exact acc
        | some c =>
          simp only [compFired, hc] at acc ⊢
          rw [gn]
          by_cases e : c = n
          · have hrq : r = q := by
              have h1 := (inv.compOk r c hc).2
              rw [e] at h1
              rw [show (getNode s n).handler = x.handler from rfl, hh] at h1
              injection h1 with h1; exact h1.symm
            subst hrq
            simp only [e, if_true, x', hh, Option.isSome_some, List.count_cons_self]
            rw [e] at acc
            show _ = x.fired + 1
            have : (getNode s n).fired = x.fired := rfl
            omega
          · have hne : q ≠ r := by intro e2; rw [e2, hc] at hq; injection hq with hq; exact e hq
            simp only [e, if_false, List.count_cons, beq_iff_eq, hne, Nat.add_zero]
            exact acc
  -- instantiate
  unfold doInvalidate
  simp only
  split
  · rename_i r heq
    have hxh : x.handler = some r := heq
    apply shape
    · rfl
    · rfl
    · rfl
    · simp [hxh]
  · rename_i heq
    have hxh : x.handler = none := heq
    apply shape
    · rfl
    · rfl
    · rfl
    · simp [hxh]

end TM.Reactive
