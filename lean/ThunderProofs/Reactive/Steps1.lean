import ThunderProofs.Reactive.Inv
namespace TM.Reactive

theorem inv_more_pendingInv (s : St) (extra : List Nat) (inv : Inv s) : Inv { s with pendingInv := extra ++ s.pendingInv } := by
  refine ⟨?_, inv.handlerOnce, inv.compOk, inv.handlerOwner, inv.inRunFresh, inv.inRunInj, inv.inRunLive,
    inv.pendingRunBound, inv.skippedCancelled, inv.account⟩
  intro n m hn hm
  rcases inv.closure n m hn hm with h | h
  · exact Or.inl h
  · exact Or.inr (by simp [h])

theorem inv_newNode (s : St) (inv : Inv s) : Inv { s with nodes := s.nodes ++ [{}] } := by
  have gn : ∀ j, getNode { s with nodes := s.nodes ++ [{}] } j = getNode s j := fun j => getNode_push s j
  have gr : ∀ j, getRr { s with nodes := s.nodes ++ [{}] } j = getRr s j := fun _ => rfl
  refine ⟨?_, ?_, ?_, ?_, ?_, ?_, ?_, ?_, ?_, ?_⟩
  · intro n m hn hm; rw [gn] at hn hm ⊢; exact inv.closure n m hn hm
  · intro n; rw [gn]; exact inv.handlerOnce n
  · intro r c h; rw [gr] at h; rw [gn]
    have := inv.compOk r c h
    exact ⟨by simp; omega, this.2⟩
  · intro n r h; rw [gn] at h ⊢; rw [gr]; exact inv.handlerOwner n r h
  · intro r c h; rw [gr] at h; rw [gn]
    have := inv.inRunFresh r c h
    exact ⟨by simp; omega, this.2⟩
  · intro r r' c h h'; exact inv.inRunInj r r' c h h'
  · intro r c h; exact inv.inRunLive r c h
  · exact inv.pendingRunBound
  · exact inv.skippedCancelled
  · intro r hr hs hf
    have := inv.account r hr hs hf
    simp only [gr]
    cases hc : (getRr s r).comp with
    | none => rw [hc] at this; simpa using this
    | some c => rw [hc] at this; simp only [compFired_some, gn] at this ⊢; exact this

theorem count_not_mem_bound (s : St) (inv : Inv s) : s.pendingRun.count s.rrs.length = 0 := by
  apply List.count_eq_zero_of_not_mem
  intro h
  have := inv.pendingRunBound _ h
  omega

theorem inv_newRr (s : St) (inv : Inv s) :
    Inv { s with rrs := s.rrs ++ [{}], pendingRun := s.rrs.length :: s.pendingRun } := by
  have gr : ∀ j, getRr { s with rrs := s.rrs ++ [{}], pendingRun := s.rrs.length :: s.pendingRun } j = getRr s j :=
    fun j => getRr_push s j
  have gn : ∀ j, getNode { s with rrs := s.rrs ++ [{}], pendingRun := s.rrs.length :: s.pendingRun } j = getNode s j :=
    fun _ => rfl
  refine ⟨?_, ?_, ?_, ?_, ?_, ?_, ?_, ?_, ?_, ?_⟩
  · intro n m hn hm; exact inv.closure n m hn hm
  · intro n; exact inv.handlerOnce n
  · intro r c h; rw [gr] at h; exact inv.compOk r c h
  · intro n r h; rw [gr]; exact inv.handlerOwner n r h
  · intro r c h; rw [gr] at h; exact inv.inRunFresh r c h
  · intro r r' c h h'; rw [gr] at h h'; exact inv.inRunInj r r' c h h'
  · intro r c h; rw [gr] at h ⊢; exact inv.inRunLive r c h
  · intro r hr
    simp only [List.mem_cons] at hr
    simp only [List.length_append, List.length_cons, List.length_nil]
    rcases hr with rfl | hr
    · omega
    · have := inv.pendingRunBound r hr; omega
  · intro r h; rw [gr] at h ⊢; exact inv.skippedCancelled r h
  · intro r hr hs hf
    rw [gr] at hs hf ⊢
    simp only [List.length_append, List.length_cons, List.length_nil] at hr
    by_cases e : r = s.rrs.length
    · subst e
      have hd := getRr_default s s.rrs.length (Nat.le_refl _)
      simp [hd, List.count_cons, count_not_mem_bound s inv, compFired]
    · have hr' : r < s.rrs.length := by omega
      have := inv.account r hr' hs hf
      have hne : ¬ (s.rrs.length = r) := fun h => e h.symm
      simp only [List.count_cons, beq_iff_eq, hne, if_false, Nat.add_zero]
      cases hc : (getRr s r).comp with
      | none => rw [hc] at this; simpa using this
      | some c => rw [hc] at this; simp only [compFired_some, gn] at this ⊢; exact this

theorem inv_addOut (s : St) (n to : Nat) (inv : Inv s) (hn : n < s.nodes.length) :
    Inv (let x := getNode s n
         let s1 := setNode s n { x with out := to :: x.out }
         if x.invalidated && !(getNode s to).invalidated then { s1 with pendingInv := to :: s1.pendingInv } else s1) := by
  -- flags, handlers and fired counters are unchanged; only `out` of `n` grows
  have flag : ∀ j, (getNode (setNode s n { getNode s n with out := to :: (getNode s n).out }) j).invalidated = (getNode s j).invalidated := by
    intro j; rw [getNode_setNode]; by_cases e : j = n ∧ n < s.nodes.length
    · simp [e.1, hn]
    · simp [e]
  have hdl : ∀ j, (getNode (setNode s n { getNode s n with out := to :: (getNode s n).out }) j).handler = (getNode s j).handler := by
    intro j; rw [getNode_setNode]; by_cases e : j = n ∧ n < s.nodes.length
    · simp [e.1, hn]
    · simp [e]
  have frd : ∀ j, (getNode (setNode s n { getNode s n with out := to :: (getNode s n).out }) j).fired = (getNode s j).fired := by
    intro j; rw [getNode_setNode]; by_cases e : j = n ∧ n < s.nodes.length
    · simp [e.1, hn]
    · simp [e]
  have outs : ∀ j m, m ∈ (getNode (setNode s n { getNode s n with out := to :: (getNode s n).out }) j).out →
      (j = n ∧ m = to) ∨ m ∈ (getNode s j).out := by
    intro j m hm; rw [getNode_setNode] at hm; by_cases e : j = n ∧ n < s.nodes.length
    · simp only [e, and_self, if_true, List.mem_cons] at hm
      rcases hm with rfl | hm
      · exact Or.inl ⟨e.1, rfl⟩
      · right; rw [e.1]; exact hm
    · simp only [e, if_false] at hm; exact Or.inr hm
  -- the state without the spawned invalidation, except for the closure of the new edge
  have base : ∀ (pi : List Nat), (∀ x ∈ s.pendingInv, x ∈ pi) →
      ((getNode s n).invalidated = true → (getNode s to).invalidated = true ∨ to ∈ pi) →
      Inv { setNode s n { getNode s n with out := to :: (getNode s n).out } with pendingInv := pi } := by
    intro pi hsub hnew
    have gpi : ∀ j, getNode { setNode s n { getNode s n with out := to :: (getNode s n).out } with pendingInv := pi } j =
        getNode (setNode s n { getNode s n with out := to :: (getNode s n).out }) j := fun _ => rfl
    have grpi : ∀ j, getRr { setNode s n { getNode s n with out := to :: (getNode s n).out } with pendingInv := pi } j =
        getRr s j := fun _ => rfl
    refine ⟨?_, ?_, ?_, ?_, ?_, ?_, ?_, ?_, ?_, ?_⟩
    · intro a b ha hb
      rw [gpi] at ha hb
      rw [gpi]
      have ha' : (getNode s a).invalidated = true := by rw [← flag a]; exact ha
      show _ ∨ b ∈ pi
      rw [flag b]
      rcases outs a b hb with ⟨rfl, rfl⟩ | hb'
      · exact hnew ha'
      · rcases inv.closure a b ha' hb' with h | h
        · exact Or.inl h
        · exact Or.inr (hsub b h)
    · intro j
      rw [gpi, frd, hdl, flag]; exact inv.handlerOnce j
    · intro r c h
      rw [grpi] at h
      have := inv.compOk r c h
      rw [gpi, hdl]
      exact ⟨by simpa using this.1, this.2⟩
    · intro j r h
      rw [gpi, hdl] at h
      rw [grpi, gpi, flag]
      exact inv.handlerOwner j r h
    · intro r c h
      rw [grpi] at h
      have := inv.inRunFresh r c h
      rw [gpi, hdl]
      exact ⟨by simpa using this.1, this.2⟩
    · intro r r' c h h'; rw [grpi] at h h'; exact inv.inRunInj r r' c h h'
    · intro r c h; rw [grpi] at h ⊢; exact inv.inRunLive r c h
    · exact inv.pendingRunBound
    · intro r h; rw [grpi] at h ⊢; exact inv.skippedCancelled r h
    · intro r hr hs hf
      rw [grpi] at hs hf ⊢
      have := inv.account r hr hs hf
      show s.pendingRun.count r + _ + _ = _
      cases hc : (getRr s r).comp with
      | none => rw [hc] at this; simpa using this
      | some c =>
        rw [hc] at this
        simp only [compFired_some, gpi, frd] at this ⊢; exact this
  simp only
  by_cases hx : ((getNode s n).invalidated && !(getNode s to).invalidated) = true
  · simp only [hx, if_true]
    exact base (to :: s.pendingInv) (by intro x hx'; simp [hx']) (by intro _; right; simp)
  · simp only [hx]
    have := base s.pendingInv (fun _ h => h) (by
      intro hinv
      left
      cases ht : (getNode s to).invalidated with
      | true => rfl
      | false => simp [hinv, ht] at hx)
    exact this

end TM.Reactive
