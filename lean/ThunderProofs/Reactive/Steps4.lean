import ThunderProofs.Reactive.Steps3
namespace TM.Reactive

theorem inv_rrExitOk (s : St) (r c : Nat) (inv : Inv s) (hr : r < s.rrs.length) (hi : (getRr s r).inRun = some c) :
    Inv (doHandle (setRr s r { getRr s r with comp := some c, inRun := none, skipped := 0 }) c r) := by
  obtain ⟨hc, hnone⟩ := inv.inRunFresh r c hi
  obtain ⟨hs, hf⟩ := inv.inRunLive r c hi
  let x := getNode s c
  have hx0 : x.fired = 0 := by
    have := inv.handlerOnce c
    rw [hnone] at this
    simpa using this
  let x' : Node := { x with handler := some r, fired := if x.invalidated then x.fired + 1 else x.fired }
  let y : Rr := { getRr s r with comp := some c, inRun := none, skipped := 0 }
  -- accounting before: the run in progress is the only outstanding one
  have acc := inv.account r hr hs hf
  simp only [hi, Option.isSome_some, if_true] at acc
  have hcount0 : s.pendingRun.count r = 0 := by
    cases hcm : (getRr s r).comp with
    | none => rw [hcm] at acc; simp at acc; omega
    | some c0 =>
      rw [hcm] at acc
      simp only [compFired_some] at acc
      have := fired_le_one inv c0
      omega
  -- the old computation (if any) has been invalidated
  have hold : ∀ c0, (getRr s r).comp = some c0 → (getNode s c0).invalidated = true := by
    intro c0 hcm
    rw [hcm] at acc
    simp only [compFired_some] at acc
    have h1 : (getNode s c0).fired = 1 := by have := fired_le_one inv c0; omega
    have h2 := inv.handlerOnce c0
    rw [h1] at h2
    by_cases hv : (getNode s c0).invalidated = true
    · exact hv
    · simp [hv] at h2
  have shape : ∀ (t : St), t.nodes = s.nodes.set c x' → t.rrs = s.rrs.set r y → t.pendingInv = s.pendingInv →
      t.pendingRun = (if x.invalidated then r :: s.pendingRun else s.pendingRun) → Inv t := by
    intro t hN hR hP hQ
    have gn : ∀ j, getNode t j = if j = c then x' else getNode s j := by
      intro j; unfold getNode; rw [hN, getD_set]; by_cases e : j = c <;> simp [e, hc]
    have gr : ∀ q, getRr t q = if q = r then y else getRr s q := by
      intro q; unfold getRr; rw [hR, getD_set]; by_cases e : q = r <;> simp [e, hr]
    have tlen : t.nodes.length = s.nodes.length := by rw [hN]; simp
    have rlen : t.rrs.length = s.rrs.length := by rw [hR]; simp
    refine ⟨?_, ?_, ?_, ?_, ?_, ?_, ?_, ?_, ?_, ?_⟩
    · intro a b ha hb
      rw [gn] at ha hb
      rw [gn, hP]
      have ha' : (getNode s a).invalidated = true := by
        by_cases e : a = c
        · simp only [e, if_true, x'] at ha; rw [e]; exact ha
        · simp only [e, if_false] at ha; exact ha
      have hb' : b ∈ (getNode s a).out := by
        by_cases e : a = c
        · simp only [e, if_true, x'] at hb; rw [e]; exact hb
        · simp only [e, if_false] at hb; exact hb
      rcases inv.closure a b ha' hb' with h | h
      · left
        by_cases e : b = c
        · simp only [e, if_true, x']; rw [e] at h; exact h
        · simp only [e, if_false]; exact h
      · exact Or.inr h
    · intro j
      rw [gn]
      by_cases e : j = c
      · simp only [e, if_true, x', Option.isSome_some, Bool.true_and]
        by_cases hv : x.invalidated = true <;> simp [hv, hx0]
      · simp only [e, if_false]; exact inv.handlerOnce j
    · intro q c' h
      rw [gr] at h
      rw [gn, tlen]
      by_cases e : q = r
      · simp only [e, if_true, y, Option.some.injEq] at h
        subst h
        exact ⟨hc, by simp [x', e]⟩
      · simp only [e, if_false] at h
        have := inv.compOk q c' h
        refine ⟨this.1, ?_⟩
        by_cases e2 : c' = c
        · rw [e2] at this; rw [hnone] at this; cases this.2
        · simp only [e2, if_false]; exact this.2
    · intro j q h
      rw [gn] at h
      rw [gr, gn]
      by_cases e : j = c
      · simp only [e, if_true, x', Option.some.injEq] at h
        subst h
        left; simp [y, e]
      · simp only [e, if_false] at h ⊢
        rcases inv.handlerOwner j q h with h1 | h1
        · by_cases e2 : q = r
          · right; rw [e2] at h1; exact hold j h1
          · left; simp only [e2, if_false]; exact h1
        · exact Or.inr h1
    · intro q c' h
      rw [gr] at h
      rw [gn, tlen]
      by_cases e : q = r
      · simp only [e, if_true, y] at h; cases h
      · simp only [e, if_false] at h
        have := inv.inRunFresh q c' h
        refine ⟨this.1, ?_⟩
        by_cases e2 : c' = c
        · exfalso; rw [e2] at h; exact e (inv.inRunInj q r c h hi)
        · simp only [e2, if_false]; exact this.2
    · intro q q' c' h h'
      rw [gr] at h h'
      by_cases e : q = r
      · simp only [e, if_true, y] at h; cases h
      · by_cases e' : q' = r
        · simp only [e', if_true, y] at h'; cases h'
        · simp only [e, e', if_false] at h h'; exact inv.inRunInj q q' c' h h'
    · intro q c' h
      rw [gr] at h ⊢
      by_cases e : q = r
      · simp only [e, if_true, y] at h; cases h
      · simp only [e, if_false] at h ⊢; exact inv.inRunLive q c' h
    · intro q hq
      rw [rlen]
      rw [hQ] at hq
      by_cases hv : x.invalidated = true
      · simp only [hv, if_true, List.mem_cons] at hq
        rcases hq with rfl | hq
        · exact hr
        · exact inv.pendingRunBound q hq
      · simp only [hv] at hq; exact inv.pendingRunBound q hq
    · intro q h
      rw [gr] at h ⊢
      by_cases e : q = r
      · simp only [e, if_true, y] at h; omega
      · simp only [e, if_false] at h ⊢; exact inv.skippedCancelled q h
    · intro q hq hs' hf'
      rw [rlen] at hq
      rw [gr] at hs' hf' ⊢
      rw [hQ]
      by_cases e : q = r
      · subst e
        simp only [if_true, y, Option.isSome_none, compFired_some]
        rw [gn]
        simp only [if_true, x']
        by_cases hv : x.invalidated = true
        · simp [hv, hx0, hcount0]
        · simp [hv, hx0, hcount0]
      · simp only [e, if_false] at hs' hf' ⊢
        have acc' := inv.account q hq hs' hf'
        have hcnt : (if x.invalidated = true then r :: s.pendingRun else s.pendingRun).count q = s.pendingRun.count q := by
          have hne : ¬ (r = q) := fun h => e h.symm
          by_cases hv : x.invalidated = true <;> simp [hv, List.count_cons, hne]
        rw [hcnt]
        cases hcm : (getRr s q).comp with
        | none => rw [hcm] at acc'; simpa using acc'
        | some c' =>
          rw [hcm] at acc'
          simp only [compFired_some] at acc' ⊢
          rw [gn]
          by_cases e2 : c' = c
          · have := (inv.compOk q c' hcm).2
            rw [e2, hnone] at this; cases this
          · simp only [e2, if_false]; exact acc'
  unfold doHandle
  simp only
  by_cases hv : x.invalidated = true
  · have hv2 : (getNode (setRr s r { getRr s r with comp := some c, inRun := none, skipped := 0 }) c).invalidated = true := hv
    rw [if_pos hv2]
    apply shape
    · rfl
    · rfl
    · rfl
    · simp [hv]
  · have hv2 : ¬ (getNode (setRr s r { getRr s r with comp := some c, inRun := none, skipped := 0 }) c).invalidated = true := hv
    rw [if_neg hv2]
    apply shape
    · rfl
    · rfl
    · rfl
    · simp [hv]

end TM.Reactive
