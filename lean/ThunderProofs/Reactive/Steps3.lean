import ThunderProofs.Reactive.Steps2
namespace TM.Reactive

theorem count_erase_self {r : Nat} {l : List Nat} (h : r ∈ l) : (l.erase r).count r + 1 = l.count r := by
  rw [List.count_erase_self]
  have := List.count_pos_iff.mpr h
  omega

theorem count_erase_ne {r q : Nat} {l : List Nat} (h : q ≠ r) : (l.erase r).count q = l.count q := by
  rw [List.count_erase_of_ne h]

/-- a rerunner-only update that keeps `comp`: shared reasoning for enter / skip / fail / retry / stop -/
theorem inv_rr_update (s : St) (r : Nat) (y : Rr) (pr : List Nat) (inv : Inv s) (hr : r < s.rrs.length)
    (hcomp : y.comp = (getRr s r).comp)
    (hpr : ∀ q ∈ pr, q < s.rrs.length)
    (hin : ∀ c, y.inRun = some c → (getRr s r).inRun = some c ∨
      (c < s.nodes.length ∧ (getNode s c).handler = none ∧ ∀ q, (getRr s q).inRun ≠ some c))
    (hlive : ∀ c, y.inRun = some c → y.stopped = false ∧ y.failed = false)
    (hskip : 0 < y.skipped → (y.cancelled || y.stopped || y.failed) = true)
    (hacc : y.stopped = false → y.failed = false →
      pr.count r + (if y.inRun.isSome then 1 else 0) + y.skipped = compFired s y.comp)
    (hother : ∀ q, q ≠ r → pr.count q = s.pendingRun.count q) :
    Inv { setRr s r y with pendingRun := pr } := by
  have gn : ∀ j, getNode { setRr s r y with pendingRun := pr } j = getNode s j := fun _ => rfl
  have gr : ∀ q, getRr { setRr s r y with pendingRun := pr } q = if q = r then y else getRr s q := by
    intro q
    show getRr (setRr s r y) q = _
    rw [getRr_setRr]; by_cases e : q = r <;> simp [e, hr]
  refine ⟨?_, ?_, ?_, ?_, ?_, ?_, ?_, ?_, ?_, ?_⟩
  · intro a b ha hb; exact inv.closure a b ha hb
  · intro j; exact inv.handlerOnce j
  · intro q c h
    rw [gr] at h
    by_cases e : q = r
    · simp only [e, if_true] at h; rw [hcomp] at h; rw [e]; exact inv.compOk r c h
    · simp only [e, if_false] at h; exact inv.compOk q c h
  · intro j q h
    rw [gn] at h ⊢
    rw [gr]
    rcases inv.handlerOwner j q h with h1 | h1
    · left
      by_cases e : q = r
      · simp only [e, if_true]; rw [hcomp]; rw [e] at h1; exact h1
      · simp only [e, if_false]; exact h1
    · exact Or.inr h1
  · intro q c h
    rw [gr] at h
    by_cases e : q = r
    · simp only [e, if_true] at h
      rcases hin c h with h1 | ⟨h1, h2, _⟩
      · exact inv.inRunFresh r c h1
      · exact ⟨h1, h2⟩
    · simp only [e, if_false] at h; exact inv.inRunFresh q c h
  · intro q q' c h h'
    rw [gr] at h h'
    by_cases e : q = r
    · by_cases e' : q' = r
      · rw [e, e']
      · simp only [e, if_true] at h
        simp only [e', if_false] at h'
        rcases hin c h with h1 | ⟨_, _, h3⟩
        · rw [e]; exact inv.inRunInj r q' c h1 h'
        · exact absurd h' (h3 q')
    · simp only [e, if_false] at h
      by_cases e' : q' = r
      · simp only [e', if_true] at h'
        rcases hin c h' with h1 | ⟨_, _, h3⟩
        · rw [e']; exact inv.inRunInj q r c h h1
        · exact absurd h (h3 q)
      · simp only [e', if_false] at h'
        exact inv.inRunInj q q' c h h'
  · intro q c h
    rw [gr] at h ⊢
    by_cases e : q = r
    · simp only [e, if_true] at h ⊢; exact hlive c h
    · simp only [e, if_false] at h ⊢; exact inv.inRunLive q c h
  · intro q hq; show q < (setRr s r y).rrs.length; simp only [setRr_rrs_length]; exact hpr q hq
  · intro q h
    rw [gr] at h ⊢
    by_cases e : q = r
    · simp only [e, if_true] at h ⊢; exact hskip h
    · simp only [e, if_false] at h ⊢; exact inv.skippedCancelled q h
  · intro q hq hs hf
    have hq' : q < s.rrs.length := by simpa using hq
    rw [gr] at hs hf ⊢
    show pr.count q + _ + _ = _
    by_cases e : q = r
    · subst e
      simp only [if_true] at hs hf ⊢
      have := hacc hs hf
      cases hc : y.comp with
      | none => simpa [compFired, hc] using this
      | some c => simp only [compFired, hc] at this ⊢; exact this
    · simp only [e, if_false] at hs hf ⊢
      rw [hother q e]
      exact inv.account q hq' hs hf

theorem inv_rrEnter (s : St) (r : Nat) (inv : Inv s) (hr : r < s.rrs.length) (hp : r ∈ s.pendingRun)
    (hi : (getRr s r).inRun = none) (hs : (getRr s r).stopped = false) (hf : (getRr s r).failed = false) :
    Inv { setRr s r { getRr s r with inRun := some s.nodes.length, runs := (getRr s r).runs + 1 } with
            nodes := s.nodes ++ [{}], pendingRun := s.pendingRun.erase r } := by
  -- first the fresh node, then the rerunner update
  have inv1 := inv_newNode s inv
  have gn1 : ∀ j, getNode { s with nodes := s.nodes ++ [{}] } j = getNode s j := fun j => getNode_push s j
  have h2 := inv_rr_update { s with nodes := s.nodes ++ [{}] } r
    { getRr s r with inRun := some s.nodes.length, runs := (getRr s r).runs + 1 } (s.pendingRun.erase r) inv1 hr rfl
    (fun q hq => inv.pendingRunBound q (List.mem_of_mem_erase hq))
    (by
      intro c hc
      simp only [Option.some.injEq] at hc
      right
      refine ⟨by simp [← hc], ?_, ?_⟩
      · rw [gn1, ← hc, getNode_default s _ (Nat.le_refl _)]
      · intro q hq
        have := (inv.inRunFresh q c hq).1
        omega)
    (by intro c _; exact ⟨hs, hf⟩)
    (inv.skippedCancelled r)
    (by
      intro _ _
      have acc := inv.account r hr hs hf
      simp only [hi, Option.isSome_none] at acc
      simp only [Option.isSome_some, if_true]
      have := count_erase_self hp
      show (s.pendingRun.erase r).count r + 1 + (getRr s r).skipped = _
      rw [this]
      cases hc : (getRr s r).comp with
      | none => rw [hc] at acc; simpa using acc
      | some c => rw [hc] at acc; simp only [compFired_some] at acc ⊢; rw [gn1]; simpa using acc)
    (fun q hq => count_erase_ne hq)
  exact h2

theorem inv_rrSkip (s : St) (r : Nat) (inv : Inv s) (hr : r < s.rrs.length) (hp : r ∈ s.pendingRun)
    (hd : ((getRr s r).cancelled || (getRr s r).stopped || (getRr s r).failed) = true) :
    Inv { setRr s r { getRr s r with skipped := (getRr s r).skipped + 1 } with pendingRun := s.pendingRun.erase r } := by
  exact inv_rr_update s r { getRr s r with skipped := (getRr s r).skipped + 1 } (s.pendingRun.erase r) inv hr rfl
    (fun q hq => inv.pendingRunBound q (List.mem_of_mem_erase hq))
    (fun c hc => Or.inl hc)
    (fun c hc => inv.inRunLive r c hc)
    (fun _ => hd)
    (by
      intro h1 h2
      have acc := inv.account r hr h1 h2
      have hce := count_erase_self hp
      show (s.pendingRun.erase r).count r + (if (getRr s r).inRun.isSome then 1 else 0) + ((getRr s r).skipped + 1) =
        compFired s (getRr s r).comp
      by_cases hi : (getRr s r).inRun.isSome = true
      · simp only [hi, if_true] at acc ⊢; omega
      · simp only [hi] at acc ⊢; omega)
    (fun q hq => count_erase_ne hq)

theorem inv_rrExitFail (s : St) (r c : Nat) (inv : Inv s) (hr : r < s.rrs.length) (hi : (getRr s r).inRun = some c) :
    Inv (setRr s r { getRr s r with inRun := none, failed := true }) := by
  exact inv_rr_update s r { getRr s r with inRun := none, failed := true } s.pendingRun inv hr rfl
    inv.pendingRunBound (by intro c hc; cases hc) (by intro c hc; cases hc) (by intro _; simp) (by intro _ h; cases h) (fun _ _ => rfl)

theorem inv_rrExitRetry (s : St) (r c : Nat) (inv : Inv s) (hr : r < s.rrs.length) (hi : (getRr s r).inRun = some c) :
    Inv { setRr s r { getRr s r with inRun := none } with pendingRun := r :: s.pendingRun } := by
  have live := inv.inRunLive r c hi
  exact inv_rr_update s r { getRr s r with inRun := none } (r :: s.pendingRun) inv hr rfl
    (by intro q hq; simp only [List.mem_cons] at hq; rcases hq with rfl | hq; exact hr; exact inv.pendingRunBound q hq)
    (by intro c hc; cases hc) (by intro c hc; cases hc)
    (inv.skippedCancelled r)
    (by
      intro _ _
      have acc := inv.account r hr live.1 live.2
      simp only [hi, Option.isSome_some, if_true] at acc
      simp only [List.count_cons_self, Option.isSome_none]
      show s.pendingRun.count r + 1 + 0 + (getRr s r).skipped = _
      omega)
    (by intro q hq; simp [List.count_cons, hq.symm])

theorem inv_rrStop (s : St) (r : Nat) (inv : Inv s) (hr : r < s.rrs.length) (hi : (getRr s r).inRun = none) :
    Inv (setRr s r { getRr s r with stopped := true }) := by
  exact inv_rr_update s r { getRr s r with stopped := true } s.pendingRun inv hr rfl
    inv.pendingRunBound (by intro c hc; rw [show ({ getRr s r with stopped := true } : Rr).inRun = (getRr s r).inRun from rfl, hi] at hc; cases hc)
    (by intro c hc; rw [show ({ getRr s r with stopped := true } : Rr).inRun = (getRr s r).inRun from rfl, hi] at hc; cases hc)
    (by intro _; simp) (by intro h; cases h) (fun _ _ => rfl)

theorem inv_rrCancel (s : St) (r : Nat) (inv : Inv s) (hr : r < s.rrs.length) :
    Inv (setRr s r { getRr s r with cancelled := true }) := by
  exact inv_rr_update s r { getRr s r with cancelled := true } s.pendingRun inv hr rfl
    inv.pendingRunBound (fun c hc => Or.inl hc) (fun c hc => inv.inRunLive r c hc)
    (by intro _; simp) (inv.account r hr) (fun _ _ => rfl)

end TM.Reactive
