import ThunderModel.Reactive.Graph
namespace TM.Reactive

theorem getD_set {α : Type} (l : List α) (i j : Nat) (v d : α) :
    (l.set i v).getD j d = if j = i ∧ i < l.length then v else l.getD j d := by
  simp only [List.getD_eq_getElem?_getD, List.getElem?_set]
  by_cases h : i = j
  · subst h
    by_cases hl : i < l.length
    · simp [hl]
    · simp [hl, List.getElem?_eq_none (Nat.le_of_not_lt hl)]
  · have h' : ¬ j = i := fun e => h e.symm
    simp [h, h']

theorem getD_append_one {α : Type} (l : List α) (j : Nat) (v d : α) :
    (l ++ [v]).getD j d = if j = l.length then v else l.getD j d := by
  simp only [List.getD_eq_getElem?_getD]
  by_cases h : j < l.length
  · rw [List.getElem?_append_left h]
    have : j ≠ l.length := by omega
    simp [this]
  · by_cases e : j = l.length
    · subst e; simp
    · have hj : l.length < j := by omega
      rw [List.getElem?_append_right (by omega)]
      have : j - l.length ≠ 0 := by omega
      simp [e, List.getElem?_eq_none (Nat.le_of_lt hj)]
      cases hk : j - l.length with
      | zero => omega
      | succ k => simp

@[simp] theorem getNode_setNode (s : St) (n m : Nat) (v : Node) :
    getNode (setNode s n v) m = if m = n ∧ n < s.nodes.length then v else getNode s m := by
  unfold getNode setNode; exact getD_set _ _ _ _ _

@[simp] theorem getRr_setNode (s : St) (n r : Nat) (v : Node) : getRr (setNode s n v) r = getRr s r := rfl
@[simp] theorem getNode_setRr (s : St) (r n : Nat) (v : Rr) : getNode (setRr s r v) n = getNode s n := rfl

@[simp] theorem getRr_setRr (s : St) (r q : Nat) (v : Rr) :
    getRr (setRr s r v) q = if q = r ∧ r < s.rrs.length then v else getRr s q := by
  unfold getRr setRr; exact getD_set _ _ _ _ _

@[simp] theorem setNode_nodes_length (s : St) (n : Nat) (v : Node) : (setNode s n v).nodes.length = s.nodes.length := by
  simp [setNode]
@[simp] theorem setNode_rrs (s : St) (n : Nat) (v : Node) : (setNode s n v).rrs = s.rrs := rfl
@[simp] theorem setNode_pendingInv (s : St) (n : Nat) (v : Node) : (setNode s n v).pendingInv = s.pendingInv := rfl
@[simp] theorem setNode_pendingRun (s : St) (n : Nat) (v : Node) : (setNode s n v).pendingRun = s.pendingRun := rfl
@[simp] theorem setRr_rrs_length (s : St) (r : Nat) (v : Rr) : (setRr s r v).rrs.length = s.rrs.length := by
  simp [setRr]
@[simp] theorem setRr_nodes (s : St) (r : Nat) (v : Rr) : (setRr s r v).nodes = s.nodes := rfl
@[simp] theorem setRr_pendingInv (s : St) (r : Nat) (v : Rr) : (setRr s r v).pendingInv = s.pendingInv := rfl
@[simp] theorem setRr_pendingRun (s : St) (r : Nat) (v : Rr) : (setRr s r v).pendingRun = s.pendingRun := rfl

theorem getNode_default (s : St) (n : Nat) (h : s.nodes.length ≤ n) : getNode s n = {} := by
  simp [getNode, List.getD_eq_getElem?_getD, List.getElem?_eq_none h]

theorem getRr_default (s : St) (r : Nat) (h : s.rrs.length ≤ r) : getRr s r = {} := by
  simp [getRr, List.getD_eq_getElem?_getD, List.getElem?_eq_none h]

end TM.Reactive
