import ThunderProofs.Reactive.Steps4
namespace TM.Reactive

theorem inv_step (s s' : St) (l : Label) (inv : Inv s) (h : step s l = some s') : Inv s' := by
  cases l with
  | newNode => simp only [step, Option.some.injEq] at h; subst h; exact inv_newNode s inv
  | newRr => simp only [step, Option.some.injEq] at h; subst h; exact inv_newRr s inv
  | spawnInv n =>
    simp only [step] at h
    split at h
    · injection h with h; subst h; exact inv_more_pendingInv s [n] inv
    · cases h
  | strobe n =>
    simp only [step] at h
    split at h
    · injection h with h; subst h; exact inv_more_pendingInv s _ inv
    · cases h
  | addOut n to =>
    simp only [step] at h
    split at h
    · rename_i hc
      injection h with h; subst h
      exact inv_addOut s n to inv hc.1
    · cases h
  | runInv n =>
    simp only [step] at h
    split at h
    · rename_i hc
      injection h with h; subst h
      by_cases hi : (getNode s n).invalidated = true
      · simp only [hi, if_true]; exact inv_runInv_noop s n inv hi
      · simp only [hi]
        exact inv_runInv s n inv hc.1 (by simpa using hi)
    · cases h
  | rrEnter r c =>
    simp only [step] at h
    split at h
    · rename_i hc
      injection h with h; subst h
      obtain ⟨h1, h2, h3, h4, h5, h6⟩ := hc
      subst h6
      exact inv_rrEnter s r inv h1 h2 h3 (by simpa using h4) (by simpa using h5)
    · cases h
  | rrSkip r =>
    simp only [step] at h
    split at h
    · rename_i hc
      injection h with h; subst h
      exact inv_rrSkip s r inv hc.1 hc.2.1 hc.2.2
    · cases h
  | rrExitOk r =>
    simp only [step] at h
    split at h
    · rename_i c hc
      split at h
      · rename_i hr
        injection h with h; subst h
        exact inv_rrExitOk s r c inv hr hc
      · cases h
    · cases h
  | rrExitFail r =>
    simp only [step] at h
    split at h
    · rename_i c hc
      split at h
      · rename_i hr
        injection h with h; subst h
        exact inv_rrExitFail s r c inv hr hc
      · cases h
    · cases h
  | rrExitRetry r =>
    simp only [step] at h
    split at h
    · rename_i c hc
      split at h
      · rename_i hr
        injection h with h; subst h
        exact inv_rrExitRetry s r c inv hr hc
      · cases h
    · cases h
  | rrCancel r =>
    simp only [step] at h
    split at h
    · rename_i hc
      injection h with h; subst h
      exact inv_rrCancel s r inv hc
    · cases h
  | rrStop r =>
    simp only [step] at h
    split at h
    · rename_i hc
      injection h with h; subst h
      exact inv_rrStop s r inv hc.1 hc.2
    · cases h

theorem inv_run : ∀ (ls : List Label) (s s' : St), Inv s → run s ls = some s' → Inv s' := by
  intro ls
  induction ls with
  | nil => intro s s' h hr; simp [run] at hr; subst hr; exact h
  | cons l ls ih =>
    intro s s' h hr
    simp only [run] at hr
    cases hs : step s l with
    | none => simp [hs] at hr
    | some s1 => simp only [hs] at hr; exact ih s1 s' (inv_step s s1 l h hs) hr

theorem inv_reachable (ls : List Label) (s : St) (h : run init ls = some s) : Inv s :=
  inv_run ls init s inv_init h

end TM.Reactive
