import ThunderModel.Limiter
namespace TM.Limiter

def b2n (b : Bool) : Nat := if b then 1 else 0

/-- tokens in the channel that a holder accounts for -/
def bal (h : Holder) : Nat :=
  b2n (h.status = .acquired) + b2n (h.tr = .needRecv) + h.relRecv + b2n (h.tr = .sentNeedCas) + b2n (h.tr = .needGiveBack)

def total (hs : List Holder) : Nat := (hs.map bal).sum

def Account (s : St) : Prop := s.chan = total s.holders ∧ s.chan ≤ s.cap

theorem total_append (a b : List Holder) : total (a ++ b) = total a + total b := by
  simp [total, List.sum_append]
@[simp] theorem total_nil : total [] = 0 := by simp [total]
@[simp] theorem total_singleton (h : Holder) : total [h] = bal h := by simp [total]

theorem total_set (hs : List Holder) (i : Nat) (h x : Holder) (hi : hs[i]? = some h) :
    total (hs.set i x) + bal h = total hs + bal x := by
  induction hs generalizing i with
  | nil => simp at hi
  | cons a tl ih =>
    cases i with
    | zero => simp at hi; subst hi; simp [total]; omega
    | succ i =>
      simp at hi
      have := ih i hi
      simp [total] at this ⊢
      omega

theorem account_init (cap : Nat) : Account (init cap) := by simp [Account, init]

theorem account_step (s s' : St) (l : Label) (a : Account s) (st : step? s l = some s') : Account s' := by
  obtain ⟨ha, hc⟩ := a
  cases l with
  | acquire =>
    simp only [step?] at st
    split at st
    · injection st with st; subst st
      refine ⟨?_, by simp; omega⟩
      simp [total_append, bal, b2n]; omega
    · cases st
  | releaseSwap i =>
    simp only [step?] at st
    split at st
    · rename_i h hh
      split at st
      · rename_i hs; injection st with st; subst st; refine ⟨?_, hc⟩
        simp only [setH]
        have := total_set s.holders i h { h with status := .released, relRecv := h.relRecv + 1 } hh
        simp [bal, b2n, hs] at this ⊢; omega
      · rename_i hs; injection st with st; subst st; refine ⟨?_, hc⟩
        simp only [setH]
        have := total_set s.holders i h { h with status := .released } hh
        simp [bal, b2n, hs] at this ⊢; omega
    · cases st
  | releaseRecv i =>
    simp only [step?] at st
    split at st
    · rename_i h hh
      split at st
      · rename_i hg; injection st with st; subst st
        refine ⟨?_, by simp [setH]; omega⟩
        simp only [setH]
        have := total_set s.holders i h { h with relRecv := h.relRecv - 1 } hh
        simp [bal] at this ⊢; omega
      · cases st
    · cases st
  | blockCas i =>
    simp only [step?] at st
    split at st
    · rename_i h hh
      split at st
      · rename_i hs
        split at st
        · rename_i ht; injection st with st; subst st; refine ⟨?_, hc⟩
          simp only [setH]
          have := total_set s.holders i h { h with status := .blocked, tr := .needRecv } hh
          simp [bal, b2n, hs, ht] at this ⊢; omega
        · cases st
      · rename_i hs; injection st with st; subst st; refine ⟨?_, hc⟩
        simp only [setH]
        have := total_set s.holders i h { h with nested := h.nested + 1 } hh
        simp [bal, b2n, hs] at this ⊢; omega
    · cases st
  | blockRecv i =>
    simp only [step?] at st
    split at st
    · rename_i h hh
      split at st
      · rename_i hg; injection st with st; subst st
        refine ⟨?_, by simp [setH]; omega⟩
        simp only [setH]
        have := total_set s.holders i h { h with tr := .running } hh
        simp [bal, b2n, hg.1] at this ⊢; omega
      · cases st
    · cases st
  | fDone i =>
    simp only [step?] at st
    split at st
    · rename_i h hh
      split at st
      · rename_i ht
        split at st
        · rename_i hg; injection st with st; subst st
          refine ⟨?_, hc⟩
          simp only [setH]
          have := total_set s.holders i h { h with status := .reacquiring, tr := .needSend } hh
          simp [bal, b2n, hg, ht] at this ⊢; omega
        · injection st with st; subst st
          refine ⟨?_, hc⟩
          simp only [setH]
          have := total_set s.holders i h { h with tr := .none } hh
          simp [bal, b2n, ht] at this ⊢; omega
      · cases st
    · cases st
  | deferSend i =>
    simp only [step?] at st
    split at st
    · rename_i h hh
      split at st
      · rename_i hg; injection st with st; subst st
        refine ⟨?_, by simp [setH]; omega⟩
        simp only [setH]
        have := total_set s.holders i h { h with tr := .sentNeedCas } hh
        simp [bal, b2n, hg.1] at this ⊢; omega
      · cases st
    · cases st
  | deferCas i =>
    simp only [step?] at st
    split at st
    · rename_i h hh
      split at st
      · rename_i ht
        split at st
        · rename_i hs; injection st with st; subst st; refine ⟨?_, hc⟩
          simp only [setH]
          have := total_set s.holders i h { h with status := .acquired, tr := .none } hh
          simp [bal, b2n, hs, ht] at this ⊢; omega
        · rename_i hs; injection st with st; subst st; refine ⟨?_, hc⟩
          simp only [setH]
          have := total_set s.holders i h { h with tr := .needGiveBack } hh
          simp [bal, b2n, hs, ht] at this ⊢; omega
      · cases st
    · cases st
  | giveBack i =>
    simp only [step?] at st
    split at st
    · rename_i h hh
      split at st
      · rename_i hg; injection st with st; subst st
        refine ⟨?_, by simp [setH]; omega⟩
        simp only [setH]
        have := total_set s.holders i h { h with tr := .none } hh
        simp [bal, b2n, hg.1] at this ⊢; omega
      · cases st
    · cases st
  | nestedDone i =>
    simp only [step?] at st
    split at st
    · rename_i h hh
      split at st
      · injection st with st; subst st; refine ⟨?_, hc⟩
        simp only [setH]
        have := total_set s.holders i h { h with nested := h.nested - 1 } hh
        simp [bal] at this ⊢; omega
      · cases st
    · cases st
  | noop =>
    simp only [step?] at st
    injection st with st; subst st; exact ⟨ha, hc⟩

theorem account_run (cap : Nat) (ls : List Label) (s : St) (h : run (init cap) ls = some s) : Account s := by
  suffices ∀ (s0 : St), Account s0 → ∀ ls s, run s0 ls = some s → Account s from
    this _ (account_init cap) ls s h
  intro s0 a0 ls
  induction ls generalizing s0 with
  | nil => intro s h; simp [run] at h; subst h; exact a0
  | cons l ls ih =>
    intro s h
    simp only [run] at h
    cases hs : step? s0 l with
    | none => simp [hs] at h
    | some s1 =>
      simp [hs] at h
      exact ih s1 (account_step s0 s1 l a0 hs) s h

theorem running_le_total (hs : List Holder) : (hs.filter isRunning).length ≤ total hs := by
  induction hs with
  | nil => simp
  | cons a tl ih =>
    simp only [List.filter]
    split
    · rename_i hr
      simp [isRunning] at hr
      simp [total, bal, b2n, hr] at ih ⊢
      omega
    · simp [total] at ih ⊢; omega

/-- With the repaired protocol, never more than `cap` holders run, for every schedule and capacity. -/
theorem running_le_cap (cap : Nat) (ls : List Label) (s : St) (h : run (init cap) ls = some s) :
    running s ≤ s.cap := by
  obtain ⟨ha, hc⟩ := account_run cap ls s h
  have := running_le_total s.holders
  unfold running
  omega

end TM.Limiter
