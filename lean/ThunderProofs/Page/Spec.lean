import ThunderProofs.Page.WalkBack
/-! One page of the implementation equals the page the property demands (`specPage`). -/
namespace TM.Page

theorem cursorIndex_mem {l : List Nat} {c : Nat} (h : c ∈ l) : cursorIndex l c = some (l.idxOf c) := by
  simp [cursorIndex, List.idxOf_lt_length_of_mem h]

theorem cursorIndex_not_mem {l : List Nat} {c : Nat} (h : c ∉ l) : cursorIndex l c = none := by
  simp [cursorIndex, List.idxOf_eq_length h]

theorem dropWhile_ne_eq_drop (l : List Nat) (c : Nat) :
    l.dropWhile (· != c) = l.drop (l.idxOf c) := by
  induction l with
  | nil => simp
  | cons x xs ih =>
    by_cases h : x = c
    · subst h; simp [List.dropWhile_cons]
    · have h' : (x != c) = true := by simpa using h
      have h2 : ¬ (x == c) = true := by simpa using h
      simp [List.dropWhile_cons, h', List.idxOf_cons, h2, ih]

theorem takeWhile_ne_eq_take (l : List Nat) (c : Nat) :
    l.takeWhile (· != c) = l.take (l.idxOf c) := by
  induction l with
  | nil => simp
  | cons x xs ih =>
    by_cases h : x = c
    · subst h; simp [List.takeWhile_cons]
    · have h' : (x != c) = true := by simpa using h
      have h2 : ¬ (x == c) = true := by simpa using h
      simp [List.takeWhile_cons, h', List.idxOf_cons, h2, ih]

theorem idxOf_zero_iff_head {l : List Nat} {c : Nat} (h : c ∈ l) : l.idxOf c = 0 ↔ l.head? = some c := by
  cases l with
  | nil => cases h
  | cons x xs =>
    by_cases hx : x = c
    · subst hx; simp
    · have h2 : ¬ (x == c) = true := by simpa using hx
      simp [List.idxOf_cons, h2, hx]

theorem idxOf_last_iff {l : List Nat} {c : Nat} (nd : l.Nodup) (h : c ∈ l) :
    l.idxOf c = l.length - 1 ↔ l.getLast? = some c := by
  have hlt := List.idxOf_lt_length_of_mem h
  rw [List.getLast?_eq_getElem?]
  constructor
  · intro e
    rw [← e, List.getElem?_eq_getElem hlt]
    simp
  · intro e
    have hl : l.length - 1 < l.length := by omega
    rw [List.getElem?_eq_getElem hl] at e
    injection e with e
    have := nd.idxOf_getElem (l.length - 1) hl
    rw [e] at this
    exact this

theorem mem_drop_getLast {l : List Nat} {c : Nat} {n : Nat} (h : c ∈ l.drop n) :
    (l.drop n).getLast? = l.getLast? := by
  rw [List.getLast?_drop]
  have : ¬ l.length ≤ n := by
    intro hc
    have : l.drop n = [] := List.drop_eq_nil_of_le hc
    rw [this] at h; cases h
  simp [this]

theorem cutAfter_eq (l : List Nat) (after : Option Nat) :
    cutAfter l after =
      (afterWindow l after, match after with | some c => decide (c ∈ l) && decide (l.head? ≠ some c) | none => false) := by
  cases after with
  | none => simp [afterWindow, cutAfter]
  | some c =>
    by_cases hc : c ∈ l
    · have := idxOf_zero_iff_head hc
      simp only [cutAfter, cursorIndex_mem hc, afterWindow, hc, if_true, dropWhile_ne_eq_drop, List.drop_drop]
      simp [this, Nat.add_comm]
    · simp [cutAfter, cursorIndex_not_mem hc, afterWindow, hc]

theorem cutBefore_eq (w : List Nat) (ndw : w.Nodup) (before : Option Nat) :
    cutBefore w before =
      (beforeWindow w before, match before with | some c => decide (c ∈ w) && decide (w.getLast? ≠ some c) | none => false) := by
  cases before with
  | none => simp [beforeWindow, cutBefore]
  | some c =>
    by_cases hc : c ∈ w
    · have := idxOf_last_iff ndw hc
      simp only [cutBefore, cursorIndex_mem hc, beforeWindow, hc, if_true, takeWhile_ne_eq_take]
      simp [this]
    · simp [cutBefore, cursorIndex_not_mem hc, beforeWindow, hc]

theorem afterWindow_nodup (l : List Nat) (nd : l.Nodup) (after : Option Nat) : (afterWindow l after).Nodup := by
  cases after with
  | none => simpa [afterWindow] using nd
  | some c =>
    simp only [afterWindow]
    split
    · exact (List.drop_sublist _ _).nodup ((List.dropWhile_sublist _).nodup nd)
    · exact nd

theorem afterWindow_getLast (l : List Nat) (after : Option Nat) (c : Nat) (hc : c ∈ afterWindow l after) :
    (afterWindow l after).getLast? = l.getLast? := by
  cases after with
  | none => simp [afterWindow]
  | some a =>
    simp only [afterWindow] at hc ⊢
    split
    · rename_i ha
      simp only [ha, if_true, dropWhile_ne_eq_drop, List.drop_drop] at hc
      simp only [dropWhile_ne_eq_drop, List.drop_drop]
      exact mem_drop_getLast hc
    · rfl

theorem cutFirst_eq (w : List Nat) (h : Bool) (first : Option Nat) :
    cutFirst w h first =
      ((match first with | some n => w.take n | none => w),
       (match first with | some n => decide (w.length > n) | none => false) || h) := by
  cases first with
  | none => simp [cutFirst]
  | some n =>
    by_cases hl : w.length > n
    · simp [cutFirst, hl]
    · have : w.length ≤ n := by omega
      simp [cutFirst, hl, List.take_of_length_le this]

theorem cutLast_eq (w : List Nat) (h : Bool) (last : Option Nat) :
    cutLast w h last =
      ((match last with | some n => w.drop (w.length - n) | none => w),
       (match last with | some n => decide (w.length > n) | none => false) || h) := by
  cases last with
  | none => simp [cutLast]
  | some n =>
    by_cases hl : w.length > n
    · simp [cutLast, hl]
    · have : w.length - n = 0 := by omega
      simp [cutLast, hl, this]

/-- **One page is exactly the specified page**: contents, `hasNextPage`, `hasPrevPage`, cursors and
`totalCount`, for every combination of `first`, `last`, `after`, `before` (known or unknown
cursors) over a duplicate-free list. -/
theorem paginate_eq_spec (l : List Nat) (nd : l.Nodup) (first last after before : Option Nat) :
    paginate l first last after before = specPage l first last after before := by
  have hbey : (match before with
      | some c => decide (c ∈ afterWindow l after) && decide ((afterWindow l after).getLast? ≠ some c)
      | none => false) =
      (match before with
      | some c => decide (c ∈ afterWindow l after) && decide (l.getLast? ≠ some c)
      | none => false) := by
    cases before with
    | none => rfl
    | some c =>
      by_cases hc : c ∈ afterWindow l after
      · simp [hc, afterWindow_getLast l after c hc]
      · simp [hc]
  simp only [paginate, specPage, applyCursors, cutAfter_eq, cutBefore_eq _ (afterWindow_nodup l nd after), hbey,
    cutFirst_eq, cutLast_eq]
  cases first <;> cases last <;> cases after <;> cases before <;> simp_all

end TM.Page
