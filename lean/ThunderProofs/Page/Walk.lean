import ThunderModel.Pagination
namespace TM.Page

theorem cursorIndex_getElem (all : List Nat) (nd : all.Nodup) (i : Nat) (h : i < all.length) :
    cursorIndex all all[i] = some i := by
  simp [cursorIndex, nd.idxOf_getElem i h, h]

/-- one forward page, no cursor -/
theorem paginate_first (all : List Nat) (n : Nat) :
    let r := paginate all (some n) none none none
    r.edges = all.take n ∧ r.hasNext = decide (all.length > n) := by
  simp only [paginate, applyCursors, cutAfter, cutBefore, cutFirst, cutLast]
  by_cases h : all.length > n
  · simp [h]
  · have h' : all.length ≤ n := by omega
    have h'' : ¬ n < all.length := by omega
    simp [h'', List.take_of_length_le h']

/-- one forward page after the element at position `i` -/
theorem paginate_first_after (all : List Nat) (nd : all.Nodup) (n i : Nat) (h : i < all.length) :
    let r := paginate all (some n) none (some all[i]) none
    r.edges = (all.drop (i + 1)).take n ∧ r.hasNext = decide ((all.drop (i + 1)).length > n) := by
  simp only [paginate, applyCursors, cutAfter, cutBefore, cutFirst, cutLast, cursorIndex_getElem all nd i h]
  by_cases hl : (all.drop (i + 1)).length > n
  · have hl' : n < all.length - (i + 1) := by simpa using hl
    simp [hl']
  · have hl' : ¬ n < all.length - (i + 1) := by simpa using hl
    have hle : (all.drop (i + 1)).length ≤ n := by omega
    simp [hl', List.take_of_length_le hle]

/-- the cursor state after `k` elements have been delivered -/
def cursorAt (all : List Nat) (k : Nat) : Option Nat := if k = 0 then none else all[k - 1]?

theorem paginate_at (all : List Nat) (nd : all.Nodup) (n k : Nat) (hk : k ≤ all.length) :
    let r := paginate all (some n) none (cursorAt all k) none
    r.edges = (all.drop k).take n ∧ r.hasNext = decide ((all.drop k).length > n) := by
  by_cases h0 : k = 0
  · subst h0
    simpa [cursorAt] using paginate_first all n
  · have hlt : k - 1 < all.length := by omega
    have := paginate_first_after all nd n (k - 1) hlt
    have e : k - 1 + 1 = k := by omega
    simp only [e] at this
    simpa [cursorAt, h0, List.getElem?_eq_getElem hlt] using this

theorem endCursor_at (all : List Nat) (n k : Nat) (hn : 0 < n) (hl : (all.drop k).length > n) :
    ((all.drop k).take n).getLast? = cursorAt all (k + n) := by
  have hk : k + n - 1 < all.length := by simp at hl; omega
  have h0 : k + n ≠ 0 := by omega
  simp only [cursorAt, h0, if_false, List.getElem?_eq_getElem hk]
  rw [List.getLast?_eq_getElem?]
  simp only [List.length_take, List.length_drop]
  have : min n (all.length - k) - 1 = n - 1 := by simp at hl; omega
  rw [this]
  rw [List.getElem?_take]
  have hn1 : n - 1 < n := by omega
  simp only [hn1, if_true]
  rw [List.getElem?_drop]
  have e : k + (n - 1) = k + n - 1 := by omega
  rw [e, List.getElem?_eq_getElem hk]

theorem walk_from (all : List Nat) (nd : all.Nodup) (n : Nat) (hn : 0 < n) :
    ∀ (fuel k : Nat), k ≤ all.length → all.length - k < fuel →
      walk all n fuel (cursorAt all k) = all.drop k := by
  intro fuel
  induction fuel with
  | zero => intro k _ h; omega
  | succ fuel ih =>
    intro k hk hf
    obtain ⟨he, hh⟩ := paginate_at all nd n k hk
    simp only [walk]
    by_cases hl : (all.drop k).length > n
    · have hnext : (paginate all (some n) none (cursorAt all k) none).hasNext = true := by
        rw [hh]; exact decide_eq_true hl
      simp only [hnext, if_true]
      have hend : (paginate all (some n) none (cursorAt all k) none).endCursor = cursorAt all (k + n) := by
        have : (paginate all (some n) none (cursorAt all k) none).endCursor =
            (paginate all (some n) none (cursorAt all k) none).edges.getLast? := by
          simp [paginate]
        rw [this, he]
        exact endCursor_at all n k hn hl
      rw [hend, he]
      have hk' : k + n ≤ all.length := by simp at hl; omega
      rw [ih (k + n) hk' (by simp at hl; omega)]
      rw [← List.drop_drop]
      exact List.take_append_drop n (all.drop k)
    · have hnext : (paginate all (some n) none (cursorAt all k) none).hasNext = false := by
        rw [hh]; exact decide_eq_false hl
      simp only [hnext]
      rw [he]
      apply List.take_of_length_le
      omega

theorem walk_all (all : List Nat) (nd : all.Nodup) (n : Nat) (hn : 0 < n) :
    walk all n (all.length + 1) none = all := by
  have := walk_from all nd n hn (all.length + 1) 0 (by omega) (by omega)
  simpa [cursorAt] using this

end TM.Page
