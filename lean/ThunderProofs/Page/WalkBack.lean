import ThunderProofs.Page.Walk
namespace TM.Page

/-- the `before` cursor when `k` elements remain in front of it -/
def cursorBefore (all : List Nat) (k : Nat) : Option Nat := if k = all.length then none else all[k]?

theorem paginate_last (all : List Nat) (n : Nat) :
    let r := paginate all none (some n) none none
    r.edges = all.drop (all.length - n) ∧ r.hasPrev = decide (all.length > n) := by
  simp only [paginate, applyCursors, cutAfter, cutBefore, cutFirst, cutLast]
  by_cases h : all.length > n
  · simp [h]
  · have h' : all.length - n = 0 := by omega
    have h'' : ¬ n < all.length := by omega
    simp [h'', h']

theorem paginate_last_before (all : List Nat) (nd : all.Nodup) (n k : Nat) (h : k < all.length) :
    let r := paginate all none (some n) none (some all[k])
    r.edges = (all.take k).drop (k - n) ∧ r.hasPrev = decide (k > n) := by
  simp only [paginate, applyCursors, cutAfter, cutBefore, cutFirst, cutLast, cursorIndex_getElem all nd k h]
  have hk : min k all.length = k := by omega
  by_cases hl : k > n
  · simp [hl, hk]
  · have h' : k - n = 0 := by omega
    have h'' : ¬ n < k := by omega
    simp [h'', h', hk]

theorem paginateBack_at (all : List Nat) (nd : all.Nodup) (n k : Nat) (hk : k ≤ all.length) :
    let r := paginate all none (some n) none (cursorBefore all k)
    r.edges = (all.take k).drop (k - n) ∧ r.hasPrev = decide (k > n) := by
  by_cases h0 : k = all.length
  · subst h0
    have := paginate_last all n
    simpa [cursorBefore] using this
  · have hlt : k < all.length := by omega
    have := paginate_last_before all nd n k hlt
    simpa [cursorBefore, h0, List.getElem?_eq_getElem hlt] using this

theorem startCursor_at (all : List Nat) (n k : Nat) (hn : 0 < n) (hk : k ≤ all.length) (hl : k > n) :
    ((all.take k).drop (k - n)).head? = cursorBefore all (k - n) := by
  have h1 : k - n < all.length := by omega
  have h0 : k - n ≠ all.length := by omega
  simp only [cursorBefore, h0, if_false, List.getElem?_eq_getElem h1]
  rw [List.head?_drop, List.getElem?_take]
  have : k - n < k := by omega
  simp [this, List.getElem?_eq_getElem h1]

theorem walkBack_from (all : List Nat) (nd : all.Nodup) (n : Nat) (hn : 0 < n) :
    ∀ (fuel k : Nat), k ≤ all.length → k < fuel →
      walkBack all n fuel (cursorBefore all k) = all.take k := by
  intro fuel
  induction fuel with
  | zero => intro k _ h; omega
  | succ fuel ih =>
    intro k hk hf
    obtain ⟨he, hh⟩ := paginateBack_at all nd n k hk
    simp only [walkBack]
    by_cases hl : k > n
    · have hprev : (paginate all none (some n) none (cursorBefore all k)).hasPrev = true := by
        rw [hh]; exact decide_eq_true hl
      simp only [hprev, if_true]
      have hstart : (paginate all none (some n) none (cursorBefore all k)).startCursor = cursorBefore all (k - n) := by
        have : (paginate all none (some n) none (cursorBefore all k)).startCursor =
            (paginate all none (some n) none (cursorBefore all k)).edges.head? := by
          simp [paginate]
        rw [this, he]
        exact startCursor_at all n k hn hk hl
      rw [hstart, he, ih (k - n) (by omega) (by omega)]
      have : all.take (k - n) = (all.take k).take (k - n) := by
        rw [List.take_take]; congr 1; omega
      rw [this]
      exact List.take_append_drop (k - n) (all.take k)
    · have hprev : (paginate all none (some n) none (cursorBefore all k)).hasPrev = false := by
        rw [hh]; exact decide_eq_false hl
      simp only [hprev]
      rw [he]
      have : k - n = 0 := by omega
      simp [this]

theorem walkBack_all (all : List Nat) (nd : all.Nodup) (n : Nat) (hn : 0 < n) :
    walkBack all n (all.length + 1) none = all := by
  have := walkBack_from all nd n hn (all.length + 1) all.length (by omega) (by omega)
  simpa [cursorBefore] using this

end TM.Page
