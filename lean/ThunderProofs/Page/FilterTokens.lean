import ThunderModel.PageFilter
/-! Helper lemmas for the tokenizer of the default text filter. -/
namespace TM.Page

/-- a character that belongs to a word -/
def plain (c : Char) : Bool := !isQ c && !isSp c

theorem tokRun_word_plain (acc w : List Char) (hw : ∀ c ∈ w, plain c = true) (rest : List Char) :
    tokRun (.word acc) (w ++ rest) = tokRun (.word (acc ++ w)) rest := by
  induction w generalizing acc with
  | nil => simp
  | cons c w ih =>
    have hc := hw c (List.mem_cons_self)
    simp only [plain, Bool.and_eq_true, Bool.not_eq_true'] at hc
    simp only [List.cons_append, tokRun, tokStep, hc.1, hc.2, Bool.false_eq_true, if_false, List.nil_append]
    rw [ih (acc ++ [c]) (fun d hd => hw d (List.mem_cons_of_mem _ hd))]
    simp

theorem tokRun_phrase_plain (acc p : List Char) (hp : ∀ c ∈ p, isQ c = false) (rest : List Char) :
    tokRun (.phrase acc) (p ++ rest) = tokRun (.phrase (acc ++ p)) rest := by
  induction p generalizing acc with
  | nil => simp
  | cons c p ih =>
    have hc := hp c (List.mem_cons_self)
    simp only [List.cons_append, tokRun, tokStep, hc, Bool.false_eq_true, if_false, List.nil_append]
    rw [ih (acc ++ [c]) (fun d hd => hp d (List.mem_cons_of_mem _ hd))]
    simp

end TM.Page
