import ThunderProofs.Batch.Inv
import ThunderProofs.Batch.Lists
namespace TM.Batch

/-- updating only the program counter of call `c` -/
theorem inv_setPc (s : St) (c : Nat) (cl : Call) (p : PC) (h : Inv s) (hc : s.calls[c]? = some cl)
    (hearly : ∀ g, cl.creator = true → s.groups[cl.group]? = some g → (p.early = true ↔ g.done = none))
    (hpubE : ∀ g, cl.creator = true → s.groups[cl.group]? = some g → g.published = true → (p = .joined ∨ p = .woke))
    (hjoin : cl.creator = false → (p = .waiting ∨ ∃ r, p = .returned r))
    (hcre : cl.creator = true → p ≠ .waiting)
    (hret : ∀ r, p = .returned r → ∃ (g : Group) (res : Option (List Nat)),
        s.groups[cl.group]? = some g ∧ g.done = some res ∧ r = resultAt res cl.index) :
    Inv { s with calls := s.calls.set c { cl with pc := p } } := by
  have key : ∀ (i : Nat) (y : Call), (s.calls.set c { cl with pc := p })[i]? = some y →
      ∃ y0 : Call, s.calls[i]? = some y0 ∧ y.arg = y0.arg ∧ y.key = y0.key ∧ y.group = y0.group ∧
        y.index = y0.index ∧ y.creator = y0.creator ∧ ((i = c ∧ y0 = cl ∧ y.pc = p) ∨ (i ≠ c ∧ y = y0)) := by
    intro i y hy
    rcases (getElem?_set_iff s.calls c cl _ hc i y).mp hy with ⟨rfl, rfl⟩ | ⟨hne, hy0⟩
    · exact ⟨cl, hc, rfl, rfl, rfl, rfl, rfl, Or.inl ⟨rfl, rfl, rfl⟩⟩
    · exact ⟨y, hy0, rfl, rfl, rfl, rfl, rfl, Or.inr ⟨hne, rfl⟩⟩
  have back : ∀ (i : Nat) (y0 : Call), s.calls[i]? = some y0 →
      ∃ y : Call, (s.calls.set c { cl with pc := p })[i]? = some y ∧ y.group = y0.group ∧ y.index = y0.index ∧
        y.creator = y0.creator := by
    intro i y0 hy0
    by_cases hi : i = c
    · subst hi
      rw [hc] at hy0; injection hy0 with hy0; subst hy0
      exact ⟨{ cl with pc := p }, (getElem?_set_iff s.calls i cl _ hc i _).mpr (Or.inl ⟨rfl, rfl⟩), rfl, rfl, rfl⟩
    · exact ⟨y0, (getElem?_set_iff s.calls c cl _ hc i _).mpr (Or.inr ⟨hi, hy0⟩), rfl, rfl, rfl⟩
  constructor
  · intro i y hy
    obtain ⟨y0, h0, ha, hk, hg, hi, _, _⟩ := key i y hy
    obtain ⟨g, h1, h2, h3⟩ := h.callSlot i y0 h0
    exact ⟨g, by rw [hg]; exact h1, by rw [hi, ha]; exact h2, by rw [hk]; exact h3⟩
  · intro i j yi yj hyi hyj hg hx
    obtain ⟨a, ha, _, _, hga, hia, _, _⟩ := key i yi hyi
    obtain ⟨b, hb, _, _, hgb, hib, _, _⟩ := key j yj hyj
    exact h.slotsDistinct i j a b ha hb (by rw [← hga, ← hgb]; exact hg) (by rw [← hia, ← hib]; exact hx)
  · intro gi g k hg hk
    obtain ⟨i, y0, h0, h1, h2⟩ := h.slotsCovered gi g k hg hk
    obtain ⟨y, hy, e1, e2, _⟩ := back i y0 h0
    exact ⟨i, y, hy, by rw [e1]; exact h1, by rw [e2]; exact h2⟩
  · exact h.sizeBound
  · intro i j yi yj hyi hyj ci cj hg
    obtain ⟨a, ha, _, _, hga, _, hca, _⟩ := key i yi hyi
    obtain ⟨b, hb, _, _, hgb, _, hcb, _⟩ := key j yj hyj
    exact h.creatorUnique i j a b ha hb (by rw [← hca]; exact ci) (by rw [← hcb]; exact cj) (by rw [← hga, ← hgb]; exact hg)
  · intro i y g hy hcr hg
    obtain ⟨y0, h0, _, _, hgg, _, hcc, hcase⟩ := key i y hy
    rcases hcase with ⟨_, rfl, hp⟩ | ⟨_, rfl⟩
    · rw [hp]; exact hearly g (by rw [← hcc]; exact hcr) (by rw [← hgg]; exact hg)
    · exact h.creatorEarly i y g h0 hcr hg
  · intro i y g hy hcr hg hp
    obtain ⟨y0, h0, _, _, hgg, _, hcc, hcase⟩ := key i y hy
    rcases hcase with ⟨_, rfl, hpc⟩ | ⟨_, rfl⟩
    · rw [hpc]; exact hpubE g (by rw [← hcc]; exact hcr) (by rw [← hgg]; exact hg) hp
    · exact h.pubEarly i y g h0 hcr hg hp
  · intro i y hy hcr
    obtain ⟨y0, h0, _, _, _, _, hcc, hcase⟩ := key i y hy
    rcases hcase with ⟨_, rfl, hp⟩ | ⟨_, rfl⟩
    · rw [hp]; exact hjoin (by rw [← hcc]; exact hcr)
    · exact h.joinerPc i y h0 hcr
  · intro i y hy hcr
    obtain ⟨y0, h0, _, _, _, _, hcc, hcase⟩ := key i y hy
    rcases hcase with ⟨_, rfl, hp⟩ | ⟨_, rfl⟩
    · rw [hp]; exact hcre (by rw [← hcc]; exact hcr)
    · exact h.creatorPc i y h0 hcr
  · intro gi g hg hd
    obtain ⟨i, y0, h0, h1, h2⟩ := h.openHasCreator gi g hg hd
    obtain ⟨y, hy, e1, _, e3⟩ := back i y0 h0
    exact ⟨i, y, hy, by rw [e3]; exact h1, by rw [e1]; exact h2⟩
  · exact h.doneShape
  · intro i y r hy hp
    obtain ⟨y0, h0, _, _, hgg, hii, _, hcase⟩ := key i y hy
    rcases hcase with ⟨_, rfl, hpc⟩ | ⟨_, rfl⟩
    · rw [hpc] at hp
      obtain ⟨g, res, a, b, c'⟩ := hret r hp
      exact ⟨g, res, by rw [hgg]; exact a, b, by rw [hii]; exact c'⟩
    · exact h.returned i y r h0 hp

end TM.Batch

namespace TM.Batch

/-- the creator `c` of group `cl.group` updates the group (same key and arguments, `done` only
ever gets set) and its own program counter -/
theorem inv_update (s : St) (c : Nat) (cl : Call) (p : PC) (g g' : Group) (h : Inv s)
    (hc : s.calls[c]? = some cl) (hcr : cl.creator = true) (hg : s.groups[cl.group]? = some g)
    (hkey : g'.key = g.key) (hargs : g'.args = g.args)
    (hmono : ∀ res, g.done = some res → g'.done = some res)
    (hpub : g'.published = true → g.published = true ∧ g'.done = none)
    (hshape : g'.manyCalls ≤ 1 ∧ (g'.done = none → g'.manyCalls = 0) ∧
      (∀ rs, g'.done = some (some rs) → rs.length = g'.args.length ∧ g'.manyCalls = 1))
    (hearly : p.early = true ↔ g'.done = none)
    (hpubE : g'.published = true → (p = .joined ∨ p = .woke))
    (hnw : p ≠ .waiting) (hnr : ∀ r, p ≠ .returned r) :
    Inv { s with groups := s.groups.set cl.group g', calls := s.calls.set c { cl with pc := p } } := by
  have key : ∀ (i : Nat) (y : Call), (s.calls.set c { cl with pc := p })[i]? = some y →
      ∃ y0 : Call, s.calls[i]? = some y0 ∧ y.arg = y0.arg ∧ y.key = y0.key ∧ y.group = y0.group ∧
        y.index = y0.index ∧ y.creator = y0.creator ∧ ((i = c ∧ y0 = cl ∧ y.pc = p) ∨ (i ≠ c ∧ y = y0)) := by
    intro i y hy
    rcases (getElem?_set_iff s.calls c cl _ hc i y).mp hy with ⟨rfl, rfl⟩ | ⟨hne, hy0⟩
    · exact ⟨cl, hc, rfl, rfl, rfl, rfl, rfl, Or.inl ⟨rfl, rfl, rfl⟩⟩
    · exact ⟨y, hy0, rfl, rfl, rfl, rfl, rfl, Or.inr ⟨hne, rfl⟩⟩
  have back : ∀ (i : Nat) (y0 : Call), s.calls[i]? = some y0 →
      ∃ y : Call, (s.calls.set c { cl with pc := p })[i]? = some y ∧ y.group = y0.group ∧ y.index = y0.index ∧
        y.creator = y0.creator := by
    intro i y0 hy0
    by_cases hi : i = c
    · subst hi
      rw [hc] at hy0; injection hy0 with hy0; subst hy0
      exact ⟨{ cl with pc := p }, (getElem?_set_iff s.calls i cl _ hc i _).mpr (Or.inl ⟨rfl, rfl⟩), rfl, rfl, rfl⟩
    · exact ⟨y0, (getElem?_set_iff s.calls c cl _ hc i _).mpr (Or.inr ⟨hi, hy0⟩), rfl, rfl, rfl⟩
  -- groups: old ↦ new
  have gkey : ∀ (gi : Nat) (x : Group), (s.groups.set cl.group g')[gi]? = some x →
      ∃ x0 : Group, s.groups[gi]? = some x0 ∧ x.key = x0.key ∧ x.args = x0.args ∧
        ((gi = cl.group ∧ x0 = g ∧ x = g') ∨ (gi ≠ cl.group ∧ x = x0)) := by
    intro gi x hx
    rcases (getElem?_set_iff s.groups cl.group g _ hg gi x).mp hx with ⟨rfl, rfl⟩ | ⟨hne, hx0⟩
    · exact ⟨g, hg, hkey, hargs, Or.inl ⟨rfl, rfl, rfl⟩⟩
    · exact ⟨x, hx0, rfl, rfl, Or.inr ⟨hne, rfl⟩⟩
  have gback : ∀ (gi : Nat) (x0 : Group), s.groups[gi]? = some x0 →
      ∃ x : Group, (s.groups.set cl.group g')[gi]? = some x ∧ x.key = x0.key ∧ x.args = x0.args ∧
        (∀ res, x0.done = some res → x.done = some res) := by
    intro gi x0 hx0
    by_cases hi : gi = cl.group
    · subst hi
      rw [hg] at hx0; injection hx0 with hx0; subst hx0
      exact ⟨g', (getElem?_set_iff s.groups _ g _ hg _ _).mpr (Or.inl ⟨rfl, rfl⟩), hkey, hargs, hmono⟩
    · exact ⟨x0, (getElem?_set_iff s.groups _ g _ hg _ _).mpr (Or.inr ⟨hi, hx0⟩), rfl, rfl, fun _ e => e⟩
  constructor
  · intro i y hy
    obtain ⟨y0, h0, ha, hk, hgg, hi, _, _⟩ := key i y hy
    obtain ⟨x0, h1, h2, h3⟩ := h.callSlot i y0 h0
    obtain ⟨x, hx, e1, e2, _⟩ := gback y0.group x0 h1
    exact ⟨x, by rw [hgg]; exact hx, by rw [e2, hi, ha]; exact h2, by rw [e1, hk]; exact h3⟩
  · intro i j yi yj hyi hyj hgg hx
    obtain ⟨a, ha, _, _, hga, hia, _, _⟩ := key i yi hyi
    obtain ⟨b, hb, _, _, hgb, hib, _, _⟩ := key j yj hyj
    exact h.slotsDistinct i j a b ha hb (by rw [← hga, ← hgb]; exact hgg) (by rw [← hia, ← hib]; exact hx)
  · intro gi x k hx hk
    obtain ⟨x0, h0, _, ea, _⟩ := gkey gi x hx
    obtain ⟨i, y0, hy0, h1, h2⟩ := h.slotsCovered gi x0 k h0 (by rw [← ea]; exact hk)
    obtain ⟨y, hy, e1, e2, _⟩ := back i y0 hy0
    exact ⟨i, y, hy, by rw [e1]; exact h1, by rw [e2]; exact h2⟩
  · intro gi x hx
    obtain ⟨x0, h0, _, ea, hcase⟩ := gkey gi x hx
    obtain ⟨b1, b2⟩ := h.sizeBound gi x0 h0
    rcases hcase with ⟨_, rfl, rfl⟩ | ⟨_, rfl⟩
    · refine ⟨by rw [ea]; exact b1, ?_⟩
      intro hp
      obtain ⟨p1, p2⟩ := hpub hp
      exact ⟨p2, by rw [ea]; exact (b2 p1).2⟩
    · exact ⟨b1, b2⟩
  · intro i j yi yj hyi hyj ci cj hgg
    obtain ⟨a, ha, _, _, hga, _, hca, _⟩ := key i yi hyi
    obtain ⟨b, hb, _, _, hgb, _, hcb, _⟩ := key j yj hyj
    exact h.creatorUnique i j a b ha hb (by rw [← hca]; exact ci) (by rw [← hcb]; exact cj) (by rw [← hga, ← hgb]; exact hgg)
  · intro i y x hy hcry hx
    obtain ⟨y0, h0, _, _, hgg, _, hcc, hcase⟩ := key i y hy
    obtain ⟨x0, hx0, _, _, gcase⟩ := gkey y.group x hx
    rcases hcase with ⟨_, rfl, hp⟩ | ⟨hne, rfl⟩
    · -- the updating creator itself
      rcases gcase with ⟨_, _, rfl⟩ | ⟨hne', _⟩
      · rw [hp]; exact hearly
      · exact absurd hgg hne'
    · rcases gcase with ⟨hgi, _, rfl⟩ | ⟨_, rfl⟩
      · -- another creator of the same group: impossible
        have := h.creatorUnique i c y cl h0 hc hcry hcr hgi
        exact absurd this hne
      · exact h.creatorEarly i y x h0 hcry hx0
  · intro i y x hy hcry hx hpx
    obtain ⟨y0, h0, _, _, hgg, _, hcc, hcase⟩ := key i y hy
    obtain ⟨x0, hx0, _, _, gcase⟩ := gkey y.group x hx
    rcases hcase with ⟨_, rfl, hpc⟩ | ⟨hne, rfl⟩
    · rcases gcase with ⟨_, _, rfl⟩ | ⟨hne', _⟩
      · rw [hpc]; exact hpubE hpx
      · exact absurd hgg hne'
    · rcases gcase with ⟨hgi, _, rfl⟩ | ⟨_, rfl⟩
      · have := h.creatorUnique i c y cl h0 hc hcry hcr hgi
        exact absurd this hne
      · exact h.pubEarly i y x h0 hcry hx0 hpx
  · intro i y hy hcry
    obtain ⟨y0, h0, _, _, _, _, hcc, hcase⟩ := key i y hy
    rcases hcase with ⟨_, rfl, hp⟩ | ⟨_, rfl⟩
    · rw [hcc, hcr] at hcry; cases hcry
    · exact h.joinerPc i y h0 hcry
  · intro i y hy hcry
    obtain ⟨y0, h0, _, _, _, _, hcc, hcase⟩ := key i y hy
    rcases hcase with ⟨_, rfl, hp⟩ | ⟨_, rfl⟩
    · rw [hp]; exact hnw
    · exact h.creatorPc i y h0 hcry
  · intro gi x hx hd
    obtain ⟨x0, h0, _, _, gcase⟩ := gkey gi x hx
    have hd0 : x0.done = none := by
      rcases gcase with ⟨_, rfl, rfl⟩ | ⟨_, rfl⟩
      · cases hgd : x0.done with
        | none => rfl
        | some res => rw [hmono res hgd] at hd; cases hd
      · exact hd
    obtain ⟨i, y0, hy0, h1, h2⟩ := h.openHasCreator gi x0 h0 hd0
    obtain ⟨y, hy, e1, _, e3⟩ := back i y0 hy0
    exact ⟨i, y, hy, by rw [e3]; exact h1, by rw [e1]; exact h2⟩
  · intro gi x hx
    obtain ⟨x0, h0, _, _, gcase⟩ := gkey gi x hx
    rcases gcase with ⟨_, rfl, rfl⟩ | ⟨_, rfl⟩
    · exact hshape
    · exact h.doneShape gi x h0
  · intro i y r hy hp
    obtain ⟨y0, h0, _, _, hgg, hii, _, hcase⟩ := key i y hy
    rcases hcase with ⟨_, rfl, hpc⟩ | ⟨_, rfl⟩
    · rw [hpc] at hp; exact absurd hp (hnr r)
    · obtain ⟨x0, res, a, b, c'⟩ := h.returned i y r h0 hp
      obtain ⟨x, hx, _, _, hm⟩ := gback y.group x0 a
      exact ⟨x, res, hx, hm res b, c'⟩

end TM.Batch

namespace TM.Batch

theorem findPublished_some (key : Nat) : ∀ (gs : List Group) (off gi : Nat), findPublished key gs off = some gi →
    ∃ g : Group, off ≤ gi ∧ gs[gi - off]? = some g ∧ g.published = true ∧ g.key = key := by
  intro gs
  induction gs with
  | nil => intro off gi h; simp [findPublished] at h
  | cons g gs ih =>
    intro off gi h
    simp only [findPublished] at h
    split at h
    · rename_i hc
      injection h with h; subst h
      simp only [Bool.and_eq_true, beq_iff_eq] at hc
      exact ⟨g, Nat.le_refl _, by simp, hc.1, hc.2⟩
    · obtain ⟨g', hle, hg', hp, hk⟩ := ih (off + 1) gi h
      refine ⟨g', by omega, ?_, hp, hk⟩
      have : gi - off = (gi - (off + 1)) + 1 := by omega
      rw [this]; simpa using hg'

theorem sizeCheck_args (m : Nat) (g : Group) : (sizeCheck m g).args = g.args := by
  unfold sizeCheck; split <;> rfl
theorem sizeCheck_key (m : Nat) (g : Group) : (sizeCheck m g).key = g.key := by
  unfold sizeCheck; split <;> rfl
theorem sizeCheck_done (m : Nat) (g : Group) : (sizeCheck m g).done = g.done := by
  unfold sizeCheck; split <;> rfl
theorem sizeCheck_many (m : Nat) (g : Group) : (sizeCheck m g).manyCalls = g.manyCalls := by
  unfold sizeCheck; split <;> rfl
theorem sizeCheck_published (m : Nat) (g : Group) (h : (sizeCheck m g).published = true) :
    g.published = true ∧ (0 < m → g.args.length ≠ m) := by
  unfold sizeCheck at h
  split at h
  · cases h
  · rename_i hc
    refine ⟨h, ?_⟩
    intro hm he
    apply hc
    simp [hm, he]

/-- a call joins the published group `gi` -/
theorem inv_joinExisting (s : St) (arg key gi : Nat) (g : Group) (h : Inv s)
    (hg : s.groups[gi]? = some g) (hp : g.published = true) (hk : g.key = key) :
    Inv { s with groups := s.groups.set gi (sizeCheck s.maxSize { g with args := g.args ++ [arg] }),
                 calls := s.calls ++ [⟨arg, key, gi, g.args.length, false, .waiting⟩] } := by
  let g' := sizeCheck s.maxSize { g with args := g.args ++ [arg] }
  have hargs : g'.args = g.args ++ [arg] := sizeCheck_args _ _
  have hkey : g'.key = g.key := sizeCheck_key _ _
  have hdone : g'.done = g.done := sizeCheck_done _ _
  have hmany : g'.manyCalls = g.manyCalls := sizeCheck_many _ _
  have hgdone : g.done = none := ((h.sizeBound gi g hg).2 hp).1
  have gkey : ∀ (j : Nat) (x : Group), (s.groups.set gi g')[j]? = some x →
      (j = gi ∧ x = g') ∨ (j ≠ gi ∧ s.groups[j]? = some x) :=
    fun j x hx => (getElem?_set_iff s.groups gi g _ hg j x).mp hx
  have gat : (s.groups.set gi g')[gi]? = some g' :=
    (getElem?_set_iff s.groups gi g _ hg gi g').mpr (Or.inl ⟨rfl, rfl⟩)
  have gother : ∀ (j : Nat) (x : Group), j ≠ gi → s.groups[j]? = some x → (s.groups.set gi g')[j]? = some x :=
    fun j x hne hx => (getElem?_set_iff s.groups gi g _ hg j x).mpr (Or.inr ⟨hne, hx⟩)
  let nc : Call := ⟨arg, key, gi, g.args.length, false, .waiting⟩
  have ckey : ∀ (i : Nat) (y : Call), (s.calls ++ [nc])[i]? = some y →
      s.calls[i]? = some y ∨ (i = s.calls.length ∧ y = nc) :=
    fun i y hy => (getElem?_append_one s.calls nc i y).mp hy
  have cold : ∀ (i : Nat) (y : Call), s.calls[i]? = some y → (s.calls ++ [nc])[i]? = some y :=
    fun i y hy => (getElem?_append_one s.calls nc i y).mpr (Or.inl hy)
  have cnew : (s.calls ++ [nc])[s.calls.length]? = some nc :=
    (getElem?_append_one s.calls nc _ nc).mpr (Or.inr ⟨rfl, rfl⟩)
  -- an old call in group gi has an index below the old length
  have oldIdx : ∀ (i : Nat) (y : Call), s.calls[i]? = some y → y.group = gi → y.index < g.args.length := by
    intro i y hy hgi
    obtain ⟨x, hx, ha, _⟩ := h.callSlot i y hy
    rw [hgi, hg] at hx; injection hx with hx; subst hx
    exact lt_of_getElem? ha
  show Inv { s with groups := s.groups.set gi g', calls := s.calls ++ [nc] }
  constructor
  · intro i y hy
    rcases ckey i y hy with hy0 | ⟨_, rfl⟩
    · obtain ⟨x, hx, ha, hkk⟩ := h.callSlot i y hy0
      by_cases hgi : y.group = gi
      · rw [hgi, hg] at hx; injection hx with hx; subst hx
        refine ⟨g', by rw [hgi]; exact gat, ?_, by rw [hkey]; exact hkk⟩
        rw [hargs, List.getElem?_append_left (lt_of_getElem? ha)]; exact ha
      · exact ⟨x, gother _ x hgi hx, ha, hkk⟩
    · exact ⟨g', gat, by rw [hargs]; simp [nc], by rw [hkey]; exact hk⟩
  · intro i j yi yj hyi hyj hgg hx
    rcases ckey i yi hyi with hi0 | ⟨rfl, rfl⟩ <;> rcases ckey j yj hyj with hj0 | ⟨rfl, rfl⟩
    · exact h.slotsDistinct i j yi yj hi0 hj0 hgg hx
    · have := oldIdx i yi hi0 hgg
      simp only [nc] at hx; omega
    · have := oldIdx j yj hj0 hgg.symm
      simp only [nc] at hx; omega
    · rfl
  · intro j x k hx hk'
    rcases gkey j x hx with ⟨rfl, rfl⟩ | ⟨hne, hx0⟩
    · rw [hargs] at hk'
      simp at hk'
      by_cases hlt : k < g.args.length
      · obtain ⟨i, y, hy, e1, e2⟩ := h.slotsCovered j g k hg hlt
        exact ⟨i, y, cold i y hy, e1, e2⟩
      · exact ⟨s.calls.length, nc, cnew, rfl, by simp only [nc]; omega⟩
    · obtain ⟨i, y, hy, e1, e2⟩ := h.slotsCovered j x k hx0 hk'
      exact ⟨i, y, cold i y hy, e1, e2⟩
  · intro j x hx
    rcases gkey j x hx with ⟨rfl, rfl⟩ | ⟨hne, hx0⟩
    · obtain ⟨_, b2⟩ := h.sizeBound j g hg
      obtain ⟨_, room⟩ := b2 hp
      refine ⟨?_, ?_⟩
      · intro hm; rw [hargs]; have := room hm; simp; omega
      · intro hpub
        obtain ⟨_, hne⟩ := sizeCheck_published _ _ hpub
        refine ⟨by rw [hdone]; exact hgdone, ?_⟩
        intro hm
        have h1 := room hm
        have h2 := hne hm
        rw [hargs]; simp at h2 ⊢; omega
    · exact h.sizeBound j x hx0
  · intro i j yi yj hyi hyj ci cj hgg
    rcases ckey i yi hyi with hi0 | ⟨rfl, rfl⟩ <;> rcases ckey j yj hyj with hj0 | ⟨rfl, rfl⟩
    · exact h.creatorUnique i j yi yj hi0 hj0 ci cj hgg
    · simp [nc] at cj
    · simp [nc] at ci
    · rfl
  · intro i y x hy hcr hx
    rcases ckey i y hy with hy0 | ⟨_, rfl⟩
    · rcases gkey y.group x hx with ⟨hgi, rfl⟩ | ⟨hne, hx0⟩
      · have := h.creatorEarly i y g hy0 hcr (by rw [hgi]; exact hg)
        rw [hdone]; exact this
      · exact h.creatorEarly i y x hy0 hcr hx0
    · simp [nc] at hcr
  · intro i y x hy hcr hx hpx
    rcases ckey i y hy with hy0 | ⟨_, rfl⟩
    · rcases gkey y.group x hx with ⟨hgi, rfl⟩ | ⟨hne, hx0⟩
      · exact h.pubEarly i y g hy0 hcr (by rw [hgi]; exact hg) hp
      · exact h.pubEarly i y x hy0 hcr hx0 hpx
    · simp [nc] at hcr
  · intro i y hy hcr
    rcases ckey i y hy with hy0 | ⟨_, rfl⟩
    · exact h.joinerPc i y hy0 hcr
    · exact Or.inl rfl
  · intro i y hy hcr
    rcases ckey i y hy with hy0 | ⟨_, rfl⟩
    · exact h.creatorPc i y hy0 hcr
    · simp [nc] at hcr
  · intro j x hx hd
    rcases gkey j x hx with ⟨rfl, rfl⟩ | ⟨hne, hx0⟩
    · obtain ⟨i, y, hy, e1, e2⟩ := h.openHasCreator j g hg hgdone
      exact ⟨i, y, cold i y hy, e1, e2⟩
    · obtain ⟨i, y, hy, e1, e2⟩ := h.openHasCreator j x hx0 hd
      exact ⟨i, y, cold i y hy, e1, e2⟩
  · intro j x hx
    rcases gkey j x hx with ⟨rfl, rfl⟩ | ⟨hne, hx0⟩
    · obtain ⟨a, b, _⟩ := h.doneShape j g hg
      refine ⟨by rw [hmany]; exact a, fun _ => by rw [hmany]; exact b hgdone, ?_⟩
      intro rs hrs
      rw [hdone, hgdone] at hrs; cases hrs
    · exact h.doneShape j x hx0
  · intro i y r hy hpc
    rcases ckey i y hy with hy0 | ⟨_, rfl⟩
    · obtain ⟨x, res, a, b, c'⟩ := h.returned i y r hy0 hpc
      by_cases hgi : y.group = gi
      · rw [hgi, hg] at a; injection a with a; subst a
        rw [hgdone] at b; cases b
      · exact ⟨x, res, gother _ x hgi a, b, c'⟩
    · simp [nc] at hpc

end TM.Batch

namespace TM.Batch

/-- a call creates a new group -/
theorem inv_joinNew (s : St) (arg key : Nat) (h : Inv s) :
    Inv { s with groups := s.groups ++ [sizeCheck s.maxSize { key := key, args := [arg], published := true }],
                 calls := s.calls ++ [⟨arg, key, s.groups.length, 0, true, .joined⟩] } := by
  let g' := sizeCheck s.maxSize { key := key, args := [arg], published := true }
  have hargs : g'.args = [arg] := sizeCheck_args _ _
  have hkey : g'.key = key := sizeCheck_key _ _
  have hdone : g'.done = none := sizeCheck_done _ _
  have hmany : g'.manyCalls = 0 := sizeCheck_many _ _
  let nc : Call := ⟨arg, key, s.groups.length, 0, true, .joined⟩
  have gkey : ∀ (j : Nat) (x : Group), (s.groups ++ [g'])[j]? = some x →
      s.groups[j]? = some x ∨ (j = s.groups.length ∧ x = g') :=
    fun j x hx => (getElem?_append_one s.groups g' j x).mp hx
  have gold : ∀ (j : Nat) (x : Group), s.groups[j]? = some x → (s.groups ++ [g'])[j]? = some x :=
    fun j x hx => (getElem?_append_one s.groups g' j x).mpr (Or.inl hx)
  have gnew : (s.groups ++ [g'])[s.groups.length]? = some g' :=
    (getElem?_append_one s.groups g' _ g').mpr (Or.inr ⟨rfl, rfl⟩)
  have ckey : ∀ (i : Nat) (y : Call), (s.calls ++ [nc])[i]? = some y →
      s.calls[i]? = some y ∨ (i = s.calls.length ∧ y = nc) :=
    fun i y hy => (getElem?_append_one s.calls nc i y).mp hy
  have cold : ∀ (i : Nat) (y : Call), s.calls[i]? = some y → (s.calls ++ [nc])[i]? = some y :=
    fun i y hy => (getElem?_append_one s.calls nc i y).mpr (Or.inl hy)
  have cnew : (s.calls ++ [nc])[s.calls.length]? = some nc :=
    (getElem?_append_one s.calls nc _ nc).mpr (Or.inr ⟨rfl, rfl⟩)
  have oldGroup : ∀ (i : Nat) (y : Call), s.calls[i]? = some y → y.group < s.groups.length := by
    intro i y hy
    obtain ⟨x, hx, _, _⟩ := h.callSlot i y hy
    exact lt_of_getElem? hx
  show Inv { s with groups := s.groups ++ [g'], calls := s.calls ++ [nc] }
  constructor
  · intro i y hy
    rcases ckey i y hy with hy0 | ⟨_, rfl⟩
    · obtain ⟨x, hx, ha, hkk⟩ := h.callSlot i y hy0
      exact ⟨x, gold _ x hx, ha, hkk⟩
    · exact ⟨g', gnew, by rw [hargs]; simp [nc], by rw [hkey]⟩
  · intro i j yi yj hyi hyj hgg hx
    rcases ckey i yi hyi with hi0 | ⟨rfl, rfl⟩ <;> rcases ckey j yj hyj with hj0 | ⟨rfl, rfl⟩
    · exact h.slotsDistinct i j yi yj hi0 hj0 hgg hx
    · have := oldGroup i yi hi0; simp only [nc] at hgg; omega
    · have := oldGroup j yj hj0; simp only [nc] at hgg; omega
    · rfl
  · intro j x k hx hk'
    rcases gkey j x hx with hx0 | ⟨rfl, rfl⟩
    · obtain ⟨i, y, hy, e1, e2⟩ := h.slotsCovered j x k hx0 hk'
      exact ⟨i, y, cold i y hy, e1, e2⟩
    · rw [hargs] at hk'; simp at hk'
      exact ⟨s.calls.length, nc, cnew, rfl, by simp only [nc]; omega⟩
  · intro j x hx
    rcases gkey j x hx with hx0 | ⟨rfl, rfl⟩
    · exact h.sizeBound j x hx0
    · refine ⟨?_, ?_⟩
      · intro hm
        have hm' : 0 < s.maxSize := hm
        rw [hargs]; simp; omega
      · intro hpub
        obtain ⟨_, hne⟩ := sizeCheck_published _ _ hpub
        refine ⟨hdone, ?_⟩
        intro hm
        have hm' : 0 < s.maxSize := hm
        have := hne hm'
        rw [hargs]; simp at this ⊢; omega
  · intro i j yi yj hyi hyj ci cj hgg
    rcases ckey i yi hyi with hi0 | ⟨rfl, rfl⟩ <;> rcases ckey j yj hyj with hj0 | ⟨rfl, rfl⟩
    · exact h.creatorUnique i j yi yj hi0 hj0 ci cj hgg
    · have := oldGroup i yi hi0; simp only [nc] at hgg; omega
    · have := oldGroup j yj hj0; simp only [nc] at hgg; omega
    · rfl
  · intro i y x hy hcr hx
    rcases ckey i y hy with hy0 | ⟨_, rfl⟩
    · rcases gkey y.group x hx with hx0 | ⟨hgi, _⟩
      · exact h.creatorEarly i y x hy0 hcr hx0
      · have := oldGroup i y hy0; omega
    · rcases gkey nc.group x hx with hx0 | ⟨_, rfl⟩
      · have := lt_of_getElem? hx0; simp only [nc] at this; omega
      · simp [nc, PC.early, hdone]
  · intro i y x hy hcr hx hpx
    rcases ckey i y hy with hy0 | ⟨_, rfl⟩
    · rcases gkey y.group x hx with hx0 | ⟨hgi, _⟩
      · exact h.pubEarly i y x hy0 hcr hx0 hpx
      · have := oldGroup i y hy0; omega
    · exact Or.inl rfl
  · intro i y hy hcr
    rcases ckey i y hy with hy0 | ⟨_, rfl⟩
    · exact h.joinerPc i y hy0 hcr
    · simp [nc] at hcr
  · intro i y hy hcr
    rcases ckey i y hy with hy0 | ⟨_, rfl⟩
    · exact h.creatorPc i y hy0 hcr
    · simp [nc]
  · intro j x hx hd
    rcases gkey j x hx with hx0 | ⟨rfl, rfl⟩
    · obtain ⟨i, y, hy, e1, e2⟩ := h.openHasCreator j x hx0 hd
      exact ⟨i, y, cold i y hy, e1, e2⟩
    · exact ⟨s.calls.length, nc, cnew, rfl, rfl⟩
  · intro j x hx
    rcases gkey j x hx with hx0 | ⟨rfl, rfl⟩
    · exact h.doneShape j x hx0
    · refine ⟨by rw [hmany]; omega, fun _ => hmany, ?_⟩
      intro rs hrs; rw [hdone] at hrs; cases hrs
  · intro i y r hy hpc
    rcases ckey i y hy with hy0 | ⟨_, rfl⟩
    · obtain ⟨x, res, a, b, c'⟩ := h.returned i y r hy0 hpc
      exact ⟨x, res, gold _ x a, b, c'⟩
    · simp [nc] at hpc

theorem safeResult_length (args : List Nat) (o : Outcome) (rs : List Nat) (h : safeResult args o = some rs) :
    rs.length = args.length := by
  cases o with
  | ok r => simp only [safeResult] at h; split at h <;> simp_all
  | err => simp [safeResult] at h
  | panic => simp [safeResult] at h

theorem creator_of_pc (s : St) (h : Inv s) (c : Nat) (cl : Call) (hc : s.calls[c]? = some cl)
    (hpc : cl.pc.early = true) : cl.creator = true := by
  cases hcc : cl.creator with
  | true => rfl
  | false =>
    rcases h.joinerPc c cl hc hcc with hw | ⟨r, hr⟩
    · rw [hw] at hpc; cases hpc
    · rw [hr] at hpc; cases hpc

/-- **Every step preserves the invariant.** -/
theorem inv_step (s s' : St) (l : Label) (h : Inv s) (st : step? s l = some s') : Inv s' := by
  cases l with
  | join arg key =>
    simp only [step?] at st
    split at st
    · rename_i gi hf
      split at st
      · rename_i g hg
        injection st with st; subst st
        obtain ⟨g0, _, hg0, hp, hk⟩ := findPublished_some key s.groups 0 gi hf
        simp at hg0
        rw [hg] at hg0; injection hg0 with hg0; subst hg0
        exact inv_joinExisting s arg key gi g h hg hp hk
      · cases st
    · injection st with st; subst st
      exact inv_joinNew s arg key h
  | wake c =>
    simp only [step?] at st
    split at st
    · rename_i cl hc
      split at st
      · rename_i hpc
        injection st with st; subst st
        have hcr : cl.creator = true := creator_of_pc s h c cl hc (by rw [hpc]; rfl)
        refine inv_setPc s c cl .woke h hc ?_ (fun _ _ _ _ => Or.inr rfl) ?_ ?_ ?_
        · intro g _ hg
          have := h.creatorEarly c cl g hc hcr hg
          rw [hpc] at this
          simpa [PC.early] using this
        · intro hf; rw [hcr] at hf; cases hf
        · intro _ hw; cases hw
        · intro r hr; cases hr
      · cases st
    · cases st
  | unpublish c =>
    simp only [step?] at st
    split at st
    · rename_i cl hc
      split at st
      · rename_i hpc
        split at st
        · rename_i g hg
          injection st with st; subst st
          have hcr : cl.creator = true := creator_of_pc s h c cl hc (by rw [hpc]; rfl)
          have he := h.creatorEarly c cl g hc hcr hg
          rw [hpc] at he
          have hd : g.done = none := he.mp (by simp [PC.early])
          obtain ⟨a, b, c'⟩ := h.doneShape cl.group g hg
          refine inv_update s c cl .unpublished g { g with published := false } h hc hcr hg rfl rfl
            (fun res e => e) (fun hp => by cases hp) ⟨a, b, c'⟩ ?_ (fun hp => by cases hp)
            (fun hw => by cases hw) (fun r hr => by cases hr)
          simp [PC.early, hd]
        · cases st
      · cases st
    · cases st
  | run c o =>
    simp only [step?] at st
    split at st
    · rename_i cl hc
      split at st
      · rename_i hpc
        split at st
        · rename_i g hg
          injection st with st; subst st
          have hcr : cl.creator = true := creator_of_pc s h c cl hc (by rw [hpc]; rfl)
          have he := h.creatorEarly c cl g hc hcr hg
          rw [hpc] at he
          have hd : g.done = none := he.mp (by simp [PC.early])
          obtain ⟨a, b, c'⟩ := h.doneShape cl.group g hg
          have hm0 : g.manyCalls = 0 := b hd
          have hnp : g.published = false := by
            cases hpp : g.published with
            | false => rfl
            | true =>
              rcases h.pubEarly c cl g hc hcr hg hpp with e | e <;> rw [hpc] at e <;> cases e
          refine inv_update s c cl .ran g _ h hc hcr hg ?_ ?_ ?_ ?_ ?_ ?_ ?_ (fun hw => by cases hw) (fun r hr => by cases hr)
          · split <;> rfl
          · split <;> rfl
          · intro res e; rw [hd] at e; cases e
          · intro hp
            have : g.published = true := by split at hp <;> exact hp
            rw [hnp] at this; cases this
          · split
            · refine ⟨a, ?_, ?_⟩
              · intro e; simp at e
              · intro rs e; simp at e
            · refine ⟨by simp [hm0], ?_, ?_⟩
              · intro e; simp at e
              · intro rs e
                simp at e
                exact ⟨safeResult_length g.args o rs e, by simp [hm0]⟩
          · split <;> simp [PC.early]
          · intro hp
            have : g.published = true := by split at hp <;> exact hp
            rw [hnp] at this; cases this
        · cases st
      · cases st
    · cases st
  | ret c =>
    simp only [step?] at st
    split at st
    · rename_i cl hc
      split at st
      · rename_i hpc
        split at st
        · rename_i g hg
          split at st
          · rename_i res hres
            injection st with st; subst st
            refine inv_setPc s c cl _ h hc ?_ ?_ ?_ ?_ ?_
            · intro g2 hcr hg2
              rw [hg] at hg2; injection hg2 with hg2; subst hg2
              simp [PC.early, hres]
            · intro g2 hcr hg2 hp2
              rw [hg] at hg2; injection hg2 with hg2; subst hg2
              have := ((h.sizeBound cl.group g hg).2 hp2).1
              rw [hres] at this; cases this
            · intro _; exact Or.inr ⟨_, rfl⟩
            · intro _ hw; cases hw
            · intro r hr
              injection hr with hr
              exact ⟨g, res, hg, hres, by rw [← hr]; cases res <;> rfl⟩
          · cases st
        · cases st
      · cases st
    · cases st
  | cancel =>
    simp only [step?] at st
    injection st with st; subst st
    exact ⟨h.callSlot, h.slotsDistinct, h.slotsCovered, h.sizeBound, h.creatorUnique, h.creatorEarly,
      h.pubEarly, h.joinerPc, h.creatorPc, h.openHasCreator, h.doneShape, h.returned⟩

theorem inv_run (m : Nat) (ls : List Label) (s : St) (h : run (init m) ls = some s) : Inv s := by
  suffices ∀ (s0 : St), Inv s0 → ∀ ls s, run s0 ls = some s → Inv s from
    this _ (by constructor <;> intros <;> simp_all [init]) ls s h
  intro s0 a0 ls
  induction ls generalizing s0 with
  | nil => intro s h; simp [run] at h; subst h; exact a0
  | cons l ls ih =>
    intro s h
    simp only [run] at h
    cases hs : step? s0 l with
    | none => simp [hs] at h
    | some s1 =>
      simp [hs] at h
      exact ih s1 (inv_step s0 s1 l a0 hs) s h

end TM.Batch
