/-! List lookup lemmas used by the batching invariant. -/
namespace TM.Batch

theorem getElem?_set_iff {α : Type} (l : List α) (c : Nat) (old x : α) (h : l[c]? = some old) (i : Nat) (y : α) :
    (l.set c x)[i]? = some y ↔ (i = c ∧ y = x) ∨ (i ≠ c ∧ l[i]? = some y) := by
  have hc : c < l.length := by
    rcases List.getElem?_eq_some_iff.mp h with ⟨hlt, _⟩; exact hlt
  rw [List.getElem?_set]
  by_cases hic : c = i
  · subst hic; simp [hc]; constructor <;> intro e <;> exact e.symm
  · have : i ≠ c := fun e => hic e.symm
    simp [hic, this]

theorem getElem?_append_one {α : Type} (l : List α) (x : α) (i : Nat) (y : α) :
    (l ++ [x])[i]? = some y ↔ l[i]? = some y ∨ (i = l.length ∧ y = x) := by
  by_cases hi : i < l.length
  · rw [List.getElem?_append_left hi]
    constructor
    · intro h; exact Or.inl h
    · rintro (h | ⟨h, _⟩)
      · exact h
      · omega
  · have hge : l.length ≤ i := by omega
    rw [List.getElem?_append_right hge]
    have hn : l[i]? = none := List.getElem?_eq_none hge
    by_cases he : i = l.length
    · subst he; simp [hn]; constructor <;> intro e <;> exact e.symm
    · have : i - l.length ≠ 0 := by omega
      cases hd : i - l.length with
      | zero => omega
      | succ n => simp [hn, he]

theorem lt_of_getElem? {α : Type} {l : List α} {i : Nat} {x : α} (h : l[i]? = some x) : i < l.length := by
  rcases List.getElem?_eq_some_iff.mp h with ⟨hlt, _⟩; exact hlt

end TM.Batch
