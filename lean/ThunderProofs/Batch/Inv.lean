import ThunderModel.Batch
/-! Inductive invariant of the batching protocol. -/
namespace TM.Batch

def PC.early : PC → Bool
  | .joined | .woke | .unpublished => true
  | _ => false

/-- the result a call must report once its group is done -/
def resultAt (res : Option (List Nat)) (i : Nat) : Option Nat :=
  match res with
  | some rs => rs[i]?
  | none => none

structure Inv (s : St) : Prop where
  /-- every call sits in an existing group, at its own index, under its own key -/
  callSlot : ∀ (i : Nat) (c : Call), s.calls[i]? = some c →
    ∃ g : Group, s.groups[c.group]? = some g ∧ g.args[c.index]? = some c.arg ∧ g.key = c.key
  /-- no two calls share a slot -/
  slotsDistinct : ∀ (i j : Nat) (ci cj : Call), s.calls[i]? = some ci → s.calls[j]? = some cj →
    ci.group = cj.group → ci.index = cj.index → i = j
  /-- every slot of every group belongs to a call -/
  slotsCovered : ∀ (gi : Nat) (g : Group) (k : Nat), s.groups[gi]? = some g → k < g.args.length →
    ∃ (i : Nat) (c : Call), s.calls[i]? = some c ∧ c.group = gi ∧ c.index = k
  /-- a batch never exceeds `MaxSize`; a published group still has room and is not done -/
  sizeBound : ∀ (gi : Nat) (g : Group), s.groups[gi]? = some g →
    (0 < s.maxSize → g.args.length ≤ s.maxSize) ∧
    (g.published = true → g.done = none ∧ (0 < s.maxSize → g.args.length < s.maxSize))
  /-- a group has exactly one creator, and the creator's progress matches the group's state -/
  creatorUnique : ∀ (i j : Nat) (ci cj : Call), s.calls[i]? = some ci → s.calls[j]? = some cj →
    ci.creator = true → cj.creator = true → ci.group = cj.group → i = j
  creatorEarly : ∀ (i : Nat) (c : Call) (g : Group), s.calls[i]? = some c → c.creator = true → s.groups[c.group]? = some g →
    (c.pc.early = true ↔ g.done = none)
  /-- a group stays published only while its creator has not yet passed its second critical section -/
  pubEarly : ∀ (i : Nat) (c : Call) (g : Group), s.calls[i]? = some c → c.creator = true →
    s.groups[c.group]? = some g → g.published = true → (c.pc = .joined ∨ c.pc = .woke)
  joinerPc : ∀ (i : Nat) (c : Call), s.calls[i]? = some c → c.creator = false → (c.pc = .waiting ∨ ∃ r, c.pc = .returned r)
  creatorPc : ∀ (i : Nat) (c : Call), s.calls[i]? = some c → c.creator = true → c.pc ≠ .waiting
  /-- an open group has its creator still on the way -/
  openHasCreator : ∀ (gi : Nat) (g : Group), s.groups[gi]? = some g → g.done = none →
    ∃ (i : Nat) (c : Call), s.calls[i]? = some c ∧ c.creator = true ∧ c.group = gi
  /-- results have the length of the arguments; `Many` ran at most once, exactly once if there are results -/
  doneShape : ∀ (gi : Nat) (g : Group), s.groups[gi]? = some g →
    g.manyCalls ≤ 1 ∧ (g.done = none → g.manyCalls = 0) ∧
    (∀ rs, g.done = some (some rs) → rs.length = g.args.length ∧ g.manyCalls = 1)
  /-- a returned call reports its own slot of its group's result -/
  returned : ∀ (i : Nat) (c : Call) (r : Option Nat), s.calls[i]? = some c → c.pc = .returned r →
    ∃ (g : Group) (res : Option (List Nat)), s.groups[c.group]? = some g ∧ g.done = some res ∧ r = resultAt res c.index

theorem inv_init (m : Nat) : Inv (init m) := by
  constructor <;> intros <;> simp_all [init]

end TM.Batch
