import ThunderProofs.Diff.Maps
import ThunderProofs.Diff.Rle
namespace TM
namespace J

theorem stripL_eq_map (xs : List J) : stripL xs = xs.map strip := by
  induction xs with
  | nil => simp [stripL]
  | cons x xs ih => simp [stripL, ih]

theorem decItems_enc (items : List Rle.Item) : decItems (items.map encItem) = .ok items := by
  induction items with
  | nil => simp [decItems]
  | cons i r ih =>
    cases i with
    | one x => simp [decItems, encItem, decItem, ih]; rfl
    | run s c => simp [decItems, encItem, decItem, ih]; rfl

theorem decIdx_encIdx (l : List Int) : decIdx (encIdx l) = .ok l := by
  simp [decIdx, encIdx, decItems_enc, Except.map, Rle.uncompress_compress]

theorem pickOld_strip (os : List J) (i : Int) : pickOld (stripL os) i = strip (pickOld os i) := by
  unfold pickOld
  split
  · rw [stripL_eq_map]
    simp [List.getD_eq_getElem?_getD, List.getElem?_map]
    cases os[i.toNat]? <;> simp [strip]
  · simp [strip]

theorem pickOld_map_strip (os : List J) (idx : List Int) :
    idx.map (pickOld (stripL os)) = (idx.map (pickOld os)).map strip := by
  simp [List.map_map, Function.comp_def, pickOld_strip]

/-- element-wise round trip, generalised over the already finished prefix `done` -/
theorem elems_roundtrip (m : J → J → Except String J) (d : J → J → Option J) :
    ∀ (bs ns done : List J), bs.length = ns.length →
    (∀ p ∈ bs.zip ns,
      (match d p.1 p.2 with
        | none => strip p.1 = strip p.2
        | some x => m (strip p.1) x = .ok (strip p.2))) →
    applyElems m (done ++ bs.map strip) (diffElems d bs ns done.length) = .ok (done ++ ns.map strip) := by
  intro bs
  induction bs with
  | nil =>
    intro ns done hl _
    cases ns with
    | nil => simp [diffElems, applyElems]
    | cons _ _ => simp at hl
  | cons b bs ih =>
    intro ns done hl H
    cases ns with
    | nil => simp at hl
    | cons n ns =>
      have hl' : bs.length = ns.length := by simpa using hl
      have Hhead := H (b, n) (by simp)
      have Htail : ∀ p ∈ bs.zip ns, _ := fun p hp => H p (by simp [hp])
      have key := ih ns (done ++ [strip n]) hl' Htail
      simp only [List.length_append, List.length_singleton, List.append_assoc, List.singleton_append] at key
      simp only [diffElems]
      cases hd : d b n with
      | none =>
        simp only [hd] at Hhead
        simp only [List.map_cons, Hhead]
        exact key
      | some x =>
        simp only [hd] at Hhead
        simp only [applyElems, List.map_cons]
        have hk : done.length + 1 ≠ 0 := by omega
        simp only [hk, if_false, Nat.add_sub_cancel]
        have hlt : done.length < (done ++ strip b :: bs.map strip).length := by simp
        simp only [hlt, dite_true]
        have hget : (done ++ strip b :: bs.map strip)[done.length] = strip b := by simp
        rw [hget, Hhead]
        have hset : (done ++ strip b :: bs.map strip).set done.length (strip n) = done ++ strip n :: bs.map strip := by
          simp
        simp only [bind, Except.bind, hset]
        exact key

theorem identity_map_pick (l : List J) (idx : List Int) (h : identityIdx idx l.length = true) :
    idx.map (pickOld l) = l := by
  simp [identityIdx] at h
  subst h
  apply List.ext_getElem
  · simp
  · intro i h1 h2
    simp [pickOld]
    simp at h1
    simp [List.getD_eq_getElem?_getD, h1]

end J

namespace J

theorem diffElems_keys_pos (d : J → J → Option J) :
    ∀ (bs ns : List J) (pos : Nat), ∀ p ∈ diffElems d bs ns pos, pos < p.1 := by
  intro bs
  induction bs with
  | nil => intro ns pos p hp; simp [diffElems] at hp
  | cons b bs ih =>
    intro ns pos p hp
    cases ns with
    | nil => simp [diffElems] at hp
    | cons n ns =>
      simp only [diffElems] at hp
      split at hp
      · have := ih ns (pos + 1) p hp; omega
      · simp only [List.mem_cons] at hp
        rcases hp with rfl | hp
        · simp
        · have := ih ns (pos + 1) p hp; omega

theorem mergeArr_no_dollar (m : J → J → Except String J) (ps : List J) (dkvs : List (Nat × J))
    (h : ∀ p ∈ dkvs, 0 < p.1) : mergeArr m ps dkvs = (applyElems m ps dkvs).map .arr := by
  cases dkvs with
  | nil => simp [mergeArr]
  | cons hd tl =>
    obtain ⟨k, v⟩ := hd
    have : 0 < k := h (k, v) (by simp)
    cases k with
    | zero => omega
    | succ k => simp [mergeArr]

/-- Array round trip for *any* index assignment of the right length. -/
theorem arr_roundtrip (m : J → J → Except String J) (d : J → J → Option J)
    (asg : List J → List J → List Int) (os ns : List J)
    (hlen : (asg os ns).length = ns.length)
    (H : ∀ p ∈ ((asg os ns).map (pickOld os)).zip ns,
      (match d p.1 p.2 with
        | none => strip p.1 = strip p.2
        | some x => m (strip p.1) x = .ok (strip p.2))) :
    (match diffArr d asg os ns with
      | none => stripL os = stripL ns
      | some dl => ∃ dkvs, dl = .obj dkvs ∧ mergeArr m (stripL os) dkvs = .ok (.arr (stripL ns))) := by
  have E := elems_roundtrip m d ((asg os ns).map (pickOld os)) ns [] (by simp [hlen]) H
  simp only [List.nil_append, List.length_nil] at E
  unfold diffArr
  simp only
  by_cases hid : identityIdx (asg os ns) os.length = true
  · have hbs := identity_map_pick os (asg os ns) hid
    rw [hbs] at E ⊢
    simp only [hid, if_true]
    by_cases hemp : diffElems d os ns 0 = []
    · simp only [hemp, List.isEmpty_nil, if_true]
      rw [hemp] at E
      simp only [applyElems] at E
      injection E with E
      simp [stripL_eq_map, E]
    · have hne : (diffElems d os ns 0).isEmpty = false := by
        cases h : diffElems d os ns 0 with
        | nil => exact absurd h hemp
        | cons _ _ => simp
      simp only [hne]
      refine ⟨_, rfl, ?_⟩
      rw [mergeArr_no_dollar _ _ _ (fun p hp => diffElems_keys_pos d os ns 0 p hp)]
      rw [stripL_eq_map, stripL_eq_map, E]
      rfl
  · have hid' : identityIdx (asg os ns) os.length = false := by simpa using hid
    simp only [hid', Bool.false_eq_true, if_false, List.isEmpty_cons]
    refine ⟨_, rfl, ?_⟩
    simp only [mergeArr, decIdx_encIdx, bind, Except.bind, pickOld_map_strip, E]
    simp [stripL_eq_map]

end J

namespace J

theorem depthL_mem {xs : List J} : ∀ x ∈ xs, depth x ≤ depthL xs := by
  induction xs with
  | nil => intro x hx; cases hx
  | cons a tl ih =>
    intro x hx
    simp only [List.mem_cons] at hx
    rcases hx with rfl | hx
    · simp [depthL]; omega
    · have := ih x hx; simp [depthL]; omega

theorem WFL_mem {xs : List J} (h : WFL xs) : ∀ x ∈ xs, WFJ x := by
  induction xs with
  | nil => intro x hx; cases hx
  | cons a tl ih =>
    intro x hx
    simp only [List.mem_cons] at hx
    rcases hx with rfl | hx
    · exact h.1
    · exact ih h.2 x hx

theorem pickOld_cases (os : List J) (i : Int) : pickOld os i = .null ∨ pickOld os i ∈ os := by
  unfold pickOld
  split
  · rw [List.getD_eq_getElem?_getD]
    cases h : os[i.toNat]? with
    | none => simp
    | some v => right; simp; exact List.mem_of_getElem? h
  · simp

theorem depth_pickOld (os : List J) (i : Int) : depth (pickOld os i) ≤ depthL os := by
  rcases pickOld_cases os i with h | h
  · rw [h]; simp [depth]
  · exact depthL_mem _ h

theorem WF_pickOld (os : List J) (i : Int) (w : WFL os) : WFJ (pickOld os i) := by
  rcases pickOld_cases os i with h | h
  · rw [h]; simp [WFJ]
  · exact WFL_mem w _ h

variable {bad : Except String J}

theorem mergeA_nonobj (f : Nat) (prev v : J) :
    mergeG bad (f+1) prev (markReplaced v) = .ok (strip v) := by
  cases v <;> cases prev <;> simp [markReplaced, mergeG, mergeReplaced, strip]

theorem diffArr_obj (d : J → J → Option J) (asg) (os ns : List J) (x : J)
    (h : diffArr d asg os ns = some x) : ∃ kvs, x = .obj kvs := by
  unfold diffArr at h
  simp only at h
  by_cases hE : (if identityIdx (asg os ns) os.length = true then
      diffElems d (List.map (pickOld os) (asg os ns)) ns 0
    else (0, encIdx (asg os ns)) :: diffElems d (List.map (pickOld os) (asg os ns)) ns 0).isEmpty = true
  · simp [hE] at h
  · simp [hE] at h
    exact ⟨_, h.symm⟩

theorem diffA_not_removed (asg) (f : Nat) (a b x : J) (h : diffA asg f a b = some x) : isRemoved x = false := by
  cases f with
  | zero => simp [diffA] at h
  | succ f =>
    cases a <;> cases b <;> simp [diffA] at h <;>
      first
        | (subst h; simp [markReplaced, isRemoved, strip])
        | skip
    · obtain ⟨_, rfl⟩ := h; simp [isRemoved]
    · obtain ⟨_, rfl⟩ := h; simp [markReplaced, isRemoved]
    · obtain ⟨kvs, rfl⟩ := diffArr_obj _ _ _ _ _ h
      simp [isRemoved]
    · split at h
      · injection h with h; subst h; simp [markReplaced, isRemoved]
      · split at h
        · cases h
        · injection h with h; subst h; simp [isRemoved]

/-- the index assignment only has to have the right length -/
def GoodAsg (asg : List J → List J → List Int) : Prop := ∀ os ns, (asg os ns).length = ns.length

theorem elemHA (asg) (f : Nat)
    (ih : ∀ (old new : J), depth old < f → WFJ old → WFJ new →
      applyG bad f (strip old) (diffA asg f old new) = .ok (strip new))
    (os ns : List (Nat × J)) (hd : depthO os < f) (wo : WFO os) (wn : WFO ns) :
    ∀ po ∈ os, ∀ pn ∈ ns, po.1 = pn.1 →
      (match diffA asg f po.2 pn.2 with
        | none => strip po.2 = strip pn.2
        | some x => isRemoved x = false ∧ mergeG bad f (strip po.2) x = .ok (strip pn.2)) := by
  intro po hpo pn hpn _
  have h1 : depth po.2 < f := Nat.lt_of_le_of_lt (depthO_mem po hpo) hd
  have := ih po.2 pn.2 h1 (WFO_mem wo po hpo) (WFO_mem wn pn hpn)
  cases hdf : diffA asg f po.2 pn.2 with
  | none =>
    simp [hdf, applyG] at this
    simpa using this
  | some x =>
    simp [hdf, applyG] at this
    exact ⟨diffA_not_removed asg f _ _ x hdf, this⟩

theorem obj_roundtripA (asg) (f : Nat)
    (ih : ∀ (old new : J), depth old < f → WFJ old → WFJ new →
      applyG bad f (strip old) (diffA asg f old new) = .ok (strip new))
    (okvs nkvs : List (Nat × J)) (hd : depthO okvs < f)
    (so : sortedK okvs) (sn : sortedK nkvs)
    (wo : WFO okvs) (wn : WFO nkvs) (kko : keyOK okvs) (kkn : keyOK nkvs)
    (hk : keyEq (keyOf okvs) (keyOf nkvs) = true) :
    mergeKvs (mergeG bad f) (stripO okvs) (diffKvs (diffA asg f) okvs nkvs) = .ok (stripO nkvs) := by
  cases okvs with
  | nil =>
    cases nkvs with
    | nil => simp [stripO, diffKvs, mergeKvs]
    | cons hn tn =>
      obtain ⟨k', v'⟩ := hn
      cases k' with
      | zero => cases v' <;> simp [keyOf, keyEq, keyOK] at hk kkn
      | succ k' =>
        exact kvs_roundtrip _ _ [] _ (by intro p hp; cases hp)
          (noKey0_of_head sn (by omega)) so sn
          (elemHA asg f ih [] _ hd wo wn)
  | cons ho to =>
    obtain ⟨k, v⟩ := ho
    cases k with
    | succ k =>
      cases nkvs with
      | nil =>
        exact kvs_roundtrip _ _ _ [] (noKey0_of_head so (by omega)) (by intro p hp; cases hp) so sn
          (elemHA asg f ih _ [] hd wo wn)
      | cons hn tn =>
        obtain ⟨k', v'⟩ := hn
        cases k' with
        | zero => cases v' <;> simp [keyOf, keyEq, keyOK] at hk kkn
        | succ k' =>
          exact kvs_roundtrip _ _ _ _ (noKey0_of_head so (by omega)) (noKey0_of_head sn (by omega)) so sn
            (elemHA asg f ih _ _ hd wo wn)
    | zero =>
      cases nkvs with
      | nil => cases v <;> simp [keyOf, keyEq, keyOK] at hk kko
      | cons hn tn =>
        obtain ⟨k', v'⟩ := hn
        cases k' with
        | succ k' => cases v <;> simp [keyOf, keyEq, keyOK] at hk kko
        | zero =>
          have hdiff : diffA asg f v v' = none := by
            cases f with
            | zero => simp [diffA]
            | succ f =>
              cases v <;> cases v' <;> simp [keyOf, keyEq, keyOK] at hk kko kkn <;> simp [diffA, hk]
          have hdt : depthO to < f := by
            have : depthO to ≤ depthO ((0, v) :: to) := by simp [depthO]; omega
            omega
          have := kvs_roundtrip (mergeG bad f) (diffA asg f) to tn (sortedK_noKey0_tail so) (sortedK_noKey0_tail sn)
            (sortedK_tail so) (sortedK_tail sn) (elemHA asg f ih to tn hdt wo.2 wn.2)
          rw [diffKvs]
          simp [hdiff, stripO, this]

/-- **Round trip, full model** (objects, arrays with any index assignment, scalars, null), repaired encodings:
applying `Diff(old, new)` to the key-stripped old value yields the key-stripped new value. -/
theorem roundtripA (asg) (ga : GoodAsg asg) : ∀ (f : Nat) (old new : J), depth old < f → WFJ old → WFJ new →
    applyG bad f (strip old) (diffA asg f old new) = .ok (strip new) := by
  intro f
  induction f with
  | zero => intro old new h; omega
  | succ f ih =>
    intro old new hd wo wn
    cases old with
    | null =>
      cases new <;> simp [diffA, applyG, strip, mergeA_nonobj]
    | sc a =>
      cases new with
      | sc b =>
        by_cases hab : a = b
        · simp [diffA, hab, applyG, strip]
        · simp [diffA, hab, applyG, strip, mergeG, mergeReplaced]
      | _ => simp [diffA, applyG, mergeA_nonobj]
    | «by» a =>
      cases new with
      | «by» b =>
        by_cases hab : a = b
        · simp [diffA, hab, applyG, strip]
        · simp [diffA, hab, applyG, strip, mergeA_nonobj]
      | _ => simp [diffA, applyG, mergeA_nonobj]
    | arr os =>
      cases new with
      | arr ns =>
        have hdL : depthL os < f := by simp [depth] at hd; omega
        have H : ∀ p ∈ ((asg os ns).map (pickOld os)).zip ns,
            (match diffA asg f p.1 p.2 with
              | none => strip p.1 = strip p.2
              | some x => mergeG bad f (strip p.1) x = .ok (strip p.2)) := by
          intro p hp
          have hp1 : p.1 ∈ (asg os ns).map (pickOld os) := (List.of_mem_zip hp).1
          have hp2 : p.2 ∈ ns := (List.of_mem_zip hp).2
          obtain ⟨i, _, hi⟩ := List.mem_map.mp hp1
          have d1 : depth p.1 < f := by rw [← hi]; exact Nat.lt_of_le_of_lt (depth_pickOld os i) hdL
          have w1 : WFJ p.1 := by rw [← hi]; exact WF_pickOld os i wo
          have := ih p.1 p.2 d1 w1 (WFL_mem wn _ hp2)
          cases hdf : diffA asg f p.1 p.2 with
          | none => simp [hdf, applyG] at this; simpa using this
          | some x => simp [hdf, applyG] at this; simpa using this
        have A := arr_roundtrip (mergeG bad f) (diffA asg f) asg os ns (ga os ns) H
        simp only [diffA]
        cases hda : diffArr (diffA asg f) asg os ns with
        | none => simp [hda] at A; simp [applyG, strip, A]
        | some dl =>
          simp only [hda] at A
          obtain ⟨dkvs, rfl, hm⟩ := A
          simp [applyG, strip, mergeG, hm]
      | _ => simp [diffA, applyG, mergeA_nonobj]
    | obj okvs =>
      cases new with
      | obj nkvs =>
        have hdO : depthO okvs < f := by simp [depth] at hd; omega
        obtain ⟨so, kko, wo'⟩ := wo
        obtain ⟨sn, kkn, wn'⟩ := wn
        by_cases hk : keyEq (keyOf okvs) (keyOf nkvs) = true
        · have L := obj_roundtripA asg f ih okvs nkvs hdO so sn wo' wn' kko kkn hk
          by_cases hemp : diffKvs (diffA asg f) okvs nkvs = []
          · rw [hemp, mergeKvs_nil] at L
            injection L with L
            simp [diffA, hk, hemp, applyG, strip, L]
          · simp [diffA, hk, hemp, applyG, strip, mergeG, L, Except.map]
        · simp [diffA, hk, applyG, mergeA_nonobj]
      | _ => simp [diffA, applyG, mergeA_nonobj]

/-- `Diff(x, x)` is empty-or-harmless: applying it leaves `strip x` (corollary at `new := old`). -/
theorem roundtripA_self (asg) (ga : GoodAsg asg) (x : J) (w : WFJ x) :
    applyG bad (depth x + 1) (strip x) (diffA asg (depth x + 1) x x) = .ok (strip x) :=
  roundtripA asg ga _ x x (by omega) w w

end J
end TM
