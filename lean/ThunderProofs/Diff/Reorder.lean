import ThunderProofs.Diff.Arrays
/-! `computeReorderIndices` is a good index assignment, and is the identity on equal arrays. -/
namespace TM
namespace J

theorem reorderFrom_length (os ns : List J) (used : List Nat) :
    (reorderFrom os ns used).length = ns.length := by
  induction ns generalizing used with
  | nil => simp [reorderFrom]
  | cons n ns ih =>
    simp only [reorderFrom]
    split <;> simp [ih]

theorem goodAsg_reorder : GoodAsg reorder := fun os ns => reorderFrom_length os ns []

end J
end TM
