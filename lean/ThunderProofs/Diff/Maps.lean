import ThunderModel.Merge
namespace TM
namespace J

def noKey0 (kvs : List (Nat × J)) : Prop := ∀ p ∈ kvs, p.1 ≠ 0

def sortedK : List (Nat × J) → Prop
  | [] => True
  | [_] => True
  | a :: b :: r => a.1 < b.1 ∧ sortedK (b :: r)

theorem sortedK_tail {a : Nat × J} {r} (h : sortedK (a :: r)) : sortedK r := by
  cases r with
  | nil => trivial
  | cons b r => exact h.2

theorem sortedK_head_lt {a : Nat × J} {r} (h : sortedK (a :: r)) : ∀ p ∈ r, a.1 < p.1 := by
  induction r generalizing a with
  | nil => intro p hp; cases hp
  | cons b r ih =>
    intro p hp
    cases hp with
    | head => exact h.1
    | tail _ hp' => exact Nat.lt_trans h.1 (ih h.2 p hp')

theorem mergeReplaced_markReplaced (v : J) : mergeReplaced (markReplaced v) = .ok (strip v) := by
  cases v <;> simp [markReplaced, mergeReplaced, strip]

theorem isRemoved_markReplaced (v : J) : isRemoved (markReplaced v) = false := by
  cases v <;> simp [markReplaced, isRemoved]


theorem diffKvs_keys (d : J → J → Option J) (os ns : List (Nat × J)) :
    ∀ p ∈ diffKvs d os ns, (∃ q ∈ os, q.1 = p.1) ∨ (∃ q ∈ ns, q.1 = p.1) := by
  fun_induction diffKvs d os ns with
  | case1 => intro p hp; cases hp
  | case2 k v os ih =>
    intro p hp
    simp only [List.mem_cons] at hp
    rcases hp with rfl | hp
    · exact Or.inl ⟨(k, v), by simp, rfl⟩
    · rcases ih p hp with ⟨q, hq, e⟩ | ⟨q, hq, e⟩
      · exact Or.inl ⟨q, by simp [hq], e⟩
      · cases hq
  | case3 k v ns ih =>
    intro p hp
    simp only [List.mem_cons] at hp
    rcases hp with rfl | hp
    · exact Or.inr ⟨(k, v), by simp, rfl⟩
    · rcases ih p hp with ⟨q, hq, e⟩ | ⟨q, hq, e⟩
      · cases hq
      · exact Or.inr ⟨q, by simp [hq], e⟩
  | case4 ko vo os kn vn ns hlt ih =>
    intro p hp
    simp only [List.mem_cons] at hp
    rcases hp with rfl | hp
    · exact Or.inl ⟨(ko, vo), by simp, rfl⟩
    · rcases ih p hp with ⟨q, hq, e⟩ | ⟨q, hq, e⟩
      · exact Or.inl ⟨q, by simp [hq], e⟩
      · exact Or.inr ⟨q, hq, e⟩
  | case5 ko vo os kn vn ns hnlt hlt ih =>
    intro p hp
    simp only [List.mem_cons] at hp
    rcases hp with rfl | hp
    · exact Or.inr ⟨(kn, vn), by simp, rfl⟩
    · rcases ih p hp with ⟨q, hq, e⟩ | ⟨q, hq, e⟩
      · exact Or.inl ⟨q, hq, e⟩
      · exact Or.inr ⟨q, by simp [hq], e⟩
  | case6 ko vo os kn vn ns hnlt hnlt' hd ih =>
    intro p hp
    rcases ih p hp with ⟨q, hq, e⟩ | ⟨q, hq, e⟩
    · exact Or.inl ⟨q, by simp [hq], e⟩
    · exact Or.inr ⟨q, by simp [hq], e⟩
  | case7 ko vo os kn vn ns hnlt hnlt' x hd ih =>
    intro p hp
    simp only [List.mem_cons] at hp
    rcases hp with rfl | hp
    · exact Or.inl ⟨(ko, vo), by simp, rfl⟩
    · rcases ih p hp with ⟨q, hq, e⟩ | ⟨q, hq, e⟩
      · exact Or.inl ⟨q, by simp [hq], e⟩
      · exact Or.inr ⟨q, by simp [hq], e⟩

theorem mergeKvs_skip (m : J → J → Except String J) (k : Nat) (v : J) (ps ds : List (Nat × J))
    (h : ∀ p ∈ ds, k < p.1) :
    mergeKvs m ((k, v) :: ps) ds = (mergeKvs m ps ds).map ((k, v) :: ·) := by
  cases ds with
  | nil => simp [mergeKvs]
  | cons hd ds =>
    obtain ⟨kd, d⟩ := hd
    have : k < kd := h (kd, d) (by simp)
    rw [mergeKvs]
    simp [this]

theorem stripO_keys (kvs : List (Nat × J)) : ∀ p ∈ stripO kvs, ∃ q ∈ kvs, q.1 = p.1 := by
  induction kvs with
  | nil => intro p hp; simp [stripO] at hp
  | cons hd tl ih =>
    obtain ⟨k, v⟩ := hd
    intro p hp
    by_cases hk : k = 0
    · simp [stripO, hk] at hp
      obtain ⟨q, hq, e⟩ := ih p hp
      exact ⟨q, by simp [hq], e⟩
    · simp [stripO, hk] at hp
      rcases hp with rfl | hp
      · exact ⟨(k, v), by simp, rfl⟩
      · obtain ⟨q, hq, e⟩ := ih p hp
        exact ⟨q, by simp [hq], e⟩

/-- Round trip for association lists that contain no `__key` entry. -/
theorem kvs_roundtrip (m : J → J → Except String J) (d : J → J → Option J)
    (okvs nkvs : List (Nat × J))
    (ho : noKey0 okvs) (hn : noKey0 nkvs) (so : sortedK okvs) (sn : sortedK nkvs)
    (H : ∀ po ∈ okvs, ∀ pn ∈ nkvs, po.1 = pn.1 →
      (match d po.2 pn.2 with
        | none => strip po.2 = strip pn.2
        | some x => isRemoved x = false ∧ m (strip po.2) x = .ok (strip pn.2))) :
    mergeKvs m (stripO okvs) (diffKvs d okvs nkvs) = .ok (stripO nkvs) := by
  fun_induction diffKvs d okvs nkvs with
  | case1 => simp [stripO, mergeKvs]
  | case2 k v os ih =>
    have hk : k ≠ 0 := ho (k, v) (by simp)
    have ho' : noKey0 os := fun p hp => ho p (by simp [hp])
    have := ih ho' hn (sortedK_tail so) sn (by intro po hpo pn hpn; cases hpn)
    simp [stripO, hk, mergeKvs, removed, isRemoved] 
    simpa [stripO] using this
  | case3 k v ns ih =>
    have hk : k ≠ 0 := hn (k, v) (by simp)
    have hn' : noKey0 ns := fun p hp => hn p (by simp [hp])
    have := ih ho hn' so (sortedK_tail sn) (by intro po hpo; cases hpo)
    simp [stripO, hk, mergeKvs, mergeReplaced_markReplaced]
    simp [stripO] at this
    simp [this]
    rfl
  | case4 ko vo os kn vn ns hlt ih =>
    have hko : ko ≠ 0 := ho (ko, vo) (by simp)
    have hkn : kn ≠ 0 := hn (kn, vn) (by simp)
    have ho' : noKey0 os := fun p hp => ho p (by simp [hp])
    have := ih ho' hn (sortedK_tail so) sn (by
      intro po hpo pn hpn hk
      exact H po (by simp [hpo]) pn hpn hk)
    simp only [stripO, hko, hkn, if_false] at this ⊢
    unfold mergeKvs
    simp [hlt, removed, isRemoved, Nat.lt_irrefl]
    exact this
  | case5 ko vo os kn vn ns hnlt hlt ih =>
    have hko : ko ≠ 0 := ho (ko, vo) (by simp)
    have hkn : kn ≠ 0 := hn (kn, vn) (by simp)
    have hn' : noKey0 ns := fun p hp => hn p (by simp [hp])
    have := ih ho hn' so (sortedK_tail sn) (by
      intro po hpo pn hpn hk
      exact H po hpo pn (by simp [hpn]) hk)
    simp only [stripO, hko, hkn, if_false] at this ⊢
    unfold mergeKvs
    simp [hnlt, hlt, mergeReplaced_markReplaced, this]
    rfl
  | case6 ko vo os kn vn ns hnlt hnlt' hd ih =>
    have hko : ko ≠ 0 := ho (ko, vo) (by simp)
    have hkn : kn ≠ 0 := hn (kn, vn) (by simp)
    have heq : ko = kn := by omega
    have ho' : noKey0 os := fun p hp => ho p (by simp [hp])
    have hn' : noKey0 ns := fun p hp => hn p (by simp [hp])
    have := ih ho' hn' (sortedK_tail so) (sortedK_tail sn) (by
      intro po hpo pn hpn hk
      exact H po (by simp [hpo]) pn (by simp [hpn]) hk)
    have hH := H (ko, vo) (by simp) (kn, vn) (by simp) heq
    simp only [hd] at hH
    simp only [stripO, hko, hkn, if_false]
    rw [mergeKvs_skip]
    · simp [this, hH, heq, Except.map]
    · intro p hp
      rcases diffKvs_keys d os ns p hp with ⟨q, hq, e⟩ | ⟨q, hq, e⟩
      · rw [← e]; exact sortedK_head_lt so q hq
      · rw [← e, heq]; exact sortedK_head_lt sn q hq
  | case7 ko vo os kn vn ns hnlt hnlt' x hd ih =>
    have hko : ko ≠ 0 := ho (ko, vo) (by simp)
    have hkn : kn ≠ 0 := hn (kn, vn) (by simp)
    have heq : ko = kn := by omega
    have ho' : noKey0 os := fun p hp => ho p (by simp [hp])
    have hn' : noKey0 ns := fun p hp => hn p (by simp [hp])
    have := ih ho' hn' (sortedK_tail so) (sortedK_tail sn) (by
      intro po hpo pn hpn hk
      exact H po (by simp [hpo]) pn (by simp [hpn]) hk)
    have hH := H (ko, vo) (by simp) (kn, vn) (by simp) heq
    simp only [hd] at hH
    simp only [stripO, hko, hkn, if_false]
    unfold mergeKvs
    simp [Nat.lt_irrefl, hH.1, hH.2, this, heq]
    rfl

end J

namespace J

def keyOK (kvs : List (Nat × J)) : Prop :=
  match keyOf kvs with
  | none => True
  | some (.sc _) => True
  | some .null => True
  | _ => False

mutual
def WFJ : J → Prop
  | .null => True
  | .sc _ => True
  | .by _ => True
  | .arr xs => WFL xs
  | .obj kvs => sortedK kvs ∧ keyOK kvs ∧ WFO kvs
def WFL : List J → Prop
  | [] => True
  | x :: xs => WFJ x ∧ WFL xs
def WFO : List (Nat × J) → Prop
  | [] => True
  | (_, v) :: kvs => WFJ v ∧ WFO kvs
end

theorem WFO_mem {kvs : List (Nat × J)} (h : WFO kvs) : ∀ p ∈ kvs, WFJ p.2 := by
  induction kvs with
  | nil => intro p hp; cases hp
  | cons hd tl ih =>
    obtain ⟨k, v⟩ := hd
    intro p hp
    simp only [List.mem_cons] at hp
    rcases hp with rfl | hp
    · exact h.1
    · exact ih h.2 p hp

theorem depthO_mem {kvs : List (Nat × J)} : ∀ p ∈ kvs, depth p.2 ≤ depthO kvs := by
  induction kvs with
  | nil => intro p hp; cases hp
  | cons hd tl ih =>
    obtain ⟨k, v⟩ := hd
    intro p hp
    simp only [List.mem_cons] at hp
    rcases hp with rfl | hp
    · simp [depthO]; omega
    · have := ih p hp
      simp [depthO]; omega

end J

namespace J

theorem sortedK_noKey0_tail {k : Nat} {v : J} {r : List (Nat × J)} (h : sortedK ((k, v) :: r)) : noKey0 r := by
  intro p hp
  have := sortedK_head_lt h p hp
  simp at this
  omega

theorem noKey0_of_head {k : Nat} {v : J} {r : List (Nat × J)} (h : sortedK ((k, v) :: r)) (hk : k ≠ 0) :
    noKey0 ((k, v) :: r) := by
  intro p hp
  simp only [List.mem_cons] at hp
  rcases hp with rfl | hp
  · exact hk
  · exact sortedK_noKey0_tail h p hp

theorem mergeKvs_nil (m : J → J → Except String J) (ps : List (Nat × J)) : mergeKvs m ps [] = .ok ps := by
  induction ps with
  | nil => simp [mergeKvs]
  | cons hd tl ih => obtain ⟨k, v⟩ := hd; simp [mergeKvs, ih, Except.map]

end J
end TM
