import ThunderModel.Rle
namespace TM.Rle

theorem expand_runLength (xs : List Int) (e : Int) :
    expand e (runLength xs e) ++ xs.drop (runLength xs e) = xs := by
  induction xs generalizing e with
  | nil => simp [runLength, expand]
  | cons y ys ih =>
    simp only [runLength]
    split
    · rename_i h
      subst h
      simp [expand, ih]
    · simp [expand]

/-- `merge.uncompressIndices ∘ diff.compressReorderIndices = id` for the `[start, count]` reading. -/
theorem uncompress_compress (l : List Int) : uncompress (compress l) = l := by
  fun_induction compress l with
  | case1 => simp [uncompress]
  | case2 xs ih => simp [uncompress, ih]
  | case3 x xs hx n hn ih => simp [uncompress, ih]
  | case4 x xs hx n hn ih =>
    simp only [uncompress, ih, expand]
    have := expand_runLength xs (x + 1)
    simp [n] at *
    exact this

end TM.Rle
