import ThunderProofs.Diff.Reorder
import ThunderModel.MergeJs
/-!
`merge.ts` refines the Go merge: wherever the (strict) Go merge succeeds, the TypeScript merge
returns the same value.  Together with the round trip for the strict Go merge this gives the
round trip for the JavaScript client.
-/
namespace TM
namespace J

theorem jsLeaf_of_mergeReplaced {d v : J} (h : mergeReplaced d = .ok v) : jsLeaf d = v := by
  cases d with
  | sc n => simp [mergeReplaced] at h; subst h; simp [jsLeaf]
  | arr xs =>
    cases xs with
    | nil => simp [mergeReplaced] at h
    | cons x xs => simp [mergeReplaced] at h; subst h; simp [jsLeaf]
  | _ => simp [mergeReplaced] at h

theorem jsNew_of_mergeReplaced (m : J → J → Except String J) {d v : J} (h : mergeReplaced d = .ok v) :
    isRemoved d = false ∧ jsNew m d = .ok v := by
  cases d with
  | sc n => simp [mergeReplaced] at h; subst h; simp [isRemoved, jsNew, jsLeaf]
  | arr xs =>
    cases xs with
    | nil => simp [mergeReplaced] at h
    | cons x xs => simp [mergeReplaced] at h; subst h; simp [isRemoved, jsNew, jsLeaf]
  | _ => simp [mergeReplaced] at h

theorem mergeKvsJs_refines (m m' : J → J → Except String J)
    (hm : ∀ a b r, m a b = .ok r → m' a b = .ok r) :
    ∀ ps ds r, mergeKvs m ps ds = .ok r → mergeKvsJs m' ps ds = .ok r := by
  intro ps ds
  fun_induction mergeKvs m ps ds with
  | case1 => intro r h; simpa [mergeKvsJs] using h
  | case2 k v ps ih =>
    intro r h
    cases hr : mergeKvs m ps [] with
    | error e => simp [hr, Except.map] at h
    | ok r' =>
      simp [hr, Except.map] at h
      simp [mergeKvsJs, ih r' hr, Except.map, h]
  | case3 k d ds ih =>
    intro r h
    cases hv : mergeReplaced d with
    | error e => simp [hv, bind, Except.bind] at h
    | ok v =>
      cases hr : mergeKvs m [] ds with
      | error e => simp [hv, hr, bind, Except.bind] at h
      | ok r' =>
        simp [hv, hr, bind, Except.bind] at h
        obtain ⟨h1, h2⟩ := jsNew_of_mergeReplaced m' hv
        rw [mergeKvsJs]
        simp [h1, h2, ih r' hr, bind, Except.bind, h]
  | case4 kp vp ps kd d ds hlt ih =>
    intro r h
    cases hr : mergeKvs m ps ((kd, d) :: ds) with
    | error e => simp [hr, Except.map] at h
    | ok r' =>
      simp [hr, Except.map] at h
      rw [mergeKvsJs]
      simp [hlt, ih r' hr, Except.map, h]
  | case5 kp vp ps kd d ds hnlt hlt ih =>
    intro r h
    cases hv : mergeReplaced d with
    | error e => simp [hv, bind, Except.bind] at h
    | ok v =>
      cases hr : mergeKvs m ((kp, vp) :: ps) ds with
      | error e => simp [hv, hr, bind, Except.bind] at h
      | ok r' =>
        simp [hv, hr, bind, Except.bind] at h
        obtain ⟨h1, h2⟩ := jsNew_of_mergeReplaced m' hv
        rw [mergeKvsJs]
        simp [hnlt, hlt, h1, h2, ih r' hr, bind, Except.bind, h]
  | case6 kp vp ps kd d ds hnlt hnlt' hrem ih =>
    intro r h
    rw [mergeKvsJs]
    simp [hnlt, hnlt', hrem, ih r h]
  | case7 kp vp ps kd d ds hnlt hnlt' hrem ih =>
    intro r h
    cases hv : m vp d with
    | error e => simp [hv, bind, Except.bind] at h
    | ok v =>
      cases hr : mergeKvs m ps ds with
      | error e => simp [hv, hr, bind, Except.bind] at h
      | ok r' =>
        simp [hv, hr, bind, Except.bind] at h
        rw [mergeKvsJs]
        simp [hnlt, hnlt', hrem, hm _ _ _ hv, ih r' hr, bind, Except.bind, h]

theorem applyElemsJs_refines (m m' : J → J → Except String J)
    (hm : ∀ a b r, m a b = .ok r → m' a b = .ok r) :
    ∀ base ds r, applyElems m base ds = .ok r → applyElemsJs m' base ds = .ok r := by
  intro base ds
  induction ds generalizing base with
  | nil => intro r h; simpa [applyElems, applyElemsJs] using h
  | cons hd tl ih =>
    obtain ⟨k, d⟩ := hd
    intro r h
    by_cases hk : k = 0
    · simp [applyElems, hk] at h
    · by_cases hb : k - 1 < base.length
      · simp only [applyElems, hk, hb, dite_true, if_false] at h
        cases hv : m base[k - 1] d with
        | error e => simp [hv, bind, Except.bind] at h
        | ok v =>
          simp [hv, bind, Except.bind] at h
          have hg : base.getD (k - 1) .null = base[k - 1] := by simp [List.getD_eq_getElem?_getD, hb]
          simp [applyElemsJs, hk, hg, hm _ _ _ hv, bind, Except.bind, setPad, hb, ih _ r h]
      · simp [applyElems, hk, hb] at h

/-- **`merge.ts` refines the strict Go merge.** -/
theorem mergeJs_refines : ∀ (f : Nat) (p d r : J),
    mergeG (.error "non-container") f p d = .ok r → mergeJs f p d = .ok r := by
  intro f
  induction f with
  | zero => intro p d r h; simp [mergeG] at h
  | succ f ih =>
    intro p d r h
    cases d with
    | obj dkvs =>
      cases p with
      | obj pkvs =>
        simp only [mergeG] at h
        cases hr : mergeKvs (mergeG (.error "non-container") f) pkvs dkvs with
        | error e => simp [hr, Except.map] at h
        | ok r' =>
          simp [hr, Except.map] at h
          simp [mergeJs, mergeKvsJs_refines _ _ ih _ _ r' hr, Except.map, h]
      | arr ps =>
        simp only [mergeG] at h
        simp only [mergeJs]
        cases dkvs with
        | nil =>
          simp only [mergeArr] at h
          cases hr : applyElems (mergeG (.error "non-container") f) ps [] with
          | error e => simp [hr, Except.map] at h
          | ok r' =>
            simp [hr, Except.map] at h
            simp [mergeArrJs, applyElemsJs_refines _ _ ih _ _ r' hr, Except.map, h]
        | cons hd tl =>
          obtain ⟨k, enc⟩ := hd
          cases k with
          | zero =>
            simp only [mergeArr] at h
            cases hi : decIdx enc with
            | error e => simp [hi, bind, Except.bind] at h
            | ok idx =>
              cases hr : applyElems (mergeG (.error "non-container") f) (idx.map (pickOld ps)) tl with
              | error e => simp [hi, hr, bind, Except.bind] at h
              | ok r' =>
                simp [hi, hr, bind, Except.bind] at h
                simp [mergeArrJs, hi, applyElemsJs_refines _ _ ih _ _ r' hr, bind, Except.bind, h]
          | succ k =>
            simp only [mergeArr] at h
            cases hr : applyElems (mergeG (.error "non-container") f) ps ((k + 1, enc) :: tl) with
            | error e => simp [hr, Except.map] at h
            | ok r' =>
              simp [hr, Except.map] at h
              simp [mergeArrJs, applyElemsJs_refines _ _ ih _ _ r' hr, Except.map, h]
      | _ => simp [mergeG] at h
    | _ =>
      cases p <;> simp only [mergeG] at h <;>
        (have h3 := jsLeaf_of_mergeReplaced h; simp [mergeJs, h3])

/-- Round trip for the JavaScript client. -/
theorem roundtripJs (asg) (ga : GoodAsg asg) (f : Nat) (old new : J) (hd : depth old < f) (wo : WFJ old) (wn : WFJ new) :
    applyJs f (strip old) (diffA asg f old new) = .ok (strip new) := by
  have h := roundtripA (bad := .error "non-container") asg ga f old new hd wo wn
  cases hdf : diffA asg f old new with
  | none => simpa [hdf, applyG, applyJs] using h
  | some d =>
    simp only [hdf, applyG] at h
    simp [applyJs, mergeJs_refines f _ _ _ h]

end J
end TM
