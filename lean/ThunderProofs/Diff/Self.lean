import ThunderProofs.Diff.Reorder
/-! `Diff(x, x) = nil` for well-formed `x`. -/
namespace TM
namespace J

/-- reorder keys of well-formed values are scalars or `nil`, hence equal to themselves as Go map keys -/
theorem rkeyEq_self (x : J) (w : WFJ x) : rkeyEq (reorderKey x) (reorderKey x) = true := by
  cases x with
  | obj kvs =>
    obtain ⟨_, kk, _⟩ := w
    unfold keyOK at kk
    unfold reorderKey
    cases hk : keyOf kvs with
    | none => simp [hk, rkeyEq]
    | some v => cases v <;> simp [hk] at kk <;> simp [hk, rkeyEq]
  | _ => simp [reorderKey, rkeyEq]

theorem findUnused_at (k : J) (used : List Nat) (pre : List J) (x : J) (post : List J) (base : Nat)
    (hu : ∀ j, j < pre.length → base + j ∈ used)
    (hn : base + pre.length ∉ used)
    (hk : rkeyEq (reorderKey x) k = true) :
    findUnused k used (pre ++ x :: post) base = some (base + pre.length) := by
  induction pre generalizing base with
  | nil => simp at hn; simp [findUnused, hn, hk]
  | cons p pre ih =>
    have h0 : base ∈ used := by simpa using hu 0 (by simp)
    have := ih (base + 1)
      (by intro j hj; have := hu (j + 1) (by simp; omega); simpa [Nat.add_assoc, Nat.add_comm 1 j] using this)
      (by simpa [Nat.add_assoc, Nat.add_comm 1 pre.length] using hn)
    simp only [List.cons_append, findUnused, List.length_cons]
    simp [h0, this]; omega

theorem reorderFrom_self (pre post : List J) (used : List Nat)
    (w : ∀ x ∈ post, WFJ x)
    (hu : ∀ j, j ∈ used ↔ j < pre.length) :
    reorderFrom (pre ++ post) post used = (List.range' pre.length post.length).map Int.ofNat := by
  induction post generalizing pre used with
  | nil => simp [reorderFrom]
  | cons x post ih =>
    have hf : findUnused (reorderKey x) used (pre ++ x :: post) 0 = some (0 + pre.length) :=
      findUnused_at _ used pre x post 0
        (by intro j hj; simp [hu, hj])
        (by simp [hu])
        (rkeyEq_self x (w x (by simp)))
    simp only [reorderFrom, hf, Nat.zero_add]
    have := ih (pre ++ [x]) (pre.length :: used) (fun y hy => w y (by simp [hy]))
      (by
        intro j
        simp only [List.mem_cons, hu, List.length_append, List.length_singleton]
        omega)
    simp only [List.append_assoc, List.singleton_append, List.length_append, List.length_singleton] at this
    rw [this]
    simp [List.range'_succ]

theorem reorder_self (xs : List J) (w : ∀ x ∈ xs, WFJ x) :
    reorder xs xs = (List.range xs.length).map Int.ofNat := by
  have := reorderFrom_self [] xs [] w (by intro j; simp)
  simpa [reorder, List.range_eq_range'] using this

theorem diffKvs_self (d : J → J → Option J) (kvs : List (Nat × J)) (h : ∀ p ∈ kvs, d p.2 p.2 = none) :
    diffKvs d kvs kvs = [] := by
  induction kvs with
  | nil => simp [diffKvs]
  | cons hd tl ih =>
    obtain ⟨k, v⟩ := hd
    rw [diffKvs]
    have hv : d v v = none := h (k, v) (by simp)
    simp [hv, ih (fun p hp => h p (by simp [hp]))]

theorem diffElems_self (d : J → J → Option J) (xs : List J) (pos : Nat) (h : ∀ x ∈ xs, d x x = none) :
    diffElems d xs xs pos = [] := by
  induction xs generalizing pos with
  | nil => simp [diffElems]
  | cons x xs ih =>
    simp [diffElems, h x (by simp), ih (pos + 1) (fun y hy => h y (by simp [hy]))]

theorem keyEq_self (kvs : List (Nat × J)) (kk : keyOK kvs) : keyEq (keyOf kvs) (keyOf kvs) = true := by
  unfold keyOK at kk
  cases hk : keyOf kvs with
  | none => simp [keyEq]
  | some v => cases v <;> simp [hk] at kk <;> simp [keyEq]

/-- **`Diff(x, x)` is empty** (for every fuel, every well-formed value). -/
theorem diffA_self : ∀ (f : Nat) (x : J), WFJ x → diffA reorder f x x = none := by
  intro f
  induction f with
  | zero => intro x _; simp [diffA]
  | succ f ih =>
    intro x w
    cases x with
    | null => simp [diffA]
    | sc a => simp [diffA]
    | «by» a => simp [diffA]
    | arr xs =>
      have wl : ∀ x ∈ xs, WFJ x := WFL_mem w
      have hr := reorder_self xs wl
      have hid : identityIdx (reorder xs xs) xs.length = true := by simp [identityIdx, hr]
      have hm : (reorder xs xs).map (pickOld xs) = xs := identity_map_pick xs _ hid
      simp [diffA, diffArr, hid, hm, diffElems_self (diffA reorder f) xs 0 (fun y hy => ih y (wl y hy))]
    | obj kvs =>
      obtain ⟨_, kk, wo⟩ := w
      have hk := keyEq_self kvs kk
      have := diffKvs_self (diffA reorder f) kvs (fun p hp => ih p.2 (WFO_mem wo p hp))
      simp [diffA, hk, this]

end J
end TM
