/-! Schedule independence for a pool of work units that write disjoint slots (generic, unbounded):
the abstract shape of `WorkScheduler.Run` — a pool of runnable units, the scheduler picks any of
them, a unit fills its own `outputNode` slots and enqueues child units. -/
namespace TM.Gql.Sched

/-- What a work unit does is determined by the unit (resolvers are functions of the data):
its own writes and the child units it creates. -/
inductive Unit' (K V : Type) where
  | node (writes : List (K × V)) (children : List (Unit' K V))

variable {K V : Type}

mutual
def allWrites : Unit' K V → List (K × V)
  | .node ws cs => ws ++ allWritesL cs
def allWritesL : List (Unit' K V) → List (K × V)
  | [] => []
  | u :: us => allWrites u ++ allWritesL us
end

theorem allWritesL_append (a b : List (Unit' K V)) : allWritesL (a ++ b) = allWritesL a ++ allWritesL b := by
  induction a with
  | nil => simp [allWritesL]
  | cons u us ih => simp [allWritesL, ih]

/-- One scheduler decision: run the unit at position `i` of the pool. -/
def step (pool : List (Unit' K V)) (acc : List (K × V)) (i : Nat) :
    Option (List (Unit' K V) × List (K × V)) :=
  match pool[i]? with
  | some (.node ws cs) => some (pool.eraseIdx i ++ cs, acc ++ ws)
  | none => none

/-- Run a whole schedule (any list of positions); `none` if it names a position that does not exist. -/
def run : List (Unit' K V) → List (K × V) → List Nat → Option (List (Unit' K V) × List (K × V))
  | pool, acc, [] => some (pool, acc)
  | pool, acc, i :: is =>
      match step pool acc i with
      | some (pool', acc') => run pool' acc' is
      | none => none

theorem allWritesL_eraseIdx (pool : List (Unit' K V)) (i : Nat) (u : Unit' K V) (h : pool[i]? = some u) :
    (allWritesL pool).Perm (allWrites u ++ allWritesL (pool.eraseIdx i)) := by
  induction pool generalizing i with
  | nil => simp at h
  | cons a tl ih =>
    cases i with
    | zero =>
      simp at h; subst h
      simp [allWritesL]
    | succ i =>
      simp at h
      have := ih i h
      simp only [allWritesL, List.eraseIdx_cons_succ]
      -- a ++ rest ~ u ++ (a ++ rest')
      have h1 : (allWrites a ++ allWritesL tl).Perm (allWrites a ++ (allWrites u ++ allWritesL (tl.eraseIdx i))) :=
        List.Perm.append_left _ this
      refine h1.trans ?_
      rw [← List.append_assoc, ← List.append_assoc]
      exact List.Perm.append_right _ List.perm_append_comm

/-- The multiset "writes done so far + writes still owed by the pool" is invariant under every step. -/
theorem step_invariant (pool : List (Unit' K V)) (acc : List (K × V)) (i : Nat) (pool' acc')
    (h : step pool acc i = some (pool', acc')) :
    (acc' ++ allWritesL pool').Perm (acc ++ allWritesL pool) := by
  unfold step at h
  split at h
  · rename_i ws cs hu
    injection h with h
    injection h with hp ha
    subst hp; subst ha
    have e := allWritesL_eraseIdx pool i (.node ws cs) hu
    simp only [allWrites] at e
    rw [allWritesL_append, List.append_assoc]
    apply List.Perm.append_left
    -- ws ++ (erase ++ cs) ~ pool
    refine List.Perm.trans ?_ e.symm
    rw [List.append_assoc]
    apply List.Perm.append_left
    exact List.perm_append_comm
  · cases h

theorem run_invariant : ∀ (sched : List Nat) (pool : List (Unit' K V)) (acc : List (K × V)) (pool' acc'),
    run pool acc sched = some (pool', acc') →
    (acc' ++ allWritesL pool').Perm (acc ++ allWritesL pool) := by
  intro sched
  induction sched with
  | nil =>
    intro pool acc pool' acc' h
    simp [run] at h
    obtain ⟨rfl, rfl⟩ := h
    exact List.Perm.refl _
  | cons i is ih =>
    intro pool acc pool' acc' h
    simp only [run] at h
    cases hs : step pool acc i with
    | none => simp [hs] at h
    | some p =>
      obtain ⟨p1, a1⟩ := p
      simp [hs] at h
      exact (ih p1 a1 pool' acc' h).trans (step_invariant pool acc i p1 a1 hs)

/-- **Every complete schedule performs the same multiset of writes.** -/
theorem complete_writes_perm (pool : List (Unit' K V)) (sched : List Nat) (acc' : List (K × V))
    (h : run pool [] sched = some ([], acc')) : acc'.Perm (allWritesL pool) := by
  have := run_invariant sched pool [] [] acc' h
  simpa [allWritesL] using this

/-- the value a store holds at `k` after the writes `ws` (last write wins) -/
def lookupLast [DecidableEq K] (ws : List (K × V)) (k : K) : Option V :=
  (ws.reverse.find? (fun p => p.1 = k)).map Prod.snd

theorem lookup_of_mem_nodup [DecidableEq K] (ws : List (K × V)) (nd : (ws.map Prod.fst).Nodup)
    (k : K) (v : V) (h : (k, v) ∈ ws) : lookupLast ws k = some v := by
  induction ws with
  | nil => cases h
  | cons a tl ih =>
    simp only [List.map_cons, List.nodup_cons] at nd
    simp only [lookupLast, List.reverse_cons, List.find?_append]
    simp only [List.mem_cons] at h
    rcases h with rfl | h
    · -- (k,v) is the head; k does not occur in the tail
      have : tl.reverse.find? (fun p => decide (p.1 = k)) = none := by
        simp only [List.find?_eq_none, List.mem_reverse, decide_eq_true_eq]
        intro p hp hk
        exact nd.1 (List.mem_map.mpr ⟨p, hp, hk⟩)
      simp [this]
    · have := ih nd.2 h
      simp only [lookupLast] at this
      cases hf : tl.reverse.find? (fun p => decide (p.1 = k)) with
      | none => simp [hf] at this
      | some p => simp [hf] at this ⊢; exact this

/-- **Schedule independence**: if the units write pairwise distinct slots, any two complete schedules
leave the same store. -/
theorem sched_confluent [DecidableEq K] (pool : List (Unit' K V))
    (nd : ((allWritesL pool).map Prod.fst).Nodup)
    (s1 s2 : List Nat) (a1 a2 : List (K × V))
    (h1 : run pool [] s1 = some ([], a1)) (h2 : run pool [] s2 = some ([], a2)) (k : K) :
    lookupLast a1 k = lookupLast a2 k := by
  have p1 := complete_writes_perm pool s1 a1 h1
  have p2 := complete_writes_perm pool s2 a2 h2
  have p12 : a1.Perm a2 := p1.trans p2.symm
  have nd1 : (a1.map Prod.fst).Nodup := (p1.map Prod.fst).nodup_iff.mpr nd
  have nd2 : (a2.map Prod.fst).Nodup := (p2.map Prod.fst).nodup_iff.mpr nd
  cases h : lookupLast a1 k with
  | some v =>
    -- (k, v) ∈ a1, hence ∈ a2
    have hm : (k, v) ∈ a1 := by
      simp only [lookupLast, Option.map_eq_some_iff] at h
      obtain ⟨p, hp, hv⟩ := h
      have := List.mem_of_find?_eq_some hp
      have hk := List.find?_some hp
      simp at hk
      obtain ⟨pk, pv⟩ := p
      simp at hk hv; subst hk; subst hv
      simpa using this
    exact (lookup_of_mem_nodup a2 nd2 k v (p12.mem_iff.mp hm)).symm
  | none =>
    cases h2' : lookupLast a2 k with
    | none => rfl
    | some v =>
      have hm : (k, v) ∈ a2 := by
        simp only [lookupLast, Option.map_eq_some_iff] at h2'
        obtain ⟨p, hp, hv⟩ := h2'
        have := List.mem_of_find?_eq_some hp
        have hk := List.find?_some hp
        simp at hk
        obtain ⟨pk, pv⟩ := p
        simp at hk hv; subst hk; subst hv
        simpa using this
      have := lookup_of_mem_nodup a1 nd1 k v (p12.mem_iff.mpr hm)
      rw [h] at this; cases this

end TM.Gql.Sched
