import ThunderProofs.Gql.ExecEqRef
/-! Main induction: `resolveBatch` is the pointwise reference evaluation, at every fuel. -/
namespace TM.Gql
open TM

theorem refEval_nonNull (σ : Schema) (f : Nat) (p : List PE) (t : Ty) (ss : Option SelSet) (v : Val)
    (hv : failOf v = none) : refEval σ (f+1) p (.nonNull t) ss v = refEval σ f p t ss v := by
  cases v <;> simp [refEval, failOf] at hv ⊢

theorem refEval_scalar (σ : Schema) (f : Nat) (p : List PE) (ss : Option SelSet) (v : Val)
    (hv : failOf v = none) : refEval σ (f+1) p .scalar ss v = .ok (leaf v) := by
  cases v <;> simp [refEval, failOf] at hv ⊢

theorem refEval_list (σ : Schema) (f : Nat) (p : List PE) (t : Ty) (ss : Option SelSet) (v : Val)
    (hv : failOf v = none) :
    refEval σ (f+1) p (.list t) ss v =
      ((listChildren (p, v)).mapM fun c => refEval σ f c.1 t ss c.2).map J.arr := by
  cases v with
  | list xs =>
    simp only [refEval, listChildren, List.mapM_map, Except.map, bind, Except.bind]
    rfl
  | fail e s => simp [failOf] at hv
  | _ => simp [refEval, listChildren, Except.map, pure, Except.pure]

theorem refEval_object (σ : Schema) (f : Nat) (p : List PE) (n : Nat) (ss : Option SelSet) (v : Val)
    (hv : failOf v = none) :
    refEval σ (f+1) p (.object n) ss v =
      match lookup n σ.objects, ss with
      | some od, some ss => if v.isObj then refEval.refObject σ f p n od v.fields (flatten (fun _ => true) f ss) else .ok .null
      | _, _ => .ok .null := by
  cases ho : lookup n σ.objects <;> cases ss <;> cases v <;>
    first | (simp [failOf] at hv; done) | simp [refEval, ho, Val.isObj, Val.fields]

theorem refEval_union (σ : Schema) (f : Nat) (p : List PE) (n : Nat) (ss : SelSet) (v : Val)
    (hv : failOf v = none) :
    refEval σ (f+1) p (.union n) (some ss) v =
      match unionTag ((lookup n σ.unions).getD []) (p, v) with
      | some m =>
          match lookup m σ.objects with
          | some od => refEval.refObject σ f p m od v.fields (flatten (fun _ => true) f (.mk ss.sels (ss.frags.filter fun fr => fr.on == m)))
          | none => .ok .null
      | none => .ok .null := by
  cases v with
  | obj m fields =>
    simp only [refEval, unionTag, Val.fields]
    cases ho : lookup m σ.objects with
    | none => by_cases hc : m ∈ (lookup n σ.unions).getD [] <;> simp [ho, hc]
    | some od =>
      by_cases hc : m ∈ (lookup n σ.unions).getD []
      · simp [ho, hc]
      · simp [ho, hc]
  | fail e s => simp [failOf] at hv
  | _ => simp [refEval, unionTag]

theorem refEval_union_none (σ : Schema) (f : Nat) (p : List PE) (n : Nat) (v : Val)
    (hv : failOf v = none) : refEval σ (f+1) p (.union n) none v = .ok .null := by
  cases v <;> simp [refEval, failOf] at hv ⊢

end TM.Gql

namespace TM.Gql
open TM

theorem resolveBatch_nil (σ : Schema) (f : Nat) (ty : Ty) (ss : Option SelSet) : resolveBatch σ f ty ss [] = .ok [] := by
  cases f <;> cases ty <;> simp [resolveBatch]

theorem mapM_flatten_ok {α β ε : Type} (fn : α → Except ε β) (g : α → β) (ls : List (List α))
    (h : ∀ l ∈ ls, ∀ x ∈ l, fn x = .ok (g x)) :
    ∀ l ∈ ls, l.mapM fn = .ok (l.map g) := fun l hl => mapM_ok_of_forall fn g l (h l hl)

/-- **The batch executor is the pointwise reference evaluation** (every type, every fuel). -/
theorem level_all (σ : Schema) : ∀ f, Level σ f := by
  intro f
  induction f with
  | zero =>
    intro ty ss items h
    cases items with
    | nil => simp [resolveBatch_nil]
    | cons it items =>
      obtain ⟨j, hj⟩ := h it (by simp)
      simp [refEval] at hj
  | succ f ih =>
    intro ty ss items h
    cases hitems : items with
    | nil => simp [resolveBatch_nil]
    | cons it0 rest =>
      rw [← hitems]
      have hnf : ∀ it ∈ items, failOf it.2 = none := fun it hit => refOk_notFail (h it hit)
      cases ty with
      | nonNull t =>
        have hlow : ∀ it ∈ items, RefOk σ f t ss it := by
          intro it hit
          obtain ⟨j, hj⟩ := h it hit
          rw [refEval_nonNull σ f it.1 t ss it.2 (hnf it hit)] at hj
          exact ⟨j, hj⟩
        have := ih t ss items hlow
        rw [hitems] at this ⊢
        simp only [resolveBatch]
        rw [this]
        congr 1
        apply List.map_congr_left
        intro it hit
        have hit' : it ∈ items := by rw [hitems]; exact hit
        simp [gOf, refEval_nonNull σ f it.1 t ss it.2 (hnf it hit')]
      | scalar =>
        rw [hitems]
        simp only [resolveBatch]
        congr 1
        apply List.map_congr_left
        intro it hit
        have hit' : it ∈ items := by rw [hitems]; exact hit
        simp [gOf, refEval_scalar σ f it.1 ss it.2 (hnf it hit')]
      | list t =>
        -- children of every item evaluate, so the flattened batch does
        have hchild : ∀ it ∈ items, ∀ c ∈ listChildren it, RefOk σ f t ss c := by
          intro it hit c hc
          obtain ⟨j, hj⟩ := h it hit
          rw [refEval_list σ f it.1 t ss it.2 (hnf it hit)] at hj
          cases hm : (listChildren (it.1, it.2)).mapM (fun c => refEval σ f c.1 t ss c.2) with
          | error e => simp [hm, Except.map] at hj
          | ok rs => exact mapM_ok_each _ _ _ hm c hc
        have hflat : ∀ c ∈ (items.map listChildren).flatten, RefOk σ f t ss c := by
          intro c hc
          obtain ⟨l, hl, hcl⟩ := List.mem_flatten.mp hc
          obtain ⟨it, hit, rfl⟩ := List.mem_map.mp hl
          exact hchild it hit c hcl
        have hrec := ih t ss _ hflat
        have hff : firstFail (items.map listChildren).flatten = none :=
          firstFail_none _ (fun c hc => refOk_notFail (hflat c hc))
        rw [hitems] at hrec hff ⊢
        simp only [resolveBatch]
        rw [hff]
        simp only
        rw [hrec]
        simp only [bind, Except.bind]
        rw [regroup_map_flatten, List.map_map, List.map_map]
        congr 1
        apply List.map_congr_left
        intro it hit
        have hit' : it ∈ items := by rw [hitems]; exact hit
        have hm := mapM_ok_of_forall (fun c => refEval σ f c.1 t ss c.2) (gOf σ f t ss) (listChildren it)
          (by
            intro c hc
            obtain ⟨j, hj⟩ := hchild it hit' c hc
            rw [hj, gOf_eq hj])
        simp only [Function.comp, gOf, refEval_list σ f it.1 t ss it.2 (hnf it hit')]
        have e : (it.1, it.2) = it := rfl
        rw [e, hm]
        simp [Except.map]
      | object n =>
        rw [hitems]
        simp only [resolveBatch]
        rw [← hitems]
        cases ho : lookup n σ.objects with
        | none =>
          simp only
          congr 1
          apply List.map_congr_left
          intro it hit
          simp [gOf, refEval_object σ f it.1 n ss it.2 (hnf it hit), ho]
        | some od =>
          cases ss with
          | none =>
            simp only
            congr 1
            apply List.map_congr_left
            intro it hit
            simp [gOf, refEval_object σ f it.1 n none it.2 (hnf it hit), ho]
          | some ss =>
            simp only
            have href : ∀ it ∈ items, it.2.isObj = true →
                ∃ j, refEval.refObject σ f it.1 n od it.2.fields (flatten (fun _ => true) f ss) = .ok j := by
              intro it hit hobj
              obtain ⟨j, hj⟩ := h it hit
              rw [refEval_object σ f it.1 n (some ss) it.2 (hnf it hit)] at hj
              simp only [ho, hobj, if_true] at hj
              exact ⟨j, hj⟩
            rw [resolveObject_eq σ f ih n od _ items href]
            congr 1
            apply List.map_congr_left
            intro it hit
            simp only [gOf, refEval_object σ f it.1 n (some ss) it.2 (hnf it hit), ho]
            by_cases hobj : it.2.isObj = true
            · obtain ⟨j, hj⟩ := href it hit hobj
              simp [hobj, hj, refObject_eq_row σ f n od _ it j hj]
            · simp [hobj]
      | union n =>
        rw [hitems]
        simp only [resolveBatch]
        rw [← hitems]
        cases ss with
        | none =>
          simp only
          congr 1
          apply List.map_congr_left
          intro it hit
          simp [gOf, refEval_union_none σ f it.1 n it.2 (hnf it hit)]
        | some ss =>
          simp only
          let members := (lookup n σ.unions).getD []
          let mergedOf (m : Nat) : SelSet := .mk ss.sels (ss.frags.filter fun fr => fr.on == m)
          let g (m : Nat) (it : Item) : J :=
            match lookup m σ.objects with
            | some od => refRow σ f m od (flatten (fun _ => true) f (mergedOf m)) it
            | none => .null
          have hmine : ∀ m ∈ members, (items.filter (isMember m)) =
              items.filter fun it => unionTag members it == some m := by
            intro m hm
            apply List.filter_congr
            intro it _
            obtain ⟨p, v⟩ := it
            cases v with
            | obj m' fs =>
              simp only [unionTag, isMember]
              by_cases e : m' = m
              · subst e; simp [hm]
              · by_cases hc : m' ∈ members
                · simp [e, hc]
                · simp [e, hc]
            | _ => simp [unionTag, isMember]
          have hq : ∀ F : Nat → Except Err (Nat × List J),
              (∀ m ∈ members, F m = (match lookup m σ.objects with
                | some od => do
                    let rs ← resolveObjectWith (resolveBatch σ f) m od (flatten (fun _ => true) f (SelSet.mk ss.sels (ss.frags.filter fun fr => fr.on == m)))
                      (items.filter (isMember m))
                    pure (m, rs)
                | none => pure (m, (items.filter (isMember m)).map fun _ => J.null))) →
              members.mapM F =
              .ok (members.map fun m => (m, (items.filter fun it => unionTag members it == some m).map (g m))) := by
            intro F hF
            apply mapM_ok_of_forall
            intro m hm
            rw [hF m hm]
            rw [hmine m hm]
            cases ho : lookup m σ.objects with
            | none => simp [g, ho, pure, Except.pure]
            | some od =>
              simp only
              have hall : ∀ it ∈ (items.filter fun it => unionTag members it == some m), it.2.isObj = true ∧ it ∈ items ∧ unionTag members it = some m := by
                intro it hit
                have := List.mem_filter.mp hit
                have ht : unionTag members it = some m := by simpa using this.2
                refine ⟨?_, this.1, ht⟩
                obtain ⟨p, v⟩ := it
                cases v <;> simp [unionTag, Val.isObj] at ht ⊢
              have href : ∀ it ∈ (items.filter fun it => unionTag members it == some m), it.2.isObj = true →
                  ∃ j, refEval.refObject σ f it.1 m od it.2.fields (flatten (fun _ => true) f (mergedOf m)) = .ok j := by
                intro it hit _
                obtain ⟨_, hin, ht⟩ := hall it hit
                obtain ⟨j, hj⟩ := h it hin
                rw [refEval_union σ f it.1 n ss it.2 (hnf it hin)] at hj
                have e : (it.1, it.2) = it := rfl
                rw [e] at hj
                simp only [show (lookup n σ.unions).getD [] = members from rfl, ht, ho] at hj
                exact ⟨j, hj⟩
              rw [resolveObject_eq σ f ih m od _ _ href]
              simp only [bind, Except.bind, pure, Except.pure]
              congr 2
              apply List.map_congr_left
              intro it hit
              simp [(hall it hit).1, g, ho, mergedOf]
          simp only [show (lookup n σ.unions).getD [] = members from rfl]
          rw [hq _ (fun m _ => by cases lookup m σ.objects <;> rfl)]
          simp only [bind, Except.bind]
          have hmb := mergeBack_members members (unionTag members) g (by
            intro it m ht
            obtain ⟨p, v⟩ := it
            cases v with
            | obj m' fs =>
              simp only [unionTag] at ht
              by_cases hc : m' ∈ members
              · simp [hc] at ht; subst ht; exact hc
              · simp [hc] at ht
            | _ => simp [unionTag] at ht) items
          rw [hmb]
          congr 1
          apply List.map_congr_left
          intro it hit
          simp only [gOf, refEval_union σ f it.1 n ss it.2 (hnf it hit)]
          have e : (it.1, it.2) = it := rfl
          rw [e]
          simp only [show (lookup n σ.unions).getD [] = members from rfl]
          cases ht : unionTag members it with
          | none => simp
          | some m =>
            simp only [g]
            cases ho : lookup m σ.objects with
            | none => simp
            | some od =>
              simp only
              obtain ⟨j, hj⟩ := h it hit
              rw [refEval_union σ f it.1 n ss it.2 (hnf it hit), e] at hj
              simp only [show (lookup n σ.unions).getD [] = members from rfl, ht, ho] at hj
              simp [hj, refObject_eq_row σ f m od _ it j hj, mergedOf]

end TM.Gql
