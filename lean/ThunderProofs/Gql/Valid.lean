import ThunderModel.Gql.Conform
import ThunderProofs.Gql.Main
/-! C14: validity of the merged form makes evaluation shape-safe, and responses of well-typed
data conform to the advertised type. -/
namespace TM.Gql
open TM

theorem findField_mem {n : Nat} {l : List FieldDef} {fd : FieldDef} (h : findField n l = some fd) : fd ∈ l ∧ fd.name = n := by
  induction l with
  | nil => simp [findField] at h
  | cons a r ih =>
    simp only [findField] at h
    by_cases e : a.name = n
    · simp only [e, if_true, Option.some.injEq] at h; subst h; exact ⟨by simp, e⟩
    · simp only [e, if_false] at h; exact ⟨by simp [(ih h).1], (ih h).2⟩

theorem flats_imp (σ : Schema) (f : Nat) (od : ObjDef) (fields : List (Nat × Val)) (fls : List Flat)
    (ih : ∀ ty ss v, validF σ f ty ss = true → shapeOk σ f ty ss v = true)
    (h : validF.flatsOk σ f od fls = true) : shapeOk.objOk σ f od fields fls = true := by
  unfold validF.flatsOk at h
  unfold shapeOk.objOk
  rw [List.all_eq_true] at h ⊢
  intro fl hfl
  have := h fl hfl
  by_cases h0 : fl.name = 0
  · simpa [h0] using this
  · simp only [h0, if_false] at this ⊢
    cases hfd : findField fl.name od.fields with
    | none => simp [hfd] at this
    | some fd => simp only [hfd] at this ⊢; exact ih _ _ _ this

/-- **validity of the merged form ⇒ evaluation never goes wrong**, whatever the data -/
theorem validF_shapeOk (σ : Schema) : ∀ f ty ss v, validF σ f ty ss = true → shapeOk σ f ty ss v = true := by
  intro f
  induction f with
  | zero => intro ty ss v h; simp [validF] at h
  | succ f ih =>
    intro ty ss v h
    cases ty with
    | scalar => simpa [validF, shapeOk] using h
    | nonNull t => simp only [validF] at h; simp only [shapeOk]; exact ih _ _ _ h
    | list t =>
      simp only [validF] at h
      cases v with
      | list xs => simp only [shapeOk, List.all_eq_true]; intro x _; exact ih _ _ _ h
      | _ => simp [shapeOk]
    | object n =>
      cases ss with
      | none => simp [validF] at h
      | some ss =>
        cases ho : lookup n σ.objects with
        | none => simp [validF, ho] at h
        | some od =>
          have h' : validF.flatsOk σ f od (flatten (fun _ => true) f ss) = true := by
            rw [validF.eq_5 σ f n ss od ho] at h; exact h
          cases v with
          | obj m fields => unfold shapeOk; simp only [ho]; exact flats_imp σ f od fields _ ih h'
          | _ => simp [shapeOk]
    | union n =>
      cases ss with
      | none => simp [validF] at h
      | some ss =>
        simp only [validF, Bool.and_eq_true, List.all_eq_true] at h
        cases v with
        | obj m fields =>
          by_cases hc : ((lookup n σ.unions).getD []).contains m = true
          · cases ho : lookup m σ.objects with
            | none => simp [shapeOk, hc, ho]
            | some od =>
              have hm : m ∈ (lookup n σ.unions).getD [] := by simpa using hc
              have := h.2 m hm
              simp only [ho] at this
              simp only [shapeOk, hc, ho, if_true]
              exact flats_imp σ f od fields _ ih this
          · have hm : ¬ m ∈ (lookup n σ.unions).getD [] := by simpa using hc
            simp [shapeOk, hm]
        | _ => simp [shapeOk]

theorem bind_ok' {ε α β : Type} {x : Except ε α} {g : α → Except ε β} {r : β} (h : (x >>= g) = .ok r) :
    ∃ v, x = .ok v ∧ g v = .ok r := by
  cases x with
  | error e => simp [bind, Except.bind] at h
  | ok v => exact ⟨v, rfl, h⟩

theorem mapM_ok_zip {α β ε : Type} (g : α → Except ε β) : ∀ (l : List α) (r : List β), l.mapM g = .ok r →
    r.length = l.length ∧ ∀ p ∈ l.zip r, g p.1 = .ok p.2 := by
  intro l
  induction l with
  | nil => intro r h; simp [List.mapM_nil, pure, Except.pure] at h; subst h; simp
  | cons a l ih =>
    intro r h
    simp only [List.mapM_cons, bind, Except.bind] at h
    cases ha : g a with
    | error e => simp [ha] at h
    | ok y =>
      simp only [ha] at h
      cases hl : l.mapM g with
      | error e => simp [hl] at h
      | ok ys =>
        simp only [hl, pure, Except.pure, Except.ok.injEq] at h
        subst h
        obtain ⟨h1, h2⟩ := ih ys hl
        refine ⟨by simp [h1], ?_⟩
        intro p hp
        simp only [List.zip_cons_cons, List.mem_cons] at hp
        rcases hp with rfl | hp
        · exact ha
        · exact h2 p hp

end TM.Gql

namespace TM.Gql
open TM

theorem refObject_shape {σ : Schema} {f : Nat} {p : List PE} {n : Nat} {od : ObjDef} {fields : List (Nat × Val)}
    {sels : List Flat} {j : J} (h : refEval.refObject σ f p n od fields sels = .ok j) :
    ∃ kvs key, sels.mapM (refEval.refSel σ f p n od fields) = .ok kvs ∧ refEval.refKey σ f p od fields = .ok key ∧
      j = .obj (kvs ++ key) := by
  unfold refEval.refObject at h
  cases hs : sels.mapM (refEval.refSel σ f p n od fields) with
  | error e => simp [hs, bind, Except.bind] at h
  | ok kvs =>
    cases hk : refEval.refKey σ f p od fields with
    | error e => simp [hs, hk, bind, Except.bind] at h
    | ok key =>
      simp only [hs, hk, bind, Except.bind, Except.ok.injEq] at h
      exact ⟨kvs, key, rfl, rfl, h.symm⟩

theorem leaf_scalar_conf (v : Val) : (match leaf v with | .sc _ => true | .null => true | _ => false) = true := by
  cases v <;> simp [leaf]

theorem refKey_conf {σ : Schema} {f : Nat} {p : List PE} {od : ObjDef} {fields : List (Nat × Val)} {key : List (Nat × J)}
    (h : refEval.refKey σ f p od fields = .ok key) :
    key.length = (if od.key.isSome then 1 else 0) ∧
    (match od.key with
     | some _ => keyShape key
     | none => true) = true := by
  unfold refEval.refKey at h
  cases hk : od.key with
  | none => simp only [hk] at h; injection h with h; subst h; simp
  | some k =>
    simp only [hk] at h
    obtain ⟨kv, hkv, hr⟩ := bind_ok' h
    injection hr with hr
    subst hr
    cases f with
    | zero => simp [refEval] at hkv
    | succ f =>
      cases hv : (lookup k fields).getD Val.null with
      | fail e s => rw [hv] at hkv; simp [refEval] at hkv
      | _ => rw [hv] at hkv; simp [refEval, leaf] at hkv; subst hkv; simp [keyShape]

end TM.Gql

namespace TM.Gql
open TM


theorem lookup_none_not_mem {α : Type} (k : Nat) (l : List (Nat × α)) (h : lookup k l = none) : k ∉ l.map Prod.fst := by
  induction l with
  | nil => simp
  | cons a r ih =>
    obtain ⟨k', v⟩ := a
    simp only [lookup] at h
    by_cases e : k = k'
    · simp [e] at h
    · simp only [e, if_false] at h
      simp only [List.map_cons, List.mem_cons, not_or]
      exact ⟨e, ih h⟩

theorem groupByAlias_nodup (l : List Sel) : ((groupByAlias l).map Prod.fst).Nodup := by
  induction l with
  | nil => simp [groupByAlias]
  | cons s r ih =>
    simp only [groupByAlias]
    cases hl : lookup s.alias (groupByAlias r) with
    | none =>
      simp only [List.map_cons, List.nodup_cons]
      exact ⟨lookup_none_not_mem _ _ hl, ih⟩
    | some g =>
      simp only [List.map_map]
      have : (Prod.fst ∘ fun (x : Nat × List Sel) => if x.1 = s.alias then (x.1, s :: x.2) else (x.1, x.2)) = Prod.fst := by
        funext x; by_cases e : x.1 = s.alias <;> simp [e]
      have e2 : (List.map (Prod.fst ∘ fun (x : Nat × List Sel) => match x with | (a, l) => if a = s.alias then (a, s :: l) else (a, l)) (groupByAlias r)) =
          List.map Prod.fst (groupByAlias r) := by
        apply List.map_congr_left
        intro x _
        obtain ⟨a, l⟩ := x
        by_cases e : a = s.alias <;> simp [e]
      rw [e2]; exact ih

theorem mergeGroup_alias {a : Nat} {g : List Sel} {fl : Flat} (h : mergeGroup a g = some fl) : fl.alias = a := by
  match g with
  | [] => simp [mergeGroup] at h
  | [s] => simp [mergeGroup] at h; rw [← h]
  | s :: t :: rest =>
    simp only [mergeGroup] at h
    cases hs : s.sub with
    | none => simp [hs] at h; rw [← h]
    | some sub => simp [hs] at h; rw [← h]

theorem flatten_nodup (tOk : Nat → Bool) (f : Nat) (ss : SelSet) : ((flatten tOk f ss).map Flat.alias).Nodup := by
  unfold flatten
  have hk := groupByAlias_nodup (visit tOk f ss).reverse
  generalize groupByAlias (visit tOk f ss).reverse = G at hk
  -- aliases of the result are a sublist of the reversed keys
  have hsub : ∀ (G : List (Nat × List Sel)), ((G.map fun (a, l) => mergeGroup a l.reverse).filterMap id).map Flat.alias
      |>.Sublist (G.map Prod.fst) := by
    intro G
    induction G with
    | nil => simp
    | cons x G ih =>
      obtain ⟨a, l⟩ := x
      simp only [List.map_cons, List.filterMap_cons, id_eq]
      cases hm : mergeGroup a l.reverse with
      | none => simp only; exact List.Sublist.cons _ ih
      | some fl => simp only [List.map_cons, mergeGroup_alias hm]; exact List.Sublist.cons₂ _ ih
  rw [← List.map_reverse]
  have := hsub G.reverse
  refine List.Nodup.sublist this ?_
  rw [List.map_reverse]
  unfold List.Nodup at hk ⊢
  rw [List.pairwise_reverse]
  exact hk.imp (fun h => fun e => h e.symm)

theorem lookup_append_left {α : Type} (k : Nat) (l r : List (Nat × α)) (v : α) (h : lookup k l = some v) :
    lookup k (l ++ r) = some v := by
  induction l with
  | nil => simp [lookup] at h
  | cons a t ih =>
    obtain ⟨k', x⟩ := a
    simp only [lookup, List.cons_append] at h ⊢
    by_cases e : k = k'
    · simpa [e] using h
    · simp only [e, if_false] at h ⊢; exact ih h

theorem lookup_zip_nodup {α β : Type} (g : α → Nat) : ∀ (l : List α) (r : List (Nat × β)),
    (l.map g).Nodup → (∀ p ∈ l.zip r, p.2.1 = g p.1) → ∀ p ∈ l.zip r, lookup (g p.1) r = some p.2.2 := by
  intro l
  induction l with
  | nil => intro r _ _ p hp; simp at hp
  | cons a l ih =>
    intro r hnd hk p hp
    cases r with
    | nil => simp at hp
    | cons b r =>
      obtain ⟨kb, vb⟩ := b
      simp only [List.map_cons, List.nodup_cons] at hnd
      simp only [List.zip_cons_cons, List.mem_cons] at hp
      have hb : kb = g a := hk (a, (kb, vb)) (by simp)
      rcases hp with rfl | hp
      · simp [lookup, hb]
      · have hne : g p.1 ≠ kb := by
          rw [hb]
          intro e
          exact hnd.1 (by rw [← e]; exact List.mem_map.mpr ⟨p.1, (List.of_mem_zip hp).1, rfl⟩)
        simp only [lookup, hne, if_false]
        exact ih r hnd.2 (fun q hq => hk q (by simp [hq])) p hp

/-- the per-level statement of response conformance -/
def ConfLevel (σ : Schema) (f : Nat) : Prop :=
  ∀ (p : List PE) (ty : Ty) (ss : Option SelSet) (v : Val) (j : J), validF σ f ty ss = true → wellTyped σ f ty v = true →
    refEval σ f p ty ss v = .ok j → conforms σ f ty ss j = true

theorem mem_zip_of_mem {α β : Type} : ∀ (l : List α) (r : List β), r.length = l.length → ∀ x ∈ l, ∃ y, (x, y) ∈ l.zip r := by
  intro l
  induction l with
  | nil => intro r _ x hx; cases hx
  | cons a l ih =>
    intro r hlen x hx
    cases r with
    | nil => simp at hlen
    | cons b r =>
      simp only [List.mem_cons] at hx
      rcases hx with rfl | hx
      · exact ⟨b, by simp⟩
      · obtain ⟨y, hy⟩ := ih r (by simpa using hlen) x hx
        exact ⟨y, by simp [hy]⟩

theorem keyShape_any {key : List (Nat × J)} (h : keyShape key = true) :
    key.any isKeyEntry = true := by
  match key with
  | [(0, .sc _)] => simp [isKeyEntry]
  | [(0, .null)] => simp [isKeyEntry]
  | [] => simp [keyShape] at h
  | [(k+1, _)] => simp [keyShape] at h
  | [(0, .by _)] => simp [keyShape] at h
  | [(0, .arr _)] => simp [keyShape] at h
  | [(0, .obj _)] => simp [keyShape] at h
  | _ :: _ :: _ => simp [keyShape] at h

theorem objConf_of (σ : Schema) (f : Nat) (lvl : ConfLevel σ f) (n : Nat) (od : ObjDef) (fields : List (Nat × Val))
    (p : List PE) (sels : List Flat) (j : J)
    (hnd : (sels.map Flat.alias).Nodup)
    (hv : validF.flatsOk σ f od sels = true)
    (hwt : (od.fields.all fun fd => wellTyped σ f fd.ty ((lookup fd.src fields).getD .null)) = true)
    (h : refEval.refObject σ f p n od fields sels = .ok j) :
    ∃ kvs, j = .obj kvs ∧ conforms.objConf σ f n od sels kvs = true := by
  obtain ⟨kvs, key, hs, hk, rfl⟩ := refObject_shape h
  refine ⟨kvs ++ key, rfl, ?_⟩
  obtain ⟨hlen, hz⟩ := mapM_ok_zip _ sels kvs hs
  obtain ⟨hkl, hkc⟩ := refKey_conf hk
  unfold conforms.objConf
  simp only [Bool.and_eq_true, beq_iff_eq, List.length_append, hlen, hkl, true_and]
  have halias : ∀ pr ∈ sels.zip kvs, pr.2.1 = Flat.alias pr.1 := fun pr hpr => refSel_alias (hz pr hpr)
  refine ⟨?_, ?_⟩
  · rw [List.all_eq_true]
    intro fl hfl
    obtain ⟨kv, hpr⟩ := mem_zip_of_mem sels kvs hlen fl hfl
    have hl := lookup_zip_nodup Flat.alias sels kvs hnd halias (fl, kv) hpr
    simp only at hl
    rw [lookup_append_left _ _ _ _ hl]
    simp only
    have hsel := hz (fl, kv) hpr
    unfold validF.flatsOk at hv
    rw [List.all_eq_true] at hv
    have hvf := hv fl hfl
    simp only at hsel
    unfold refEval.refSel at hsel
    unfold conforms.selConf
    by_cases h0 : fl.name = 0
    · simp only [h0, if_true] at hsel ⊢
      injection hsel with hsel
      subst hsel
      simp
    · simp only [h0, if_false] at hsel hvf ⊢
      cases hfd : findField fl.name od.fields with
      | none => simp [hfd] at hvf
      | some fd =>
        simp only [hfd] at hsel hvf ⊢
        obtain ⟨r, hr, hkv⟩ := bind_ok' hsel
        injection hkv with hkv
        subst hkv
        rw [List.all_eq_true] at hwt
        exact lvl _ _ _ _ _ hvf (hwt fd (findField_mem hfd).1) hr
  · cases hkey : od.key with
    | none => rfl
    | some k =>
      simp only [hkey] at hkc ⊢
      rw [List.any_append, keyShape_any hkc]
      simp

/-- a non-null, well-typed value never evaluates to `null` -/
theorem result_nonNull (σ : Schema) : ∀ (f : Nat) (p : List PE) (t : Ty) (ss : Option SelSet) (v : Val) (j : J),
    validF σ f t ss = true → wellTyped σ f t v = true → v.isNull = false → refEval σ f p t ss v = .ok j → j.isNull = false := by
  intro f
  induction f with
  | zero => intro p t ss v j h; simp [validF] at h
  | succ f ih =>
    intro p t ss v j hv hw hn hr
    cases v with
    | null => simp [Val.isNull] at hn
    | fail e s => simp [refEval] at hr
    | sc x =>
      cases t with
      | scalar => simp [refEval, leaf] at hr; subst hr; rfl
      | nonNull t' => simp only [validF] at hv; simp only [wellTyped] at hw; simp only [refEval] at hr
                      exact ih p t' ss _ j hv (by simp [Val.isNull] at hw; exact hw) rfl hr
      | list t' => simp [wellTyped] at hw
      | object n => simp [wellTyped] at hw
      | union n => simp [wellTyped] at hw
    | list xs =>
      cases t with
      | scalar => simp [wellTyped] at hw
      | nonNull t' => simp only [validF] at hv; simp only [wellTyped] at hw; simp only [refEval] at hr
                      exact ih p t' ss _ j hv (by simp [Val.isNull] at hw; exact hw) rfl hr
      | list t' =>
        simp only [refEval] at hr
        obtain ⟨rs, _, hj⟩ := bind_ok' hr
        injection hj with hj; subst hj; rfl
      | object n => simp [wellTyped] at hw
      | union n => simp [wellTyped] at hw
    | obj m fields =>
      cases t with
      | scalar => simp [wellTyped] at hw
      | nonNull t' => simp only [validF] at hv; simp only [wellTyped] at hw; simp only [refEval] at hr
                      exact ih p t' ss _ j hv (by simp [Val.isNull] at hw; exact hw) rfl hr
      | list t' => simp [wellTyped] at hw
      | object n =>
        cases ss with
        | none => simp [validF] at hv
        | some ss =>
          cases ho : lookup n σ.objects with
          | none => simp [validF, ho] at hv
          | some od =>
            rw [refEval_object _ _ _ _ _ _ rfl] at hr
            simp only [ho, Val.isObj, if_true, Val.fields] at hr
            obtain ⟨kvs, key, _, _, rfl⟩ := refObject_shape hr
            rfl
      | union n =>
        cases ss with
        | none => simp [validF] at hv
        | some ss =>
          simp only [wellTyped, Bool.and_eq_true] at hw
          cases ho : lookup m σ.objects with
          | none => simp [ho] at hw
          | some od =>
            rw [refEval_union _ _ _ _ _ _ rfl] at hr
            simp only [unionTag, hw.1, if_true, ho, Val.fields] at hr
            obtain ⟨kvs, key, _, _, rfl⟩ := refObject_shape hr
            rfl

end TM.Gql

namespace TM.Gql
open TM

theorem mapM_ok_results {α β ε : Type} (g : α → Except ε β) : ∀ (l : List α) (r : List β), l.mapM g = .ok r →
    ∀ y ∈ r, ∃ x ∈ l, g x = .ok y := by
  intro l
  induction l with
  | nil => intro r h y hy; simp [List.mapM_nil, pure, Except.pure] at h; subst h; cases hy
  | cons a l ih =>
    intro r h y hy
    simp only [List.mapM_cons, bind, Except.bind] at h
    cases ha : g a with
    | error e => simp [ha] at h
    | ok y0 =>
      simp only [ha] at h
      cases hl : l.mapM g with
      | error e => simp [hl] at h
      | ok ys =>
        simp only [hl, pure, Except.pure, Except.ok.injEq] at h
        subst h
        simp only [List.mem_cons] at hy
        rcases hy with rfl | hy
        · exact ⟨a, by simp, ha⟩
        · obtain ⟨x, hx, hgx⟩ := ih ys hl y hy
          exact ⟨x, by simp [hx], hgx⟩

theorem listChildren_mem {p : List PE} {xs : List Val} {c : Item} (h : c ∈ listChildren (p, Val.list xs)) : c.2 ∈ xs := by
  simp only [listChildren, List.mem_map] at h
  obtain ⟨⟨x0, k⟩, hx0, rfl⟩ := h
  have := List.mem_zipIdx' hx0
  show x0 ∈ xs
  rw [this.2]; exact List.getElem_mem _

theorem conforms_all (σ : Schema) : ∀ f, ConfLevel σ f := by
  intro f
  induction f with
  | zero => intro p ty ss v j h; simp [validF] at h
  | succ f ih =>
    intro p ty ss v j hv hw hr
    by_cases hfv : failOf v = none
    · cases ty with
      | scalar =>
        rw [refEval_scalar _ _ _ _ _ hfv] at hr
        injection hr with hr; subst hr
        cases v <;> simp [conforms, leaf]
      | nonNull t =>
        rw [refEval_nonNull _ _ _ _ _ _ hfv] at hr
        simp only [validF] at hv
        have hw' : v.isNull = false ∧ wellTyped σ f t v = true := by
          cases v <;> simp [wellTyped, Val.isNull, failOf] at hw hfv ⊢ <;> exact hw
        simp only [conforms, Bool.and_eq_true, Bool.not_eq_true']
        exact ⟨result_nonNull σ f p t ss v j hv hw'.2 hw'.1 hr, ih p t ss v j hv hw'.2 hr⟩
      | list t =>
        rw [refEval_list _ _ _ _ _ _ hfv] at hr
        simp only [validF] at hv
        cases hm : (listChildren (p, v)).mapM (fun c => refEval σ f c.1 t ss c.2) with
        | error e => simp [hm, Except.map] at hr
        | ok rs =>
          simp only [hm, Except.map, Except.ok.injEq] at hr
          subst hr
          simp only [conforms, List.all_eq_true, Bool.or_eq_true]
          intro x hx
          obtain ⟨c, hcm, hc⟩ := mapM_ok_results _ _ rs hm x hx
          right
          have hwc : wellTyped σ f t c.2 = true := by
            cases v with
            | list xs =>
              simp only [wellTyped, List.all_eq_true, Bool.and_eq_true] at hw
              exact (hw c.2 (listChildren_mem hcm)).2
            | _ => simp [listChildren] at hcm
          exact ih _ t ss c.2 _ hv hwc hc
      | object n =>
        rw [refEval_object _ _ _ _ _ _ hfv] at hr
        cases ss with
        | none => simp [validF] at hv
        | some ss =>
          cases ho : lookup n σ.objects with
          | none => simp [validF, ho] at hv
          | some od =>
            have hv' : validF.flatsOk σ f od (flatten (fun _ => true) f ss) = true := by
              rw [validF.eq_5 σ f n ss od ho] at hv; exact hv
            simp only [ho] at hr
            cases v with
            | obj m fields =>
              simp only [Val.isObj, if_true, Val.fields] at hr
              have hwf : (od.fields.all fun fd => wellTyped σ f fd.ty ((lookup fd.src fields).getD .null)) = true := by
                simp only [wellTyped, ho, Bool.and_eq_true] at hw; exact hw.2
              obtain ⟨kvs, rfl, hc⟩ := objConf_of σ f ih n od fields p _ j (flatten_nodup _ _ _) hv' hwf hr
              unfold conforms; simp only [ho]; exact hc
            | null => simp [Val.isObj] at hr; subst hr; simp [conforms]
            | sc x => simp [wellTyped] at hw
            | list xs => simp [wellTyped] at hw
            | fail e s => simp [failOf] at hfv
      | union n =>
        cases ss with
        | none => simp [validF] at hv
        | some ss =>
          rw [refEval_union _ _ _ _ _ _ hfv] at hr
          simp only [validF, Bool.and_eq_true, List.all_eq_true] at hv
          cases v with
          | obj m fields =>
            simp only [wellTyped, Bool.and_eq_true] at hw
            have hm : m ∈ (lookup n σ.unions).getD [] := by simpa using hw.1
            cases ho : lookup m σ.objects with
            | none => simp [ho] at hw
            | some od =>
              simp only [unionTag, hw.1, if_true, ho, Val.fields] at hr
              have hv' := hv.2 m hm
              simp only [ho] at hv'
              have hwf : (od.fields.all fun fd => wellTyped σ f fd.ty ((lookup fd.src fields).getD .null)) = true := by
                have := hw.2; simp only [ho] at this; exact this
              obtain ⟨kvs, rfl, hc⟩ := objConf_of σ f ih m od fields p _ j (flatten_nodup _ _ _) hv' hwf hr
              simp only [conforms, List.any_eq_true]
              exact ⟨m, hm, by simp only [ho]; exact hc⟩
          | null => simp [unionTag] at hr; subst hr; simp [conforms]
          | sc x => simp [wellTyped] at hw
          | list xs => simp [wellTyped] at hw
          | fail e s => simp [failOf] at hfv
    · cases v with
      | fail e s => simp [refEval] at hr
      | _ => simp [failOf] at hfv

end TM.Gql
