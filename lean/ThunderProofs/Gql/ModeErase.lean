import ThunderProofs.Gql.Main
/-! The reference semantics never looks at a field's execution mode or parallelism: evaluating
under the schema with every field turned into a plain inline resolver gives the same result.
Together with `level_all` this makes the executor's result independent of the modes. -/
namespace TM.Gql
open TM

def FieldDef.plain (fd : FieldDef) : FieldDef := { fd with mode := .inline, parallel := none }
def ObjDef.plain (od : ObjDef) : ObjDef := { od with fields := od.fields.map FieldDef.plain }
def Schema.plain (σ : Schema) : Schema := { σ with objects := σ.objects.map fun (n, od) => (n, od.plain) }

/-- two schemas that differ only in how fields are executed -/
def Schema.sameShape (σ σ' : Schema) : Prop := σ.plain = σ'.plain

theorem lookup_map {α β : Type} (g : α → β) (k : Nat) (l : List (Nat × α)) :
    lookup k (l.map fun (n, a) => (n, g a)) = (lookup k l).map g := by
  induction l with
  | nil => rfl
  | cons x l ih =>
    obtain ⟨k', a⟩ := x
    simp only [List.map, lookup]
    by_cases e : k = k' <;> simp [e, ih]

theorem findField_plain (n : Nat) (l : List FieldDef) :
    findField n (l.map FieldDef.plain) = (findField n l).map FieldDef.plain := by
  induction l with
  | nil => rfl
  | cons x l ih =>
    simp only [List.map, findField]
    by_cases e : x.name = n <;> simp [e, ih, FieldDef.plain]

theorem lookup_plain (σ : Schema) (n : Nat) : lookup n σ.plain.objects = (lookup n σ.objects).map ObjDef.plain := by
  simp only [Schema.plain]; exact lookup_map ObjDef.plain n σ.objects

theorem mapM_congr_mem {α β ε : Type} (f g : α → Except ε β) (l : List α) (h : ∀ x ∈ l, f x = g x) :
    l.mapM f = l.mapM g := by
  induction l with
  | nil => rfl
  | cons a l ih =>
    simp only [List.mapM_cons, h a (by simp), ih (fun x hx => h x (by simp [hx]))]

theorem refObject_plain (σ : Schema) (f : Nat)
    (ih : ∀ p ty ss v, refEval σ.plain f p ty ss v = refEval σ f p ty ss v)
    (p : List PE) (n : Nat) (od : ObjDef) (fields : List (Nat × Val)) (sels : List Flat) :
    refEval.refObject σ.plain f p n od.plain fields sels = refEval.refObject σ f p n od fields sels := by
  simp only [refEval.refObject]
  have h1 : sels.mapM (refEval.refSel σ.plain f p n od.plain fields) = sels.mapM (refEval.refSel σ f p n od fields) := by
    apply mapM_congr_mem
    intro fl _
    simp only [refEval.refSel]
    by_cases h0 : fl.name = 0
    · simp [h0]
    · simp only [h0, if_false, ObjDef.plain, findField_plain]
      cases findField fl.name od.fields with
      | none => rfl
      | some fd => simp [FieldDef.plain, ih]
  have h2 : refEval.refKey σ.plain f p od.plain fields = refEval.refKey σ f p od fields := by
    simp only [refEval.refKey, ObjDef.plain]
    cases od.key with
    | none => rfl
    | some k => simp [ih]
  rw [h1, h2]

theorem refEval_plain (σ : Schema) : ∀ f p ty ss v, refEval σ.plain f p ty ss v = refEval σ f p ty ss v := by
  intro f
  induction f with
  | zero => intro p ty ss v; simp [refEval]
  | succ f ih =>
    intro p ty ss v
    by_cases hv : failOf v = none
    · cases ty with
      | nonNull t => rw [refEval_nonNull _ _ _ _ _ _ hv, refEval_nonNull _ _ _ _ _ _ hv, ih]
      | scalar => rw [refEval_scalar _ _ _ _ _ hv, refEval_scalar _ _ _ _ _ hv]
      | list t =>
        rw [refEval_list _ _ _ _ _ _ hv, refEval_list _ _ _ _ _ _ hv]
        congr 1
        apply mapM_congr_mem
        intro c _; exact ih _ _ _ _
      | object n =>
        rw [refEval_object _ _ _ _ _ _ hv, refEval_object _ _ _ _ _ _ hv, lookup_plain]
        cases lookup n σ.objects with
        | none => rfl
        | some od =>
          cases ss with
          | none => rfl
          | some ss =>
            simp only [Option.map_some]
            by_cases ho : v.isObj = true
            · simp only [ho, if_true]; exact refObject_plain σ f ih _ _ _ _ _
            · simp [ho]
      | union n =>
        cases ss with
        | none => rw [refEval_union_none _ _ _ _ _ hv, refEval_union_none _ _ _ _ _ hv]
        | some ss =>
          rw [refEval_union _ _ _ _ _ _ hv, refEval_union _ _ _ _ _ _ hv]
          have hu : σ.plain.unions = σ.unions := rfl
          rw [hu]
          cases unionTag ((lookup n σ.unions).getD []) (p, v) with
          | none => rfl
          | some m =>
            simp only [lookup_plain]
            cases lookup m σ.objects with
            | none => rfl
            | some od => simp only [Option.map_some]; exact refObject_plain σ f ih _ _ _ _ _
    · cases v with
      | fail e s => simp [refEval]
      | _ => simp [failOf] at hv

theorem reference_plain (σ : Schema) (fuel root : Nat) (rootVal : Val) (q : SelSet) :
    reference σ.plain fuel root rootVal q = reference σ fuel root rootVal q := by
  simp only [reference, lookup_plain]
  cases lookup root σ.objects with
  | none => rfl
  | some od =>
    simp only [Option.map_some]
    cases rootVal with
    | obj t fields =>
      simp only
      have := refObject_plain σ fuel (refEval_plain σ fuel) [] root { od with key := none } fields
        (flatten (fun _ => true) fuel q)
      simpa [ObjDef.plain] using this
    | _ => rfl

end TM.Gql
