import ThunderModel.Gql.Prune
import ThunderProofs.Gql.Main
import ThunderProofs.Gql.ModeErase
/-! `@skip`/`@include`: evaluating a query equals evaluating its textually pruned form. -/
namespace TM.Gql
open TM

def Flat.prune (fl : Flat) : Flat := ⟨fl.alias, fl.name, pruneOpt fl.sub⟩

@[simp] theorem Sel.prune_alias (s : Sel) : s.prune.alias = s.alias := by cases s; simp [Sel.prune, Sel.alias]
@[simp] theorem Sel.prune_name (s : Sel) : s.prune.name = s.name := by cases s; simp [Sel.prune, Sel.name]
@[simp] theorem Sel.prune_dirs (s : Sel) : s.prune.dirs = {} := by cases s; simp [Sel.prune, Sel.dirs]
@[simp] theorem Sel.prune_sub (s : Sel) : s.prune.sub = pruneOpt s.sub := by cases s; simp [Sel.prune, Sel.sub]
@[simp] theorem Frag.prune_on (fr : Frag) : fr.prune.on = fr.on := by cases fr; simp [Frag.prune, Frag.on]
@[simp] theorem Frag.prune_dirs (fr : Frag) : fr.prune.dirs = {} := by cases fr; simp [Frag.prune, Frag.dirs]
@[simp] theorem Frag.prune_set (fr : Frag) : fr.prune.set = fr.set.prune := by cases fr; simp [Frag.prune, Frag.set]
@[simp] theorem SelSet.prune_sels (ss : SelSet) : ss.prune.sels = pruneSels ss.sels := by cases ss; simp [SelSet.prune, SelSet.sels]
@[simp] theorem SelSet.prune_frags (ss : SelSet) : ss.prune.frags = pruneFrags ss.frags := by cases ss; simp [SelSet.prune, SelSet.frags]
@[simp] theorem included_empty : ({} : Dirs).included = true := by decide

theorem pruneSels_eq (l : List Sel) : pruneSels l = (l.filter fun s => s.dirs.included).map Sel.prune := by
  induction l with
  | nil => simp [pruneSels]
  | cons s r ih =>
    simp only [pruneSels, List.filter_cons]
    by_cases h : s.dirs.included = true <;> simp [h, ih]

theorem pruneFrags_eq (l : List Frag) : pruneFrags l = (l.filter fun s => s.dirs.included).map Frag.prune := by
  induction l with
  | nil => simp [pruneFrags]
  | cons s r ih =>
    simp only [pruneFrags, List.filter_cons]
    by_cases h : s.dirs.included = true <;> simp [h, ih]

theorem pruneSels_append (a b : List Sel) : pruneSels (a ++ b) = pruneSels a ++ pruneSels b := by
  simp [pruneSels_eq]

theorem pruneFrags_append (a b : List Frag) : pruneFrags (a ++ b) = pruneFrags a ++ pruneFrags b := by
  simp [pruneFrags_eq]

theorem visit_prune (tOk : Nat → Bool) : ∀ (f : Nat) (ss : SelSet), visit tOk f ss.prune = (visit tOk f ss).map Sel.prune := by
  intro f
  induction f with
  | zero => intro ss; simp [visit]
  | succ f ih =>
    intro ss
    simp only [visit, SelSet.prune_sels, SelSet.prune_frags, List.map_append]
    congr 1
    · simp [pruneSels_eq, List.filter_map, Function.comp_def]
    · rw [pruneFrags_eq]
      generalize ss.frags = frags
      induction frags with
      | nil => simp
      | cons fr r ihr =>
        simp only [List.filter_cons]
        by_cases h1 : fr.dirs.included = true
        · by_cases h2 : tOk fr.on = true
          · simp [h1, h2, ih, ihr]
          · simp [h1, h2, ihr]
        · simp [h1, ihr]

theorem lookup_mapSnd {α β : Type} (g : α → β) (k : Nat) (l : List (Nat × α)) :
    lookup k (l.map fun (n, a) => (n, g a)) = (lookup k l).map g := lookup_map g k l

theorem groupByAlias_prune (l : List Sel) :
    groupByAlias (l.map Sel.prune) = (groupByAlias l).map fun (a, g) => (a, g.map Sel.prune) := by
  induction l with
  | nil => simp [groupByAlias]
  | cons s r ih =>
    simp only [List.map_cons, groupByAlias, ih, Sel.prune_alias, lookup_mapSnd]
    cases lookup s.alias (groupByAlias r) with
    | none => simp
    | some g =>
      simp only [Option.map_some, List.map_map]
      apply List.map_congr_left
      intro x _
      obtain ⟨a, g'⟩ := x
      by_cases e : a = s.alias <;> simp [e]

theorem pruneSels_flatMap {α : Type} (l : List α) (g : α → List Sel) :
    pruneSels (l.flatMap g) = l.flatMap fun x => pruneSels (g x) := by
  induction l with
  | nil => simp [pruneSels]
  | cons a r ih => simp [pruneSels_append, ih]

theorem pruneFrags_flatMap {α : Type} (l : List α) (g : α → List Frag) :
    pruneFrags (l.flatMap g) = l.flatMap fun x => pruneFrags (g x) := by
  induction l with
  | nil => simp [pruneFrags]
  | cons a r ih => simp [pruneFrags_append, ih]

theorem pruneOpt_sels (o : Option SelSet) : ((pruneOpt o).map SelSet.sels).getD [] = pruneSels ((o.map SelSet.sels).getD []) := by
  cases o <;> simp [pruneOpt, pruneSels]

theorem pruneOpt_frags (o : Option SelSet) : ((pruneOpt o).map SelSet.frags).getD [] = pruneFrags ((o.map SelSet.frags).getD []) := by
  cases o <;> simp [pruneOpt, pruneFrags]

theorem mergeGroup_prune (a : Nat) (g : List Sel) : mergeGroup a (g.map Sel.prune) = (mergeGroup a g).map Flat.prune := by
  match g with
  | [] => simp [mergeGroup]
  | [s] => simp [mergeGroup, Flat.prune]
  | s :: t :: rest =>
    simp only [List.map_cons, mergeGroup, Sel.prune_sub, Sel.prune_name]
    cases hs : s.sub with
    | none => simp [pruneOpt, Flat.prune]
    | some sub =>
      simp only [pruneOpt, Option.map_some, Flat.prune, Option.some.injEq, Flat.mk.injEq, true_and]
      simp only [SelSet.prune, pruneSels_flatMap, pruneFrags_flatMap, List.flatMap_cons, pruneSels_append, pruneFrags_append,
        List.flatMap_map, Sel.prune_sub, pruneOpt_sels, pruneOpt_frags, hs]

theorem flatten_prune (tOk : Nat → Bool) (f : Nat) (ss : SelSet) :
    flatten tOk f ss.prune = (flatten tOk f ss).map Flat.prune := by
  simp only [flatten, visit_prune, ← List.map_reverse, groupByAlias_prune, List.map_map]
  generalize (groupByAlias (visit tOk f ss).reverse).reverse = L
  induction L with
  | nil => simp
  | cons x L ih =>
    obtain ⟨a, g⟩ := x
    simp only [List.map_cons, Function.comp_apply, List.filterMap_cons, id_eq, ← List.map_reverse, mergeGroup_prune]
    cases mergeGroup a g.reverse with
    | none => simpa using ih
    | some fl => simpa using ih

theorem pruneFrags_filter_on (m : Nat) (l : List Frag) :
    pruneFrags (l.filter fun fr => fr.on == m) = (pruneFrags l).filter fun fr => fr.on == m := by
  induction l with
  | nil => simp [pruneFrags]
  | cons fr r ih =>
    by_cases h1 : fr.dirs.included = true <;> by_cases h2 : (fr.on == m) = true <;>
      simp [List.filter_cons, pruneFrags, h1, h2, ih]

theorem refObject_prune (σ : Schema) (f : Nat)
    (ih : ∀ p ty ss v, refEval σ f p ty (pruneOpt ss) v = refEval σ f p ty ss v)
    (p : List PE) (n : Nat) (od : ObjDef) (fields : List (Nat × Val)) (sels : List Flat) :
    refEval.refObject σ f p n od fields (sels.map Flat.prune) = refEval.refObject σ f p n od fields sels := by
  simp only [refEval.refObject, List.mapM_map]
  have h1 : sels.mapM (refEval.refSel σ f p n od fields ∘ Flat.prune) = sels.mapM (refEval.refSel σ f p n od fields) := by
    apply mapM_congr_mem
    intro fl _
    simp only [Function.comp_apply, refEval.refSel, Flat.prune]
    by_cases h0 : fl.name = 0
    · simp [h0]
    · simp only [h0, if_false]
      cases findField fl.name od.fields with
      | none => rfl
      | some fd => simp [ih]
  rw [h1]

theorem refEval_prune (σ : Schema) : ∀ f p ty ss v, refEval σ f p ty (pruneOpt ss) v = refEval σ f p ty ss v := by
  intro f
  induction f with
  | zero => intro p ty ss v; simp [refEval]
  | succ f ih =>
    intro p ty ss v
    by_cases hv : failOf v = none
    · cases ty with
      | nonNull t => rw [refEval_nonNull _ _ _ _ _ _ hv, refEval_nonNull _ _ _ _ _ _ hv, ih]
      | scalar => rw [refEval_scalar _ _ _ _ _ hv, refEval_scalar _ _ _ _ _ hv]
      | list t =>
        rw [refEval_list _ _ _ _ _ _ hv, refEval_list _ _ _ _ _ _ hv]
        congr 1
        apply mapM_congr_mem
        intro c _; exact ih _ _ _ _
      | object n =>
        rw [refEval_object _ _ _ _ _ _ hv, refEval_object _ _ _ _ _ _ hv]
        cases lookup n σ.objects with
        | none => cases ss <;> rfl
        | some od =>
          cases ss with
          | none => rfl
          | some ss =>
            simp only [pruneOpt]
            by_cases ho : v.isObj = true
            · simp only [ho, if_true, flatten_prune]; exact refObject_prune σ f ih _ _ _ _ _
            · simp [ho]
      | union n =>
        cases ss with
        | none => rfl
        | some ss =>
          simp only [pruneOpt]
          rw [refEval_union _ _ _ _ _ _ hv, refEval_union _ _ _ _ _ _ hv]
          cases unionTag ((lookup n σ.unions).getD []) (p, v) with
          | none => rfl
          | some m =>
            simp only
            cases lookup m σ.objects with
            | none => rfl
            | some od =>
              simp only
              have e : SelSet.mk ss.prune.sels (ss.prune.frags.filter fun fr => fr.on == m) =
                  (SelSet.mk ss.sels (ss.frags.filter fun fr => fr.on == m)).prune := by
                simp [SelSet.prune, pruneFrags_filter_on]
              rw [e, flatten_prune]
              exact refObject_prune σ f ih _ _ _ _ _
    · cases v with
      | fail e s => simp [refEval]
      | _ => simp [failOf] at hv

theorem reference_prune (σ : Schema) (fuel root : Nat) (rootVal : Val) (q : SelSet) :
    reference σ fuel root rootVal q.prune = reference σ fuel root rootVal q := by
  simp only [reference]
  cases lookup root σ.objects with
  | none => rfl
  | some od =>
    cases rootVal with
    | obj t fields =>
      simp only [flatten_prune]
      exact refObject_prune σ fuel (refEval_prune σ fuel) _ _ _ _ _
    | _ => rfl

end TM.Gql
