import ThunderModel.Gql.Exec
/-! List lemmas behind the executor's "take the sources apart, resolve, put the results back". -/
namespace TM.Gql
open TM

theorem regroup_flatten {α : Type} (ls : List (List α)) : regroup (ls.map List.length) ls.flatten = ls := by
  induction ls with
  | nil => simp [regroup]
  | cons l ls ih => simp [regroup, ih]

theorem regroup_map_flatten {α β : Type} (g : α → β) (ls : List (List α)) :
    regroup (ls.map List.length) (ls.flatten.map g) = ls.map (List.map g) := by
  have := regroup_flatten (ls.map (List.map g))
  have e : (ls.map (List.map g)).map List.length = ls.map List.length := by
    rw [List.map_map]; apply List.map_congr_left; intro l _; simp
  rw [e] at this
  simpa [List.map_flatten] using this

theorem mapM_ok_of_forall {α β ε : Type} (f : α → Except ε β) (g : α → β) (l : List α)
    (h : ∀ x ∈ l, f x = .ok (g x)) : l.mapM f = .ok (l.map g) := by
  induction l with
  | nil => rfl
  | cons a l ih =>
    have h1 := h a (by simp)
    have h2 := ih (fun x hx => h x (by simp [hx]))
    simp [List.mapM_cons, h1, h2, bind, Except.bind, pure, Except.pure]

/-- nil sources get `null`, the others take their result in order -/
theorem mergeBack_single (isObj : Item → Bool) (g : Item → J) (items : List Item) :
    mergeBack (items.map fun it => if isObj it then some 0 else none) [(0, (items.filter isObj).map g)] =
      items.map fun it => if isObj it then g it else .null := by
  induction items with
  | nil => simp [mergeBack]
  | cons it items ih =>
    by_cases h : isObj it = true
    · simp [h, mergeBack, lookup, ih]
    · have h' : isObj it = false := by simpa using h
      simp [h', mergeBack, ih]

theorem lookup_map_mem {β : Type} (members : List Nat) (q : Nat → β) (m : Nat) (h : m ∈ members) :
    lookup m (members.map fun m' => (m', q m')) = some (q m) := by
  induction members with
  | nil => cases h
  | cons a l ih =>
    by_cases e : m = a
    · subst e; simp [lookup]
    · have : m ∈ l := by simpa [e] using h
      simp [lookup, e, ih this]

/-- union dispatch: every member's results go back to the positions its sources came from -/
theorem mergeBack_members (members : List Nat) (tag : Item → Option Nat) (g : Nat → Item → J)
    (hmem : ∀ it m, tag it = some m → m ∈ members) :
    ∀ (items : List Item),
      mergeBack (items.map tag) (members.map fun m => (m, (items.filter fun it => tag it == some m).map (g m))) =
        items.map fun it => match tag it with | some m => g m it | none => .null := by
  intro items
  induction items with
  | nil => simp [mergeBack]
  | cons it items ih =>
    cases ht : tag it with
    | none =>
      have : ∀ m, (tag it == some m) = false := by intro m; simp [ht]
      simp [ht, mergeBack, this, ih]
    | some m =>
      have hm := hmem it m ht
      have hl := lookup_map_mem members (fun m' => ((it :: items).filter fun x => tag x == some m').map (g m')) m hm
      simp only [List.map_cons, ht, mergeBack, hl]
      have hhead : ((it :: items).filter fun x => tag x == some m).map (g m) =
          g m it :: (items.filter fun x => tag x == some m).map (g m) := by
        simp [List.filter_cons, ht]
      rw [hhead]
      simp only
      have hq : ((members.map fun m' => (m', ((it :: items).filter fun x => tag x == some m').map (g m'))).map
          fun (kl : Nat × List J) => if kl.1 = m then (kl.1, (items.filter fun x => tag x == some m).map (g m)) else (kl.1, kl.2)) =
          members.map fun m' => (m', (items.filter fun x => tag x == some m').map (g m')) := by
        rw [List.map_map]
        apply List.map_congr_left
        intro m' _
        by_cases e : m' = m
        · subst e; simp
        · have hne : ¬ tag it = some m' := by rw [ht]; intro h; injection h with h; exact e h.symm
          simp [e, List.filter_cons, hne]
      have hq' : ((members.map fun m' => (m', ((it :: items).filter fun x => tag x == some m').map (g m'))).map
          fun (x : Nat × List J) => match x with | (k, l) => if k = m then (k, (items.filter fun x => tag x == some m).map (g m)) else (k, l)) =
          members.map fun m' => (m', (items.filter fun x => tag x == some m').map (g m')) := by
        rw [← hq]
      rw [hq', ih]

/-- rows from columns: the `j`-th object takes the `j`-th entry of every column -/
theorem rows_of_columns {α : Type} (srcs : List α) (cols : List (Nat × (α → J))) :
    ((List.range srcs.length).map fun j => J.obj ((cols.map fun (c : Nat × (α → J)) => (c.1, srcs.map c.2)).map
        fun (ac : Nat × List J) => (ac.1, ac.2.getD j .null))) =
      srcs.map fun s => J.obj (cols.map fun c => (c.1, c.2 s)) := by
  apply List.ext_getElem
  · simp
  · intro j h1 h2
    simp only [List.length_map, List.length_range] at h1
    simp only [List.getElem_map, List.getElem_range, List.map_map]
    congr 1
    apply List.map_congr_left
    intro c _
    simp [List.getD_eq_getElem?_getD, h1]

end TM.Gql

namespace TM.Gql
open TM

/-- `NumParallelInvocations`: splitting the sources over `k` units, resolving each unit pointwise
and putting the results back by position is resolving pointwise — no source is paired with
another source's result. -/
theorem gather_splitN {α : Type} (d0 : α) (g : α → J) (k : Nat) (hk : 0 < k) (xs : List α) (dflt : J) :
    gather k xs.length ((splitN d0 k xs).map (List.map g)) dflt = xs.map g := by
  apply List.ext_getElem
  · simp [gather]
  · intro i h1 h2
    simp only [gather, List.length_map, List.length_range] at h1
    have hj : i % k < k := Nat.mod_lt i hk
    have hi : i / k * k + i % k = i := by
      have := Nat.div_add_mod i k
      rw [Nat.mul_comm] at this; exact this
    have hq : i / k < (xs.length + k - 1 - i % k) / k := by
      rw [Nat.lt_iff_add_one_le, Nat.le_div_iff_mul_le hk]
      have : (i / k + 1) * k = i / k * k + k := by rw [Nat.add_mul]; simp
      rw [this]; omega
    simp only [gather, List.getElem_map, List.getElem_range, splitN, List.map_map]
    have hpart : ((List.map (List.map g ∘ fun j => List.map (fun q => xs.getD (q * k + j) d0)
        (List.range ((xs.length + k - 1 - j) / k))) (List.range k)).getD (i % k) []) =
        List.map g (List.map (fun q => xs.getD (q * k + i % k) d0) (List.range ((xs.length + k - 1 - i % k) / k))) := by
      rw [List.getD_eq_getElem?_getD, List.getElem?_map, List.getElem?_range hj]
      simp
    rw [hpart, List.map_map, List.getD_eq_getElem?_getD, List.getElem?_map, List.getElem?_range hq]
    simp only [Option.map_some, Option.getD_some, Function.comp, hi]
    rw [List.getD_eq_getElem?_getD, List.getElem?_eq_getElem h1]
    simp

theorem splitN_mem {α : Type} (d0 : α) (k : Nat) (hk : 0 < k) (xs : List α) :
    ∀ part ∈ splitN d0 k xs, ∀ x ∈ part, x ∈ xs := by
  intro part hp x hx
  simp only [splitN, List.mem_map, List.mem_range] at hp
  obtain ⟨j, hj, rfl⟩ := hp
  simp only [List.mem_map, List.mem_range] at hx
  obtain ⟨q, hq, rfl⟩ := hx
  have hlt : q * k + j < xs.length := by
    have h1 : q + 1 ≤ (xs.length + k - 1 - j) / k := hq
    rw [Nat.le_div_iff_mul_le hk] at h1
    have : (q + 1) * k = q * k + k := by rw [Nat.add_mul]; simp
    rw [this] at h1; omega
  rw [List.getD_eq_getElem?_getD, List.getElem?_eq_getElem hlt]
  simp

theorem clampUnits_pos (k n : Nat) : 0 < clampUnits k n := by
  unfold clampUnits
  split
  · split <;> omega
  · split <;> omega

end TM.Gql
