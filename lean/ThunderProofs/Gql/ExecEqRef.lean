import ThunderProofs.Gql.ExecUnit
/-! The batch executor computes the sequential reference semantics. -/
namespace TM.Gql
open TM

/-- the reference result of one item (`null` if the reference evaluation fails) -/
def gOf (σ : Schema) (f : Nat) (ty : Ty) (ss : Option SelSet) (it : Item) : J :=
  match refEval σ f it.1 ty ss it.2 with
  | .ok j => j
  | .error _ => .null

def RefOk (σ : Schema) (f : Nat) (ty : Ty) (ss : Option SelSet) (it : Item) : Prop :=
  ∃ j, refEval σ f it.1 ty ss it.2 = .ok j

theorem gOf_eq {σ f ty ss it j} (h : refEval σ f it.1 ty ss it.2 = .ok j) : gOf σ f ty ss it = j := by
  simp [gOf, h]

theorem refOk_notFail {σ f ty ss} {it : Item} (h : RefOk σ f ty ss it) : failOf it.2 = none := by
  obtain ⟨j, hj⟩ := h
  cases f with
  | zero => simp [refEval] at hj
  | succ f =>
    cases hv : it.2 with
    | fail e s => rw [hv] at hj; simp [refEval] at hj
    | _ => simp [failOf]

theorem mapM_ok_each {α β ε : Type} (f : α → Except ε β) (l : List α) (r : List β) (h : l.mapM f = .ok r) :
    ∀ x ∈ l, ∃ y, f x = .ok y := by
  induction l generalizing r with
  | nil => intro x hx; cases hx
  | cons a l ih =>
    simp only [List.mapM_cons, bind, Except.bind] at h
    cases ha : f a with
    | error e => simp [ha] at h
    | ok y =>
      simp only [ha] at h
      cases hl : l.mapM f with
      | error e => simp [hl] at h
      | ok ys =>
        intro x hx
        simp only [List.mem_cons] at hx
        rcases hx with rfl | hx
        · exact ⟨y, ha⟩
        · exact ih ys hl x hx

/-- the hypothesis the main induction carries one level down -/
def Level (σ : Schema) (f : Nat) : Prop :=
  ∀ (ty : Ty) (ss : Option SelSet) (items : List Item), (∀ it ∈ items, RefOk σ f ty ss it) →
    resolveBatch σ f ty ss items = .ok (items.map (gOf σ f ty ss))

/-- one selection: the executor's column is the reference value of every source -/
theorem column_eq (σ : Schema) (f : Nat) (lvl : Level σ f) (n : Nat) (od : ObjDef) (nonNil : List Item) (fl : Flat)
    (href : ∀ it ∈ nonNil, ∃ kv, refEval.refSel σ f it.1 n od it.2.fields fl = .ok kv) :
    column (resolveBatch σ f) n od nonNil fl =
      .ok (fl.alias, nonNil.map fun it => match refEval.refSel σ f it.1 n od it.2.fields fl with | .ok kv => kv.2 | .error _ => .null) := by
  unfold column
  by_cases h0 : fl.name = 0
  · simp [h0, refEval.refSel]
  · simp only [h0, if_false]
    cases hfd : findField fl.name od.fields with
    | none => simp [refEval.refSel, h0, hfd]
    | some fd =>
      simp only
      -- the unit's items and their reference results
      have hok : ∀ x ∈ (nonNil.map fun it => (it.1 ++ [PE.key fl.alias], (lookup fd.src it.2.fields).getD Val.null)),
          RefOk σ f fd.ty fl.sub x := by
        intro x hx
        obtain ⟨it, hit, rfl⟩ := List.mem_map.mp hx
        obtain ⟨kv, hkv⟩ := href it hit
        simp only [refEval.refSel, h0, if_false, hfd] at hkv
        cases hr : refEval σ f (it.1 ++ [PE.key fl.alias]) fd.ty fl.sub ((lookup fd.src it.2.fields).getD Val.null) with
        | error e => simp [hr, bind, Except.bind] at hkv
        | ok j => exact ⟨j, hr⟩
      have hu := execUnit_pointwise (resolveBatch σ f) fd fl.sub (RefOk σ f fd.ty fl.sub) (gOf σ f fd.ty fl.sub)
        (fun part hp => lvl fd.ty fl.sub part hp) _ hok (fun x hx => refOk_notFail (hok x hx))
      rw [hu]
      simp only [bind, Except.bind, List.map_map]
      congr 2
      apply List.map_congr_left
      intro it hit
      simp only [Function.comp, refEval.refSel, h0, if_false, hfd, gOf]
      cases hr : refEval σ f (it.1 ++ [PE.key fl.alias]) fd.ty fl.sub ((lookup fd.src it.2.fields).getD Val.null) <;>
        simp [hr, bind, Except.bind]

theorem keyColumn_eq (σ : Schema) (f : Nat) (lvl : Level σ f) (od : ObjDef) (nonNil : List Item)
    (href : ∀ it ∈ nonNil, ∃ kv, refEval.refKey σ f it.1 od it.2.fields = .ok kv) :
    keyColumn (resolveBatch σ f) od nonNil =
      .ok (match od.key with
        | some _ => [((0 : Nat), nonNil.map fun it => match refEval.refKey σ f it.1 od it.2.fields with | .ok [kv] => kv.2 | _ => .null)]
        | none => []) := by
  unfold keyColumn
  cases hk : od.key with
  | none => rfl
  | some k =>
    simp only
    have hok : ∀ x ∈ (nonNil.map fun it => (it.1 ++ [PE.key 0], (lookup k it.2.fields).getD Val.null)),
        RefOk σ f .scalar none x := by
      intro x hx
      obtain ⟨it, hit, rfl⟩ := List.mem_map.mp hx
      obtain ⟨kv, hkv⟩ := href it hit
      simp only [refEval.refKey, hk] at hkv
      cases hr : refEval σ f (it.1 ++ [PE.key 0]) .scalar none ((lookup k it.2.fields).getD Val.null) with
      | error e => simp [hr, bind, Except.bind] at hkv
      | ok j => exact ⟨j, hr⟩
    have hu := execUnit_pointwise (resolveBatch σ f) ⟨k, .scalar, .inline, none, k⟩ none (RefOk σ f .scalar none)
      (gOf σ f .scalar none) (fun part hp => lvl .scalar none part hp) _ hok (fun x hx => refOk_notFail (hok x hx))
    rw [hu]
    simp only [bind, Except.bind, List.map_map]
    congr 3
    apply List.map_congr_left
    intro it hit
    simp only [Function.comp, refEval.refKey, hk, gOf]
    cases hr : refEval σ f (it.1 ++ [PE.key 0]) .scalar none ((lookup k it.2.fields).getD Val.null) <;>
      simp [hr, bind, Except.bind]

end TM.Gql

namespace TM.Gql
open TM

theorem mapM_eq_map_of_each {α β ε : Type} (f : α → Except ε β) (d : β) (l : List α)
    (h : ∀ x ∈ l, ∃ y, f x = .ok y) :
    l.mapM f = .ok (l.map fun x => match f x with | .ok y => y | .error _ => d) := by
  apply mapM_ok_of_forall
  intro x hx
  obtain ⟨y, hy⟩ := h x hx
  simp [hy]

/-- the row the reference semantics builds for one object -/
def refRow (σ : Schema) (f : Nat) (n : Nat) (od : ObjDef) (sels : List Flat) (it : Item) : J :=
  J.obj ((sels.map fun fl => (fl.alias, match refEval.refSel σ f it.1 n od it.2.fields fl with | .ok kv => kv.2 | .error _ => J.null)) ++
    (match od.key with
      | some _ => [((0 : Nat), match refEval.refKey σ f it.1 od it.2.fields with | .ok [kv] => kv.2 | _ => J.null)]
      | none => []))

theorem refSel_alias {σ f p n od fields fl kv} (h : refEval.refSel σ f p n od fields fl = .ok kv) : kv.1 = fl.alias := by
  unfold refEval.refSel at h
  split at h
  · injection h with h; rw [← h]
  · split at h
    · rename_i fd _
      cases hr : refEval σ f (p ++ [PE.key fl.alias]) fd.ty fl.sub ((lookup fd.src fields).getD Val.null) with
      | error e => simp [hr, bind, Except.bind] at h
      | ok j => simp [hr, bind, Except.bind] at h; rw [← h]
    · injection h with h; rw [← h]

theorem refObject_parts (σ : Schema) (f : Nat) (p : List PE) (n : Nat) (od : ObjDef) (fields : List (Nat × Val))
    (sels : List Flat) (j : J) (h : refEval.refObject σ f p n od fields sels = .ok j) :
    (∀ fl ∈ sels, ∃ kv, refEval.refSel σ f p n od fields fl = .ok kv) ∧
    (∃ kv, refEval.refKey σ f p od fields = .ok kv) := by
  unfold refEval.refObject at h
  cases hs : sels.mapM (refEval.refSel σ f p n od fields) with
  | error e => simp [hs, bind, Except.bind] at h
  | ok kvs =>
    cases hk : refEval.refKey σ f p od fields with
    | error e => simp [hs, hk, bind, Except.bind] at h
    | ok kv => exact ⟨mapM_ok_each _ _ _ hs, ⟨kv, rfl⟩⟩

theorem refObject_eq_row (σ : Schema) (f : Nat) (n : Nat) (od : ObjDef) (sels : List Flat) (it : Item) (j : J)
    (h : refEval.refObject σ f it.1 n od it.2.fields sels = .ok j) : j = refRow σ f n od sels it := by
  obtain ⟨hs, ⟨kv, hk⟩⟩ := refObject_parts σ f it.1 n od it.2.fields sels j h
  have hm := mapM_eq_map_of_each (refEval.refSel σ f it.1 n od it.2.fields) ((0 : Nat), J.null) sels hs
  unfold refEval.refObject at h
  simp only [hm, hk, bind, Except.bind] at h
  injection h with h
  rw [← h]
  unfold refRow
  congr 1
  congr 1
  · apply List.map_congr_left
    intro fl hfl
    obtain ⟨kv', hkv'⟩ := hs fl hfl
    have := refSel_alias hkv'
    simp only [hkv']
    rw [← this]
  · unfold refEval.refKey at hk ⊢
    cases hkk : od.key with
    | none => simp [hkk] at hk; rw [← hk]
    | some k =>
      simp only [hkk] at hk ⊢
      cases hr : refEval σ f (it.1 ++ [PE.key 0]) .scalar none ((lookup k it.2.fields).getD Val.null) with
      | error e => simp [hr, bind, Except.bind] at hk
      | ok v => simp [hr, bind, Except.bind] at hk ⊢; rw [← hk]

/-- **`resolveObjectBatch` = the reference row of every non-nil source, `null` for the others.** -/
theorem resolveObject_eq (σ : Schema) (f : Nat) (lvl : Level σ f) (n : Nat) (od : ObjDef) (sels : List Flat)
    (items : List Item)
    (href : ∀ it ∈ items, it.2.isObj = true → ∃ j, refEval.refObject σ f it.1 n od it.2.fields sels = .ok j) :
    resolveObjectWith (resolveBatch σ f) n od sels items =
      .ok (items.map fun it => if it.2.isObj then refRow σ f n od sels it else .null) := by
  unfold resolveObjectWith
  have hnn : ∀ it ∈ items.filter (fun it => it.2.isObj), ∃ j, refEval.refObject σ f it.1 n od it.2.fields sels = .ok j := by
    intro it hit
    have := List.mem_filter.mp hit
    exact href it this.1 this.2
  have hcols : sels.mapM (column (resolveBatch σ f) n od (items.filter fun it => it.2.isObj)) =
      .ok (sels.map fun fl => (fl.alias, (items.filter fun it => it.2.isObj).map fun it =>
        match refEval.refSel σ f it.1 n od it.2.fields fl with | .ok kv => kv.2 | .error _ => J.null)) := by
    apply mapM_ok_of_forall
    intro fl hfl
    apply column_eq σ f lvl
    intro it hit
    obtain ⟨j, hj⟩ := hnn it hit
    exact (refObject_parts σ f it.1 n od it.2.fields sels j hj).1 fl hfl
  have hkey := keyColumn_eq σ f lvl od (items.filter fun it => it.2.isObj) (by
    intro it hit
    obtain ⟨j, hj⟩ := hnn it hit
    exact (refObject_parts σ f it.1 n od it.2.fields sels j hj).2)
  simp only [hcols, hkey, bind, Except.bind]
  -- rows from columns
  let colspecs : List (Nat × (Item → J)) :=
    (sels.map fun fl => (fl.alias, fun (it : Item) => match refEval.refSel σ f it.1 n od it.2.fields fl with | .ok kv => kv.2 | .error _ => J.null)) ++
    (match od.key with
      | some _ => [((0 : Nat), fun (it : Item) => match refEval.refKey σ f it.1 od it.2.fields with | .ok [kv] => kv.2 | _ => J.null)]
      | none => [])
  have hall : ((sels.map fun fl => (fl.alias, (items.filter fun it => it.2.isObj).map fun it =>
        match refEval.refSel σ f it.1 n od it.2.fields fl with | .ok kv => kv.2 | .error _ => J.null)) ++
      (match od.key with
        | some _ => [((0 : Nat), (items.filter fun it => it.2.isObj).map fun it => match refEval.refKey σ f it.1 od it.2.fields with | .ok [kv] => kv.2 | _ => .null)]
        | none => [])) =
      colspecs.map fun (c : Nat × (Item → J)) => (c.1, (items.filter fun it => it.2.isObj).map c.2) := by
    simp only [colspecs, List.map_append, List.map_map]
    congr 1
    cases od.key <;> rfl
  rw [hall, rows_of_columns]
  have hrow : ∀ it : Item, J.obj (colspecs.map fun c => (c.1, c.2 it)) = refRow σ f n od sels it := by
    intro it
    simp only [colspecs, refRow, List.map_append, List.map_map]
    congr 2
    cases od.key <;> rfl
  simp only [hrow]
  have := mergeBack_single (fun it => it.2.isObj) (refRow σ f n od sels) items
  rw [this]

end TM.Gql
