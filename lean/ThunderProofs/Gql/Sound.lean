import ThunderProofs.Gql.Main
/-! No partial data: if the batch executor returns a result, every resolver the query needed
succeeded (the reference evaluation of every item succeeds). -/
namespace TM.Gql
open TM

theorem firstFail_none_iff (items : List Item) : firstFail items = none → ∀ it ∈ items, failOf it.2 = none := by
  induction items with
  | nil => intro _ it hit; cases hit
  | cons a r ih =>
    obtain ⟨p, v⟩ := a
    intro h it hit
    simp only [firstFail] at h
    cases hv : failOf v with
    | some es => obtain ⟨e, s⟩ := es; simp [hv] at h
    | none =>
      simp only [hv] at h
      simp only [List.mem_cons] at hit
      rcases hit with rfl | hit
      · exact hv
      · exact ih h it hit

theorem batchFail_none_iff (items : List Item) : batchFail items = none → ∀ it ∈ items, failOf it.2 = none := by
  intro h it hit
  cases items with
  | nil => cases hit
  | cons a r =>
    obtain ⟨p0, v0⟩ := a
    simp only [batchFail] at h
    cases hf : List.findSome? (fun it => failOf it.2) ((p0, v0) :: r) with
    | some es => obtain ⟨e, s⟩ := es; simp [hf] at h
    | none =>
      rw [List.findSome?_eq_none_iff] at hf
      exact hf it hit

theorem splitN_cover {α : Type} (d0 : α) (k : Nat) (hk : 0 < k) (xs : List α) :
    ∀ x ∈ xs, ∃ part ∈ splitN d0 k xs, x ∈ part := by
  intro x hx
  obtain ⟨i, hi, rfl⟩ := List.getElem_of_mem hx
  have hj : i % k < k := Nat.mod_lt i hk
  have hik : i / k * k + i % k = i := by
    have := Nat.div_add_mod i k
    rw [Nat.mul_comm] at this; exact this
  have hq : i / k < (xs.length + k - 1 - i % k) / k := by
    rw [Nat.lt_iff_add_one_le, Nat.le_div_iff_mul_le hk]
    have : (i / k + 1) * k = i / k * k + k := by rw [Nat.add_mul]; simp
    rw [this]; omega
  refine ⟨(List.range ((xs.length + k - 1 - i % k) / k)).map fun q => xs.getD (q * k + i % k) d0, ?_, ?_⟩
  · simp only [splitN, List.mem_map, List.mem_range]
    exact ⟨i % k, hj, rfl⟩
  · simp only [List.mem_map, List.mem_range]
    refine ⟨i / k, hq, ?_⟩
    rw [hik, List.getD_eq_getElem?_getD, List.getElem?_eq_getElem hi]
    simp

theorem bind_ok {ε α β : Type} {x : Except ε α} {g : α → Except ε β} {r : β} (h : (x >>= g) = .ok r) :
    ∃ v, x = .ok v ∧ g v = .ok r := by
  cases x with
  | error e => simp [bind, Except.bind] at h
  | ok v => exact ⟨v, rfl, h⟩

/-- what a sub-executor's success tells about the items it was given -/
def SoundRb (rb : Ty → Option SelSet → List Item → Except Err (List J)) (ty : Ty) (sub : Option SelSet)
    (ok : Item → Prop) : Prop :=
  ∀ (part : List Item) (rs : List J), (∀ it ∈ part, failOf it.2 = none) → rb ty sub part = .ok rs → ∀ it ∈ part, ok it

theorem unitOne_sound (rb : Ty → Option SelSet → List Item → Except Err (List J))
    (fd : FieldDef) (sub : Option SelSet) (ok : Item → Prop) (hrb : SoundRb rb fd.ty sub ok)
    (part : List Item) (rs : List J) (h : unitOne rb fd sub part = .ok rs) :
    ∀ it ∈ part, failOf it.2 = none ∧ ok it := by
  unfold unitOne at h
  split at h
  · cases hb : batchFail part with
    | some e => simp [hb] at h
    | none =>
      simp only [hb] at h
      have hnf := batchFail_none_iff part hb
      intro it hit
      exact ⟨hnf it hit, hrb part rs hnf h it hit⟩
  · split at h
    · cases hm : part.mapM (expensiveOne rb fd sub) with
      | error e => simp [hm, Except.map] at h
      | ok rss =>
        intro it hit
        obtain ⟨y, hy⟩ := mapM_ok_each _ _ _ hm it hit
        unfold expensiveOne at hy
        cases hf : failOf it.2 with
        | some es => obtain ⟨e, s⟩ := es; simp [hf] at hy
        | none =>
          simp only [hf] at hy
          refine ⟨rfl, hrb [it] y ?_ hy it (by simp)⟩
          intro it' hit'
          simp only [List.mem_singleton] at hit'
          subst hit'; exact hf
    · cases hb : firstFail part with
      | some e => simp [hb] at h
      | none =>
        simp only [hb] at h
        have hnf := firstFail_none_iff part hb
        intro it hit
        exact ⟨hnf it hit, hrb part rs hnf h it hit⟩

theorem execUnit_sound (rb : Ty → Option SelSet → List Item → Except Err (List J))
    (fd : FieldDef) (sub : Option SelSet) (ok : Item → Prop) (hrb : SoundRb rb fd.ty sub ok)
    (items : List Item) (rs : List J) (h : execUnitWith rb fd sub items = .ok rs) :
    ∀ it ∈ items, failOf it.2 = none ∧ ok it := by
  unfold execUnitWith at h
  cases hs : fd.splits with
  | none => simp only [hs] at h; exact unitOne_sound rb fd sub ok hrb items rs h
  | some k =>
    simp only [hs] at h
    cases hm : (splitN ([], Val.null) (clampUnits k items.length) items).mapM (unitOne rb fd sub) with
    | error e => simp [hm, bind, Except.bind] at h
    | ok rss =>
      intro it hit
      obtain ⟨part, hp, hin⟩ := splitN_cover ([], Val.null) (clampUnits k items.length) (clampUnits_pos _ _) items it hit
      obtain ⟨y, hy⟩ := mapM_ok_each _ _ _ hm part hp
      exact unitOne_sound rb fd sub ok hrb part y hy it hin

/-- the level hypothesis of the soundness induction -/
def SoundLevel (σ : Schema) (f : Nat) : Prop :=
  ∀ (ty : Ty) (ss : Option SelSet) (items : List Item) (rs : List J), (∀ it ∈ items, failOf it.2 = none) →
    resolveBatch σ f ty ss items = .ok rs → ∀ it ∈ items, RefOk σ f ty ss it

theorem column_sound (σ : Schema) (f : Nat) (lvl : SoundLevel σ f) (n : Nat) (od : ObjDef) (nonNil : List Item) (fl : Flat)
    (c : Nat × List J) (h : column (resolveBatch σ f) n od nonNil fl = .ok c) :
    ∀ it ∈ nonNil, ∃ kv, refEval.refSel σ f it.1 n od it.2.fields fl = .ok kv := by
  unfold column at h
  intro it hit
  unfold refEval.refSel
  by_cases h0 : fl.name = 0
  · simp [h0]
  · simp only [h0, if_false] at h ⊢
    cases hfd : findField fl.name od.fields with
    | none => simp
    | some fd =>
      simp only [hfd] at h ⊢
      cases hu : execUnitWith (resolveBatch σ f) fd fl.sub
          (nonNil.map fun it => (it.1 ++ [PE.key fl.alias], (lookup fd.src it.2.fields).getD Val.null)) with
      | error e => simp [hu, bind, Except.bind] at h
      | ok rs =>
        have hs := execUnit_sound (resolveBatch σ f) fd fl.sub (RefOk σ f fd.ty fl.sub)
          (fun part rs hnf hr => lvl fd.ty fl.sub part rs hnf hr) _ rs hu
          (it.1 ++ [PE.key fl.alias], (lookup fd.src it.2.fields).getD Val.null) (List.mem_map.mpr ⟨it, hit, rfl⟩)
        obtain ⟨j, hj⟩ := hs.2
        simp only at hj
        simp [hj, bind, Except.bind]

theorem keyColumn_sound (σ : Schema) (f : Nat) (lvl : SoundLevel σ f) (od : ObjDef) (nonNil : List Item)
    (c : List (Nat × List J)) (h : keyColumn (resolveBatch σ f) od nonNil = .ok c) :
    ∀ it ∈ nonNil, ∃ kv, refEval.refKey σ f it.1 od it.2.fields = .ok kv := by
  unfold keyColumn at h
  intro it hit
  unfold refEval.refKey
  cases hk : od.key with
  | none => simp
  | some k =>
    simp only [hk] at h ⊢
    cases hu : execUnitWith (resolveBatch σ f) ⟨k, .scalar, .inline, none, k⟩ none
        (nonNil.map fun it => (it.1 ++ [PE.key 0], (lookup k it.2.fields).getD Val.null)) with
    | error e => simp [hu, bind, Except.bind] at h
    | ok rs =>
      have hs := execUnit_sound (resolveBatch σ f) ⟨k, .scalar, .inline, none, k⟩ none (RefOk σ f .scalar none)
        (fun part rs hnf hr => lvl .scalar none part rs hnf hr) _ rs hu
        (it.1 ++ [PE.key 0], (lookup k it.2.fields).getD Val.null) (List.mem_map.mpr ⟨it, hit, rfl⟩)
      obtain ⟨j, hj⟩ := hs.2
      simp only at hj
      simp [hj, bind, Except.bind]

theorem resolveObject_sound (σ : Schema) (f : Nat) (lvl : SoundLevel σ f) (n : Nat) (od : ObjDef) (sels : List Flat)
    (items : List Item) (rs : List J) (h : resolveObjectWith (resolveBatch σ f) n od sels items = .ok rs) :
    ∀ it ∈ items, it.2.isObj = true → ∃ j, refEval.refObject σ f it.1 n od it.2.fields sels = .ok j := by
  unfold resolveObjectWith at h
  simp only at h
  cases hc : sels.mapM (column (resolveBatch σ f) n od (items.filter fun it => it.2.isObj)) with
  | error e => simp [hc, bind, Except.bind] at h
  | ok cols =>
    cases hk : keyColumn (resolveBatch σ f) od (items.filter fun it => it.2.isObj) with
    | error e => simp [hc, hk, bind, Except.bind] at h
    | ok kc =>
      intro it hit ho
      have hin : it ∈ items.filter fun it => it.2.isObj := List.mem_filter.mpr ⟨hit, ho⟩
      have hsel : ∀ fl ∈ sels, ∃ kv, refEval.refSel σ f it.1 n od it.2.fields fl = .ok kv := by
        intro fl hfl
        obtain ⟨c, hcc⟩ := mapM_ok_each _ _ _ hc fl hfl
        exact column_sound σ f lvl n od _ fl c hcc it hin
      obtain ⟨kv, hkv⟩ := keyColumn_sound σ f lvl od _ kc hk it hin
      unfold refEval.refObject
      rw [mapM_eq_map_of_each _ (0, J.null) sels hsel, hkv]
      simp [bind, Except.bind]

theorem sound_all (σ : Schema) : ∀ f, SoundLevel σ f := by
  intro f
  induction f with
  | zero =>
    intro ty ss items rs _ h it hit
    cases items with
    | nil => cases hit
    | cons a r => simp [resolveBatch] at h
  | succ f ih =>
    intro ty ss items rs hnf h it hit
    cases items with
    | nil => cases hit
    | cons it0 rest =>
      generalize hitems : it0 :: rest = items at *
      have hv := hnf it hit
      cases ty with
      | nonNull t =>
        rw [← hitems] at h; simp only [resolveBatch] at h; rw [hitems] at h
        obtain ⟨j, hj⟩ := ih t ss items rs hnf h it hit
        exact ⟨j, by rw [refEval_nonNull _ _ _ _ _ _ hv]; exact hj⟩
      | scalar => exact ⟨_, refEval_scalar _ _ _ _ _ hv⟩
      | list t =>
        rw [← hitems] at h; simp only [resolveBatch] at h; rw [hitems] at h
        cases hff : firstFail (items.map listChildren).flatten with
        | some e => simp [hff] at h
        | none =>
          simp only [hff] at h
          cases hr : resolveBatch σ f t ss (items.map listChildren).flatten with
          | error e => simp [hr, bind, Except.bind] at h
          | ok rs' =>
            have hall := ih t ss _ rs' (firstFail_none_iff _ hff) hr
            have hch : ∀ c ∈ listChildren it, ∃ y, (fun c : Item => refEval σ f c.1 t ss c.2) c = .ok y := by
              intro c hc
              exact hall c (List.mem_flatten.mpr ⟨listChildren it, List.mem_map.mpr ⟨it, hit, rfl⟩, hc⟩)
            unfold RefOk
            rw [refEval_list _ _ _ _ _ _ hv]
            have e : (it.1, it.2) = it := rfl
            rw [e, mapM_eq_map_of_each _ J.null _ hch]
            exact ⟨_, rfl⟩
      | object n =>
        rw [← hitems] at h; simp only [resolveBatch] at h; rw [hitems] at h
        unfold RefOk
        rw [refEval_object _ _ _ _ _ _ hv]
        cases ho : lookup n σ.objects with
        | none => exact ⟨_, rfl⟩
        | some od =>
          cases ss with
          | none => exact ⟨_, rfl⟩
          | some ss =>
            simp only [ho] at h ⊢
            by_cases hobj : it.2.isObj = true
            · simp only [hobj, if_true]
              exact resolveObject_sound σ f ih n od _ items rs h it hit hobj
            · simp [hobj]
      | union n =>
        rw [← hitems] at h; simp only [resolveBatch] at h; rw [hitems] at h
        unfold RefOk
        cases ss with
        | none => rw [refEval_union_none _ _ _ _ _ hv]; exact ⟨_, rfl⟩
        | some ss =>
          rw [refEval_union _ _ _ _ _ _ hv]
          have e : (it.1, it.2) = it := rfl
          rw [e]
          cases ht : unionTag ((lookup n σ.unions).getD []) it with
          | none => exact ⟨_, rfl⟩
          | some m =>
            simp only
            cases ho : lookup m σ.objects with
            | none => exact ⟨_, rfl⟩
            | some od =>
              simp only at h ⊢
              have hm : m ∈ (lookup n σ.unions).getD [] ∧ isMember m it = true ∧ it.2.isObj = true := by
                obtain ⟨p, v⟩ := it
                cases v <;> simp [unionTag, isMember, Val.isObj] at ht ⊢
                obtain ⟨h1, h2⟩ := ht
                subst h2; exact ⟨h1, rfl⟩
              obtain ⟨qs, hq, _⟩ := bind_ok h
              obtain ⟨y, hy⟩ := mapM_ok_each _ _ _ hq m hm.1
              simp only [ho] at hy
              obtain ⟨rs2, hro, _⟩ := bind_ok hy
              exact resolveObject_sound σ f ih m od _ _ rs2 hro it (List.mem_filter.mpr ⟨hit, hm.2.1⟩) hm.2.2

end TM.Gql
