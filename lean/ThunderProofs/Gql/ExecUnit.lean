import ThunderProofs.Gql.Lists
/-! Every execution mode of a work unit computes the pointwise result. -/
namespace TM.Gql
open TM

/-- what `rb` must satisfy at the field's type: on sources whose reference evaluation succeeds
(with results `g`) it returns exactly those results -/
def Pointwise (rb : Ty → Option SelSet → List Item → Except Err (List J)) (ty : Ty) (sub : Option SelSet)
    (ok : Item → Prop) (g : Item → J) : Prop :=
  ∀ part : List Item, (∀ it ∈ part, ok it) → rb ty sub part = .ok (part.map g)

theorem firstFail_none (items : List Item) (h : ∀ it ∈ items, failOf it.2 = none) : firstFail items = none := by
  induction items with
  | nil => rfl
  | cons it items ih =>
    obtain ⟨p, v⟩ := it
    have h1 : failOf v = none := h (p, v) (by simp)
    simp [firstFail, h1, ih (fun x hx => h x (by simp [hx]))]

theorem batchFail_none (items : List Item) (h : ∀ it ∈ items, failOf it.2 = none) : batchFail items = none := by
  cases items with
  | nil => rfl
  | cons it items =>
    obtain ⟨p, v⟩ := it
    have : (((p, v) :: items).findSome? fun it => failOf it.2) = none := by
      rw [List.findSome?_eq_none_iff]
      intro x hx; exact h x hx
    simp [batchFail, this]

theorem flatten_singletons {α β : Type} (g : α → β) (l : List α) : (l.map fun it => [g it]).flatten = l.map g := by
  induction l with
  | nil => rfl
  | cons a l ih => simp [ih]

theorem unitOne_pointwise (rb : Ty → Option SelSet → List Item → Except Err (List J))
    (fd : FieldDef) (sub : Option SelSet) (ok : Item → Prop) (g : Item → J)
    (hrb : Pointwise rb fd.ty sub ok g) (part : List Item)
    (pok : ∀ it ∈ part, ok it) (pnf : ∀ it ∈ part, failOf it.2 = none) :
    unitOne rb fd sub part = .ok (part.map g) := by
  unfold unitOne
  split
  · simp [batchFail_none part pnf, hrb part pok]
  · split
    · have hexp : part.mapM (expensiveOne rb fd sub) = .ok (part.map fun it => [g it]) := by
        apply mapM_ok_of_forall
        intro it hit
        have := hrb [it] (by intro x hx; simp at hx; rw [hx]; exact pok it hit)
        simp [expensiveOne, pnf it hit, this]
      rw [hexp]
      simp only [Except.map]
      congr 1
      exact flatten_singletons g part
    · simp [firstFail_none part pnf, hrb part pok]

/-- **Mode independence of a work unit**: struct field, FieldFunc, Expensive, batch,
batch-with-fallback (either way) and `NumParallelInvocations k` all return, for every source, the
result of resolving that source alone. -/
theorem execUnit_pointwise (rb : Ty → Option SelSet → List Item → Except Err (List J))
    (fd : FieldDef) (sub : Option SelSet) (ok : Item → Prop) (g : Item → J)
    (hrb : Pointwise rb fd.ty sub ok g) (items : List Item)
    (hok : ∀ it ∈ items, ok it) (hnf : ∀ it ∈ items, failOf it.2 = none) :
    execUnitWith rb fd sub items = .ok (items.map g) := by
  unfold execUnitWith
  cases hs : fd.splits with
  | none => exact unitOne_pointwise rb fd sub ok g hrb items hok hnf
  | some k =>
    have hk := clampUnits_pos k items.length
    have hsplit : (splitN ([], Val.null) (clampUnits k items.length) items).mapM (unitOne rb fd sub) =
        .ok ((splitN ([], Val.null) (clampUnits k items.length) items).map (List.map g)) := by
      apply mapM_ok_of_forall
      intro part hpart
      have hm := splitN_mem ([], Val.null) _ hk items part hpart
      exact unitOne_pointwise rb fd sub ok g hrb part (fun it h => hok it (hm it h)) (fun it h => hnf it (hm it h))
    simp [hsplit, bind, Except.bind, gather_splitN ([], Val.null) g _ hk items]

end TM.Gql
