import ThunderModel.Gql.Args
namespace TM.Args

mutual
/-- the JSON a client sends for a Go value (as a variable) -/
def jsonOf : GV → JV
  | .b v => .b v
  | .i _ v => .num v v
  | .f tok => .num tok 0
  | .s tok => .str tok
  | .by tok => .str tok
  | .tm tok => .str tok
  | .enumv n => .enumStr n
  | .text tok => .str tok
  | .nil => .null
  | .ptr v => jsonOf v
  | .list xs => .list (jsonOfList xs)
  | .struct fs => .obj (jsonOfFields fs)
def jsonOfList : List GV → List JV
  | [] => []
  | x :: xs => jsonOf x :: jsonOfList xs
def jsonOfFields : List (Nat × GV) → List (Nat × JV)
  | [] => []
  | (k, v) :: r => (k, jsonOf v) :: jsonOfFields r
end

/-- types whose values are never sent as `null` -/
def ATy.notNullable : ATy → Bool
  | .ptr _ => false
  | .optional _ => false
  | _ => true

/-- `v` is a value of argument type `τ` (integers within the range of their kind) -/
inductive WT : ATy → GV → Prop
  | b (v : Bool) : WT .bool (.b v)
  | i (k : IKind) (v : Int) (h : inRange k v) : WT (.int k) (.i k v)
  | f (tok : Int) : WT .float (.f tok)
  | s (tok : Int) : WT .str (.s tok)
  | by (tok : Int) : WT .bytes (.by tok)
  | tm (tok : Int) : WT .time (.tm tok)
  | enumv (vals : List Nat) (n : Nat) (h : vals.contains n = true) : WT (.enum vals) (.enumv n)
  | text (tok : Int) : WT .text (.text tok)
  | nil (t : ATy) : WT (.ptr t) .nil
  | ptr (t : ATy) (v : GV) (h : WT t v) (nn : t.notNullable = true) : WT (.ptr t) (.ptr v)
  | opt (t : ATy) (v : GV) (h : WT t v) (nn : t.notNullable = true) : WT (.optional t) v
  | list (t : ATy) (xs : List GV) (h : ∀ x ∈ xs, WT t x) : WT (.list t) (.list xs)
  | struct (fs : List (Nat × ATy)) (vs : List (Nat × GV))
      (hk : vs.map (·.1) = fs.map (·.1)) (nd : (fs.map (·.1)).Nodup)
      (h : ∀ (i : Nat) (k : Nat) (t : ATy) (v : GV), fs[i]? = some (k, t) → vs[i]? = some (k, v) → WT t v) :
      WT (.struct fs) (.struct vs)

theorem wrap_id (k : IKind) (v : Int) (h : inRange k v) : wrap k v = v := by
  obtain ⟨w, s⟩ := k
  cases w <;> cases s <;> simp [inRange, wrap, Width.pow] at h ⊢ <;> omega

theorem jsonOf_ne_null (t : ATy) (v : GV) (h : WT t v) (nn : t.notNullable = true) : jsonOf v ≠ .null := by
  cases h <;> simp [jsonOf, ATy.notNullable] at nn ⊢

theorem depthFields_mem (fs : List (Nat × ATy)) (i : Nat) (k : Nat) (t : ATy) (h : fs[i]? = some (k, t)) :
    t.depth ≤ ATy.depth.depthFields fs := by
  induction fs generalizing i with
  | nil => simp at h
  | cons hd tl ih =>
    obtain ⟨k', t'⟩ := hd
    cases i with
    | zero => simp at h; obtain ⟨_, rfl⟩ := h; simp [ATy.depth.depthFields]; omega
    | succ i => simp at h; have := ih i h; simp [ATy.depth.depthFields]; omega

theorem lookup_jsonOfFields (vs : List (Nat × GV)) (nd : (vs.map (·.1)).Nodup) (i : Nat) (k : Nat) (v : GV)
    (h : vs[i]? = some (k, v)) : lookup k (jsonOfFields vs) = some (jsonOf v) := by
  induction vs generalizing i with
  | nil => simp at h
  | cons hd tl ih =>
    obtain ⟨k', v'⟩ := hd
    cases i with
    | zero => simp at h; obtain ⟨rfl, rfl⟩ := h; simp [jsonOfFields, lookup]
    | succ i =>
      simp at h
      have hne : k ≠ k' := by
        intro e; subst e
        simp only [List.map_cons, List.nodup_cons] at nd
        apply nd.1
        have : (k, v) ∈ tl := List.mem_of_getElem? h
        exact List.mem_map.mpr ⟨(k, v), this, rfl⟩
      simp only [List.map_cons, List.nodup_cons] at nd
      simp [jsonOfFields, lookup, hne, ih nd.2 i h]

/-- **Round trip**: the JSON form of a well-typed value parses back to that value. -/
theorem parse_jsonOf : ∀ (f : Nat) (τ : ATy) (v : GV), WT τ v → τ.depth < f → parse f τ (jsonOf v) = .ok v := by
  intro f
  induction f with
  | zero => intro τ v _ h; omega
  | succ f ih =>
    intro τ v wt hd
    cases wt with
    | b x => simp [jsonOf, parse]
    | i k x h => simp [jsonOf, parse, wrap_id k x h]
    | f tok => simp [jsonOf, parse]
    | s tok => simp [jsonOf, parse]
    | «by» tok => simp [jsonOf, parse]
    | tm tok => simp [jsonOf, parse]
    | enumv vals n h => simp only [jsonOf, parse, h, if_true]
    | text tok => simp [jsonOf, parse]
    | nil t => simp [jsonOf, parse]
    | ptr t x h nn =>
      have hnn := jsonOf_ne_null t x h nn
      have := ih t x h (by simp [ATy.depth] at hd; omega)
      simp only [jsonOf]
      cases hj : jsonOf x with
      | null => exact absurd hj hnn
      | _ => simp [parse, ← hj, this, Except.map]
    | opt t _ h nn =>
      have hnn := jsonOf_ne_null t v h nn
      have := ih t v h (by simp [ATy.depth] at hd; omega)
      cases hj : jsonOf v with
      | null => exact absurd hj hnn
      | _ => simp [parse, ← hj, this]
    | list t xs h =>
      have hdt : t.depth < f := by simp [ATy.depth] at hd; omega
      have hm : (jsonOfList xs).mapM (parse f t) = .ok xs := by
        induction xs with
        | nil => simp [jsonOfList]; rfl
        | cons x xs ihx =>
          have h1 := ih t x (h x (by simp)) hdt
          have h2 := ihx (fun y hy => h y (by simp [hy]))
          simp [jsonOfList, List.mapM_cons, h1, h2, bind, Except.bind, pure, Except.pure]
      simp [jsonOf, parse, hm, Except.map]
    | struct fs vs hk nd h =>
      have hdf : ∀ (i : Nat) (k : Nat) (t : ATy), fs[i]? = some (k, t) → t.depth < f := by
        intro i k t hi
        have := depthFields_mem fs i k t hi
        simp [ATy.depth] at hd; omega
      have ndv : (vs.map (·.1)).Nodup := by rw [hk]; exact nd
      -- pointwise: the i-th declared field parses to the i-th value
      have hm : ∀ (n : Nat) (fs' : List (Nat × ATy)) (vs' : List (Nat × GV)), fs' = fs.drop n → vs' = vs.drop n →
          fs'.mapM (fun (p : Nat × ATy) => (parse f p.2 ((lookup p.1 (jsonOfFields vs)).getD .null)).map (fun v => (p.1, v))) = .ok vs' := by
        intro n fs'
        induction fs' generalizing n with
        | nil =>
          intro vs' hf hv
          have hl : fs.length ≤ n := by
            have := congrArg List.length hf; simp at this; omega
          have hlv : vs.length = fs.length := by
            have := congrArg List.length hk; simpa using this
          have : vs.drop n = [] := List.drop_eq_nil_of_le (by omega)
          rw [hv, this]; rfl
        | cons p fs' ihf =>
          intro vs' hf hv
          obtain ⟨k, t⟩ := p
          have hfn : fs[n]? = some (k, t) := by
            have := congrArg List.head? hf
            simp [List.head?_drop] at this; exact this.symm
          have hlv : vs.length = fs.length := by
            have := congrArg List.length hk; simpa using this
          have hnlt : n < vs.length := by rw [hlv]; exact lt_of_getElem?' hfn
          obtain ⟨kv, v⟩ := vs[n]
          have hvn : vs[n]? = some (vs[n]) := List.getElem?_eq_getElem hnlt
          have hkeq : (vs[n]).1 = k := by
            have h1 : (vs.map (·.1))[n]? = (fs.map (·.1))[n]? := by rw [hk]
            simp [hvn, hfn] at h1; exact h1
          have hvn' : vs[n]? = some (k, (vs[n]).2) := by rw [hvn, ← hkeq]
          have hwt := h n k t (vs[n]).2 hfn hvn'
          have hp := ih t (vs[n]).2 hwt (hdf n k t hfn)
          have hl := lookup_jsonOfFields vs ndv n k (vs[n]).2 hvn'
          have hdrop : vs.drop n = (k, (vs[n]).2) :: vs.drop (n + 1) := by
            rw [List.drop_eq_getElem_cons hnlt, ← hkeq]
          have hft : fs' = fs.drop (n + 1) := by
            have := congrArg List.tail hf
            simpa [List.tail_drop] using this
          have hrest := ihf (n + 1) (vs.drop (n + 1)) hft rfl
          rw [hv, hdrop]
          simp only [List.mapM_cons, hl, Option.getD_some, hp, Except.map, bind, Except.bind, pure, Except.pure]
          have hrest' := hrest
          simp only [Except.map] at hrest'
          rw [hrest']
      have := hm 0 fs vs (by simp) (by simp)
      simp only [jsonOf, parse]
      have e : (fun (x : Nat × ATy) => match x with | (k, t) => Except.map (fun v => (k, v)) (parse f t ((lookup k (jsonOfFields vs)).getD JV.null))) =
          (fun (p : Nat × ATy) => (parse f p.2 ((lookup p.1 (jsonOfFields vs)).getD .null)).map (fun v => (p.1, v))) := by
        funext p; obtain ⟨k, t⟩ := p; rfl
      rw [e, this]; rfl
where
  lt_of_getElem?' {α : Type} {l : List α} {i : Nat} {x : α} (h : l[i]? = some x) : i < l.length := by
    rcases List.getElem?_eq_some_iff.mp h with ⟨hlt, _⟩; exact hlt

end TM.Args

namespace TM.Args

mutual
/-- the GraphQL literal that spells a Go value (`u` is a variable name that is not bound: the
only way to write `null` in this GraphQL dialect) -/
def litOf (u : Nat) : GV → Lit
  | .b v => .b v
  | .i _ v => .int v v
  | .f tok => .float tok 0
  | .s tok => .str tok
  | .by tok => .str tok
  | .tm tok => .str tok
  | .enumv n => .enum n
  | .text tok => .str tok
  | .nil => .var u
  | .ptr v => litOf u v
  | .list xs => .list (litOfList u xs)
  | .struct fs => .obj (litOfFields u fs)
def litOfList (u : Nat) : List GV → List Lit
  | [] => []
  | x :: xs => litOf u x :: litOfList u xs
def litOfFields (u : Nat) : List (Nat × GV) → List (Nat × Lit)
  | [] => []
  | (k, v) :: r => (k, litOf u v) :: litOfFields u r
end

mutual
/-- struct field names are unique, at every level -/
def keysOK : GV → Bool
  | .ptr v => keysOK v
  | .list xs => keysOKList xs
  | .struct fs => keysOKFields fs []
  | _ => true
def keysOKList : List GV → Bool
  | [] => true
  | x :: xs => keysOK x && keysOKList xs
def keysOKFields : List (Nat × GV) → List Nat → Bool
  | [], _ => true
  | (k, v) :: r, seen => !seen.contains k && keysOK v && keysOKFields r (k :: seen)
end

mutual
theorem litJson_litOf (vars : List (Nat × JV)) (u : Nat) (hu : lookup u vars = none) :
    ∀ (v : GV), keysOK v = true → litJson vars (litOf u v) = .ok (jsonOf v)
  | .b v, _ => by simp [litOf, litJson, jsonOf]
  | .i _ v, _ => by simp [litOf, litJson, jsonOf]
  | .f tok, _ => by simp [litOf, litJson, jsonOf]
  | .s tok, _ => by simp [litOf, litJson, jsonOf]
  | .by tok, _ => by simp [litOf, litJson, jsonOf]
  | .tm tok, _ => by simp [litOf, litJson, jsonOf]
  | .enumv n, _ => by simp [litOf, litJson, jsonOf]
  | .text tok, _ => by simp [litOf, litJson, jsonOf]
  | .nil, _ => by simp [litOf, litJson, jsonOf, hu]
  | .ptr v, h => by
      simp only [litOf, jsonOf]
      exact litJson_litOf vars u hu v (by simpa [keysOK] using h)
  | .list xs, h => by
      simp only [litOf, litJson, jsonOf]
      rw [litJsonList_litOf vars u hu xs (by simpa [keysOK] using h)]; rfl
  | .struct fs, h => by
      simp only [litOf, litJson, jsonOf]
      rw [litJsonObj_litOf vars u hu fs [] (by simpa [keysOK] using h)]; rfl
theorem litJsonList_litOf (vars : List (Nat × JV)) (u : Nat) (hu : lookup u vars = none) :
    ∀ (xs : List GV), keysOKList xs = true → litJsonList vars (litOfList u xs) = .ok (jsonOfList xs)
  | [], _ => by simp [litOfList, litJsonList, jsonOfList]
  | x :: xs, h => by
      simp only [keysOKList, Bool.and_eq_true] at h
      simp [litOfList, litJsonList, jsonOfList, litJson_litOf vars u hu x h.1,
        litJsonList_litOf vars u hu xs h.2, bind, Except.bind]
theorem litJsonObj_litOf (vars : List (Nat × JV)) (u : Nat) (hu : lookup u vars = none) :
    ∀ (fs : List (Nat × GV)) (seen : List Nat), keysOKFields fs seen = true →
      litJsonObj vars (litOfFields u fs) seen = .ok (jsonOfFields fs)
  | [], _, _ => by simp [litOfFields, litJsonObj, jsonOfFields]
  | (k, v) :: r, seen, h => by
      simp only [keysOKFields, Bool.and_eq_true, Bool.not_eq_true'] at h
      have hns : ¬ k ∈ seen := by simpa using h.1.1
      simp [litOfFields, litJsonObj, jsonOfFields, hns, litJson_litOf vars u hu v h.1.2,
        litJsonObj_litOf vars u hu r (k :: seen) h.2, bind, Except.bind]
end

/-- every kind of JSON value other than the expected one is rejected -/
def compatible : ATy → JV → Bool
  | .ptr _, .null => true
  | .optional _, .null => true
  | .ptr t, j => compatible t j
  | .optional t, j => compatible t j
  | .bool, .b _ => true
  | .int _, .num _ _ => true
  | .float, .num _ _ => true
  | .str, .str _ => true
  | .str, .enumStr _ => true
  | .bytes, .str _ => true
  | .time, .str _ => true
  | .text, .str _ => true
  | .enum _, .enumStr _ => true
  | .enum _, .str _ => true
  | .list _, .list _ => true
  | .struct _, .obj _ => true
  | _, _ => false

theorem parse_incompatible : ∀ (f : Nat) (τ : ATy) (j : JV), compatible τ j = false → ∃ e, parse f τ j = .error e := by
  intro f
  induction f with
  | zero => intro τ j _; exact ⟨.fuel, rfl⟩
  | succ f ih =>
    intro τ j h
    cases τ with
    | ptr t =>
      cases j <;> simp [compatible] at h <;>
        (obtain ⟨e, he⟩ := ih t _ h; exact ⟨e, by simp [parse, he, Except.map]⟩)
    | optional t =>
      cases j <;> simp [compatible] at h <;>
        (obtain ⟨e, he⟩ := ih t _ h; exact ⟨e, by simp [parse, he]⟩)
    | _ => cases j <;> simp [compatible] at h <;> exact ⟨.kind, by simp [parse]⟩

/-- a required argument that is missing (or `null`) is rejected -/
theorem parse_missing_required (f : Nat) (τ : ATy) (h : τ.notNullable = true) : ∃ e, parse f τ .null = .error e := by
  apply parse_incompatible
  cases τ <;> simp [ATy.notNullable] at h <;> simp [compatible]

end TM.Args
