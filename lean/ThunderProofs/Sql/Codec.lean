import ThunderModel.Sql.Codec
namespace TM.Codec

/-- descriptors the schema builder accepts: `implicitnull` is rejected on pointer fields -/
def WFDesc (d : Desc) : Prop := d.implicitNull = true → d.ptr = false

/-- `v` is a value of a field described by `d` -/
def WFVal (d : Desc) : FV → Prop
  | .nil => d.ptr = true ∨ d.kind = .bytes
  | .val (.b _) => d.kind = .bool
  | .val (.i k v) => d.kind = .int k ∧ inRange k v
  | .val (.f _) => d.kind = .float
  | .val (.s _) => d.kind = .str
  | .val (.by _) => d.kind = .bytes
  | .val (.tm _) => d.kind = .time
  | .val (.e _) => d.kind = .enc

theorem value_int_inRange (k : IKind) (v : Int) (h : inRange k v) :
    inRange i64 (if k.signed then v else wrap i64 v) := by
  obtain ⟨w, s⟩ := k
  cases w <;> cases s <;> simp [inRange, wrap, i64, Width.pow] at h ⊢ <;> omega

theorem wrap_value (k : IKind) (v : Int) (h : inRange k v) :
    wrap k (if k.signed then v else wrap i64 v) = v := by
  obtain ⟨w, s⟩ := k
  cases w <;> cases s <;> simp [inRange, wrap, i64, Width.pow] at h ⊢ <;> omega

theorem wrap_binlog (k : IKind) (v : Int) (h : inRange k v) :
    wrap k (wrap ⟨k.width, true⟩ (if k.signed then v else wrap i64 v)) = v := by
  obtain ⟨w, s⟩ := k
  cases w <;> cases s <;> simp [inRange, wrap, i64, Width.pow] at h ⊢ <;> omega

theorem int_roundtrip (r : Rep) (k : IKind) (v : Int) (h : inRange k v) :
    (toInt64 (repr r ⟨.int k, false, false⟩ (.int (if k.signed then v else wrap i64 v)))).map (wrap k) = .ok v := by
  have hr := value_int_inRange k v h
  cases r with
  | driver => simp [repr, toInt64, Except.map, wrap_value k v h]
  | text => simp [repr, toInt64, hr, Except.map, wrap_value k v h]
  | binlog => simp [repr, toInt64, colKind, Except.map, wrap_binlog k v h]

theorem repr_int_desc (r : Rep) (d : Desc) (k : IKind) (hk : d.kind = .int k) (v : Int) :
    repr r d (.int v) = repr r ⟨.int k, false, false⟩ (.int v) := by
  cases r <;> simp [repr, hk]

/-- **Column round trip**: for every descriptor, every value of it and every source
representation, scanning the stored driver value gives the value back. -/
theorem scan_value (r : Rep) (d : Desc) (v : FV) (wd : WFDesc d) (wv : WFVal d v) :
    scan d (repr r d (value d v)) = .ok v := by
  cases v with
  | nil =>
    rcases wv with hp | hb
    · simp [value, repr, scan, hp]
    · simp [value, repr, scan, hb, zeroOf]
  | val b =>
    cases b with
    | e t => simp only [WFVal] at wv; cases r <;> simp [value, repr, scan, wv]
    | b x =>
      simp only [WFVal] at wv
      have hp : d.implicitNull = true → d.ptr = false := wd
      cases hi : d.implicitNull <;> cases x <;> cases r <;>
        simp_all [value, Base.isZero, repr, scan, toBool, Except.map, zeroOf]
    | i k x =>
      obtain ⟨hk, hr⟩ := wv
      by_cases hz : (d.implicitNull && (Base.i k x).isZero) = true
      · have hi : d.implicitNull = true := by simp at hz; exact hz.1
        have hx : x = 0 := by simpa [Base.isZero, hi] using hz
        subst hx
        simp [value, Base.isZero, hi, repr, scan, wd hi, zeroOf, hk]
      · have := int_roundtrip r k x hr
        simp only [value, hz, Bool.false_eq_true, if_false]
        rw [repr_int_desc r d k hk]
        have hnn : repr r ⟨.int k, false, false⟩ (.int (if k.signed then x else wrap i64 x)) ≠ .null := by
          cases r <;> simp [repr]
        generalize repr r ⟨.int k, false, false⟩ (.int (if k.signed then x else wrap i64 x)) = src at this hnn
        cases ht : toInt64 src with
        | error e => simp [ht, Except.map] at this
        | ok y =>
          simp [ht, Except.map] at this
          cases src <;> simp [scan, hk, ht, Except.map, this] at hnn ⊢
    | f t =>
      simp only [WFVal] at wv
      have hp : d.implicitNull = true → d.ptr = false := wd
      cases hi : d.implicitNull <;> cases r <;> by_cases ht : t = 0 <;>
        simp_all [value, Base.isZero, repr, scan, zeroOf]
    | s t =>
      simp only [WFVal] at wv
      have hp : d.implicitNull = true → d.ptr = false := wd
      cases hi : d.implicitNull <;> cases r <;> by_cases ht : t = 0 <;>
        simp_all [value, Base.isZero, repr, scan, zeroOf]
    | «by» t =>
      simp only [WFVal] at wv
      cases r <;> simp [value, Base.isZero, repr, scan, wv]
    | tm t =>
      simp only [WFVal] at wv
      have hp : d.implicitNull = true → d.ptr = false := wd
      cases hi : d.implicitNull <;> cases r <;> by_cases ht : t = 0 <;>
        simp_all [value, Base.isZero, repr, scan, zeroOf]

end TM.Codec

namespace TM.Codec

/-- all columns of a row are well formed -/
def WFRow : List Desc → List FV → Prop
  | [], [] => True
  | d :: ds, v :: vs => WFDesc d ∧ WFVal d v ∧ WFRow ds vs
  | _, _ => False

theorem buildAux_unbuild (r : Rep) (ds : List Desc) (vs : List FV) (w : WFRow ds vs) :
    buildAux r ds (unbuild ds vs) = .ok vs := by
  induction ds generalizing vs with
  | nil => cases vs <;> simp [WFRow] at w <;> simp [unbuild, buildAux]
  | cons d ds ih =>
    cases vs with
    | nil => simp [WFRow] at w
    | cons v vs =>
      obtain ⟨wd, wv, wr⟩ := w
      have := ih vs wr
      simp only [unbuild] at this
      simp [unbuild, buildAux, scan_value r d v wd wv, this, bind, Except.bind]

theorem WFRow_length {ds : List Desc} {vs : List FV} (w : WFRow ds vs) : ds.length = vs.length := by
  induction ds generalizing vs with
  | nil => cases vs <;> simp [WFRow] at w ⊢
  | cons d ds ih =>
    cases vs with
    | nil => simp [WFRow] at w
    | cons v vs => simp [ih w.2.2]

theorem build_unbuild (r : Rep) (ds : List Desc) (vs : List FV) (w : WFRow ds vs) :
    build r ds (unbuild ds vs) = .ok vs := by
  have hl := WFRow_length w
  have : (unbuild ds vs).length = ds.length := by simp [unbuild, hl]
  simp [build, this, buildAux_unbuild r ds vs w]

theorem dvEq_self (x : DV) (h : x ≠ .float nanTok) : dvEq x x = true := by
  cases x <;> simp [dvEq] at h ⊢
  exact h

theorem value_ne_nan (d : Desc) (v : FV) (h : v ≠ .val (.f nanTok)) : value d v ≠ .float nanTok := by
  cases v with
  | nil => simp [value]
  | val b =>
    cases b <;> simp only [value] <;> (try split) <;> simp_all

/-- **A filter made from a row's own column values matches that row** (NaN excepted: it is not
equal to itself in Go either). -/
theorem test_self (cols : List Desc) (row : List FV) (h : ∀ v ∈ row, v ≠ .val (.f nanTok)) :
    test cols row row = true := by
  unfold test
  rw [List.all_eq_true]
  intro p hp
  have h2 : p.2.1 = p.2.2 ∧ p.2.1 ∈ row := by
    have := (List.of_mem_zip hp).2
    have hz : ∀ (l : List FV) (q : FV × FV), q ∈ l.zip l → q.1 = q.2 ∧ q.1 ∈ l := by
      intro l
      induction l with
      | nil => intro q hq; simp at hq
      | cons a l ih =>
        intro q hq
        simp only [List.zip_cons_cons, List.mem_cons] at hq
        rcases hq with rfl | hq
        · simp
        · have := ih q hq; exact ⟨this.1, by simp [this.2]⟩
    exact hz row p.2 this
  rw [← h2.1]
  exact dvEq_self _ (value_ne_nan p.1 p.2.1 (h _ h2.2))

/-- a filter value that can be shipped: of the column's kind class and representable in it -/
def Shippable (d : Desc) : FV → Prop
  | .nil => True
  | .val (.i k' v) => ∃ k, d.kind = .int k ∧ inRange k' v ∧ inRange k v
  | .val (.b _) => d.kind = .bool
  | .val (.f _) => d.kind = .float
  | .val (.s _) => d.kind = .str
  | .val (.by _) => d.kind = .bytes
  | .val (.tm _) => d.kind = .time
  | .val (.e _) => d.kind = .enc

theorem ship_int (k k' : IKind) (v : Int) (h' : inRange k' v) (h : inRange k v) :
    (if k.signed then wrap k (if k'.signed then v else wrap i64 v)
      else wrap i64 (wrap k (if k'.signed then v else wrap i64 v))) =
    (if k'.signed then v else wrap i64 v) := by
  obtain ⟨w, s⟩ := k
  obtain ⟨w', s'⟩ := k'
  cases w <;> cases s <;> cases w' <;> cases s' <;> simp [inRange, wrap, i64, Width.pow] at h h' ⊢ <;> omega

/-- **Filter through protobuf**: a shippable filter value is either rejected, or arrives as a value
with the same driver value — hence with the same tester verdict on every row. -/
theorem viaProto_same (d : Desc) (x : FV) (wd : WFDesc d) (hs : Shippable d x) :
    (∃ e, viaProto d x = .error e) ∨ (∃ y, viaProto d x = .ok y ∧ value d y = value d x) := by
  cases x with
  | nil =>
    cases hp : d.ptr with
    | false => left; exact ⟨.nilNonPtr, by simp [viaProto, value, protoWire, hp]⟩
    | true => right; exact ⟨.nil, by simp [viaProto, value, protoWire, hp, srcOfDV, scan]⟩
  | val b =>
    cases b with
    | e t =>
      simp only [Shippable] at hs
      right
      exact ⟨.val (.e t), by simp [viaProto, value, protoWire, srcOfDV, scan, hs], rfl⟩
    | «by» t =>
      simp only [Shippable] at hs
      right
      exact ⟨.val (.by t), by simp [viaProto, value, Base.isZero, protoWire, srcOfDV, scan, hs], rfl⟩
    | b v =>
      simp only [Shippable] at hs
      by_cases hz : (d.implicitNull && (Base.b v).isZero) = true
      · left; exact ⟨.nilNonPtr, by simp [viaProto, value, hz, protoWire, wd (by simp at hz; exact hz.1)]⟩
      · right
        exact ⟨.val (.b v), by cases v <;> cases hi : d.implicitNull <;> simp_all [viaProto, value, Base.isZero, protoWire, srcOfDV, scan, toBool, Except.map], rfl⟩
    | f t =>
      simp only [Shippable] at hs
      by_cases hz : (d.implicitNull && (Base.f t).isZero) = true
      · left; exact ⟨.nilNonPtr, by simp [viaProto, value, hz, protoWire, wd (by simp at hz; exact hz.1)]⟩
      · right; exact ⟨.val (.f t), by cases hi : d.implicitNull <;> by_cases ht : t = 0 <;> simp_all [viaProto, value, Base.isZero, protoWire, srcOfDV, scan], rfl⟩
    | s t =>
      simp only [Shippable] at hs
      by_cases hz : (d.implicitNull && (Base.s t).isZero) = true
      · left; exact ⟨.nilNonPtr, by simp [viaProto, value, hz, protoWire, wd (by simp at hz; exact hz.1)]⟩
      · right; exact ⟨.val (.s t), by cases hi : d.implicitNull <;> by_cases ht : t = 0 <;> simp_all [viaProto, value, Base.isZero, protoWire, srcOfDV, scan], rfl⟩
    | tm t =>
      simp only [Shippable] at hs
      by_cases hz : (d.implicitNull && (Base.tm t).isZero) = true
      · left; exact ⟨.nilNonPtr, by simp [viaProto, value, hz, protoWire, wd (by simp at hz; exact hz.1)]⟩
      · right; exact ⟨.val (.tm t), by cases hi : d.implicitNull <;> by_cases ht : t = 0 <;> simp_all [viaProto, value, Base.isZero, protoWire, srcOfDV, scan], rfl⟩
    | i k' v =>
      obtain ⟨k, hk, h', h⟩ := hs
      by_cases hz : (d.implicitNull && (Base.i k' v).isZero) = true
      · left; exact ⟨.nilNonPtr, by simp [viaProto, value, hz, protoWire, wd (by simp at hz; exact hz.1)]⟩
      · right
        have hz' : (d.implicitNull && (v == 0)) = false := by simpa [Base.isZero] using hz
        have hw : wrap k (if k'.signed then v else wrap i64 v) = v := by
          obtain ⟨w, s⟩ := k
          obtain ⟨w', s'⟩ := k'
          cases w <;> cases s <;> cases w' <;> cases s' <;>
            simp [inRange, wrap, i64, Width.pow] at h h' ⊢ <;> omega
        refine ⟨.val (.i k v), ?_, ?_⟩
        · simp [viaProto, value, Base.isZero, hz', protoWire, srcOfDV, scan, hk, toInt64, Except.map, hw]
        · have hsame := ship_int k k' v h' h
          rw [hw] at hsame
          simp only [value, Base.isZero, hz', Bool.false_eq_true, if_false]
          by_cases hsg : k.signed = true
          · simp [hsg] at hsame ⊢; exact hsame
          · simp [hsg] at hsame ⊢; exact hsame

end TM.Codec
