import ThunderModel.Sql.ColMap
namespace TM.Sql.ColMap

/-- the invariant: a kept map is the map of the version announced last -/
theorem allRight_of_wf : ∀ (L : List Ev) (s : St) (lv : Nat),
    wf lv s.ver s.cmap.isSome L = true → (∀ c, s.cmap = some c → c = lv) →
    allRight L (run repaired s L) = true
  | [], _, _, _, _ => rfl
  | .tmap id v :: r, s, lv, h, hc => by
    simp only [wf] at h
    simp only [run, allRight, right, Bool.true_and]
    by_cases hid : s.ver = some id
    · simp only [hid, if_true, Bool.and_eq_true, beq_iff_eq] at h
      have hs : (step repaired s (.tmap id v)).1 = s := by simp [step, hid]
      rw [hs]
      have := allRight_of_wf r s lv (by rw [hid]; exact h.2) hc
      exact this
    · simp only [hid, if_false] at h
      have hs : (step repaired s (.tmap id v)).1 = { ver := some id, cmap := none } := by
        simp [step, hid, repaired]
      rw [hs]
      exact allRight_of_wf r { ver := some id, cmap := none } v (by simpa using h) (by intro c hc'; cases hc')
  | .rows v cur :: r, s, lv, h, hc => by
    simp only [wf, Bool.and_eq_true, beq_iff_eq, Bool.or_eq_true] at h
    obtain ⟨⟨hv, hw⟩, hr⟩ := h
    cases hm : s.cmap with
    | some c =>
      have hcl := hc c hm
      have hs : step repaired s (.rows v cur) = (s, .decoded false c) := by simp [step, hm]
      simp only [run, allRight, hs, right, Bool.and_eq_true, beq_iff_eq]
      refine ⟨by rw [hcl, hv], ?_⟩
      exact allRight_of_wf r s lv (by rw [hm]; simpa using hr) hc
    | none =>
      have hcur : cur = v := by
        rcases hw with hw | hw
        · rw [hm] at hw; cases hw
        · exact hw
      have hs : step repaired s (.rows v cur) = ({ s with cmap := some cur }, .decoded true cur) := by
        simp [step, hm]
      simp only [run, allRight, hs, right, Bool.and_eq_true, beq_iff_eq]
      refine ⟨hcur, ?_⟩
      exact allRight_of_wf r { s with cmap := some cur } lv (by simpa using hr)
        (by intro c hc'; simp at hc'; rw [← hc', hcur, hv])

/-- a map is fetched exactly for the first rows event after the start or after a table map event with a new id -/
theorem fetched_iff_cold (s : St) (v cur : Nat) :
    (step repaired s (.rows v cur)).2 = .decoded (s.cmap.isNone) (s.cmap.getD cur) := by
  cases hm : s.cmap <;> simp [step, hm]

theorem tmap_same_id_keeps (s : St) (id v : Nat) (h : s.ver = some id) : (step repaired s (.tmap id v)).1 = s := by
  simp [step, h]

theorem tmap_new_id_flushes (s : St) (id v : Nat) (h : s.ver ≠ some id) :
    (step repaired s (.tmap id v)).1 = { ver := some id, cmap := none } := by
  simp [step, h, repaired]

end TM.Sql.ColMap
