import ThunderModel.Sql.Live
/-! Invariant of the live-SQL model: a registered live query that has read and has not been
invalidated either holds what the table gives now, or an event that hits it is still pending. -/
namespace TM.Sql.Live
open TM.Sql.Limit (KVs)
open TM.Sql.Batch (Row sat alone)

theorem filter_eraseIdx_of_not {p : Row → Bool} : ∀ (t : List Row) (i : Nat) (b : Row),
    t[i]? = some b → p b = false → (t.eraseIdx i).filter p = t.filter p
  | [], i, b, h, _ => by simp at h
  | x :: t, 0, b, h, hb => by
    simp only [List.getElem?_cons_zero, Option.some.injEq] at h
    subst h
    simp [hb]
  | x :: t, i + 1, b, h, hb => by
    simp only [List.getElem?_cons_succ] at h
    simp only [List.eraseIdx_cons_succ, List.filter_cons]
    rw [filter_eraseIdx_of_not t i b h hb]

theorem filter_set_of_not {p : Row → Bool} : ∀ (t : List Row) (i : Nat) (b r : Row),
    t[i]? = some b → p b = false → p r = false → (t.set i r).filter p = t.filter p
  | [], i, b, r, h, _, _ => by simp at h
  | x :: t, 0, b, r, h, hb, hr => by
    simp only [List.getElem?_cons_zero, Option.some.injEq] at h
    subst h
    simp [hb, hr]
  | x :: t, i + 1, b, r, h, hb, hr => by
    simp only [List.getElem?_cons_succ] at h
    simp only [List.set_cons_succ, List.filter_cons]
    rw [filter_set_of_not t i b r h hb hr]

/-- a row change none of whose images satisfies the filter leaves the query's result alone -/
theorem applyChange_miss (f : KVs) (t : List Row) (c : Change)
    (h : (applyChange t c).2.any (testDelta f) = false) :
    alone f (applyChange t c).1 = alone f t := by
  cases c with
  | ins r =>
    simp only [applyChange, List.any_cons, List.any_nil, Bool.or_false, testDelta, Bool.false_or] at h
    simp [applyChange, alone, List.filter_append, h]
  | del i =>
    cases ht : t[i]? with
    | none => simp [applyChange, ht]
    | some b =>
      simp only [applyChange, ht, List.any_cons, List.any_nil, Bool.or_false, testDelta] at h ⊢
      have hb : sat f b = false := by simpa using h
      exact filter_eraseIdx_of_not t i b ht hb
  | upd i r =>
    cases ht : t[i]? with
    | none => simp [applyChange, ht]
    | some b =>
      simp only [applyChange, ht, List.any_cons, List.any_nil, Bool.or_false, testDelta] at h ⊢
      have hb : sat f b = false ∧ sat f r = false := by simpa using h
      exact filter_set_of_not t i b r ht hb.1 hb.2

theorem applyChanges_miss (f : KVs) : ∀ (cs : List Change) (t : List Row),
    (applyChanges t cs).2.any (testDelta f) = false → alone f (applyChanges t cs).1 = alone f t
  | [], t, _ => rfl
  | c :: cs, t, h => by
    simp only [applyChanges, List.any_append, Bool.or_eq_false_iff] at h ⊢
    rw [applyChanges_miss f cs _ h.2, applyChange_miss f t c h.1]

/-- the invariant, for one query -/
def InvQ (cfg : Cfg) (s : St) (q : LQ) : Prop :=
  q.registered = true → ∀ r, q.rows = some r →
    q.invalid = true ∨ alone q.filter (tableOf s q.tbl) = r ∨ ∃ e ∈ s.queue, hits cfg q e = true

def Inv (cfg : Cfg) (s : St) : Prop := ∀ q ∈ s.qs, InvQ cfg s q

theorem tableOf_set (s : St) (t : Nat) (t' : List Row) (q : List Ev) (h : t < s.tables.length) (u : Nat) :
    tableOf { s with tables := s.tables.set t t', queue := q } u = if u = t then t' else tableOf s u := by
  unfold tableOf
  by_cases e : u = t
  · subst e; simp [List.getD_eq_getElem?_getD, h]
  · simp only [e, if_false, List.getD_eq_getElem?_getD]
    rw [List.getElem?_set_ne (Ne.symm e)]

theorem inv_write (s : St) (t : Nat) (cs : List Change) (bad : Bool) (s' : St)
    (inv : Inv repaired s) (h : step repaired s (.write t cs bad) = some s') : Inv repaired s' := by
  unfold step at h
  by_cases ht : t < s.tables.length
  · simp only [ht, if_true, Option.some.injEq] at h
    subst h
    intro q hq hreg r hr
    have hq' : q ∈ s.qs := hq
    rcases inv q hq' hreg r hr with h1 | h1 | ⟨e, he, hh⟩
    · exact Or.inl h1
    · -- fresh before the write: either the write misses the query or its event hits it
      by_cases hqt : q.tbl = t
      · by_cases hhit : hits repaired q ⟨t, (applyChanges (tableOf s t) cs).2, bad⟩ = true
        · exact Or.inr (Or.inr ⟨_, by simp, hhit⟩)
        · right; left
          rw [tableOf_set s t _ _ ht, if_pos hqt]
          rw [← h1, hqt]
          have hm : (applyChanges (tableOf s t) cs).2.any (testDelta q.filter) = false := by
            cases hb : bad with
            | true => simp [hits, hqt, hb, repaired] at hhit
            | false => simpa [hits, hqt, hb] using hhit
          exact applyChanges_miss q.filter cs (tableOf s t) hm
      · right; left
        rw [tableOf_set s t _ _ ht, if_neg hqt]; exact h1
    · exact Or.inr (Or.inr ⟨e, by simp [he], hh⟩)
  · simp [ht] at h

theorem inv_register (s : St) (k : Nat) (s' : St)
    (inv : Inv repaired s) (h : step repaired s (.register k) = some s') : Inv repaired s' := by
  unfold step at h
  cases hx : s.qs[k]? with
  | none => simp [hx] at h
  | some x =>
    simp only [hx, Option.some.injEq] at h
    subst h
    intro q hq hreg r hr
    rcases List.mem_or_eq_of_mem_set hq with hq' | hq'
    · exact inv q hq' hreg r hr
    · subst hq'; simp [repaired] at hr

theorem inv_read (s : St) (k : Nat) (s' : St)
    (inv : Inv repaired s) (h : step repaired s (.read k) = some s') : Inv repaired s' := by
  unfold step at h
  cases hx : s.qs[k]? with
  | none => simp [hx] at h
  | some x =>
    simp only [hx] at h
    by_cases hr : (x.registered || repaired.readFirst) = true
    · simp only [hr, if_true, Option.some.injEq] at h
      subst h
      intro q hq hreg r hrow
      rcases List.mem_or_eq_of_mem_set hq with hq' | hq'
      · exact inv q hq' hreg r hrow
      · subst hq'
        simp only [Option.some.injEq] at hrow
        exact Or.inr (Or.inl hrow)
    · simp [hr] at h

theorem inv_deliver (s : St) (s' : St)
    (inv : Inv repaired s) (h : step repaired s .deliver = some s') : Inv repaired s' := by
  unfold step at h
  cases hq : s.queue with
  | nil => simp [hq] at h
  | cons e rest =>
    simp only [hq, Option.some.injEq] at h
    subst h
    intro q' hq' hreg r hr
    simp only [List.mem_map] at hq'
    obtain ⟨q, hqm, rfl⟩ := hq'
    by_cases hc : (q.registered && hits repaired q e) = true
    · left; simp [deliverTo, hc]
    · have hd : deliverTo repaired e q = q := by simp [deliverTo, hc]
      rw [hd] at hreg hr ⊢
      rcases inv q hqm hreg r hr with h1 | h1 | ⟨e', he', hh⟩
      · exact Or.inl h1
      · exact Or.inr (Or.inl h1)
      · rw [hq] at he'
        rcases List.mem_cons.mp he' with rfl | he'
        · exfalso; apply hc; simp [hreg, hh]
        · exact Or.inr (Or.inr ⟨e', he', hh⟩)

theorem inv_step (s : St) (l : Label) (s' : St) (inv : Inv repaired s) (h : step repaired s l = some s') :
    Inv repaired s' := by
  cases l with
  | write t cs bad => exact inv_write s t cs bad s' inv h
  | register k => exact inv_register s k s' inv h
  | read k => exact inv_read s k s' inv h
  | deliver => exact inv_deliver s s' inv h

theorem inv_run : ∀ (ls : List Label) (s s' : St), Inv repaired s → run repaired s ls = some s' → Inv repaired s'
  | [], s, s', inv, h => by simp only [run, Option.some.injEq] at h; subst h; exact inv
  | l :: ls, s, s', inv, h => by
    simp only [run] at h
    cases hs : step repaired s l with
    | none => simp [hs] at h
    | some s1 => simp only [hs] at h; exact inv_run ls s1 s' (inv_step s l s1 inv hs) h

end TM.Sql.Live
