import ThunderModel.Sql.Tester
import ThunderProofs.Sql.Codec
namespace TM.Sql.Tester
open TM.Codec

theorem wrap_of_inRange (k : IKind) (x : Int) (h : inRange k x) : wrap k x = x := by
  obtain ⟨w, s⟩ := k
  cases w <;> cases s <;> simp [inRange, wrap, Width.pow] at h ⊢ <;> omega

theorem wrap_inRange (k : IKind) (v : Int) : inRange k (wrap k v) := by
  obtain ⟨w, s⟩ := k
  cases w <;> cases s <;> simp [inRange, wrap, Width.pow] <;> omega

/-- every kind but uint64 stores its values as they are -/
theorem stored_of_inRange (k : IKind) (hk : k.signed = true ∨ k.width ≠ .w64) (x : Int) (h : inRange k x) :
    stored k x = x := by
  obtain ⟨w, s⟩ := k
  cases w <;> cases s <;> simp [stored, inRange, wrap, i64, Width.pow] at h hk ⊢ <;> omega

end TM.Sql.Tester
