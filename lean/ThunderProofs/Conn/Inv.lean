import ThunderModel.Conn
namespace TM.Conn

structure Inv (cfg : Cfg) (s : St) : Prop where
  tracked : ∀ rid, alive s rid = true → ∃ e ∈ s.subs, e.rid = rid
  alloc : ∀ e ∈ s.subs, e.rid < s.nextRid
  ids : (s.subs.map (·.id)).Nodup
  rids : (s.subs.map (·.rid)).Nodup
  uAlloc : ∀ id rid, Ev.U id rid ∈ s.log → rid < s.nextRid
  uGone : ∀ id rid, Ev.U id rid ∈ s.log → ∀ e ∈ s.subs, e.rid ≠ rid
  uOnce : ∀ id rid, s.log.count (Ev.U id rid) ≤ 1
  sPair : ∀ id rid, Ev.S id rid ∈ s.log → (⟨id, .sub, rid⟩ : Entry) ∈ s.subs ∨ Ev.U id rid ∈ s.log
  limit : (s.subs.filter fun e => e.kind = .sub).length ≤ cfg.max

theorem inv_init (cfg : Cfg) : Inv cfg init := by
  refine ⟨?_, ?_, ?_, ?_, ?_, ?_, ?_, ?_, ?_⟩ <;> intros <;> simp_all [init, alive]

theorem find_none_not_mem {subs : List Entry} {id : Nat} (h : find subs id = none) : id ∉ subs.map (·.id) := by
  simp only [find, List.find?_eq_none] at h
  intro hm
  obtain ⟨e, he, rfl⟩ := List.mem_map.mp hm
  exact h e he (by simp)

theorem find_some_mem {subs : List Entry} {id : Nat} {e : Entry} (h : find subs id = some e) : e ∈ subs ∧ e.id = id := by
  simp only [find] at h
  exact ⟨List.mem_of_find?_eq_some h, by simpa using List.find?_some h⟩

theorem findRid_some_mem {subs : List Entry} {rid : Nat} {e : Entry} (h : findRid subs rid = some e) : e ∈ subs ∧ e.rid = rid := by
  simp only [findRid] at h
  exact ⟨List.mem_of_find?_eq_some h, by simpa using List.find?_some h⟩

theorem eq_of_nodup_map {β : Type} (g : Entry → β) {l : List Entry} (nd : (l.map g).Nodup) {a b : Entry}
    (ha : a ∈ l) (hb : b ∈ l) (h : g a = g b) : a = b := by
  induction l with
  | nil => cases ha
  | cons x xs ih =>
    simp only [List.map_cons, List.nodup_cons] at nd
    simp only [List.mem_cons] at ha hb
    rcases ha with rfl | ha <;> rcases hb with rfl | hb
    · rfl
    · exact absurd (List.mem_map.mpr ⟨b, hb, h.symm⟩) nd.1
    · exact absurd (List.mem_map.mpr ⟨a, ha, h⟩) nd.1
    · exact ih nd.2 ha hb

theorem count_append_singleton_ne {a b : Ev} (l : List Ev) (h : b ≠ a) : (l ++ [b]).count a = l.count a := by
  simp [List.count_append, List.count_cons, h]

theorem count_append_singleton_self (a : Ev) (l : List Ev) : (l ++ [a]).count a = l.count a + 1 := by
  simp [List.count_append]

/-- adding a fresh rerunner under an unused id -/
theorem inv_add (cfg : Cfg) (s : St) (id : Nat) (k : Kind) (lg : List Ev) (h : Inv cfg s)
    (hnone : find s.subs id = none)
    (hlim : k = .sub → s.subs.length + 1 ≤ cfg.max)
    (hlg : lg = s.log ∨ (k = .sub ∧ lg = s.log ++ [Ev.S id s.nextRid])) :
    Inv cfg { s with subs := ⟨id, k, s.nextRid⟩ :: s.subs, nextRid := s.nextRid + 1, log := lg } := by
  have memlg : ∀ id' rid', Ev.U id' rid' ∈ lg → Ev.U id' rid' ∈ s.log := by
    intro id' rid' hm
    rcases hlg with rfl | ⟨_, rfl⟩
    · exact hm
    · simpa using hm
  have cntlg : ∀ id' rid', lg.count (Ev.U id' rid') = s.log.count (Ev.U id' rid') := by
    intro id' rid'
    rcases hlg with rfl | ⟨_, rfl⟩
    · rfl
    · exact count_append_singleton_ne _ (by intro e; cases e)
  refine ⟨?_, ?_, ?_, ?_, ?_, ?_, ?_, ?_, ?_⟩
  · intro rid ha
    simp only [alive, Bool.and_eq_true, decide_eq_true_eq] at ha
    by_cases hr : rid = s.nextRid
    · exact ⟨⟨id, k, s.nextRid⟩, by simp, hr.symm⟩
    · have hal : alive s rid = true := by
        simp only [alive, Bool.and_eq_true, decide_eq_true_eq]
        exact ⟨⟨by omega, ha.1.2⟩, ha.2⟩
      obtain ⟨e, he, hr'⟩ := h.tracked rid hal
      exact ⟨e, by simp [he], hr'⟩
  · intro e he
    simp only [List.mem_cons] at he
    rcases he with rfl | he
    · simp
    · have := h.alloc e he
      show e.rid < s.nextRid + 1
      omega
  · simp only [List.map_cons, List.nodup_cons]
    exact ⟨find_none_not_mem hnone, h.ids⟩
  · simp only [List.map_cons, List.nodup_cons]
    refine ⟨?_, h.rids⟩
    intro hm
    obtain ⟨e, he, hr⟩ := List.mem_map.mp hm
    have := h.alloc e he
    omega
  · intro id' rid' hm
    have := h.uAlloc id' rid' (memlg id' rid' hm)
    show rid' < s.nextRid + 1
    omega
  · intro id' rid' hm e he
    have hu := memlg id' rid' hm
    simp only [List.mem_cons] at he
    rcases he with rfl | he
    · have := h.uAlloc id' rid' hu
      simp only; omega
    · exact h.uGone id' rid' hu e he
  · intro id' rid'; rw [cntlg]; exact h.uOnce id' rid'
  · intro id' rid' hm
    rcases hlg with rfl | ⟨hk, rfl⟩
    · rcases h.sPair id' rid' hm with h1 | h1
      · exact Or.inl (by simp [h1])
      · exact Or.inr h1
    · simp only [List.mem_append, List.mem_singleton] at hm
      rcases hm with hm | hm
      · rcases h.sPair id' rid' hm with h1 | h1
        · exact Or.inl (by simp [h1])
        · exact Or.inr (by simp [h1])
      · injection hm with h1 h2
        subst h1; subst h2; subst hk
        exact Or.inl (by simp)
  · show ((⟨id, k, s.nextRid⟩ :: s.subs).filter fun e => e.kind = .sub).length ≤ cfg.max
    by_cases hk : k = .sub
    · have := hlim hk
      have hle : (s.subs.filter fun e => e.kind = .sub).length ≤ s.subs.length := List.length_filter_le _ _
      simp only [List.filter_cons, hk, decide_true, if_true, List.length_cons]
      omega
    · simp only [List.filter_cons, hk, decide_false]
      exact h.limit

/-- `closeSubscription` preserves the invariant -/
theorem inv_closeSub (cfg : Cfg) (s : St) (id : Nat) (only : Option Nat) (h : Inv cfg s) : Inv cfg (closeSub s id only) := by
  unfold closeSub
  split
  · rename_i e he
    obtain ⟨hmem, hid⟩ := find_some_mem he
    split
    · have hfil : ∀ e', e' ∈ s.subs.filter (fun x => decide (x.id ≠ id)) → e' ∈ s.subs ∧ e' ≠ e := by
        intro e' he'
        have := List.mem_filter.mp he'
        refine ⟨this.1, ?_⟩
        intro heq; subst heq
        simp [hid] at this
      have hU : Ev.U id e.rid ∉ s.log := by
        intro hm
        exact h.uGone id e.rid hm e hmem rfl
      refine ⟨?_, ?_, ?_, ?_, ?_, ?_, ?_, ?_, ?_⟩
      · intro rid ha
        simp only [alive, List.contains_cons, Bool.and_eq_true, Bool.not_eq_true', Bool.or_eq_false_iff,
          decide_eq_true_eq] at ha
        obtain ⟨⟨hlt, hne, hst⟩, hdead⟩ := ha
        have hst' : rid ∉ s.stopped := by simpa using hst
        have hdead' : rid ∉ s.dead := by simpa using hdead
        have hal : alive s rid = true := by simp [alive, hlt, hst', hdead']
        obtain ⟨e', he', hr⟩ := h.tracked rid hal
        refine ⟨e', ?_, hr⟩
        simp only [List.mem_filter, decide_eq_true_eq, ne_eq]
        refine ⟨he', ?_⟩
        intro hid'
        have : e' = e := eq_of_nodup_map (·.id) h.ids he' hmem (by simp [hid', hid])
        subst this
        simp [hr] at hne
      · intro e' he'; exact h.alloc e' (hfil e' he').1
      · exact (List.filter_sublist.map _).nodup h.ids
      · exact (List.filter_sublist.map _).nodup h.rids
      · intro id' rid' hm
        simp only [List.mem_append, List.mem_singleton] at hm
        rcases hm with hm | hm
        · exact h.uAlloc id' rid' hm
        · injection hm with _ h2; subst h2; exact h.alloc e hmem
      · intro id' rid' hm e' he'
        obtain ⟨he's, hne⟩ := hfil e' he'
        simp only [List.mem_append, List.mem_singleton] at hm
        rcases hm with hm | hm
        · exact h.uGone id' rid' hm e' he's
        · injection hm with _ h2; subst h2
          intro heq
          exact hne (eq_of_nodup_map (·.rid) h.rids he's hmem heq)
      · intro id' rid'
        by_cases heq : Ev.U id e.rid = Ev.U id' rid'
        · rw [← heq, count_append_singleton_self]
          have : s.log.count (Ev.U id e.rid) = 0 := List.count_eq_zero_of_not_mem hU
          omega
        · rw [count_append_singleton_ne _ heq]; exact h.uOnce id' rid'
      · intro id' rid' hm
        have hm' : Ev.S id' rid' ∈ s.log := by
          have : Ev.S id' rid' ∈ s.log ++ [Ev.U id e.rid] := hm
          simpa using this
        rcases h.sPair id' rid' hm' with h1 | h1
        · by_cases heq : (⟨id', .sub, rid'⟩ : Entry) = e
          · right
            have h2 : id' = id := by rw [← hid, ← heq]
            have h3 : rid' = e.rid := by rw [← heq]
            rw [h2, h3]; simp
          · left
            simp only [List.mem_filter, decide_eq_true_eq, ne_eq]
            refine ⟨h1, ?_⟩
            intro hid'
            exact heq (eq_of_nodup_map (·.id) h.ids h1 hmem (by simp [hid', hid]))
        · exact Or.inr (by simp [h1])
      · have hsub : ((s.subs.filter fun x => decide (x.id ≠ id)).filter fun e => e.kind = .sub).length ≤
            (s.subs.filter fun e => e.kind = .sub).length := by
          apply List.Sublist.length_le
          exact List.Sublist.filter _ List.filter_sublist
        exact Nat.le_trans hsub h.limit
    · exact h
  · exact h

end TM.Conn
