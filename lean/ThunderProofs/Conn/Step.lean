import ThunderProofs.Conn.Inv
namespace TM.Conn

/-- changes that touch neither `subs`, `nextRid` nor `log`, and only shrink `alive` -/
theorem inv_frame (cfg : Cfg) (s t : St) (h : Inv cfg s) (hsubs : t.subs = s.subs) (hn : t.nextRid = s.nextRid)
    (hl : t.log = s.log) (ha : ∀ rid, alive t rid = true → alive s rid = true) : Inv cfg t := by
  refine ⟨?_, ?_, ?_, ?_, ?_, ?_, ?_, ?_, ?_⟩
  · intro rid hr; rw [hsubs]; exact h.tracked rid (ha rid hr)
  · rw [hsubs, hn]; exact h.alloc
  · rw [hsubs]; exact h.ids
  · rw [hsubs]; exact h.rids
  · rw [hl, hn]; exact h.uAlloc
  · rw [hl, hsubs]; exact h.uGone
  · rw [hl]; exact h.uOnce
  · rw [hl, hsubs]; exact h.sPair
  · rw [hsubs]; exact h.limit

theorem count_U_map_le_one : ∀ (l : List Entry), (l.map (·.rid)).Nodup → ∀ id rid,
    (l.map fun e => Ev.U e.id e.rid).count (Ev.U id rid) ≤ 1 := by
  intro l
  induction l with
  | nil => intro _ id rid; simp
  | cons a l ih =>
    intro nd id rid
    simp only [List.map_cons, List.nodup_cons] at nd
    simp only [List.map_cons, List.count_cons]
    have := ih nd.2 id rid
    by_cases e : (Ev.U a.id a.rid == Ev.U id rid) = true
    · simp only [e, if_true]
      have heq : a.rid = rid := by
        have := of_decide_eq_true (by simpa using e); exact this.2
      have h0 : (l.map fun e => Ev.U e.id e.rid).count (Ev.U id rid) = 0 := by
        apply List.count_eq_zero_of_not_mem
        intro hm
        obtain ⟨b, hb, hbe⟩ := List.mem_map.mp hm
        injection hbe with _ h2
        exact nd.1 (List.mem_map.mpr ⟨b, hb, by rw [h2, heq]⟩)
      omega
    · have e' : (Ev.U a.id a.rid == Ev.U id rid) = false := by simpa using e
      simp only [e']; simp; omega

theorem inv_step (m : Nat) (s s' : St) (l : Label) (h : Inv (repairedWith m) s) (st : step (repairedWith m) s l = some s') : Inv (repairedWith m) s' := by
  cases l with
  | subscribe id acc =>
    simp only [step] at st
    split at st
    · cases st
    · split at st
      · cases st
      · split at st
        · rename_i hok
          injection st with st; subst st
          simp only [Bool.and_eq_true, decide_eq_true_eq] at hok
          have hnone : find s.subs id = none := by simpa using hok.1
          exact inv_add (repairedWith m) s id .sub _ h hnone (fun _ => hok.2) (Or.inr ⟨rfl, rfl⟩)
        · injection st with st; subst st; exact h
  | mutate id acc =>
    simp only [step, repairedWith, Bool.not_true, Bool.false_or] at st
    split at st
    · cases st
    · split at st
      · cases st
      · split at st
        · rename_i hok
          injection st with st; subst st
          have hnone : find s.subs id = none := by simpa using hok
          have hfil : s.subs.filter (fun e => decide (e.id ≠ id)) = s.subs := by
            apply List.filter_eq_self.mpr
            intro e he
            simp only [decide_eq_true_eq, ne_eq]
            intro hid
            exact find_none_not_mem hnone (List.mem_map.mpr ⟨e, he, hid⟩)
          rw [hfil]
          exact inv_add (repairedWith m) s id .mut _ h hnone (fun hk => by cases hk) (Or.inl rfl)
        · injection st with st; subst st; exact h
  | closeSub id by_ =>
    simp only [step] at st
    cases by_ with
    | none =>
      simp only at st
      split at st
      · cases st
      · injection st with st; subst st; exact inv_closeSub (repairedWith m) s id none h
    | some rid =>
      simp only at st
      split at st
      · injection st with st; subst st
        apply inv_closeSub
        exact inv_frame (repairedWith m) s _ h rfl rfl rfl (fun r hr => hr)
      · cases st
  | runOk rid =>
    simp only [step] at st
    split at st
    · split at st
      · rename_i e he
        split at st
        · injection st with st; subst st
          refine inv_frame (repairedWith m) s _ h rfl rfl rfl ?_
          intro r ha
          simp only [alive, Bool.and_eq_true, Bool.not_eq_true', List.contains_cons, Bool.or_eq_false_iff] at ha ⊢
          exact ⟨⟨ha.1.1, ha.1.2⟩, ha.2.2⟩
        · injection st with st; subst st
          exact inv_frame (repairedWith m) s _ h rfl rfl rfl (fun r hr => hr)
      · cases st
    · cases st
  | runFail rid =>
    simp only [step] at st
    split at st
    · split at st
      · injection st with st; subst st
        refine inv_frame (repairedWith m) s _ h rfl rfl rfl ?_
        intro r ha
        simp only [alive, Bool.and_eq_true, Bool.not_eq_true', List.contains_cons, Bool.or_eq_false_iff] at ha ⊢
        exact ⟨⟨ha.1.1, ha.1.2⟩, ha.2.2⟩
      · cases st
    · cases st
  | sockClose =>
    simp only [step, repairedWith, if_true] at st
    split at st
    · cases st
    · injection st with st; subst st
      refine ⟨?_, ?_, ?_, ?_, ?_, ?_, ?_, ?_, ?_⟩
      · intro rid ha
        exfalso
        simp only [alive, Bool.and_eq_true, Bool.not_eq_true', decide_eq_true_eq, List.contains_eq_mem,
          List.mem_append, List.mem_map, decide_eq_false_iff_not, not_or] at ha
        obtain ⟨⟨hlt, hns⟩, hd⟩ := ha
        have hal : alive s rid = true := by simp [alive, hlt, hns.2, hd]
        obtain ⟨e, he, hr⟩ := h.tracked rid hal
        exact hns.1 ⟨e, he, hr⟩
      · intro e he; cases he
      · simp
      · simp
      · intro id rid hm
        simp only [List.mem_append, List.mem_map] at hm
        rcases hm with hm | ⟨e, he, heq⟩
        · exact h.uAlloc id rid hm
        · injection heq with _ h2; subst h2; exact h.alloc e he
      · intro id rid _ e he; cases he
      · intro id rid
        rw [List.count_append]
        by_cases hm : Ev.U id rid ∈ s.log
        · -- then no entry carries rid: the appended part does not contain it
          have : (s.subs.map fun e => Ev.U e.id e.rid).count (Ev.U id rid) = 0 := by
            apply List.count_eq_zero_of_not_mem
            intro hm2
            obtain ⟨e, he, heq⟩ := List.mem_map.mp hm2
            injection heq with _ h2
            exact h.uGone id rid hm e he h2
          have := h.uOnce id rid
          omega
        · have h0 : s.log.count (Ev.U id rid) = 0 := List.count_eq_zero_of_not_mem hm
          rw [h0, Nat.zero_add]
          exact count_U_map_le_one s.subs h.rids id rid
      · intro id rid hm
        right
        have hm' : Ev.S id rid ∈ s.log := by
          simp only [List.mem_append, List.mem_map] at hm
          rcases hm with hm | ⟨e, _, heq⟩
          · exact hm
          · cases heq
        rcases h.sPair id rid hm' with h1 | h1
        · simp only [List.mem_append, List.mem_map]
          exact Or.inr ⟨_, h1, rfl⟩
        · simp [h1]
      · simp

theorem inv_run (m : Nat) : ∀ (ls : List Label) (s s' : St), Inv (repairedWith m) s → run (repairedWith m) s ls = some s' → Inv (repairedWith m) s' := by
  intro ls
  induction ls with
  | nil => intro s s' h hr; simp [run] at hr; subst hr; exact h
  | cons l ls ih =>
    intro s s' h hr
    simp only [run] at hr
    cases hs : step (repairedWith m) s l with
    | none => simp [hs] at hr
    | some s1 => simp only [hs] at hr; exact ih s1 s' (inv_step m s s1 l h hs) hr

theorem inv_reachable (m : Nat) (ls : List Label) (s : St) (h : run (repairedWith m) init ls = some s) : Inv (repairedWith m) s :=
  inv_run m ls init s (inv_init _) h

end TM.Conn
