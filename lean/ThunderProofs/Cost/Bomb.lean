import ThunderProofs.Cost.Memo
namespace TM.Cost

theorem bomb_length (n : Nat) : (bomb n).length = n + 1 := by simp [bomb]

theorem bomb_children_lt (n i : Nat) (h : i < n) : children (bomb n) i = [i+1, i+1] := by
  unfold children bomb
  rw [List.getD_eq_getElem?_getD, List.getElem?_append_left (by simpa using h)]
  simp [List.getElem?_map, List.getElem?_range h]

theorem bomb_children_last (n : Nat) : children (bomb n) n = [] := by
  unfold children bomb
  rw [List.getD_eq_getElem?_getD, List.getElem?_append_right (by simp)]
  simp

theorem bomb_wf (n : Nat) : WF (bomb n) := by
  intro l hl c hc
  rw [bomb_length]
  simp only [bomb, List.mem_append, List.mem_map, List.mem_range, List.mem_singleton] at hl
  rcases hl with ⟨i, hi, rfl⟩ | rfl
  · simp at hc; omega
  · cases hc

/-- without memoisation the traversal of the bomb from level `n - d` costs `2^(d+1) - 1` -/
theorem naive_bomb_from (n : Nat) : ∀ (d k : Nat), d ≤ n → naive (bomb n) (d + 1 + k) (n - d) = 2 ^ (d + 1) - 1 := by
  intro d
  induction d with
  | zero =>
    intro k _
    have e : 0 + 1 + k = k + 1 := by omega
    rw [e, Nat.sub_zero, naive, bomb_children_last]
    simp
  | succ d ih =>
    intro k hd
    have hlt : n - (d + 1) < n := by omega
    have e : d + 1 + 1 + k = (d + 1 + k) + 1 := by omega
    rw [e, naive, bomb_children_lt n _ hlt]
    have e2 : n - (d + 1) + 1 = n - d := by omega
    simp only [List.map_cons, List.map_nil, List.sum_cons, List.sum_nil, e2, ih k (by omega)]
    have : 2 ^ (d + 1 + 1) = 2 * 2 ^ (d + 1) := by rw [Nat.pow_succ]; omega
    have hp : 0 < 2 ^ (d + 1) := Nat.pow_pos (by omega)
    omega

/-- **the un-memoised traversal is exponential in the size of the bomb** (text size `O(n)`) -/
theorem naive_bomb (n k : Nat) : naive (bomb n) (n + 1 + k) 0 = 2 ^ (n + 1) - 1 := by
  have := naive_bomb_from n n k (Nat.le_refl n)
  simpa using this

/-- the memoised traversal of the same bomb is linear -/
theorem memo_bomb (n fuel : Nat) : memoCost (bomb n) fuel 0 ≤ n + 1 := by
  have := memo_bound (bomb n) (bomb_wf n) fuel 0 (by rw [bomb_length]; omega)
  rwa [bomb_length] at this

end TM.Cost
