import ThunderModel.Cost
namespace TM.Cost

theorem children_lt (g : Graph) (wf : WF g) (x : Nat) : ∀ c ∈ children g x, c < g.length := by
  intro c hc
  unfold children at hc
  rw [List.getD_eq_getElem?_getD] at hc
  cases hx : g[x]? with
  | none => simp [hx] at hc
  | some l =>
    simp only [hx, Option.getD_some] at hc
    exact wf l (List.mem_of_getElem? hx) c hc

/-- invariant of the memoised traversal: the expanded nodes are distinct nodes of the graph -/
theorem memo_inv (g : Graph) (wf : WF g) : ∀ (f : Nat) (st vis : List Nat),
    (∀ x ∈ st, x < g.length) → vis.Nodup → (∀ v ∈ vis, v < g.length) →
    (memo g f st vis).Nodup ∧ ∀ v ∈ memo g f st vis, v < g.length := by
  intro f
  induction f with
  | zero => intro st vis _ hn hv; exact ⟨hn, hv⟩
  | succ f ih =>
    intro st vis hs hn hv
    cases st with
    | nil => exact ⟨hn, hv⟩
    | cons x st =>
      simp only [memo]
      by_cases hc : vis.contains x = true
      · simp only [hc, if_true]
        exact ih st vis (fun y hy => hs y (by simp [hy])) hn hv
      · simp only [hc]
        have hx : x ∉ vis := by simpa using hc
        apply ih
        · intro y hy
          simp only [List.mem_append] at hy
          rcases hy with hy | hy
          · exact children_lt g wf x y hy
          · exact hs y (by simp [hy])
        · exact List.nodup_cons.mpr ⟨hx, hn⟩
        · intro v hv'
          simp only [List.mem_cons] at hv'
          rcases hv' with rfl | hv'
          · exact hs _ (by simp)
          · exact hv v hv'

theorem nodup_bounded_length : ∀ (n : Nat) (l : List Nat), l.Nodup → (∀ v ∈ l, v < n) → l.length ≤ n := by
  intro n
  induction n with
  | zero =>
    intro l _ h
    cases l with
    | nil => simp
    | cons a t => exact absurd (h a (by simp)) (by omega)
  | succ n ih =>
    intro l hn h
    -- remove n from l
    have h1 : (l.erase n).length ≤ n := by
      apply ih
      · exact hn.erase n
      · intro v hv
        have hvl : v ∈ l := List.mem_of_mem_erase hv
        have hne : v ≠ n := by
          intro e; subst e
          exact (List.Nodup.not_mem_erase hn) hv
        have := h v hvl
        omega
    have h2 : l.length ≤ (l.erase n).length + 1 := by
      by_cases hm : n ∈ l
      · rw [List.length_erase_of_mem hm]; omega
      · rw [List.erase_of_not_mem hm]; omega
    omega

/-- **with memoisation every node is expanded at most once: the cost is at most the number of
nodes**, whatever the sharing -/
theorem memo_bound (g : Graph) (wf : WF g) (fuel root : Nat) (hr : root < g.length) :
    memoCost g fuel root ≤ g.length := by
  unfold memoCost
  obtain ⟨hn, hv⟩ := memo_inv g wf fuel [root] [] (by simpa using hr) List.nodup_nil (by simp)
  exact nodup_bounded_length g.length _ hn hv

end TM.Cost
