import ThunderModel.Sql.BatchQuery
import ThunderProofs.Sql.Tester
/-!
# C10 — SQL batching is transparent: each query gets exactly its own rows

Model: `ThunderModel/Sql/BatchQuery.lean`.
-/
namespace TM.Properties.C10
open TM.Sql.Batch TM.Sql.Limit

/-- **Batching is transparent**: whatever filters were combined (different column sets, equal
filters, an empty filter, nil values, any Go representation of the values) and whatever the table
holds, each query of the batch receives exactly the rows it would have returned on its own, in
the order the database returns them. -/
theorem batch_eq_alone (fs : List KVs) (table : List Row) (f : KVs) (hf : f ∈ fs) :
    dispatched fs table f = alone f table := by
  unfold dispatched fetched alone
  rw [List.filter_filter]
  apply List.filter_congr
  intro r _
  by_cases hs : sat f r = true
  · have : (fs.any fun f => sat f r) = true := List.any_eq_true.mpr ⟨f, hf, hs⟩
    simp [hs, this]
  · simp [hs]

/-- an empty filter makes the batch fetch the whole table, and still everyone gets their own rows -/
theorem empty_filter_fetches_all (fs : List KVs) (table : List Row) (h : [] ∈ fs) : fetched fs table = table := by
  unfold fetched
  apply List.filter_eq_self.mpr
  intro r _
  exact List.any_eq_true.mpr ⟨[], h, by simp [sat]⟩

/-- the result does not depend on which other queries happened to share the batch -/
theorem independent_of_companions (fs fs' : List KVs) (table : List Row) (f : KVs) (h : f ∈ fs) (h' : f ∈ fs') :
    dispatched fs table f = dispatched fs' table f := by
  rw [batch_eq_alone fs table f h, batch_eq_alone fs' table f h']

/-- Go representations that denote the same column value give the same rows -/
theorem representation_irrelevant (k : Nat) (g g' : GV) (hv : g.v = g'.v) (rest : KVs) (table : List Row) :
    alone ((k, some g) :: rest) table = alone ((k, some g') :: rest) table := by
  unfold alone
  apply List.filter_congr
  intro r _
  simp [sat, satCol, valuer, hv]

/-! ### what went wrong before the repair (replayed on the old code by the tie) -/

/-- `Filter{"id": int(10)}` on an `int64` column: the row is fetched but not handed back -/
theorem old_loses_int_vs_int64 :
    dispatchedOld (fun _ => 0) [[(0, some ⟨1, 10⟩)]] [[(0, some 10)]] [(0, some ⟨1, 10⟩)] = [] ∧
    alone [(0, some ⟨1, 10⟩)] [[(0, some 10)]] = [[(0, some 10)]] := by decide

/-- `Filter{"a": nil}`: alone it returns the rows with `a IS NULL`; batched they are not even fetched
(`a IN (NULL)`), unless a companion query happens to fetch them -/
theorem old_nil_depends_on_companions :
    dispatchedOld (fun _ => 0) [[(1, none)]] [[(0, some 1), (1, none)]] [(1, none)] = [] ∧
    dispatchedOld (fun _ => 0) [[(1, none)], []] [[(0, some 1), (1, none)]] [(1, none)] = [[(0, some 1), (1, none)]] ∧
    alone [(1, none)] [[(0, some 1), (1, none)]] = [[(0, some 1), (1, none)]] := by decide

/-! ### non-vacuity -/
example : dispatched [[(0, some ⟨1, 10⟩)], [(1, none)], [(0, some ⟨0, 11⟩)]]
    [[(0, some 10), (1, none)], [(0, some 11), (1, some 5)], [(0, some 12), (1, some 5)]] [(1, none)] =
    [[(0, some 10), (1, none)]] := by decide

/-- **A call returns under batching what it returns on its own, rows or error**: whatever other calls are made
at the same time - valid or not - a call with a valid filter gets exactly its own rows and a call with an
invalid filter gets its own error; nobody else's error reaches it. -/
theorem call_batched_eq_alone (valid : KVs → Bool) (calls : List KVs) (table : List Row) (f : KVs) (hf : f ∈ calls) :
    callBatched valid calls table f = callAlone valid table f := by
  unfold callBatched callAlone
  by_cases hv : valid f = true
  · simp only [hv, if_true]
    rw [batch_eq_alone (calls.filter valid) table f (List.mem_filter.mpr ⟨hf, hv⟩)]
  · simp [hv]

/-- the hypotheses are satisfiable with content: a batch with an invalid member -/
example : callBatched (fun f => !f.any (·.1 == 999)) [[(0, some ⟨0, 1⟩)], [(999, none)]] [[(0, some 1)], [(0, some 2)]] [(0, some ⟨0, 1⟩)]
    = .rows [[(0, some 1)]] := by decide

/-- **Deciding about batching before validating lets one bad filter fail its siblings**: a valid call that
returns a row on its own gets an error when an invalid call is in the same batch. -/
theorem late_validation_fails_siblings :
    ∃ (valid : KVs → Bool) (calls : List KVs) (table : List Row) (f : KVs), f ∈ calls ∧
      callAlone valid table f = .rows [[(0, some 1)]] ∧ callBatchedLate valid calls table f = .err :=
  ⟨fun f => !f.any (·.1 == 999), [[(0, some ⟨0, 1⟩)], [(999, none)]], [[(0, some 1)], [(0, some 2)]], [(0, some ⟨0, 1⟩)],
    by decide, by decide, by decide⟩

/-! ### "any Go types of filter values that denote the same column value": the tester against the database

`ThunderModel/Sql/Tester.lean`. In the batching model above the tester and the WHERE clause are one
predicate; here the tester's own procedure on an integer column (compare driver values, else convert
the filter value to the column's type) is compared with the database's `=`. -/
section tester
open TM.Sql.Tester TM.Codec

/-- **The row tester agrees with the database** on an integer column (every width and signedness
except uint64, whose values above MaxInt64 are stored wrapped): whatever value the column holds and
however the filter value is written - an integer of any type, in or out of the column's range, a
whole number as a float, a float with a fraction, a bool - the tester hands the row to the query
exactly when `col = ?` selects it. -/
theorem tester_agrees_with_database (k : IKind) (hk : k.signed = true ∨ k.width ≠ .w64) (x : Int) (hx : inRange k x)
    (s : Spell) : testerMatch k x s = dbMatch x s := by
  have hsx := stored_of_inRange k hk x hx
  have hst : ∀ v, stored k (wrap k v) = wrap k v := fun v => stored_of_inRange k hk _ (wrap_inRange k v)
  have hw := wrap_of_inRange k x hx
  -- after normalisation every spelling but a fraction is an integer `v`: the second comparison
  have key : ∀ v : Int, sameAs x (if stored k (wrap k v) = v then some (stored k (wrap k v)) else none) = (x == v) := by
    intro v
    rw [hst v]
    by_cases hv : x = v
    · subst hv; simp [hw, sameAs]
    · have e2 : (x == v) = false := by simp [hv]
      by_cases hwv : wrap k v = v
      · have e1 : (v == x) = false := by simp; exact fun h => hv h.symm
        simp [hwv, sameAs, e1, e2]
      · simp [hwv, sameAs, e2]
  cases s with
  | int v =>
    simp only [testerMatch, firstEq, coerce, normalise, dbMatch, hsx]
    rw [key v]
    by_cases hv : v = x
    · subst hv; simp
    · have e1 : (v == x) = false := by simp [hv]
      simp [e1]
  | wholeFloat v => simp only [testerMatch, firstEq, coerce, normalise, dbMatch, Bool.false_or, hsx]; exact key v
  | fracFloat => simp [testerMatch, firstEq, coerce, normalise, dbMatch, sameAs]
  | bool b => simp only [testerMatch, firstEq, coerce, normalise, dbMatch, Bool.false_or, hsx]; exact key (ofBool b)

/-- why uint64 is left out: a column holding MaxUint64 is stored as -1, and the filter value -1, which
the database matches with no unsigned value, is a match for the tester -/
theorem uint64_is_outside : testerMatch ⟨.w64, false⟩ 18446744073709551615 (.int (-1)) = true ∧
    dbMatch 18446744073709551615 (.int (-1)) = false ∧ inRange ⟨.w64, false⟩ 18446744073709551615 := by decide

/-- the code before the repair C10-4: an int8 column holding 44 and the filter value 300, which no
row has, were a match -/
theorem old_out_of_range_wraps :
    testerMatchNoCheck ⟨.w8, true⟩ 44 (.int 300) = true ∧ dbMatch 44 (.int 300) = false ∧ inRange ⟨.w8, true⟩ 44 := by
  decide

/-- the code before the repair C10-5 lost an id written as a float of 1e6 or more -/
theorem old_large_float_lost :
    normaliseOld (.wholeFloat 1234567) = none ∧ dbMatch 1234567 (.wholeFloat 1234567) = true ∧
      testerMatch i64 1234567 (.wholeFloat 1234567) = true := by
  decide

/-- Non-vacuity: a uint32 column holding 4294967295 and the filter -1 are no match; 1 as true and as
1.0 are matches of a column holding 1 -/
example : testerMatch ⟨.w32, false⟩ 4294967295 (.int (-1)) = false ∧ testerMatch ⟨.w8, true⟩ 1 (.bool true) = true ∧
    testerMatch ⟨.w8, true⟩ 1 (.wholeFloat 1) = true ∧ testerMatch ⟨.w8, true⟩ 1 .fracFloat = false := by decide
end tester

end TM.Properties.C10
