import ThunderModel.Sql.BatchQuery
/-!
# C10 — SQL batching is transparent: each query gets exactly its own rows

Model: `ThunderModel/Sql/BatchQuery.lean`.
-/
namespace TM.Properties.C10
open TM.Sql.Batch TM.Sql.Limit

/-- **Batching is transparent**: whatever filters were combined (different column sets, equal
filters, an empty filter, nil values, any Go representation of the values) and whatever the table
holds, each query of the batch receives exactly the rows it would have returned on its own, in
the order the database returns them. -/
theorem batch_eq_alone (fs : List KVs) (table : List Row) (f : KVs) (hf : f ∈ fs) :
    dispatched fs table f = alone f table := by
  unfold dispatched fetched alone
  rw [List.filter_filter]
  apply List.filter_congr
  intro r _
  by_cases hs : sat f r = true
  · have : (fs.any fun f => sat f r) = true := List.any_eq_true.mpr ⟨f, hf, hs⟩
    simp [hs, this]
  · simp [hs]

/-- an empty filter makes the batch fetch the whole table, and still everyone gets their own rows -/
theorem empty_filter_fetches_all (fs : List KVs) (table : List Row) (h : [] ∈ fs) : fetched fs table = table := by
  unfold fetched
  apply List.filter_eq_self.mpr
  intro r _
  exact List.any_eq_true.mpr ⟨[], h, by simp [sat]⟩

/-- the result does not depend on which other queries happened to share the batch -/
theorem independent_of_companions (fs fs' : List KVs) (table : List Row) (f : KVs) (h : f ∈ fs) (h' : f ∈ fs') :
    dispatched fs table f = dispatched fs' table f := by
  rw [batch_eq_alone fs table f h, batch_eq_alone fs' table f h']

/-- Go representations that denote the same column value give the same rows -/
theorem representation_irrelevant (k : Nat) (g g' : GV) (hv : g.v = g'.v) (rest : KVs) (table : List Row) :
    alone ((k, some g) :: rest) table = alone ((k, some g') :: rest) table := by
  unfold alone
  apply List.filter_congr
  intro r _
  simp [sat, satCol, valuer, hv]

/-! ### what went wrong before the repair (replayed on the old code by the tie) -/

/-- `Filter{"id": int(10)}` on an `int64` column: the row is fetched but not handed back -/
theorem old_loses_int_vs_int64 :
    dispatchedOld (fun _ => 0) [[(0, some ⟨1, 10⟩)]] [[(0, some 10)]] [(0, some ⟨1, 10⟩)] = [] ∧
    alone [(0, some ⟨1, 10⟩)] [[(0, some 10)]] = [[(0, some 10)]] := by decide

/-- `Filter{"a": nil}`: alone it returns the rows with `a IS NULL`; batched they are not even fetched
(`a IN (NULL)`), unless a companion query happens to fetch them -/
theorem old_nil_depends_on_companions :
    dispatchedOld (fun _ => 0) [[(1, none)]] [[(0, some 1), (1, none)]] [(1, none)] = [] ∧
    dispatchedOld (fun _ => 0) [[(1, none)], []] [[(0, some 1), (1, none)]] [(1, none)] = [[(0, some 1), (1, none)]] ∧
    alone [(1, none)] [[(0, some 1), (1, none)]] = [[(0, some 1), (1, none)]] := by decide

/-! ### non-vacuity -/
example : dispatched [[(0, some ⟨1, 10⟩)], [(1, none)], [(0, some ⟨0, 11⟩)]]
    [[(0, some 10), (1, none)], [(0, some 11), (1, some 5)], [(0, some 12), (1, some 5)]] [(1, none)] =
    [[(0, some 10), (1, none)]] := by decide

/-- **A call returns under batching what it returns on its own, rows or error**: whatever other calls are made
at the same time - valid or not - a call with a valid filter gets exactly its own rows and a call with an
invalid filter gets its own error; nobody else's error reaches it. -/
theorem call_batched_eq_alone (valid : KVs → Bool) (calls : List KVs) (table : List Row) (f : KVs) (hf : f ∈ calls) :
    callBatched valid calls table f = callAlone valid table f := by
  unfold callBatched callAlone
  by_cases hv : valid f = true
  · simp only [hv, if_true]
    rw [batch_eq_alone (calls.filter valid) table f (List.mem_filter.mpr ⟨hf, hv⟩)]
  · simp [hv]

/-- the hypotheses are satisfiable with content: a batch with an invalid member -/
example : callBatched (fun f => !f.any (·.1 == 999)) [[(0, some ⟨0, 1⟩)], [(999, none)]] [[(0, some 1)], [(0, some 2)]] [(0, some ⟨0, 1⟩)]
    = .rows [[(0, some 1)]] := by decide

/-- **Deciding about batching before validating lets one bad filter fail its siblings**: a valid call that
returns a row on its own gets an error when an invalid call is in the same batch. -/
theorem late_validation_fails_siblings :
    ∃ (valid : KVs → Bool) (calls : List KVs) (table : List Row) (f : KVs), f ∈ calls ∧
      callAlone valid table f = .rows [[(0, some 1)]] ∧ callBatchedLate valid calls table f = .err :=
  ⟨fun f => !f.any (·.1 == 999), [[(0, some ⟨0, 1⟩)], [(999, none)]], [[(0, some 1)], [(0, some 2)]], [(0, some ⟨0, 1⟩)],
    by decide, by decide, by decide⟩

end TM.Properties.C10
