import ThunderProofs.Reactive.Release
import ThunderProofs.Properties.C04
import ThunderProofs.Reactive.ReleaseDecision
/-!
# C08 — Reactive cache never serves superseded values and releases every resource

Models: `ThunderModel/Reactive/Graph.lean` (invalidation: a cached sub-computation is a node
between the resources it read and every computation that adopted it) and
`ThunderModel/Reactive/Release.lean` (reference counting: `release`, `addOut`, `handleRelease`).
-/
namespace TM.Properties.C08
open TM

/-! ### Freshness -/

/-- `n` reaches `c` along dependency edges (`n` is a resource or cached sub-computation that `c`
directly or indirectly used) -/
inductive Uses (s : Reactive.St) : Nat → Nat → Prop where
  | refl (c : Nat) : Uses s c c
  | step (n m c : Nat) : m ∈ (Reactive.getNode s n).out → Uses s m c → Uses s n c

/-- **adoption racing with invalidation is not lost**: whenever a computation adopts a cached child
(or registers a resource) — `addOut` — that is or becomes invalid, the adopter is invalidated or a
call of its `invalidate` is committed -/
theorem cached_use_propagates (ls : List Reactive.Label) (s : Reactive.St) (h : Reactive.run Reactive.init ls = some s)
    (child parent : Nat) (hc : (Reactive.getNode s child).invalidated = true)
    (he : parent ∈ (Reactive.getNode s child).out) :
    (Reactive.getNode s parent).invalidated = true ∨ parent ∈ s.pendingInv :=
  C04.invalidation_propagates ls s h child parent hc he

/-- **At quiescence a live rerunner's output was computed from current versions only**: every
resource and every cached sub-computation its current computation used, directly or through
other cached sub-computations, is still valid. -/
theorem quiescent_output_fresh (ls : List Reactive.Label) (s : Reactive.St) (h : Reactive.run Reactive.init ls = some s)
    (q1 : s.pendingInv = []) (q2 : s.pendingRun = []) (q3 : ∀ r, (Reactive.getRr s r).inRun = none)
    (r c : Nat) (hcn : (Reactive.getRr s r).cancelled = false) (hs : (Reactive.getRr s r).stopped = false)
    (hf : (Reactive.getRr s r).failed = false) (hc : (Reactive.getRr s r).comp = some c)
    (n : Nat) (hu : Uses s n c) : (Reactive.getNode s n).invalidated = false := by
  obtain ⟨hfresh, hclosed⟩ := C04.quiescent_not_stale ls s h q1 q2 q3
  have hcv := hfresh r c hcn hs hf hc
  induction hu with
  | refl c => exact hcv
  | step n m c hm _ ih =>
    have hmv := ih hc hcv
    cases hn : (Reactive.getNode s n).invalidated with
    | false => rfl
    | true =>
      have := hclosed n m hn hm
      rw [hmv] at this; cases this

/-! ### Cleanup -/

/-- **a cleanup handler never runs twice**, and has run exactly once as soon as the node is
released, whichever of `handleRelease` and `release` came first -/
theorem cleanup_once (ls : List Release.Label) (s : Release.St) (h : Release.run Release.init ls = some s) (n : Nat) :
    (Release.getNode s n).fired = if (Release.getNode s n).handler && (Release.getNode s n).released then 1 else 0 :=
  (Release.inv_reachable ls s h).firedOnce n

/-- an edge to a released dependant is always on its way out -/
theorem released_edges_are_dropped (ls : List Release.Label) (s : Release.St) (h : Release.run Release.init ls = some s)
    (n m : Nat) (hm : m ∈ (Release.getNode s n).out) :
    (Release.getNode s m).released = false ∨ (n, m) ∈ s.pendEdge :=
  (Release.inv_reachable ls s h).edgeLive n m hm

/-- **Every resource is released once its last user is gone**: at quiescence (no release in
flight) a node that was ever registered (`addOut`) and whose dependants are all released has
itself been released, and its cleanup handler has run exactly once. -/
theorem quiescent_cleanup_exactly_once (ls : List Release.Label) (s : Release.St) (h : Release.run Release.init ls = some s)
    (q1 : s.pendRel = []) (q2 : s.pendEdge = []) (n : Nat)
    (hev : (Release.getNode s n).everOut = true) (hh : (Release.getNode s n).handler = true)
    (hall : ∀ m ∈ (Release.getNode s n).out, (Release.getNode s m).released = true) :
    (Release.getNode s n).released = true ∧ (Release.getNode s n).fired = 1 := by
  have inv := Release.inv_reachable ls s h
  have hout : (Release.getNode s n).out = [] := by
    cases ho : (Release.getNode s n).out with
    | nil => rfl
    | cons m rest =>
      have hm : m ∈ (Release.getNode s n).out := by rw [ho]; simp
      rcases inv.edgeLive n m hm with h1 | h1
      · rw [hall m hm] at h1; cases h1
      · rw [q2] at h1; cases h1
  have hrel : (Release.getNode s n).released = true := by
    cases hr : (Release.getNode s n).released with
    | true => rfl
    | false =>
      rcases inv.refZero n hev hr with h1 | h1
      · exact absurd hout h1
      · rw [q1] at h1; cases h1
  refine ⟨hrel, ?_⟩
  rw [inv.firedOnce n, hh, hrel]; rfl

/-- a node with a live dependant is never released behind its back: at quiescence every edge
points to a live node -/
theorem quiescent_edges_live (ls : List Release.Label) (s : Release.St) (h : Release.run Release.init ls = some s)
    (q2 : s.pendEdge = []) (n m : Nat) (hm : m ∈ (Release.getNode s n).out) :
    (Release.getNode s m).released = false := by
  rcases (Release.inv_reachable ls s h).edgeLive n m hm with h1 | h1
  · exact h1
  · rw [q2] at h1; cases h1

/-- **The release of a node is only ever decided when nothing depends on it**: whichever step commits to
releasing a node - a call by the rerunner (superseded or stopped or failed computation), a registration on an
already released dependant, the last dependant going away - the node has no dependant at that moment. A
dependant that registers between the decision and the release itself is invalidated by the release (C04's
invariant: a released node is invalidated), which is the one case in which a cleanup runs before its latest
dependant is superseded. -/
theorem cleanup_decided_only_when_unused (s s' : Release.St) (l : Release.Label) (h : Release.step s l = some s') (n : Nat)
    (hn : n ∈ s'.pendRel) (ho : n ∉ s.pendRel) : (Release.getNode s' n).out = [] :=
  Release.release_decided_only_when_unused s s' l h n hn ho

/-- the model of the rerunner refuses to release a node that something depends on (a cached computation a
current run uses, say): such a call by the implementation is not a step of the model -/
theorem rerunner_never_releases_used_node (s : Release.St) (n : Nat) (h : (Release.getNode s n).out ≠ []) :
    Release.step s (.callRelease n) = none := by
  simp [Release.step, h]

/-! ### non-vacuity: a resource shared by two computations is released when the second one goes -/
def exTrace : List Release.Label :=
  [.newNode, .newNode, .newNode, .handleRelease 0, .addOut 0 1, .addOut 0 2,
   .callRelease 1, .relCS 1, .relEdge 0 1, .callRelease 2, .relCS 2, .relEdge 0 2, .relCS 0]

theorem ex_released : ∃ s, Release.run Release.init exTrace = some s ∧ s.pendRel = [] ∧ s.pendEdge = [] ∧
    (Release.getNode s 0).released = true ∧ (Release.getNode s 0).fired = 1 := by
  refine ⟨_, rfl, ?_, ?_, ?_, ?_⟩ <;> decide

end TM.Properties.C08
