import ThunderProofs.Fed.Normalize
import ThunderModel.Fed.Keys
/-!
# C06 — Federation is transparent: the gateway answers like one combined server

Model: `ThunderModel/Fed/Gateway.lean` (normalized, union-free queries over a store in which an
object is its type and federated key).
-/
namespace TM.Properties.C06
open TM.Fed.Gateway

/-- **The stitched answer is the combined server's.**  For every distribution of fields over
services (`owners`), every custom selector, every way of picking a service when the current one
cannot serve a field (a function of the selection: Go's map order may pick differently per
selection), every starting service, store, object and normalized query: the object the gateway
assembles — the fields kept by the current service, then the fields fetched from each other
service for the same key, `_federation` removed — is, as a JSON object (a map from response keys
to values), exactly what the combined server returns.  In particular the answer does not depend
on the partition or on the services chosen. -/
theorem gateway_eq_monolith_stitched (σ : Sch) (st : Store) (qs : List Q) (hn : Norm qs) (svc : Nat) (r : Ref) :
    den (dropFed (.obj (fusedBody σ st svc qs r))) = den (.obj (evalSels st qs r)) :=
  fused_eq_monolith σ st qs hn svc r

/-- two gateways over different partitions / selectors / picks give the same answer -/
theorem partition_independent (σ σ' : Sch) (st : Store) (qs : List Q) (hn : Norm qs) (svc svc' : Nat) (r : Ref) :
    den (dropFed (.obj (fusedBody σ st svc qs r))) = den (dropFed (.obj (fusedBody σ' st svc' qs r))) := by
  rw [fused_eq_monolith σ st qs hn svc r, fused_eq_monolith σ' st qs hn svc' r]

/-- **The gateway answers like the combined server** (normalized, union-free queries).  Plan the
query for the current service (`planObject`: local selections, a `_federation` key selection,
one sub-plan per other chosen service, the children's sub-plans lifted with their path), execute
the plan tree the way `Executor.execute` does — run the sub-query for all keys at once, for every
sub-plan extract the keys along its path in traversal order, execute it, stitch result `i` into
target `i` — and delete the `_federation` keys: the result is, as JSON, the combined server's
answer.  For every partition of fields over services, selector, per-selection pick, store whose
field values respect the schema's field types (`WT`), object and normalized query, of any depth
and width, through null links and lists with null elements. -/
theorem gateway_eq_monolith (σ : Sch) (st : Store) (wt : WT σ st) (qs : List Q) (hn : Norm qs) (svc : Nat) (r : Ref) :
    den (gateway σ st svc r qs) = den (.obj (evalSels st qs r)) := by
  rw [gateway_eq_fused σ st wt qs hn svc r]
  exact fused_eq_monolith σ st qs hn svc r

/-- the plan's execution for a list of keys is, key by key, the object-by-object form: result `i`
belongs to key `i` -/
theorem exec_pointwise (σ : Sch) (st : Store) (wt : WT σ st) (qs : List Q) (hn : Norm qs) (svc t : Nat)
    (path : List Nat) (keys : List Int) :
    exec st (.mk path svc t (planBody σ svc t qs).1 (planBody σ svc t qs).2) keys =
      keys.map fun k => .obj (fusedBody σ st svc qs ⟨t, k⟩) :=
  exec_eq_fused σ st wt qs hn svc t path keys

/-- **Objects reached through a hop are matched back to the right parent**: when result `i` is the
answer for key `i` (whatever function `h` of the key), stitching along a path hands every target
object the answer for its own key — through lists, null elements and nested objects — and
consumes exactly the results of the keys it extracted. -/
theorem extract_stitch_aligned (h : Int → R) (xs : List R) (p : List Nat) (more : List R) :
    stitchL xs p ((extractL xs p).map h ++ more) = (applyAtL h xs p, more) :=
  stitchL_pointwise h xs p more

/-- **The normalizer keeps the answer**: the combined server's answer to the normalized query
(fragments whose type condition applies inlined recursively, `@skip` / `@include` applied per
selection and per fragment, selections with the same response key merged with all their
sub-selections and fragments, keys sorted) is its answer to the raw query — at every depth, for
every repetition of aliases and fragments. -/
theorem normalize_keeps_answer (applies : Nat → Nat → Bool) (child : Nat → Nat → Option Nat) (st : Store)
    (wt : WTc child st) (fuel : Nat) (s : RSet) (r : Ref) :
    den (.obj (evalSels st (normalize applies child fuel r.t s) r)) = den (.obj (evalRaw applies st fuel s r)) := by
  simp only [den]
  rw [normalize_correct applies child st wt fuel s r]

/-- the normalizer's output is normalized: one selection per response key at every level, no
`_federation` keys or fields (given none in the raw query) -/
theorem normalize_is_normalized (applies : Nat → Nat → Bool) (child : Nat → Nat → Option Nat) (fuel t : Nat)
    (s : RSet) (hs : okSet s) : Norm (normalize applies child fuel t s) :=
  normalize_norm applies child fuel t s hs

/-- **End to end on raw queries** (object types): normalize, plan, execute the plan tree, delete
the keys — the combined server's answer to the raw query. -/
theorem gateway_eq_monolith_raw (σ : Sch) (st : Store) (wt : WT σ st) (applies : Nat → Nat → Bool)
    (fuel : Nat) (s : RSet) (hs : okSet s) (svc : Nat) (r : Ref) :
    den (gateway σ st svc r (normalize applies σ.child fuel r.t s)) = den (.obj (evalRaw applies st fuel s r)) := by
  rw [gateway_eq_monolith σ st wt _ (normalize_norm applies σ.child fuel r.t s hs) svc r]
  exact normalize_keeps_answer applies σ.child st ⟨wt.ref, wt.refs, wt.scalar⟩ fuel s r

/-! ### the normalizer before the repairs (C06-2, C06-3) -/

def leaf (a : Nat) (incl : Bool) : RSel := .mk a a incl (.mk [] [])

/-- C06-2: `{ b1 @skip(if: true)  b1 }` — before, the first occurrence's directive decided for both and the field was lost -/
theorem old_first_directive_decides :
    (normalizeOld (fun _ _ => true) (fun _ _ => none) 1 10 (.mk [leaf 5 false, leaf 5 true] [])).map Q.alias = [] ∧
    (normalize (fun _ _ => true) (fun _ _ => none) 1 10 (.mk [leaf 5 false, leaf 5 true] [])).map Q.alias = [5] := by
  constructor <;> rfl

/-- C06-3: `{ a { y }  a { x { p }  x { q } } }` — before, of the later occurrence only the first `x` was kept and `q` was lost -/
theorem old_dedup_loses_subselection :
    let raw : RSet := .mk [.mk 3 3 true (.mk [leaf 4 true] []),
                           .mk 3 3 true (.mk [.mk 6 6 true (.mk [leaf 7 true] []), .mk 6 6 true (.mk [leaf 8 true] [])] [])] []
    let child : Nat → Nat → Option Nat := fun _ n => if n = 3 ∨ n = 6 then some 11 else none
    let kidsOfX (l : List Q) : List (List Nat) :=
      l.flatMap fun a => a.kids.filterMap fun x => if x.alias = 6 then some (x.kids.map Q.alias) else none
    kidsOfX (normalizeOld (fun _ _ => true) child 3 10 raw) = [[7]] ∧
    kidsOfX (normalize (fun _ _ => true) child 3 10 raw) = [[7, 8]] := by
  constructor <;> rfl

/-- what the planner may assume of its schema: a custom selector and the fallback pick name services that expose the field -/
def Sch.WF (σ : Sch) : Prop :=
  (∀ t n c, σ.custom t n = some c → c ∈ σ.owners t n) ∧ (∀ t q, σ.pick t q ∈ σ.owners t q.name)

theorem planSel_name (σ : Sch) (svc t : Nat) (q : Q) : (planSel σ svc t q).1.name = q.name := by
  cases q with
  | sel a n kids => simp only [planSel]; split <;> rfl

/-- **Every selection handed to a service is one that service exposes** (or `__typename`), as long
as the current service is itself the one chosen or exposes the field: the selections `planSels`
collects for service `want`. -/
theorem planSels_owned (σ : Sch) (wf : Sch.WF σ) (cur t want : Nat) : ∀ (qs : List Q),
    ∀ x ∈ (planSels σ cur t want qs).1, x.name = TYPENAME ∨ want ∈ σ.owners t x.name
  | [], x, hx => by simp [planSels] at hx
  | q :: qs, x, hx => by
    rw [planSels] at hx
    by_cases hc : σ.choose t cur q = want
    · simp only [hc, if_true, List.mem_cons] at hx
      rcases hx with rfl | hx
      · rw [planSel_name]
        by_cases hn : q.name = TYPENAME
        · exact Or.inl hn
        · right
          unfold Sch.choose at hc
          simp only [hn, if_false] at hc
          cases hcu : σ.custom t q.name with
          | some c => rw [hcu] at hc; simp only at hc; rw [← hc]; exact wf.1 t q.name c hcu
          | none =>
            rw [hcu] at hc; simp only at hc
            by_cases ho : (σ.owners t q.name).contains cur = true
            · simp only [ho, if_true] at hc; rw [← hc]; simpa using ho
            · simp only [ho] at hc; rw [← hc]; exact wf.2 t q
      · exact planSels_owned σ wf cur t want qs x hx
    · simp only [hc, if_false] at hx
      exact planSels_owned σ wf cur t want qs x hx

/-! ### non-vacuity: a two-service split with a hop through a list with a null element -/

def σ0 : Sch := {
  owners := fun _ n => if n = 5 then [2] else [1]
  custom := fun _ _ => none
  pick := fun _ q => if q.name = 5 then 2 else 1
  child := fun t n => if t = 10 ∧ n = 3 then some 11 else none }

def st0 : Store := fun r n =>
  if r.t = 10 ∧ n = 3 then .refs [some ⟨11, 7⟩, none, some ⟨11, 8⟩]
  else if r.t = 11 ∧ n = 4 then .sc (r.k * 10)
  else if r.t = 11 ∧ n = 5 then .sc (r.k * 100)
  else .null

def q0 : List Q := [.sel 3 3 [.sel 4 4 [], .sel 5 5 []]]

/-- the literal execution (plan, extract keys along the path, stitch by position) on this example:
field 4 comes from service 1, field 5 from service 2, matched to the right parents around the null -/
example : gateway σ0 st0 1 ⟨10, 0⟩ q0 =
    .obj [(3, .arr [.obj [(4, .sc 70), (5, .sc 700)], .null, .obj [(4, .sc 80), (5, .sc 800)]])] := by
  rfl

example : Norm q0 := by
  refine ⟨by decide, ?_⟩
  simp [q0, normL, normQ, aliases, FED]

/-- the example store respects the example schema: the hypotheses of `gateway_eq_monolith` are satisfiable with content -/
example : WT σ0 st0 := by
  constructor
  · intro r n r' h
    unfold st0 at h
    split at h
    · cases h
    · split at h
      · cases h
      · split at h <;> cases h
  · intro r n rs r' h hm
    unfold st0 at h
    split at h
    · rename_i hc
      injection h with h
      subst h
      simp only [List.mem_cons, Option.some.injEq, List.mem_nil_iff, or_false] at hm
      simp only [σ0, hc, and_self, if_true]
      rcases hm with rfl | h2 | rfl
      · rfl
      · cases h2
      · rfl
    · split at h
      · cases h
      · split at h <;> cases h
  · intro r n hc
    unfold st0
    split
    · rename_i h1
      simp [σ0, h1] at hc
    · split
      · exact Or.inr ⟨_, rfl⟩
      · split
        · exact Or.inr ⟨_, rfl⟩
        · exact Or.inl rfl

/-! ### the key fields fetched for a hop (`ThunderModel/Fed/Keys.lean`) -/

open TM.Fed in
/-- **Every service of a hop is handed every key field it declares**: the key selection of a hop contains each
field that any of the services hopped to declares as a key of the object. -/
theorem key_selection_covers (fields : List Nat) (isKey : Nat → Nat → Bool) (targets : List Nat) (s f : Nat)
    (hs : s ∈ targets) (hf : f ∈ fields) (hk : isKey s f = true) : f ∈ Keys.keySel fields isKey targets :=
  List.mem_filter.mpr ⟨hf, List.any_eq_true.mpr ⟨s, hs, hk⟩⟩

open TM.Fed in
/-- ... and nothing else: only fields of the object that some service of the hop declares (so that the
sub-query of the service hopped from only uses key fields), in the order of the object's fields -/
theorem key_selection_only_keys (fields : List Nat) (isKey : Nat → Nat → Bool) (targets : List Nat) :
    (∀ f ∈ Keys.keySel fields isKey targets, f ∈ fields ∧ ∃ s ∈ targets, isKey s f = true) ∧
      (Keys.keySel fields isKey targets).Sublist fields := by
  refine ⟨?_, List.filter_sublist⟩
  intro f hf
  obtain ⟨h1, h2⟩ := List.mem_filter.mp hf
  exact ⟨h1, List.any_eq_true.mp h2⟩

open TM.Fed in
/-- **Taking the key fields from the first service of a hop only loses a key another one needs**: service 1
finds the object from field 2 alone, service 2 needs fields 2 and 3. -/
theorem first_target_only_misses_key :
    ∃ (fields : List Nat) (isKey : Nat → Nat → Bool) (targets : List Nat) (s f : Nat), s ∈ targets ∧ f ∈ fields ∧
      isKey s f = true ∧ f ∉ Keys.keySelFirst fields isKey targets ∧ Keys.keySel fields isKey targets = [2, 3] :=
  ⟨[2, 3, 4], fun s f => (s == 1 && f == 2) || (s == 2 && (f == 2 || f == 3)), [1, 2], 2, 3,
    by decide, by decide, by decide, by decide, by decide⟩

end TM.Properties.C06
