import ThunderProofs.Fed.Fused
/-!
# C06 — Federation is transparent: the gateway answers like one combined server

Model: `ThunderModel/Fed/Gateway.lean` (normalized, union-free queries over a store in which an
object is its type and federated key).
-/
namespace TM.Properties.C06
open TM.Fed.Gateway

/-- **The stitched answer is the combined server's.**  For every distribution of fields over
services (`owners`), every custom selector, every way of picking a service when the current one
cannot serve a field (a function of the selection: Go's map order may pick differently per
selection), every starting service, store, object and normalized query: the object the gateway
assembles — the fields kept by the current service, then the fields fetched from each other
service for the same key, `_federation` removed — is, as a JSON object (a map from response keys
to values), exactly what the combined server returns.  In particular the answer does not depend
on the partition or on the services chosen. -/
theorem gateway_eq_monolith_stitched (σ : Sch) (st : Store) (qs : List Q) (hn : Norm qs) (svc : Nat) (r : Ref) :
    den (dropFed (.obj (fusedBody σ st svc qs r))) = den (.obj (evalSels st qs r)) :=
  fused_eq_monolith σ st qs hn svc r

/-- two gateways over different partitions / selectors / picks give the same answer -/
theorem partition_independent (σ σ' : Sch) (st : Store) (qs : List Q) (hn : Norm qs) (svc svc' : Nat) (r : Ref) :
    den (dropFed (.obj (fusedBody σ st svc qs r))) = den (dropFed (.obj (fusedBody σ' st svc' qs r))) := by
  rw [fused_eq_monolith σ st qs hn svc r, fused_eq_monolith σ' st qs hn svc' r]

/-- what the planner may assume of its schema: a custom selector and the fallback pick name services that expose the field -/
def Sch.WF (σ : Sch) : Prop :=
  (∀ t n c, σ.custom t n = some c → c ∈ σ.owners t n) ∧ (∀ t q, σ.pick t q ∈ σ.owners t q.name)

theorem planSel_name (σ : Sch) (svc t : Nat) (q : Q) : (planSel σ svc t q).1.name = q.name := by
  cases q with
  | sel a n kids => simp only [planSel]; split <;> rfl

/-- **Every selection handed to a service is one that service exposes** (or `__typename`), as long
as the current service is itself the one chosen or exposes the field: the selections `planSels`
collects for service `want`. -/
theorem planSels_owned (σ : Sch) (wf : Sch.WF σ) (cur t want : Nat) : ∀ (qs : List Q),
    ∀ x ∈ (planSels σ cur t want qs).1, x.name = TYPENAME ∨ want ∈ σ.owners t x.name
  | [], x, hx => by simp [planSels] at hx
  | q :: qs, x, hx => by
    rw [planSels] at hx
    by_cases hc : σ.choose t cur q = want
    · simp only [hc, if_true, List.mem_cons] at hx
      rcases hx with rfl | hx
      · rw [planSel_name]
        by_cases hn : q.name = TYPENAME
        · exact Or.inl hn
        · right
          unfold Sch.choose at hc
          simp only [hn, if_false] at hc
          cases hcu : σ.custom t q.name with
          | some c => rw [hcu] at hc; simp only at hc; rw [← hc]; exact wf.1 t q.name c hcu
          | none =>
            rw [hcu] at hc; simp only at hc
            by_cases ho : (σ.owners t q.name).contains cur = true
            · simp only [ho, if_true] at hc; rw [← hc]; simpa using ho
            · simp only [ho] at hc; rw [← hc]; exact wf.2 t q
      · exact planSels_owned σ wf cur t want qs x hx
    · simp only [hc, if_false] at hx
      exact planSels_owned σ wf cur t want qs x hx

/-! ### non-vacuity: a two-service split with a hop through a list with a null element -/

def σ0 : Sch := {
  owners := fun _ n => if n = 5 then [2] else [1]
  custom := fun _ _ => none
  pick := fun _ q => if q.name = 5 then 2 else 1
  child := fun t n => if t = 10 ∧ n = 3 then some 11 else none }

def st0 : Store := fun r n =>
  if r.t = 10 ∧ n = 3 then .refs [some ⟨11, 7⟩, none, some ⟨11, 8⟩]
  else if r.t = 11 ∧ n = 4 then .sc (r.k * 10)
  else if r.t = 11 ∧ n = 5 then .sc (r.k * 100)
  else .null

def q0 : List Q := [.sel 3 3 [.sel 4 4 [], .sel 5 5 []]]

/-- the literal execution (plan, extract keys along the path, stitch by position) on this example:
field 4 comes from service 1, field 5 from service 2, matched to the right parents around the null -/
example : gateway σ0 st0 1 ⟨10, 0⟩ q0 =
    .obj [(3, .arr [.obj [(4, .sc 70), (5, .sc 700)], .null, .obj [(4, .sc 80), (5, .sc 800)]])] := by
  rfl

example : Norm q0 := by
  refine ⟨by decide, ?_⟩
  simp [q0, normL, normQ, aliases, FED]

end TM.Properties.C06
