import ThunderProofs.Sql.Codec
/-!
# C13 — Row codec round trip

Model: `ThunderModel/Sql/Codec.lean` (`internal/fields/sql.go`, `sqlgen/reflect.go`,
`livesql/marshal.go`, `livesql/binlog.go`); lemmas in `ThunderProofs/Sql/Codec.lean`.
-/
namespace TM.Properties.C13
open TM.Codec

/-- **Column round trip** for every descriptor (all integer widths and signedness, bool, float,
string, bytes, time, encoded fields; pointer or not; `implicitnull` or not), every value of it and
every source representation of the stored SQL value (`int64` / text / typed binlog integers …). -/
theorem scan_value (r : Rep) (d : Desc) (v : FV) (wd : WFDesc d) (wv : WFVal d v) :
    scan d (repr r d (value d v)) = .ok v :=
  TM.Codec.scan_value r d v wd wv

/-- **Struct round trip**: `BuildStruct (UnbuildStruct s) = s` (and `parseBinlogRow`, `parseQueryRow`)
for every table shape and row. -/
theorem build_unbuild (r : Rep) (ds : List Desc) (vs : List FV) (w : WFRow ds vs) :
    build r ds (unbuild ds vs) = .ok vs :=
  TM.Codec.build_unbuild r ds vs w

/-- a row of the wrong length is rejected, never mis-assigned -/
theorem build_wrong_length (r : Rep) (ds : List Desc) (row : List DV) (h : ds.length ≠ row.length) :
    build r ds row = .error .coerce := by
  simp [build, h]

/-- **A filter made from a row's own column values matches that row** (a NaN float excepted). -/
theorem tester_reflexive (cols : List Desc) (row : List FV) (h : ∀ v ∈ row, v ≠ .val (.f nanTok)) :
    test cols row row = true :=
  test_self cols row h

/-- **Filter through protobuf**: rejected, or same driver value … -/
theorem proto_roundtrip (d : Desc) (x : FV) (wd : WFDesc d) (hs : Shippable d x) :
    (∃ e, viaProto d x = .error e) ∨ (∃ y, viaProto d x = .ok y ∧ value d y = value d x) :=
  viaProto_same d x wd hs

/-- … hence exactly the same rows match before and after shipping. -/
theorem proto_same_rows (d : Desc) (x y : FV) (wd : WFDesc d) (hs : Shippable d x)
    (hy : viaProto d x = .ok y) (rowv : FV) :
    test [d] [y] [rowv] = test [d] [x] [rowv] := by
  rcases proto_roundtrip d x wd hs with ⟨e, he⟩ | ⟨y', hy', hv⟩
  · rw [he] at hy; cases hy
  · rw [hy'] at hy; injection hy with hy; subst hy
    simp [test, hv]

/-- Outside `Shippable` the claim fails — recorded as a boundary of the property's domain, with
the witness: an `int64` filter value `300` on a `uint8` column matches no row locally (a `uint8`
is never 300) but arrives as `44` on the other side. -/
theorem proto_out_of_range_witness :
    viaProto ⟨.int ⟨.w8, false⟩, false, false⟩ (.val (.i i64 300)) = .ok (.val (.i ⟨.w8, false⟩ 44)) := by
  simp [viaProto, value, protoWire, srcOfDV, scan, toInt64, Except.map, wrap, Width.pow, Base.isZero, i64]

/-- Non-vacuity: a row over a `uint64` column at its maximum, a nil pointer, an implicit NULL and
a nil byte slice is well formed, and its driver values are what MySQL is sent. -/
example :
    let ds : List Desc := [⟨.int ⟨.w64, false⟩, false, false⟩, ⟨.str, true, false⟩, ⟨.int ⟨.w32, true⟩, false, true⟩, ⟨.bytes, false, false⟩]
    let vs : List FV := [.val (.i ⟨.w64, false⟩ 18446744073709551615), .nil, .val (.i ⟨.w32, true⟩ 0), .nil]
    WFRow ds vs ∧ unbuild ds vs = [.int (-1), .null, .null, .null] := by
  refine ⟨?_, by decide⟩
  simp [WFRow, WFDesc, WFVal, inRange, Width.pow]

end TM.Properties.C13
