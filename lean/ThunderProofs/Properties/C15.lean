import ThunderProofs.Cost.Bomb
import ThunderProofs.OneShot.Live
import ThunderProofs.Properties.C16
/-!
# C15 — Untrusted input never crashes the server; panics stay contained; cancellation returns

Models: `ThunderModel/Cost.lean` (traversals of the selection DAG with and without memoisation),
`ThunderModel/OneShot.lean` (handler / rerunner / cancellation protocol of one-shot requests),
`ThunderModel/Gql/Exec.lean` (a panicking resolver is a failing resolver: `Val.fail`).
The byte-level front end (lexer, JSON decoding) is exercised by the tie, not modelled.
-/
namespace TM.Properties.C15
open TM

/-! ### Cost: repeated fragment spreads do not blow up -/

/-- **with memoisation the traversal of any selection DAG expands every node at most once** -/
theorem memo_cost_linear (g : Cost.Graph) (wf : Cost.WF g) (fuel root : Nat) (hr : root < g.length) :
    Cost.memoCost g fuel root ≤ g.length := Cost.memo_bound g wf fuel root hr

/-- without memoisation the same traversal is exponential on the fragment bomb (what the code
did before the repairs) -/
theorem naive_cost_exponential (n k : Nat) : Cost.naive (Cost.bomb n) (n + 1 + k) 0 = 2 ^ (n + 1) - 1 :=
  Cost.naive_bomb n k

/-- … while the memoised traversal of the bomb is linear in its size -/
theorem memo_cost_bomb (n fuel : Nat) : Cost.memoCost (Cost.bomb n) fuel 0 ≤ n + 1 := Cost.memo_bomb n fuel

/-! ### Cancellation: a one-shot request returns -/

open OneShot in
/-- **the handler of a one-shot request is never stuck**, whenever the context is cancelled
(before the rerunner's first run, during it, after it): in every reachable state in which it has
not returned, a step of the system itself is enabled -/
theorem oneshot_never_stuck (ls : List OneShot.Label) (s : OneShot.St) (h : run true init ls = some s)
    (hn : s.handler ≠ .returned) : canProgress true s = true :=
  progress_repaired s (inv_run true ls init s inv_init h) hn

open OneShot in
/-- every schedule is finite: each step decreases a measure bounded by 5 -/
theorem oneshot_terminates (rep : Bool) (s s' : OneShot.St) (l : OneShot.Label) (hs : step rep s l = some s') :
    OneShot.measure s' < OneShot.measure s := step_decreases rep s s' l hs

open OneShot in
/-- the defect repaired in `ServeHTTP` and `ExecuteRequest`: without waking up on cancellation, a
request cancelled before the rerunner's first look at the context blocks forever -/
theorem oneshot_old_can_hang :
    ∃ s, run false init [.cancel, .sched] = some s ∧ s.handler = .waiting ∧ canProgress false s = false := by
  refine ⟨⟨true, .abandoned, .waiting⟩, by decide, rfl, by decide⟩

open OneShot in
/-- non-vacuity: the repaired handler returns in the same situation -/
theorem oneshot_example :
    run true init [.cancel, .sched, .wake, .stopped] = some ⟨true, .abandoned, .returned⟩ := by decide

/-! ### A panicking resolver fails only its own request -/

/-- a resolver panic is an error of that request: it yields an error and no data (C16) -/
theorem panic_fails_request (σ : Gql.Schema) (fuel root : Nat) (rootVal : Gql.Val) (q : Gql.SelSet) (e : Gql.Err)
    (h : Gql.reference σ fuel root rootVal q = .error e) : ∃ e', Gql.execute σ fuel root rootVal q = .error e' :=
  C16.failing_resolver_fails_query σ fuel root rootVal q e h

end TM.Properties.C15
