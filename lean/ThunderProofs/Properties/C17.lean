import ThunderProofs.Conn.Step
/-!
# C17 — Connection lifecycle: every subscription ends exactly once and stops for good

Model: `ThunderModel/Conn.lean` (`graphql/server.go`): the `subscriptions` map under `conn.mu`,
subscribe / mutate / unsubscribe messages with arbitrary, colliding ids, deferred
`go c.closeSubscription(id)` tasks, outcomes of rerunner runs, socket close, logger calls.
`repaired` is the code after the repairs recorded in known_findings.json; `old` the code before.
-/
namespace TM.Properties.C17
open TM.Conn

/-- **no orphans**: every rerunner that can still run is reachable from `conn.subscriptions`, so
an unsubscribe or the connection close can stop it -/
theorem no_orphans (ls : List Label) (s : St) (m : Nat) (h : run (repairedWith m) init ls = some s) :
    ∀ rid, alive s rid = true → ∃ e ∈ s.subs, e.rid = rid :=
  (inv_reachable m ls s h).tracked

/-- **a subscription never ends twice**: the logger never sees two `Unsubscribe` for one rerunner -/
theorem never_ends_twice (ls : List Label) (s : St) (m : Nat) (h : run (repairedWith m) init ls = some s) (id rid : Nat) :
    s.log.count (Ev.U id rid) ≤ 1 :=
  (inv_reachable m ls s h).uOnce id rid

/-- **every accepted subscription ends exactly once**: once nothing is registered any more (in
particular after the connection closed), every `Subscribe(id)` the logger saw is matched by
exactly one `Unsubscribe(id)` of the same subscription -/
theorem ends_exactly_once (ls : List Label) (s : St) (m : Nat) (h : run (repairedWith m) init ls = some s) (hc : s.subs = [])
    (id rid : Nat) (hs : Ev.S id rid ∈ s.log) : s.log.count (Ev.U id rid) = 1 := by
  have inv := inv_reachable m ls s h
  rcases inv.sPair id rid hs with h1 | h1
  · rw [hc] at h1; cases h1
  · have := List.count_pos_iff.mpr h1
    have := inv.uOnce id rid
    omega

/-! #### what the subscription logger is told (`seen`): subscriptions only -/

/-- **no Unsubscribe without its Subscribe**: the logger is never told that something ended which it
was not told had begun (a mutation, which is kept in the same map, ends without a word) -/
theorem unsub_has_sub (log : List Ev) (id rid : Nat) (h : Ev.U id rid ∈ seen log) : Ev.S id rid ∈ seen log := by
  simp only [seen, List.mem_filter, keptBy] at h ⊢
  have hs : Ev.S id rid ∈ log := by simpa using h.2
  exact ⟨hs, trivial⟩

theorem seen_S (log : List Ev) (id rid : Nat) : Ev.S id rid ∈ seen log ↔ Ev.S id rid ∈ log := by
  simp [seen, keptBy]

theorem seen_count_U (log : List Ev) (id rid : Nat) (hs : Ev.S id rid ∈ log) :
    (seen log).count (Ev.U id rid) = log.count (Ev.U id rid) := by
  have hk : keptBy log (Ev.U id rid) = true := by simpa [keptBy] using hs
  simp [seen, List.count_filter, hk]

/-- **every Subscribe the logger saw is matched by exactly one Unsubscribe** once nothing is
registered any more -/
theorem ends_exactly_once_as_logged (ls : List Label) (s : St) (m : Nat) (h : run (repairedWith m) init ls = some s)
    (hc : s.subs = []) (id rid : Nat) (hs : Ev.S id rid ∈ seen s.log) : (seen s.log).count (Ev.U id rid) = 1 := by
  have hs' := (seen_S s.log id rid).mp hs
  rw [seen_count_U s.log id rid hs']
  exact ends_exactly_once ls s m h hc id rid hs'

/-- the logger never sees two Unsubscribe for one subscription -/
theorem never_ends_twice_as_logged (ls : List Label) (s : St) (m : Nat) (h : run (repairedWith m) init ls = some s)
    (id rid : Nat) : (seen s.log).count (Ev.U id rid) ≤ 1 := by
  have h1 : (seen s.log).count (Ev.U id rid) ≤ s.log.count (Ev.U id rid) := by
    simp only [seen]; exact List.Sublist.count_le _ List.filter_sublist
  exact Nat.le_trans h1 (never_ends_twice ls s m h id rid)

/-- the code before the repair C17-4 reported the end of a mutation: subscribe 1, unsubscribe 1,
mutate 1 (which runs and is removed) - the logger saw Subscribe(1), Unsubscribe(1), Unsubscribe(1) -/
theorem old_mutation_reported_as_ended :
    (run repaired init [.subscribe 1 true, .closeSub 1 none, .mutate 1 true, .runOk 1, .closeSub 1 (some 1)]).map
      (fun s => (s.log, seen s.log)) = some ([Ev.S 1 0, Ev.U 1 0, Ev.U 1 1], [Ev.S 1 0, Ev.U 1 0]) := by decide

/-- a subscription that is still registered has not been reported as ended -/
theorem open_while_registered (ls : List Label) (s : St) (m : Nat) (h : run (repairedWith m) init ls = some s) (id rid : Nat)
    (e : Entry) (he : e ∈ s.subs) (hr : e.rid = rid) : Ev.U id rid ∉ s.log := by
  intro hm
  exact (inv_reachable m ls s h).uGone id rid hm e he hr

/-- after the connection closed nothing is alive: no resolver runs again, nothing is written -/
theorem closed_all_stopped (ls : List Label) (s : St) (m : Nat) (h : run (repairedWith m) init ls = some s) (hc : s.subs = []) :
    ∀ rid, alive s rid = false := by
  intro rid
  cases ha : alive s rid with
  | false => rfl
  | true =>
    obtain ⟨e, he, _⟩ := no_orphans ls s m h rid ha
    rw [hc] at he; cases he

/-- **stops for good**: a rerunner that was stopped never runs (and so never writes) again -/
theorem quiet_after_end (cfg : Cfg) (s : St) (rid : Nat) (h : rid ∈ s.stopped) :
    step cfg s (.runOk rid) = none ∧ step cfg s (.runFail rid) = none := by
  have : alive s rid = false := by simp [alive, h]
  simp [step, this]

/-- **the duplicate-id rule**: no two registered rerunners share an id, whatever the message order -/
theorem ids_unique (ls : List Label) (s : St) (m : Nat) (h : run (repairedWith m) init ls = some s) :
    (s.subs.map (·.id)).Nodup := (inv_reachable m ls s h).ids

/-- **the subscription limit** -/
theorem limit_respected (ls : List Label) (s : St) (m : Nat) (h : run (repairedWith m) init ls = some s) :
    (s.subs.filter fun e => e.kind = .sub).length ≤ m := (inv_reachable m ls s h).limit

/-! ### The histories that went wrong before the repairs (each replayed on the old code by the tie) -/

/-- connection close did not report `Unsubscribe` -/
theorem old_close_unpaired :
    (run old init [.subscribe 1 true, .sockClose]).map (fun s => s.log) = some [Ev.S 1 0] := by decide

/-- a `mutate` reusing a live subscription's id orphaned that subscription's rerunner: after the
unsubscribe it is still alive and nothing refers to it -/
theorem old_mutate_orphans :
    (run old init [.subscribe 1 true, .mutate 1 true, .closeSub 1 none]).map orphans = some [0] := by decide

/-- the deferred close of a failed subscription closed a newer subscription with the same id -/
theorem old_deferred_kills_newer :
    (run old init [.subscribe 1 true, .runFail 0, .closeSub 1 none, .subscribe 1 true, .closeSub 1 (some 0)]).map
      (fun s => (s.subs.length, s.stopped.contains 1)) = some (0, true) := by decide

/-! ### non-vacuity: the same histories after the repairs -/
theorem repaired_close_paired :
    (run repaired init [.subscribe 1 true, .sockClose]).map (fun s => s.log) = some [Ev.S 1 0, Ev.U 1 0] := by decide

theorem repaired_mutate_rejected :
    (run repaired init [.subscribe 1 true, .mutate 1 false, .closeSub 1 none]).map orphans = some [] := by decide

theorem repaired_deferred_spares_newer :
    (run repaired init [.subscribe 1 true, .runFail 0, .closeSub 1 none, .subscribe 1 true, .closeSub 1 (some 0)]).map
      (fun s => (s.subs.length, s.stopped.contains 1)) = some (1, false) := by decide

end TM.Properties.C17
