import ThunderProofs.Limiter.Account
/-!
# C20 — Concurrency limiter

Model: `ThunderModel/Limiter.lean` (`concurrencylimiter/concurrencylimiter.go`, repaired
protocol).  All theorems quantify over **every** schedule (label list), capacity and number of
holders; `run (init cap) ls = some s` says `ls` is an execution (every step enabled) ending in `s`.
-/
namespace TM.Properties.C20
open TM.Limiter

/-- **Never more than the limit running**: holders that hold a token and are not inside
`TemporarilyRelease` (status `acquired`) never exceed the capacity. -/
theorem running_le_cap (cap : Nat) (ls : List Label) (s : St) (h : run (init cap) ls = some s) :
    running s ≤ s.cap :=
  TM.Limiter.running_le_cap cap ls s h

/-- **Token accounting**: the channel holds exactly one token per `acquired` holder plus one per
pending receive (a `block` or `release` that has changed the status and not yet received, a
re-acquirer that has sent and not yet confirmed or handed back), and never exceeds its capacity. -/
theorem token_account (cap : Nat) (ls : List Label) (s : St) (h : run (init cap) ls = some s) :
    s.chan = total s.holders ∧ s.chan ≤ s.cap :=
  account_run cap ls s h

theorem total_zero_of_released (hs : List Holder)
    (h : hs.all (fun h => h.status = .released && idle h) = true) : total hs = 0 := by
  induction hs with
  | nil => simp
  | cons a tl ih =>
    simp only [List.all_cons, Bool.and_eq_true] at h
    obtain ⟨⟨h1, h2⟩, h3⟩ := h
    simp [idle] at h2
    simp at h1
    have := ih h3
    simp [total, bal, b2n, h1, h2] at this ⊢
    exact this

/-- **No token is lost**: once every holder has released and nothing is in flight, the full
capacity is available again. -/
theorem quiescent_all_returned (cap : Nat) (ls : List Label) (s : St) (h : run (init cap) ls = some s)
    (hq : allReleased s = true) : s.chan = 0 := by
  have := (token_account cap ls s h).1
  rw [this]
  exact total_zero_of_released s.holders hq

/-- **Release is idempotent**: releasing a holder that is already released changes nothing. -/
theorem release_idempotent (s : St) (i : Nat) (h : Holder) (hh : s.holders[i]? = some h)
    (hr : h.status = .released) : step? s (.releaseSwap i) = some s := by
  simp only [step?, hh, hr]
  have : s.holders.set i { h with status := .released } = s.holders := by
    have : ({ h with status := .released } : Holder) = h := by cases h; simp_all
    rw [this]
    obtain ⟨hlt, he⟩ := List.getElem?_eq_some_iff.mp hh
    rw [← he]; exact List.set_getElem_self hlt
  simp [setH, this]

theorem bal_le_total (hs : List Holder) (i : Nat) (h : Holder) (hh : hs[i]? = some h) : bal h ≤ total hs := by
  induction hs generalizing i with
  | nil => simp at hh
  | cons a tl ih =>
    cases i with
    | zero => simp at hh; subst hh; simp [total]
    | succ i => simp at hh; have := ih i hh; simp [total] at this ⊢; omega

/-- **A pending receive never blocks**: whenever a `release`, a `block` or a re-acquirer owes a
receive, the channel is non-empty, so that step is enabled (no goroutine waits for a token that
was lost). -/
theorem recv_never_blocks (cap : Nat) (ls : List Label) (s : St) (h : run (init cap) ls = some s)
    (i : Nat) (hd : Holder) (hh : s.holders[i]? = some hd) :
    (0 < hd.relRecv → (step? s (.releaseRecv i)).isSome) ∧
    (hd.tr = .needRecv → (step? s (.blockRecv i)).isSome) ∧
    (hd.tr = .needGiveBack → (step? s (.giveBack i)).isSome) := by
  obtain ⟨ha, _⟩ := token_account cap ls s h
  have hb := bal_le_total s.holders i hd hh
  refine ⟨?_, ?_, ?_⟩
  · intro hr
    have : 0 < s.chan := by simp [bal] at hb; omega
    simp [step?, hh, hr, this]
  · intro ht
    have : 0 < s.chan := by simp [bal, b2n, ht] at hb; omega
    simp [step?, hh, ht, this]
  · intro ht
    have : 0 < s.chan := by simp [bal, b2n, ht] at hb; omega
    simp [step?, hh, ht, this]

/-- `Acquire` on a context without limiter or already cancelled, and `TemporarilyRelease` on a
context without holder, touch no shared state and are always enabled (never block). -/
theorem acquire_nonblocking_cases (s : St) : step? s .noop = some s := rfl

/-- With room in the channel `Acquire` is enabled; with a full channel it is not (it waits). -/
theorem acquire_enabled_iff (s : St) : (step? s .acquire).isSome ↔ s.chan < s.cap := by
  simp only [step?]; split <;> simp_all

/-- Non-vacuity: the schedule that over-admits under the unrepaired protocol (limit 2; holder 0
is released between its re-acquire CAS and its send) is an execution of the model, ends with
two running holders, and the re-acquirer hands its token back. -/
example :
    (run (init 2) [.acquire, .acquire, .blockCas 0, .blockRecv 0, .fDone 0, .releaseSwap 0,
        .acquire, .deferSend 0 ]).map running = none ∧
    (run (init 2) [.acquire, .acquire, .blockCas 0, .blockRecv 0, .fDone 0, .releaseSwap 0,
        .acquire, .releaseSwap 1, .releaseRecv 1, .deferSend 0, .deferCas 0, .giveBack 0]).map
        (fun s => (running s, s.chan)) = some (1, 1) := by decide

end TM.Properties.C20
