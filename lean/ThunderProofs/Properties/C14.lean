import ThunderProofs.Gql.Valid
import ThunderProofs.Properties.C16
/-!
# C14 — Validated queries cannot go wrong and responses match the advertised schema

Model: `ThunderModel/Gql/Validate.lean` (`validate` = `PrepareQuery`, `noConflict` = conflict
detection at every level, `validF` = validity of the merged selections evaluation relies on,
`shapeOk` = evaluation never meets an unknown field / a composite without selections /
selections under a leaf) and `ThunderModel/Gql/Conform.lean` (`wellTyped` data, `conforms`).
The advertised schema given to the model is read from the server's introspection JSON by the tie.
-/
namespace TM.Properties.C14
open TM TM.Gql

/-! ### Validation is complete for the three kinds of ill-formed selections -/

theorem rejects_selection_on_scalar (σ : Schema) (f : Nat) (ss : SelSet) :
    validate σ (f+1) .scalar (some ss) = false := by simp [validate]

theorem rejects_object_without_selection (σ : Schema) (f n : Nat) :
    validate σ (f+1) (.object n) none = false ∧ validate σ (f+1) (.union n) none = false := by
  constructor <;> simp [validate]

theorem rejects_unknown_field (σ : Schema) (f n : Nat) (od : ObjDef) (ss : SelSet) (s : Sel)
    (ho : lookup n σ.objects = some od) (hs : s ∈ ss.sels) (h0 : s.name ≠ 0) (hu : findField s.name od.fields = none) :
    validate σ (f+1) (.object n) (some ss) = false := by
  cases hv : validate σ (f+1) (.object n) (some ss) with
  | false => rfl
  | true =>
    rw [validate.eq_5 σ f n ss od ho] at hv
    simp only [Bool.and_eq_true, List.all_eq_true] at hv
    have := hv.1 s hs
    simp [h0, hu] at this

theorem rejects_below (σ : Schema) (f n : Nat) (od : ObjDef) (ss : SelSet) (s : Sel) (fd : FieldDef)
    (ho : lookup n σ.objects = some od) (hs : s ∈ ss.sels) (h0 : s.name ≠ 0) (hfd : findField s.name od.fields = some fd)
    (hbad : validate σ f fd.ty s.sub = false) :
    validate σ (f+1) (.object n) (some ss) = false := by
  cases hv : validate σ (f+1) (.object n) (some ss) with
  | false => rfl
  | true =>
    rw [validate.eq_5 σ f n ss od ho] at hv
    simp only [Bool.and_eq_true, List.all_eq_true] at hv
    have := hv.1 s hs
    simp [h0, hfd, hbad] at this

theorem rejects_in_fragment (σ : Schema) (f n : Nat) (od : ObjDef) (ss : SelSet) (fr : Frag)
    (ho : lookup n σ.objects = some od) (hfr : fr ∈ ss.frags) (hbad : validate σ f (.object n) (some fr.set) = false) :
    validate σ (f+1) (.object n) (some ss) = false := by
  cases hv : validate σ (f+1) (.object n) (some ss) with
  | false => rfl
  | true =>
    rw [validate.eq_5 σ f n ss od ho] at hv
    simp only [Bool.and_eq_true, List.all_eq_true] at hv
    have := hv.2 fr hfr
    rw [hbad] at this; cases this

/-- under a union only `__typename` may be selected directly, and fragments on members are validated -/
theorem rejects_field_on_union (σ : Schema) (f n : Nat) (ss : SelSet) (s : Sel) (hs : s ∈ ss.sels) (h0 : s.name ≠ 0) :
    validate σ (f+1) (.union n) (some ss) = false := by
  cases hv : validate σ (f+1) (.union n) (some ss) with
  | false => rfl
  | true =>
    simp only [validate, Bool.and_eq_true, List.all_eq_true] at hv
    have := hv.1 s hs
    simp [h0] at this

/-! ### A valid query never goes wrong, and its response conforms -/

/-- **evaluation of a valid (merged) selection never meets a type or shape problem**, for any data -/
theorem validated_never_goes_wrong (σ : Schema) (f : Nat) (ty : Ty) (ss : Option SelSet) (v : Val)
    (h : validF σ f ty ss = true) : shapeOk σ f ty ss v = true := validF_shapeOk σ f ty ss v h

/-- **every response conforms to the advertised type** (reference semantics) -/
theorem response_conforms (σ : Schema) (f : Nat) (p : List PE) (ty : Ty) (ss : Option SelSet) (v : Val) (j : J)
    (hv : validF σ f ty ss = true) (hw : wellTyped σ f ty v = true) (hr : refEval σ f p ty ss v = .ok j) :
    conforms σ f ty ss j = true := conforms_all σ f p ty ss v j hv hw hr

/-- **the executor's response to a valid query on well-typed data conforms to the advertised
root type**: exactly the selected response keys, each value conforming to its field's type -/
theorem execute_conforms (σ : Schema) (fuel root : Nat) (od : ObjDef) (t : Nat) (fields : List (Nat × Val)) (q : SelSet) (j : J)
    (ho : lookup root σ.objects = some od)
    (hv : validF.flatsOk σ fuel od (flatten (fun _ => true) fuel q) = true)
    (hw : (od.fields.all fun fd => wellTyped σ fuel fd.ty ((lookup fd.src fields).getD .null)) = true)
    (hx : execute σ fuel root (.obj t fields) q = .ok j) :
    ∃ kvs, j = .obj kvs ∧ conforms.objConf σ fuel root { od with key := none } (flatten (fun _ => true) fuel q) kvs = true := by
  have hr := C16.data_only_if_all_succeed σ fuel root (.obj t fields) q j hx
  simp only [reference, ho] at hr
  have hv' : validF.flatsOk σ fuel { od with key := none } (flatten (fun _ => true) fuel q) = true := by
    unfold validF.flatsOk at hv ⊢; exact hv
  exact objConf_of σ fuel (conforms_all σ fuel) root { od with key := none } fields [] _ j (flatten_nodup _ _ _) hv' hw hr

/-- a non-null type is never answered with `null` -/
theorem nonNull_not_null (σ : Schema) (f : Nat) (t : Ty) (ss : Option SelSet) (j : J)
    (h : conforms σ (f+1) (.nonNull t) ss j = true) : j ≠ .null := by
  intro e; subst e; simp [conforms, J.isNull] at h

/-- **object fields exactly as selected**: an object response has one entry per merged selection
(plus the key entry), and each merged selection's response key is present with a conforming value -/
theorem object_fields_exactly_selected (σ : Schema) (f n : Nat) (od : ObjDef) (fls : List Flat) (kvs : List (Nat × J))
    (h : conforms.objConf σ f n od fls kvs = true) :
    kvs.length = fls.length + (if od.key.isSome then 1 else 0) ∧
    ∀ fl ∈ fls, ∃ j, lookup fl.alias kvs = some j ∧ conforms.selConf σ f n od fl j = true := by
  unfold conforms.objConf at h
  simp only [Bool.and_eq_true, beq_iff_eq, List.all_eq_true] at h
  refine ⟨h.1.1, ?_⟩
  intro fl hfl
  have := h.1.2 fl hfl
  cases hl : lookup fl.alias kvs with
  | none => simp [hl] at this
  | some j => exact ⟨j, rfl, by simpa [hl] using this⟩

/-- the merged selections of a selection set have pairwise distinct response keys -/
theorem merged_keys_distinct (f : Nat) (ss : SelSet) : ((flatten (fun _ => true) f ss).map Flat.alias).Nodup :=
  flatten_nodup _ f ss

/-! ### non-vacuity -/
def exσ : Schema :=
  { objects := [(1, { fields := [⟨10, .list (.object 2), .batch, none, 10⟩, ⟨11, .nonNull .scalar, .inline, none, 11⟩] }),
                (2, { fields := [⟨20, .scalar, .inline, none, 20⟩], key := some 20 })],
    unions := [] }
def exQ : SelSet := .mk [.mk 100 10 {} (some (.mk [.mk 101 20 {} none] [])), .mk 102 11 {} none] []
def exBad : SelSet := .mk [.mk 100 10 {} none] []

theorem ex_accepts : validF exσ 6 (.object 1) (some exQ) = true ∧ validate exσ 6 (.object 1) (some exQ) = true ∧
    validate exσ 6 (.object 1) (some exBad) = false := by
  refine ⟨?_, ?_, ?_⟩ <;>
  simp [validF, validF.flatsOk, validate, exσ, exQ, exBad, lookup, findField, flatten, visit, groupByAlias, mergeGroup, Dirs.included,
    Sel.alias, Sel.name, Sel.dirs, Sel.sub, SelSet.sels, SelSet.frags]

end TM.Properties.C14
