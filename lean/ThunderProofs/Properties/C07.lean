import ThunderProofs.Sql.Live
import ThunderProofs.Sql.ColMap
/-!
# C07 — Live SQL: every committed write reaches every live query it affects

Model: `ThunderModel/Sql/Live.lean` (rows, filters and the row tester are those of
`ThunderModel/Sql/BatchQuery.lean`: the tester a dependency is registered with and the WHERE
clause the query reads with are the same predicate `sat`; that `sqlgen`'s tester and WHERE agree
is what C10's tie checks on the real code).
-/
namespace TM.Properties.C07
open TM.Sql.Live TM.Sql.Batch TM.Sql.Limit

/-- a state in which no live query has run yet -/
def Initial (s : St) : Prop := s.queue = [] ∧ ∀ q ∈ s.qs, q.registered = false

theorem initial_inv (s : St) (h : Initial s) : Inv repaired s := by
  intro q hq hreg
  rw [h.2 q hq] at hreg
  cases hreg

/-- **Quiescent live queries are fresh**: after any interleaving of committed writes (inserts,
deletes, updates, several rows per statement, decodable or not), change-log deliveries, dependency
registrations and reads — once nothing is pending and no live query is invalidated — every live
query holds exactly the rows the database now returns for its filter. -/
theorem quiescent_rows_fresh (s0 s : St) (ls : List Label) (h0 : Initial s0)
    (hrun : run repaired s0 ls = some s) (hq : quiescent s = true) : fresh s := by
  have inv := inv_run ls s0 s (initial_inv s0 h0) hrun
  intro q hqm r hr
  simp only [quiescent, Bool.and_eq_true, List.isEmpty_iff, List.all_eq_true, Bool.not_eq_true'] at hq
  have hqq := hq.2 q hqm
  rcases inv q hqm hqq.1.1 r hr with h1 | h1 | ⟨e, he, _⟩
  · rw [hqq.2] at h1; cases h1
  · exact h1.symm
  · rw [hq.1] at he; cases he

/-- more generally, at any moment: a registered live query that has read and is not invalidated
holds the current rows unless an event that hits it is still on its way -/
theorem valid_query_fresh_or_pending (s0 s : St) (ls : List Label) (h0 : Initial s0)
    (hrun : run repaired s0 ls = some s) (q : LQ) (hq : q ∈ s.qs) (hreg : q.registered = true)
    (hval : q.invalid = false) (r : List Row) (hr : q.rows = some r) :
    r = alone q.filter (tableOf s q.tbl) ∨ ∃ e ∈ s.queue, hits repaired q e = true := by
  rcases inv_run ls s0 s (initial_inv s0 h0) hrun q hq hreg r hr with h1 | h1 | h1
  · rw [hval] at h1; cases h1
  · exact Or.inl h1.symm
  · exact Or.inr h1

/-- **An undecodable event invalidates every live query on its table**: when the poll loop
delivers an event it cannot decode, every registered live query of that table is invalidated,
whatever its filter. -/
theorem undecodable_invalidates_table (s s' : St) (e : Ev) (rest : List Ev) (hq : s.queue = e :: rest)
    (hbad : e.bad = true) (h : step repaired s .deliver = some s') :
    s'.qs = s.qs.map (fun q => if q.registered && q.tbl == e.tbl then { q with invalid := true } else q) := by
  simp only [step, hq, Option.some.injEq] at h
  subst h
  apply List.map_congr_left
  intro q _
  simp [deliverTo, hits, hbad, repaired]

/-- a write whose changed rows all miss a filter (before and after image) does not change what
the filter returns — the reason testing the images is enough -/
theorem missed_write_keeps_result (f : KVs) (t : List Row) (cs : List Change)
    (h : (applyChanges t cs).2.any (testDelta f) = false) : alone f (applyChanges t cs).1 = alone f t :=
  applyChanges_miss f cs t h

/-! ### witnesses -/

def row (id a : Int) : Row := [(0, some id), (1, some a)]
def q0 : LQ := { tbl := 0, filter := [(1, some ⟨0, 5⟩)] }
def s0 : St := { tables := [[row 1 5]], qs := [q0] }

/-- the hypotheses are satisfiable with content: a live query reads, a matching row is inserted,
the event is delivered, the query re-runs; quiescent and holding both rows -/
example : ∃ s, run repaired s0 [.register 0, .read 0, .write 0 [.ins (row 2 5)] false, .deliver, .register 0, .read 0] = some s ∧
    quiescent s = true ∧ (s.qs.map (·.rows)) = [some [row 1 5, row 2 5]] := by
  refine ⟨_, rfl, ?_, ?_⟩ <;> decide

/-- **The code before the repair drops an undecodable event**: the same history with an event the
poll loop cannot decode ends quiescent with the live query holding stale rows. -/
theorem old_drops_undecodable :
    ∃ s, run old s0 [.register 0, .read 0, .write 0 [.ins (row 2 5)] true, .deliver] = some s ∧
      quiescent s = true ∧ (s.qs.map (·.rows)) = [some [row 1 5]] ∧ tableOf s 0 = [row 1 5, row 2 5] := by
  refine ⟨_, rfl, ?_, ?_, ?_⟩ <;> decide

/-- the repaired code invalidates on the same history (so the state is not quiescent until the query re-runs) -/
theorem repaired_invalidates_on_undecodable :
    ∃ s, run repaired s0 [.register 0, .read 0, .write 0 [.ins (row 2 5)] true, .deliver] = some s ∧
      quiescent s = false ∧ (s.qs.map (·.invalid)) = [true] := by
  refine ⟨_, rfl, ?_, ?_⟩ <;> decide

/-- **Registering after reading loses writes**: with the order swapped, a write delivered between
the read and the registration is never seen. -/
theorem read_before_register_misses_write :
    ∃ s, run { readFirst := true } s0 [.read 0, .write 0 [.ins (row 2 5)] false, .deliver, .register 0] = some s ∧
      quiescent s = true ∧ (s.qs.map (·.rows)) = [some [row 1 5]] ∧ tableOf s 0 = [row 1 5, row 2 5] := by
  refine ⟨_, rfl, ?_, ?_, ?_⟩ <;> decide

/-- the model of the code refuses a read that is not preceded by its registration -/
theorem read_requires_registration (s : St) (k : Nat) (x : LQ) (hx : s.qs[k]? = some x)
    (hreg : x.registered = false) : step repaired s (.read k) = none := by
  simp [step, hx, hreg, repaired]

/-! ### schema changes: which events are decodable (`ThunderModel/Sql/ColMap.lean`) -/

open TM.Sql in
/-- **Across schema changes every rows event is decoded with the column order it was written
under**: for any change log of a table in which rows events belong to the version announced last,
a repeated table id announces the same version, and a column map that has to be fetched is fetched
while the database still has the event's version, the poll loop (which drops its kept map on a
table map event with a new id) decodes every rows event with the map of that event's own version. -/
theorem schema_change_decodes_right (v0 : Nat) (L : List ColMap.Ev) (h : ColMap.wf v0 none false L = true) :
    ColMap.allRight L (ColMap.run ColMap.repaired {} L) = true :=
  ColMap.allRight_of_wf L {} v0 h (by intro c hc; cases hc)

open TM.Sql in
/-- the hypotheses are satisfiable with content: rows, a change of the schema announced by a new
table id, rows in the new order, a repeated table id, rows again -/
example : ColMap.wf 0 none false [.rows 0 0, .rows 0 0, .tmap 11 1, .rows 1 1, .tmap 11 1, .rows 1 2, .tmap 12 2, .rows 2 2] = true := by
  decide

open TM.Sql in
/-- **Keeping the map across a table map event with a new id decodes garbage**: the same discipline,
a change of the column order (same number of columns): without the flush the rows written under the
new order are decoded with the old map, and since the widths agree no error is raised. -/
theorem no_flush_decodes_garbage :
    ∃ L, ColMap.wf 0 none false L = true ∧ ColMap.allRight L (ColMap.run ColMap.noFlush {} L) = false ∧
      ColMap.run ColMap.noFlush {} L = [.decoded true 0, .none, .decoded false 0] ∧
      ColMap.decode (fun _ => 5) 0 1 = .garbage :=
  ⟨[.rows 0 0, .tmap 11 1, .rows 1 1], by decide, by decide, by decide, by decide⟩

open TM.Sql in
/-- a map of another version with another number of columns never decodes silently: it is an error
(and an undecodable event invalidates every live query of its table, `undecodable_invalidates_table`) -/
theorem wrong_width_is_error (width : Nat → Nat) (c v : Nat) (hw : width c ≠ width v) :
    ColMap.decode width c v = .error := by
  have hcv : c ≠ v := by intro h; rw [h] at hw; exact hw rfl
  simp [ColMap.decode, hcv, hw]

end TM.Properties.C07
