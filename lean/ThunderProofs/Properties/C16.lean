import ThunderModel.Gql.Errors
import ThunderProofs.Gql.Sound
import ThunderProofs.Properties.C01
/-!
# C16 — A failing resolver fails the whole query; clients only see sanitised errors

Model: `ThunderModel/Gql/Exec.lean` (failing resolvers are `Val.fail code safe` values; `mkErr`,
`firstFail`, `batchFail`, `unitOne`, …) and `ThunderModel/Gql/Errors.lean` (`sanitize`, `nest`).
-/
namespace TM.Properties.C16
open TM TM.Gql

/-- **No partial data**: the executor returns data only if every resolver the query needs
succeeded, i.e. only if the sequential reference evaluation succeeds — in every execution mode
and with any parallel split; and then it is the reference result. -/
theorem data_only_if_all_succeed (σ : Schema) (fuel root : Nat) (rootVal : Val) (q : SelSet) (j : J)
    (h : execute σ fuel root rootVal q = .ok j) : reference σ fuel root rootVal q = .ok j := by
  have key : ∃ j', reference σ fuel root rootVal q = .ok j' := by
    unfold execute at h
    unfold reference
    cases ho : lookup root σ.objects with
    | none => simp [ho] at h
    | some od =>
      simp only [ho] at h ⊢
      cases rootVal with
      | obj t fields =>
        obtain ⟨rs, hrs, _⟩ := bind_ok h
        exact resolveObject_sound σ fuel (sound_all σ fuel) root _ _ _ rs hrs ([], Val.obj t fields) (by simp) rfl
      | _ => exact ⟨_, rfl⟩
  obtain ⟨j', hj'⟩ := key
  have := C01.exec_eq_ref σ fuel root rootVal q j' hj'
  rw [this] at h
  injection h with h
  subst h; exact hj'

/-- **A failing resolver fails the whole query**: if the reference evaluation fails (some needed
resolver returned an error or panicked), the executor returns an error, never data. -/
theorem failing_resolver_fails_query (σ : Schema) (fuel root : Nat) (rootVal : Val) (q : SelSet) (e : Err)
    (h : reference σ fuel root rootVal q = .error e) : ∃ e', execute σ fuel root rootVal q = .error e' := by
  cases hx : execute σ fuel root rootVal q with
  | error e' => exact ⟨e', rfl⟩
  | ok j =>
    have := data_only_if_all_succeed σ fuel root rootVal q j hx
    rw [h] at this; cases this

/-- the executor fails only if some needed resolver failed -/
theorem fails_only_if_resolver_fails (σ : Schema) (fuel root : Nat) (rootVal : Val) (q : SelSet) (e : Err)
    (h : execute σ fuel root rootVal q = .error e) : ∃ e', reference σ fuel root rootVal q = .error e' := by
  cases hx : reference σ fuel root rootVal q with
  | error e' => exact ⟨e', rfl⟩
  | ok j =>
    have := C01.exec_eq_ref σ fuel root rootVal q j hx
    rw [h] at this; cases this

/-- success and failure coincide exactly, in every mode -/
theorem ok_iff (σ : Schema) (fuel root : Nat) (rootVal : Val) (q : SelSet) (j : J) :
    execute σ fuel root rootVal q = .ok j ↔ reference σ fuel root rootVal q = .ok j :=
  ⟨data_only_if_all_succeed σ fuel root rootVal q j, C01.exec_eq_ref σ fuel root rootVal q j⟩

/-- **the error carries the failing field's path unless it is client-safe** -/
theorem path_unless_safe (e : Nat) (safe : Bool) (p : List PE) :
    (mkErr e safe p).code = e ∧ (mkErr e safe p).safe = safe ∧
      (mkErr e safe p).path = if safe then [] else p := by
  simp [mkErr]

/-- a unit executed source by source reports the first failing source, at that source's path -/
theorem firstFail_is_a_failing_source (items : List Item) (err : Err) (h : firstFail items = some err) :
    ∃ it ∈ items, ∃ e s, failOf it.2 = some (e, s) ∧ err = mkErr e s it.1 := by
  induction items with
  | nil => simp [firstFail] at h
  | cons a r ih =>
    obtain ⟨p, v⟩ := a
    simp only [firstFail] at h
    cases hv : failOf v with
    | some es =>
      obtain ⟨e, s⟩ := es
      simp only [hv, Option.some.injEq] at h
      exact ⟨(p, v), by simp, e, s, hv, h.symm⟩
    | none =>
      simp only [hv] at h
      obtain ⟨it, hit, e, s, h1, h2⟩ := ih h
      exact ⟨it, by simp [hit], e, s, h1, h2⟩

/-- a batch unit reports the error of one of its failing sources -/
theorem batchFail_is_a_failing_source (items : List Item) (err : Err) (h : batchFail items = some err) :
    ∃ it ∈ items, ∃ e s, failOf it.2 = some (e, s) ∧ err.code = e ∧ err.safe = s := by
  cases items with
  | nil => simp [batchFail] at h
  | cons a r =>
    obtain ⟨p0, v0⟩ := a
    simp only [batchFail] at h
    cases hf : List.findSome? (fun it => failOf it.2) ((p0, v0) :: r) with
    | none => simp [hf] at h
    | some es =>
      obtain ⟨e, s⟩ := es
      simp only [hf, Option.some.injEq] at h
      obtain ⟨it, hit, hfo⟩ := List.exists_of_findSome?_eq_some hf
      exact ⟨it, hit, e, s, hfo, by rw [← h]; simp [mkErr], by rw [← h]; simp [mkErr]⟩

/-! ### What reaches a client -/

/-- **Only the message of an error marked safe is forwarded**: whatever `SanitizeError` returns is
either the fixed generic message or the message of the (outermost) safe error itself. -/
theorem sanitize_forwards_only_safe (e : GoErr) (t : Nat) (h : sanitize e = .text t) :
    e = .safe t ∨ ∃ inner, e = .wrapSafe inner t := by
  cases e <;> simp [sanitize] at h
  · left; rw [h]
  · right; exact ⟨_, by rw [h]⟩

/-- the text of a plain error, a panic, a `%w`-wrapping error or a path error is never forwarded -/
theorem unsafe_is_generic (e : GoErr) (h : e.isSanitized = false) : sanitize e = .generic := by
  cases e <;> simp [GoErr.isSanitized] at h <;> rfl

/-- nesting a path around an error never changes what the client sees -/
theorem sanitize_nest (key : Nat) (e : GoErr) : sanitize (nest key e) = sanitize e := by
  unfold nest
  by_cases h : e.isSanitized = true
  · simp [h]
  · simp only [h]
    cases e <;> simp [GoErr.isSanitized] at h <;> rfl

/-- `nestPathError` leaves client-safe errors alone and prefixes every other error -/
theorem nest_spec (key : Nat) (e : GoErr) :
    (e.isSanitized = true → nest key e = e) ∧
    (e.isSanitized = false → ∃ inner p, nest key e = .path inner (p ++ [key])) := by
  constructor
  · intro h; simp [nest, h]
  · intro h
    cases e <;> simp [GoErr.isSanitized] at h
    · exact ⟨_, [], rfl⟩
    · exact ⟨_, [], rfl⟩
    · exact ⟨_, _, rfl⟩
    · exact ⟨_, [], rfl⟩

/-! ### non-vacuity -/
def exσ : Schema := { objects := [(1, { fields := [⟨10, .scalar, .batch, none, 10⟩, ⟨11, .scalar, .external, none, 11⟩] })], unions := [] }
def exVal : Val := .obj 1 [(10, .sc 1), (11, .fail 7 false)]
def exQ : SelSet := .mk [.mk 100 10 {} none, .mk 101 11 {} none] []

theorem ex_fails : reference exσ 5 1 exVal exQ = .error ⟨7, false, [.key 101]⟩ := by
  simp [reference, exσ, exVal, exQ, lookup, refEval, refEval.refObject, refEval.refSel, refEval.refKey, flatten, visit,
    groupByAlias, mergeGroup, findField, Dirs.included, Sel.alias, Sel.name, Sel.dirs, Sel.sub, SelSet.sels, SelSet.frags,
    leaf, Val.isObj, Val.fields, bind, Except.bind, pure, Except.pure]

theorem ex_exec_fails : ∃ e', execute exσ 5 1 exVal exQ = .error e' :=
  failing_resolver_fails_query _ _ _ _ _ _ ex_fails

end TM.Properties.C16
