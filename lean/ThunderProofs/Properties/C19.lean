import ThunderProofs.Gql.Prune
import ThunderProofs.Properties.C01
/-!
# C19 — `@skip` / `@include` behave as textual removal

Model: `ThunderModel/Gql/Exec.lean` (`Dirs`, `visit`, `flatten`, `refEval`, `resolveBatch`) and
`ThunderModel/Gql/Prune.lean` (`SelSet.prune`: delete every excluded node, drop the directives of
the rest).  Directive conditions arrive already evaluated (literal or variable, `Option Bool`).
-/
namespace TM.Properties.C19
open TM TM.Gql

/-- **a node is included only if both directives allow it** -/
theorem both_must_allow (d : Dirs) : d.included = true ↔ d.skip ≠ some true ∧ d.incl ≠ some false := by
  simp [Dirs.included]

/-- **The annotated query means what the pruned query means** (reference semantics; results and
errors alike), for every schema, data tree, root and query. -/
theorem reference_prune (σ : Schema) (fuel root : Nat) (rootVal : Val) (q : SelSet) :
    reference σ fuel root rootVal q.prune = reference σ fuel root rootVal q :=
  TM.Gql.reference_prune σ fuel root rootVal q

/-- **The executor returns the same JSON for the annotated and the pruned query**, under object
and union parents, for every execution mode. -/
theorem execute_prune (σ : Schema) (fuel root : Nat) (rootVal : Val) (q : SelSet) (j : J)
    (h : reference σ fuel root rootVal q = .ok j) :
    execute σ fuel root rootVal q = .ok j ∧ execute σ fuel root rootVal q.prune = .ok j :=
  ⟨C01.exec_eq_ref σ fuel root rootVal q j h,
   C01.exec_eq_ref σ fuel root rootVal q.prune j (by rw [TM.Gql.reference_prune]; exact h)⟩

/-- the same at every nesting level and under every type (object, list, union) -/
theorem refEval_prune (σ : Schema) (f : Nat) (p : List PE) (ty : Ty) (ss : Option SelSet) (v : Val) :
    refEval σ f p ty (pruneOpt ss) v = refEval σ f p ty ss v := TM.Gql.refEval_prune σ f p ty ss v

/-- pruning is exactly "keep the included nodes, prune below them" -/
theorem prune_sels (l : List Sel) : pruneSels l = (l.filter fun s => s.dirs.included).map Sel.prune := pruneSels_eq l
theorem prune_frags (l : List Frag) : pruneFrags l = (l.filter fun s => s.dirs.included).map Frag.prune := pruneFrags_eq l

/-- the pruned query carries no directives -/
theorem pruned_has_no_directives (l : List Sel) (l' : List Frag) :
    (∀ s ∈ pruneSels l, s.dirs = {}) ∧ (∀ fr ∈ pruneFrags l', fr.dirs = {}) := by
  constructor
  · intro s hs; rw [pruneSels_eq] at hs; obtain ⟨s0, _, rfl⟩ := List.mem_map.mp hs; simp
  · intro s hs; rw [pruneFrags_eq] at hs; obtain ⟨s0, _, rfl⟩ := List.mem_map.mp hs; simp

/-- **One use of a fragment never affects another use of the same fragment**: two spreads of one
fragment body are kept or dropped each by its own directives. -/
theorem fragment_uses_independent (on : Nat) (d1 d2 : Dirs) (body : SelSet) (before between after : List Frag) :
    pruneFrags (before ++ [Frag.mk on d1 body] ++ between ++ [Frag.mk on d2 body] ++ after) =
      pruneFrags before ++ (if d1.included then [Frag.mk on {} body.prune] else []) ++ pruneFrags between ++
        (if d2.included then [Frag.mk on {} body.prune] else []) ++ pruneFrags after := by
  have one : ∀ d : Dirs, pruneFrags [Frag.mk on d body] = if d.included then [Frag.mk on {} body.prune] else [] := by
    intro d
    by_cases h : d.included = true <;> simp [pruneFrags, Frag.dirs, Frag.prune, h]
  simp only [pruneFrags_append, one]

/-! ### non-vacuity -/
def exQ : SelSet := .mk
  [.mk 100 10 { skip := some false, incl := some true } (some (.mk [.mk 101 20 {} none, .mk 107 20 { skip := some true, incl := some true } none] [])),
   .mk 102 11 { incl := some false } none]
  []

theorem ex_pruned : exQ.prune = .mk [.mk 100 10 {} (some (.mk [.mk 101 20 {} none] []))] [] := by
  simp [exQ, SelSet.prune, pruneSels, pruneFrags, Sel.prune, pruneOpt, Sel.dirs, Dirs.included]

end TM.Properties.C19
