import ThunderProofs.Reactive.Reach
/-!
# C04 — No lost invalidation: a stale computation is always re-run

Model: `ThunderModel/Reactive/Graph.lean` — the dependency graph of `reactive/graph.go`
(`invalidate`, `strobe`, `addOut`, `handleInvalidate`) and the rerunner of `reactive/rerunner.go`
(`run`, `Stop`) as a labelled transition system; one label per critical section, any number of
nodes and rerunners, any interleaving.  All theorems hold in every reachable state.
-/
namespace TM.Properties.C04
open TM.Reactive

/-- **A stale computation is re-run**: if a live rerunner's current computation has been
invalidated — at whatever moment: while the run that produced it was still executing, while it
was registering the dependency, or between its return and the rerunner arming itself — then a run
of that rerunner is pending or in progress. -/
theorem stale_implies_rerun (ls : List Label) (s : St) (h : run init ls = some s) (r c : Nat)
    (hcn : (getRr s r).cancelled = false) (hs : (getRr s r).stopped = false) (hf : (getRr s r).failed = false)
    (hc : (getRr s r).comp = some c) (hi : (getNode s c).invalidated = true) :
    r ∈ s.pendingRun ∨ (getRr s r).inRun.isSome = true := by
  have inv := inv_reachable ls s h
  have hr := comp_lt hc
  have hh := (inv.compOk r c hc).2
  have hfired : (getNode s c).fired = 1 := by
    rw [inv.handlerOnce c, hh, hi]; rfl
  have acc := inv.account r hr hs hf
  rw [hc, compFired_some, hfired] at acc
  have hsk : (getRr s r).skipped = 0 := by
    cases hk : (getRr s r).skipped with
    | zero => rfl
    | succ k =>
      have := inv.skippedCancelled r (by omega)
      simp [hcn, hs, hf] at this
  by_cases hrun : (getRr s r).inRun.isSome = true
  · exact Or.inr hrun
  · left
    simp only [hrun, hsk] at acc
    have : 0 < s.pendingRun.count r := by simp at acc; omega
    exact List.count_pos_iff.mp this

/-- **invalidation reaches every dependant**: an invalidated node's dependants are invalidated
or a call of their `invalidate` is already committed -/
theorem invalidation_propagates (ls : List Label) (s : St) (h : run init ls = some s) (n m : Nat)
    (hn : (getNode s n).invalidated = true) (hm : m ∈ (getNode s n).out) :
    (getNode s m).invalidated = true ∨ m ∈ s.pendingInv :=
  (inv_reachable ls s h).closure n m hn hm

/-- **the rerun handler of a computation fires exactly once**, whichever of `handleInvalidate`
and `invalidate` came first -/
theorem handler_fires_once (ls : List Label) (s : St) (h : run init ls = some s) (n : Nat) :
    (getNode s n).fired = if (getNode s n).handler.isSome && (getNode s n).invalidated then 1 else 0 :=
  (inv_reachable ls s h).handlerOnce n

/-- **at quiescence nothing is stale**: when no invalidation and no run is pending or in
progress, every live rerunner's computation is valid, and the set of invalid nodes is closed
under dependency edges -/
theorem quiescent_not_stale (ls : List Label) (s : St) (h : run init ls = some s)
    (q1 : s.pendingInv = []) (q2 : s.pendingRun = []) (q3 : ∀ r, (getRr s r).inRun = none) :
    (∀ r c, (getRr s r).cancelled = false → (getRr s r).stopped = false → (getRr s r).failed = false →
        (getRr s r).comp = some c → (getNode s c).invalidated = false) ∧
    (∀ n m, (getNode s n).invalidated = true → m ∈ (getNode s n).out → (getNode s m).invalidated = true) := by
  constructor
  · intro r c hcn hs hf hc
    cases hi : (getNode s c).invalidated with
    | false => rfl
    | true =>
      rcases stale_implies_rerun ls s h r c hcn hs hf hc hi with h1 | h1
      · rw [q2] at h1; cases h1
      · rw [q3 r] at h1; cases h1
  · intro n m hn hm
    rcases invalidation_propagates ls s h n m hn hm with h1 | h1
    · exact h1
    · rw [q1] at h1; cases h1

/-- **runs of one rerunner never overlap**: a run can only be entered while none is in progress -/
theorem runs_exclusive (s s' : St) (r c : Nat) (h : step s (.rrEnter r c) = some s') :
    (getRr s r).inRun = none ∧ (getRr s' r).inRun = some c := by
  simp only [step] at h
  split at h
  · rename_i hc
    injection h with h; subst h
    refine ⟨hc.2.2.1, ?_⟩
    show (getRr (setRr s r _) r).inRun = some c
    rw [getRr_setRr]; simp [hc.1]
  · cases h

theorem stopped_mono (s s' : St) (l : Label) (r : Nat) (hr : r < s.rrs.length) (h : step s l = some s')
    (hs : (getRr s r).stopped = true) : (getRr s' r).stopped = true ∧ r < s'.rrs.length := by
  have upd : ∀ (q : Nat) (y : Rr), y.stopped = (getRr s q).stopped ∨ y.stopped = true →
      (getRr (setRr s q y) r).stopped = true := by
    intro q y hy
    rw [getRr_setRr]
    by_cases e : r = q ∧ q < s.rrs.length
    · simp only [e, and_self, if_true]
      rcases hy with hy | hy
      · rw [hy, ← e.1]; exact hs
      · exact hy
    · simp only [e, if_false]; exact hs
  cases l <;> simp only [step] at h
  case newNode => injection h with h; subst h; exact ⟨hs, hr⟩
  case newRr =>
    injection h with h; subst h
    refine ⟨?_, by simp; omega⟩
    show ((s.rrs ++ [({} : Rr)]).getD r {}).stopped = true
    rw [getRr_push]; exact hs
  case spawnInv n => split at h <;> first | (injection h with h; subst h; exact ⟨hs, hr⟩) | cases h
  case strobe n => split at h <;> first | (injection h with h; subst h; exact ⟨hs, hr⟩) | cases h
  case addOut n to =>
    split at h
    · injection h with h; subst h
      refine ⟨?_, ?_⟩
      · split <;> exact hs
      · split <;> exact hr
    · cases h
  case runInv n =>
    split at h
    · injection h with h; subst h
      refine ⟨?_, ?_⟩
      · split
        · exact hs
        · unfold doInvalidate; simp only; split <;> exact hs
      · split
        · exact hr
        · unfold doInvalidate; simp only; split <;> exact hr
    · cases h
  case rrEnter q c =>
    split at h
    · injection h with h; subst h
      exact ⟨upd q _ (Or.inl rfl), by simpa using hr⟩
    · cases h
  case rrSkip q =>
    split at h
    · injection h with h; subst h; exact ⟨upd q _ (Or.inl rfl), by simpa using hr⟩
    · cases h
  case rrExitOk q =>
    split at h
    · split at h
      · injection h with h; subst h
        refine ⟨?_, ?_⟩
        · unfold doHandle; simp only; split <;> exact upd q _ (Or.inl rfl)
        · unfold doHandle; simp only; split <;> simpa using hr
      · cases h
    · cases h
  case rrExitFail q =>
    split at h
    · split at h
      · injection h with h; subst h; exact ⟨upd q _ (Or.inl rfl), by simpa using hr⟩
      · cases h
    · cases h
  case rrExitRetry q =>
    split at h
    · split at h
      · injection h with h; subst h; exact ⟨upd q _ (Or.inl rfl), by simpa using hr⟩
      · cases h
    · cases h
  case rrCancel q =>
    split at h
    · injection h with h; subst h; exact ⟨upd q _ (Or.inl rfl), by simpa using hr⟩
    · cases h
  case rrStop q =>
    split at h
    · injection h with h; subst h; exact ⟨upd q _ (Or.inr rfl), by simpa using hr⟩
    · cases h

/-- **once `Stop` has returned no run is in progress and none ever starts**: in every state
reached after `rrStop r`, `rrEnter r` is disabled and no run of `r` is in progress -/
theorem stop_excludes_runs (ls : List Label) (s : St) (h : run init ls = some s) (r : Nat) (hr : r < s.rrs.length)
    (hs : (getRr s r).stopped = true) :
    ∀ (ls' : List Label) (s' : St), run s ls' = some s' →
      (getRr s' r).inRun = none ∧ ∀ c, step s' (.rrEnter r c) = none := by
  have key : ∀ (ls' : List Label) (t s' : St), Inv t → r < t.rrs.length → (getRr t r).stopped = true →
      run t ls' = some s' → Inv s' ∧ (getRr s' r).stopped = true := by
    intro ls'
    induction ls' with
    | nil => intro t s' it _ ht hrun; simp [run] at hrun; subst hrun; exact ⟨it, ht⟩
    | cons l ls' ih =>
      intro t s' it hrt ht hrun
      simp only [run] at hrun
      cases hst : step t l with
      | none => simp [hst] at hrun
      | some t1 =>
        simp only [hst] at hrun
        have := stopped_mono t t1 l r hrt hst ht
        exact ih t1 s' (inv_step t t1 l it hst) this.2 this.1 hrun
  intro ls' s' hrun
  obtain ⟨inv', hs'⟩ := key ls' s s' (inv_reachable ls s h) hr hs hrun
  constructor
  · cases hi : (getRr s' r).inRun with
    | none => rfl
    | some c => have := (inv'.inRunLive r c hi).1; rw [hs'] at this; cases this
  · intro c
    simp only [step]
    split
    · rename_i hc; have := hc.2.2.2.1; simp [hs'] at this
    · rfl

/-! ### non-vacuity: an invalidation that arrives while the run is still executing -/
def exTrace : List Label :=
  [.newNode, .newRr, .rrEnter 0 1, .addOut 0 1, .spawnInv 0, .runInv 0, .rrExitOk 0, .runInv 1]

theorem ex_stale : ∃ s, run init exTrace = some s ∧ (getRr s 0).comp = some 1 ∧
    (getNode s 1).invalidated = true ∧ 0 ∈ s.pendingRun := by
  refine ⟨_, rfl, ?_, ?_, ?_⟩ <;> decide

end TM.Properties.C04
